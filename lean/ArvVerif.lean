import ArvVerif.Base.Bytes
import ArvVerif.Base.MD5
import ArvVerif.Base.SHA1
import ArvVerif.Base.Loop
