/-
C13 — lock acquisition model (sdk/go/arvados/fs_base.go Rename, openFile, Mkdir, remove, Readdir;
fs_collection.go Flush, MarshalManifest, dirnode.flush, dirnode.marshalManifest, waitPrune,
filehandle Read/Write, the completion goroutines).

Locks: 0 = the filesystem-wide mutex (`fileSystem.mutex`, taken by Rename only); n+1 = the RWMutex
of inode n (inode 0 = the root directory). Read locks are modelled as exclusive.

The lock hierarchy: the mutex is the parent of the root's lock, an inode's lock is the child of its
directory's lock. The rule every operation follows (read off the code; tied by the skeleton facts):

  an operation takes a first lock holding nothing; every further lock it takes is the child of a
  lock it holds, and it keeps the parent for as long as it keeps the child.

  Rename     mutex; then the ancestors of newdir root-first, then those of olddir root-first
             (skipping the ones already locked); then the moved inode (child of olddir: SetParent)
  Flush(p)   directory p; its children in name order; their children ...   (parent before children)
  MarshalManifest  root; for each directory: children (momentarily, waitPrune), then all children
  OpenFile(O_CREATE|O_TRUNC) / Mkdir / remove / Readdir   directory, then one child
  Read / Write / Truncate / completion goroutine / waitPrune   one file lock
-/
namespace ArvVerif.C13.Lock

abbrev Lk := Nat

/-- what one operation instance is doing: its first lock, the locks it holds, the locks its
goroutines are blocked on -/
structure OpState where
  start : Lk
  held : List Lk
  wants : List Lk
  deriving Repr

/-- parent and depth of a lock, from parent and depth of inodes -/
def lparent (parent : Nat → Nat) : Lk → Lk
  | 0 => 0
  | 1 => 0
  | n + 2 => parent (n + 1) + 1

def ldepth (depth : Nat → Nat) : Lk → Nat
  | 0 => 0
  | n + 1 => depth n + 1

/-- the needLock walk of Rename: d, parent d, ..., root -/
def chainUp (parent : Nat → Nat) : Nat → Nat → List Nat
  | 0, d => [d]
  | fuel + 1, d => if parent d = d then [d] else d :: chainUp parent fuel (parent d)

/-- `if !locked[n] { n.Lock(); locked[n] = true }` -/
def addNew (acc : List Lk) (x : Lk) : List Lk := if x ∈ acc then acc else acc ++ [x]

/-- Rename(olddir/x, newdir/y): mutex, then needLock from the end, then SetParent on the moved inode -/
def renameScript (parent : Nat → Nat) (fuel od nd moved : Nat) : List Lk :=
  let need := chainUp parent fuel od ++ chainUp parent fuel nd
  (need.reverse.map (· + 1)).foldl addNew [0] ++ [moved + 1]

/-- Flush / dirnode.flush: the directory, then level by level its descendants (children in name
order; `kids d` is that sorted list) -/
def bfs (kids : Nat → List Nat) : Nat → List Nat → List Nat
  | 0, level => level
  | fuel + 1, level => if level.isEmpty then [] else level ++ bfs kids fuel (level.flatMap kids)

def flushScript (kids : Nat → List Nat) (fuel d : Nat) : List Lk :=
  (d :: bfs kids fuel (kids d)).map (· + 1)

end ArvVerif.C13.Lock
