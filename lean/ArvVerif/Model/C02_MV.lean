/-
C02 model, part 2: `PutBlock` / `GetBlock` / `/index` on SEVERAL Directory volumes
(services/keepstore/handlers.go: CompareAndTouch, PutBlock, GetBlock, handleIndex;
volume.go: RRVolumeManager — `writables` = the mounts that are not ReadOnly, in mount order,
`NextWritable` = round robin over them).

Volumes are separate directories: an event is tagged with the number of the mount it happens on and
changes only that volume's map (`runMV` is defined volume by volume, by projection). A crash is,
as before, truncation of the *whole* (cross-volume) event list at any prefix.

A volume is `ReadOnly` (never in `writables`: neither compared nor touched nor written), `full`
(`IsFull()`: `WriteBlock` returns FullError before its first filesystem call; Compare/Touch still
work) or ordinary; an ordinary volume's `WriteBlock` run may still fail at any system call
(`WBIn.fail`) — then `PutBlock` goes on to the next writable volume.
-/
import ArvVerif.Model.C02
namespace ArvVerif.C02

/-- an event on mount number `i` -/
abbrev MEv := Nat × Ev

def tagEvs (i : Nat) (evs : List Ev) : List MEv := evs.map (fun e => (i, e))

/-- the events of a cross-volume list that happen on volume `i` -/
def projEvs (i : Nat) (evs : List MEv) : List Ev := (evs.filter (fun e => e.1 == i)).map (·.2)

/-- volumes are independent directories: volume `i` sees exactly its own events, in order -/
def runMV (vs : Nat → FS) (evs : List MEv) : Nat → FS := fun i => run (vs i) (projEvs i evs)

structure MVCfg where
  n : Nat                    -- number of mounts (all Directory volumes), mount order 0 … n-1
  readOnly : Nat → Bool      -- Volumes.*.ReadOnly
  full : Nat → Bool          -- `IsFull()` (marker `<root>/full` younger than an hour)

/-- `RRVolumeManager.writables`, in mount order -/
def MVCfg.writables (c : MVCfg) : List Nat := (List.range c.n).filter (fun i => !c.readOnly i)

structure MPutIn where
  h : Name
  body : Bytes
  now : Nat
  touchFail : Nat → Option Nat   -- Touch on volume i fails at this call
  next : Nat                     -- value of the round-robin counter: `NextWritable` = writables[next % len]
  first : WBIn                   -- the `WriteBlock` run of `NextWritable().Put`
  loop : Nat → WBIn              -- the `WriteBlock` run of the loop's `vol.Put` on volume i
  compareCancel : Option Nat     -- the context ends while `Compare` runs on the j-th writable volume
  cancelCall : Option Nat        -- the context ends during the n-th `Put` call (0 = NextWritable's): it returns ctx.Err()

inductive CTRes where
  | touched (i : Nat)   -- identical copy on volume i, Touch succeeded: PutBlock returns nil
  | collision
  | cancelled
  | miss                -- bestErr: go on to write
deriving DecidableEq, Repr

/-- `CompareAndTouch`: every writable volume in order; the context is looked at right after each
`Compare`; collision stops; an identical copy is touched, and if Touch fails the next volume is
tried; absent or corrupt copies are skipped. `pos` counts the volumes compared so far. -/
def compareAndTouchMV (hash : Bytes → Name) (vs : Nat → FS) (p : MPutIn) : List Nat → Nat → List MEv × CTRes
  | [], _ => ([], .miss)
  | i :: rest, pos =>
    let cmp := tagEvs i (compareEvs (vs i) p.h)
    if p.compareCancel = some pos then (cmp, .cancelled)
    else
      let next := compareAndTouchMV hash vs p rest (pos + 1)
      match (vs i).get (blockPath p.h) with
      | none => (cmp ++ next.1, next.2)
      | some f =>
        if f.data = p.body then
          let t := touchEvs (vs i) p.h p.now (p.touchFail i)
          if t.2 = .ok then (cmp ++ tagEvs i t.1, .touched i)
          else (cmp ++ tagEvs i t.1 ++ next.1, next.2)
        else if hash f.data = p.h then (cmp, .collision)
        else (cmp ++ next.1, next.2)

/-- one `mnt.Put` on writable volume `i`: nothing at all on a full volume (FullError) -/
def putOn (c : MVCfg) (i : Nat) (w : WBIn) : List MEv × Bool :=
  if c.full i then ([], false) else (tagEvs i (writeBlockEvs w).1, (writeBlockEvs w).2)

/-- the `for _, vol := range writables` loop of `PutBlock`; `call` numbers the `Put` calls. The
context is looked at after every `Put`, *before* its result. Returns the volume that acknowledged. -/
def loopPuts (c : MVCfg) (p : MPutIn) (allFull : Bool) : List Nat → Nat → List MEv × Resp × Option Nat
  | [], _ => ([], if allFull then .full else .fail, none)
  | i :: rest, call =>
    let r := putOn c i (p.loop i)
    if p.cancelCall = some call then (r.1, .disconnect, none)
    else if r.2 then (r.1, .ok200, some i)
    else
      let l := loopPuts c p (allFull && c.full i) rest (call + 1)
      (r.1 ++ l.1, l.2)

/-- `PutBlock` after the checksum test: events on all volumes, the reply, and the volume whose
`Touch` / `Put` made PutBlock return nil. -/
def putBlockMV (hash : Bytes → Name) (c : MVCfg) (vs : Nat → FS) (p : MPutIn) : List MEv × Resp × Option Nat :=
  let ws := c.writables
  let ct := compareAndTouchMV hash vs p ws 0
  match ct.2 with
  | .touched i => (ct.1, .ok200, some i)
  | .collision => (ct.1, .collision, none)
  | .cancelled => (ct.1, .disconnect, none)
  | .miss =>
    match ws[p.next % ws.length]? with
    | none => (ct.1, .full, none)          -- "no writable volumes"
    | some i0 =>
      let r0 := putOn c i0 p.first
      if p.cancelCall = some 0 then (ct.1 ++ r0.1, .disconnect, none)
      else if r0.2 then (ct.1 ++ r0.1, .ok200, some i0)
      else
        let l := loopPuts c p true ws 1
        (ct.1 ++ r0.1 ++ l.1, l.2)

/-- `handlePUT` on several volumes: router guard, checksum, PutBlock; the reply comes last. -/
def handlePutMV (hash : Bytes → Name) (c : MVCfg) (vs : Nat → FS) (p : MPutIn) : List MEv × Resp × Option Nat :=
  if !isBlockName p.h then ([], .badRequest, none)
  else if hash p.body ≠ p.h then ([], .hashMismatch, none)
  else putBlockMV hash c vs p

/-- every `WriteBlock` run of the request writes the request's hash, and sees EOF only after the
whole body (putWithPipe, `C02_cancel_is_error`) -/
def MPutIn.valid (p : MPutIn) : Prop :=
  (p.first.h = p.h ∧ (p.first.rend = .eof → p.first.chunks.flatten = p.body)) ∧
  ∀ i, (p.loop i).h = p.h ∧ ((p.loop i).rend = .eof → (p.loop i).chunks.flatten = p.body)

/-- `GetBlock`: every readable volume (= every mount) in order; the first copy whose checksum is
right is served; a bad copy only turns the final 404 into a 500. -/
def getBlockOver (hash : Bytes → Name) (vs : Nat → FS) (h : Name) : List Nat → GetRes → GetRes
  | [], acc => acc
  | i :: rest, acc =>
    match getBlock hash (vs i) h with
    | .ok b => .ok b
    | .diskHashError => getBlockOver hash vs h rest .diskHashError
    | .notFound => getBlockOver hash vs h rest acc

def getBlockMV (hash : Bytes → Name) (c : MVCfg) (vs : Nat → FS) (h : Name) : GetRes :=
  getBlockOver hash vs h (List.range c.n) .notFound

/-- `GET /index`: the index of every mount, one after the other -/
def indexMV (c : MVCfg) (vs : Nat → FS) : List (Name × Nat × Nat) :=
  (List.range c.n).flatMap (fun i => index (vs i))

end ArvVerif.C02
