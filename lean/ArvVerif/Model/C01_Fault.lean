/-
C01 model, I/O faults on the PUT path. Model/C01.lean assumes that `Touch`, `MkdirAll`, `TempFile` and
`rename` succeed on a writable, non-full Directory volume. Here every block path of every mount may
refuse them (what a root-owned keepstore meets in practice: an immutable file or directory, a
directory sitting at the block path, a regular file in place of the block directory, a dying disk):

* `noTouch h`  — unix_volume.go `Touch`: `OpenFile(p, O_RDWR|O_APPEND)` / `Chtimes` fails. In
  `CompareAndTouch` (handlers.go) this is the branch `bestErr = err; continue`.
* `noWrite h`  — unix_volume.go `WriteBlock`: `MkdirAll`, `TempFile`, `io.Copy`, `Chtimes`, the flock of
  the replaced file or `Rename` fails; the temp file is removed, the block path is as before, an error
  that is not `FullError` is returned. In `PutBlock` this is `mnt.Put` failing on the `NextWritable`
  mount (fall through to the loop) and the `default:` branch of the loop (`allFull = false`), which ends
  in `GenericError` (500) when no mount takes the block.

GET/HEAD are unaffected by these two flags (a path that cannot be read at all is a path without a
servable file: `volRead` = notFound/other error, passed over either way), so the read side of a
faulty mount list `fvols` is `handleGet … (fvols.map (·.vol))`.
-/
import ArvVerif.Model.C01
namespace ArvVerif.C01

/-- A mount and the I/O faults of its block paths. -/
structure FVol (δ β : Type) where
  vol : Vol δ β
  /-- `Touch` of the block path fails -/
  noTouch : δ → Bool
  /-- `WriteBlock` to the block path fails (after the read-only and full checks), nothing changes -/
  noWrite : δ → Bool

section
variable {δ β : Type} [DecidableEq δ] [DecidableEq β]

/-- a mount without faults -/
def FVol.calm (v : Vol δ β) : FVol δ β := { vol := v, noTouch := fun _ => false, noWrite := fun _ => false }

inductive WriteResultF where
  | ok | readOnly | full | ioError
deriving DecidableEq, Repr

/-- `UnixVolume.Put` with faults: MethodDisabledError, FullError, then the I/O steps. -/
def volWriteF (v : FVol δ β) (h : δ) (body : β) : WriteResultF × FVol δ β :=
  if v.vol.ro then (.readOnly, v)
  else if v.vol.full then (.full, v)
  else if v.noWrite h then (.ioError, v)
  else (.ok, { v with vol := { v.vol with files := update v.vol.files h body } })

/-- `UnixVolume.Touch` with faults. -/
def volTouchF (v : FVol δ β) (h : δ) : Bool := volTouch v.vol && !v.noTouch h

/-- `CompareAndTouch`: a failing `Touch` is remembered as `bestErr` and the next mount is tried; the
caller (`PutBlock`) treats every error but CollisionError alike and goes on to write. -/
def compareAndTouchF (hash : β → δ) (size : β → Nat) (h : δ) (body : β) : List (FVol δ β) → CatResult
  | [] => .miss
  | v :: rest =>
    if v.vol.ro then compareAndTouchF hash size h body rest
    else match volCompare hash size v.vol h body with
      | .collision => .collision
      | .same => if volTouchF v h then .touched (effRepl v.vol) else compareAndTouchF hash size h body rest
      | _ => compareAndTouchF hash size h body rest

inductive PutLoopResultF (δ β : Type) where
  | ok (repl : Nat) (vols : List (FVol δ β))
  | allFull
  | failed                 -- some Put failed with an error other than FullError (`allFull = false`)

/-- The `for _, vol := range writables` loop of `PutBlock`. -/
def putLoopF (h : δ) (body : β) : List (FVol δ β) → PutLoopResultF δ β
  | [] => .allFull
  | v :: rest =>
    if v.vol.ro then
      match putLoopF h body rest with
      | .ok r vs => .ok r (v :: vs)
      | .allFull => .allFull
      | .failed => .failed
    else match volWriteF v h body with
      | (.ok, v') => .ok (effRepl v.vol) (v' :: rest)
      | (.full, _) =>
        match putLoopF h body rest with
        | .ok r vs => .ok r (v :: vs)
        | .allFull => .allFull
        | .failed => .failed
      | (_, _) =>
        match putLoopF h body rest with
        | .ok r vs => .ok r (v :: vs)
        | _ => .failed

def nthWritableF : List (FVol δ β) → Nat → Option (FVol δ β)
  | [], _ => none
  | v :: rest, k =>
    if v.vol.ro then nthWritableF rest k
    else match k with
      | 0 => some v
      | k + 1 => nthWritableF rest k

def setNthWritableF (v' : FVol δ β) : List (FVol δ β) → Nat → List (FVol δ β)
  | [], _ => []
  | v :: rest, k =>
    if v.vol.ro then v :: setNthWritableF v' rest k
    else match k with
      | 0 => v' :: rest
      | k + 1 => v :: setNthWritableF v' rest k

def writableCountF (vols : List (FVol δ β)) : Nat := (vols.filter (fun v => !v.vol.ro)).length

def putViaLoopF (h : δ) (body : β) (vols : List (FVol δ β)) (c : Nat) : PutOutcome × List (FVol δ β) × Nat :=
  if writableCountF vols = 0 then (.full, vols, c)
  else match putLoopF h body vols with
    | .ok r vs => (.ok r, vs, c)
    | .allFull => (.full, vols, c)
    | .failed => (.generic, vols, c)

def putNewF (h : δ) (body : β) (vols : List (FVol δ β)) (rr : Nat) : PutOutcome × List (FVol δ β) × Nat :=
  let n := writableCountF vols
  if n = 0 then putViaLoopF h body vols rr
  else
    let c := rr + 1
    match nthWritableF vols (c % n) with
    | none => putViaLoopF h body vols c
    | some v =>
      match volWriteF v h body with
      | (.ok, v') => (.ok (effRepl v.vol), setNthWritableF v' vols (c % n), c)
      | _ => putViaLoopF h body vols c

def putBlockF (hash : β → δ) (size : β → Nat) (vols : List (FVol δ β)) (rr : Nat) (h : δ) (body : β) :
    PutOutcome × List (FVol δ β) × Nat :=
  if hash body ≠ h then (.requestHash, vols, rr)
  else match compareAndTouchF hash size h body vols with
    | .touched r => (.ok r, vols, rr)
    | .collision => (.collision, vols, rr)
    | .miss => putNewF h body vols rr

/-- `handlePUT` over mounts with faults. -/
def handlePutF (hash : β → δ) (size : β → Nat) (vols : List (FVol δ β)) (rr : Nat) (h : δ) (body : β)
    (clKnown : Bool) : PutResp × List (FVol δ β) × Nat :=
  if !clKnown then ({ status := 411, replicas := none }, vols, rr)
  else if size body > blockSize then ({ status := 413, replicas := none }, vols, rr)
  else if writableCountF vols = 0 then ({ status := 503, replicas := none }, vols, rr)
  else
    let r := putBlockF hash size vols rr h body
    match r.1 with
    | .ok n => ({ status := 200, replicas := some n }, r.2.1, r.2.2)
    | o => ({ status := putStatus o, replicas := none }, r.2.1, r.2.2)

end

end ArvVerif.C01
