/-
C20 model: federated list-by-UUID (lib/controller/federation/list.go `splitListRequest` and the
`generated_*List` merge callback, lib/controller/federation/generated.go; backend selection as in
conn.go).

What the Go code does, and how it is modelled
* Go maps (`matchAllFilters`, `todoByRemote`, `todo`) are duplicate-free lists here; Go's random
  map iteration order only permutes the batch sent to a backend. A backend is an arbitrary function
  of (forwarded options, call index), so every theorem below that quantifies over all backends
  covers every iteration order.
* One goroutine per cluster: the goroutines share nothing but the merged result (under a mutex)
  and the error channel; each one talks to its own backend and keeps its own `todo`. The model runs
  them one after the other; the merged result is re-sorted by the code when two or more non-empty
  pages arrived (`needSort`), and is a single page (or empty) otherwise, so it does not depend on
  the interleaving (up to ties in `modified_at`, which the unstable `sort.Slice` may order either
  way).
* `firstErr` is whichever failing goroutine reports first: the model returns the list of all
  cluster errors (`Outcome.err`), Go returns one of them.
* The model describes the code after fix d542fa4 (F10): a returned uuid that is not in `todo` any
  more (already delivered, second copy in the page, never requested) makes the cluster fail with 502
  (`accepts`).
* The per-cluster loop is modelled with fuel `|todo|`; `Proofs/C20` shows this fuel is never
  exhausted (`Stop.starved` is unreachable), which is the termination argument.
Text is `List Char` throughout so that the kernel can evaluate the model (`decide`).
-/
namespace ArvVerif.C20

abbrev Str := List Char
abbrev Uuid := Str
abbrev ClusterId := Str

def sUuid : Str := ['u', 'u', 'i', 'd']
def sEq : Str := ['=']
def sIn : Str := ['i', 'n']
def sNone : Str := ['n', 'o', 'n', 'e']

/-- A listed object: only its uuid and `modified_at` (as a number) matter to the merge. -/
structure Obj where
  uuid : Uuid
  ts : Nat
deriving DecidableEq, Repr

/-- The dynamic type of a filter operand, as far as `splitListRequest` looks at it. -/
inductive Operand where
  | str (s : Uuid)                    -- string
  | ilist (xs : List (Option Uuid))   -- []interface{}; `none` = an element that is not a string
  | slist (xs : List Uuid)            -- []string
  | other                             -- anything else
deriving DecidableEq, Repr

structure Filter where
  attr : Str
  op : Str
  operand : Operand
deriving DecidableEq, Repr

/-- The part of `arvados.ListOptions` that the code reads or forwards. -/
structure Opts where
  filters : List Filter
  count : Str
  limit : Int
  offset : Int
  order : List Str
  select : Option (List Str)   -- nil vs non-nil slice
  bypass : Bool
  fwd : Str
  -- forwarded untouched; never read by splitListRequest
  includeTrash : Bool := false
  includeOldVersions : Bool := false
  distinct : Bool := false
  whereKV : Str := []      -- `Where` (rendered "key=value"; [] = nil map)
  includeS : Str := []     -- `Include`
  clusterId : Str := []    -- `ClusterID`
deriving DecidableEq, Repr

/-- Answer of one backend call. `error 0` is an error without an HTTP status. -/
inductive Resp where
  | error (status : Nat)
  | page (items : List Obj)
deriving DecidableEq, Repr

/-- A backend: any function from the forwarded options and the index of the call (0, 1, …, per
cluster and per request) to an answer. -/
abbrev Backend := Opts → Nat → Resp

structure Cfg where
  localId : ClusterId
  maxItems : Int                         -- cluster.API.MaxItemsPerResponse
  localB : Backend                       -- conn.local
  remotes : ClusterId → Option Backend   -- conn.remotes

def pageUuids (items : List Obj) : List Uuid := items.map (·.uuid)

/-! ### filter scan (list.go:117-164) -/

/-- keys of a Go `map[string]bool` filled from a list: no duplicates -/
def dedup : List Str → List Str
  | [] => []
  | x :: xs => if x ∈ dedup xs then dedup xs else x :: dedup xs

inductive FilterKind where
  | notSplittable              -- attr ≠ "uuid", or an operator other than "=" / "in": `cannotSplit`
  | bad                        -- invalid operand type: 400 at once
  | set (us : List Uuid)       -- the uuids this filter can match
deriving DecidableEq, Repr

def classifyFilter (f : Filter) : FilterKind :=
  if f.attr ≠ sUuid then .notSplittable
  else if f.op = sEq then
    match f.operand with
    | .str s => .set [s]
    | _ => .bad
  else if f.op = sIn then
    match f.operand with
    | .ilist xs => .set (xs.filterMap id)
    | .slist xs => .set xs
    | _ => .bad
  else .notSplittable

structure Scan where
  cannotSplit : Bool
  matchAll : Option (List Uuid)   -- `matchAllFilters` (nil = no uuid filter seen)
deriving DecidableEq, Repr

/-- `none` = "invalid operand type" (400). -/
def scanFilters : List Filter → Scan → Option Scan
  | [], s => some s
  | f :: fs, s =>
    match classifyFilter f with
    | .notSplittable => scanFilters fs { s with cannotSplit := true }
    | .bad => none
    | .set us =>
      match s.matchAll with
      | none => scanFilters fs { s with matchAll := some (dedup us) }
      | some m => scanFilters fs { s with matchAll := some (m.filter (fun u => decide (u ∈ us))) }

/-! ### grouping by home cluster (list.go:178-190) -/

def uuidLen : Nat := 27
def prefixLen : Nat := 5
def statusBadRequest : Nat := 400
def statusNotFound : Nat := 404
def statusBadGateway : Nat := 502

/-- `len(uuid) != 27`: "Cannot match anything, just drop it" -/
def wellFormed (u : Uuid) : Bool := u.length == uuidLen
/-- `uuid[:5]` -/
def home (u : Uuid) : ClusterId := u.take prefixLen

def clusterIds (us : List Uuid) : List ClusterId := dedup (us.map home)

/-- `todoByRemote` -/
def groups (us : List Uuid) : List (ClusterId × List Uuid) :=
  (clusterIds us).map (fun c => (c, us.filter (fun u => decide (home u = c))))

/-! ### what to do with the request (list.go:111-213) -/

inductive Plan where
  | reject (status : Nat)      -- error before any backend call
  | passLocal                  -- one call to the local backend, options unchanged
  | empty                      -- empty result, no backend call
  | split (gs : List (ClusterId × List Uuid))
deriving DecidableEq, Repr

def plan (localId : ClusterId) (maxItems : Int) (o : Opts) : Plan :=
  if o.bypass = true ∨ o.fwd ≠ [] then .passLocal else
  match scanFilters o.filters ⟨false, none⟩ with
  | none => .reject 400
  | some ⟨_, none⟩ => .passLocal
  | some ⟨cs, some m⟩ =>
    let m27 := m.filter wellFormed
    let gs := groups m27
    if gs = [] then .empty
    else if gs.length = 1 ∧ localId ∈ gs.map (·.1) then .passLocal
    else if cs = true then .reject 400
    else if o.count ≠ sNone then .reject 400
    else if o.limit ≥ 0 ∨ o.offset ≠ 0 ∨ o.order ≠ [] then .reject 400
    else if (m27.length : Int) > maxItems then .reject 400
    else .split gs

/-! ### the per-cluster loop (list.go:219-274) -/

def batchFilter (batch : List Uuid) : Filter := ⟨sUuid, sIn, .slist batch⟩

/-- the request sent for one batch: `remoteOpts.Filters = []arvados.Filter{{"uuid", "in", batch}}` -/
def batchReq (ropts : Opts) (batch : List Uuid) : Opts := { ropts with filters := [batchFilter batch] }

/-- what the merge callback does to the options of every call (list.go:30) -/
def forwarded (localId : ClusterId) (o : Opts) : Opts :=
  { o with fwd := localId ++ ['-'] ++ o.fwd }

/-- `remoteOpts` of the split path (list.go:234-240) after the callback's ForwardedFor update -/
def remoteOpts (localId : ClusterId) (o : Opts) : Opts :=
  forwarded localId { o with select := o.select.map (fun s => sUuid :: s) }

inductive Stop where
  | done
  | failed (status : Nat)
  | starved                     -- fuel exhausted: proved unreachable
deriving DecidableEq, Repr

structure CRes where
  pages : List (List Obj)         -- every page handed to the merge callback, in call order
  log : List (Opts × Resp)        -- every backend call with its answer, in call order
  stop : Stop
deriving DecidableEq, Repr

def CRes.push (req : Opts) (resp : Resp) (items : List Obj) (r : CRes) : CRes :=
  ⟨items :: r.pages, (req, resp) :: r.log, r.stop⟩

/-- uuids still wanted after a page: `delete(todo, uuid)` for every returned uuid -/
def remaining (todo : List Uuid) (items : List Obj) : List Uuid :=
  todo.filter (fun u => decide (u ∉ pageUuids items))

/-- The `for _, uuid := range done` loop of list.go (after fix d542fa4): every returned uuid must
still be in `todo` when it is reached — it is deleted then, so a second copy in the same page, an
already delivered uuid and a never requested one all make the cluster fail. -/
def accepts : List Uuid → List Uuid → Bool
  | _, [] => true
  | todo, u :: us => decide (u ∈ todo) && accepts (todo.filter (fun v => decide (v ≠ u))) us

def clusterLoop (B : Backend) (ropts : Opts) : Nat → List Uuid → Nat → CRes
  | 0, todo, _ => if todo = [] then ⟨[], [], .done⟩ else ⟨[], [], .starved⟩
  | fuel + 1, todo, idx =>
    if todo = [] then ⟨[], [], .done⟩ else
    -- batch = todo: the batch is rebuilt from todo whenever todo shrank (list.go:242-248)
    let req := batchReq ropts todo
    match B req idx with
    | .error s => ⟨[], [(req, .error s)], .failed 502⟩
    | .page items =>
      let todo' := remaining todo items
      if items = [] then ⟨[[]], [(req, .page [])], .done⟩
      -- an item that was not requested or was already returned: 502 (the page was merged already)
      else if accepts todo (pageUuids items) = false then ⟨[items], [(req, .page items)], .failed 502⟩
      -- "cannot make progress" (unreachable for an accepted non-empty page, kept as in the code)
      else if todo'.length = todo.length then ⟨[items], [(req, .page items)], .failed 502⟩
      else (clusterLoop B ropts fuel todo' (idx + 1)).push req (.page items) items

/-- The loop exactly as written in Go, with the separate `batch` variable: `batch` starts as all of
`todo` and is rebuilt from `todo` only `if len(batch) > len(todo)` (list.go:242-248).
`Proofs/C20_Ext.loopGo_eq` shows that the batch sent always equals `todo`, i.e. this is
`clusterLoop`. -/
def clusterLoopGo (B : Backend) (ropts : Opts) : Nat → List Uuid → List Uuid → Nat → CRes
  | 0, _, todo, _ => if todo = [] then ⟨[], [], .done⟩ else ⟨[], [], .starved⟩
  | fuel + 1, batch, todo, idx =>
    if todo = [] then ⟨[], [], .done⟩ else
    let batch' := if batch.length > todo.length then todo else batch
    let req := batchReq ropts batch'
    match B req idx with
    | .error s => ⟨[], [(req, .error s)], .failed 502⟩
    | .page items =>
      let todo' := remaining todo items
      if items = [] then ⟨[[]], [(req, .page [])], .done⟩
      else if accepts todo (pageUuids items) = false then ⟨[items], [(req, .page items)], .failed 502⟩
      else if todo'.length = todo.length then ⟨[items], [(req, .page items)], .failed 502⟩
      else (clusterLoopGo B ropts fuel batch' todo' (idx + 1)).push req (.page items) items

/-- backend selection of the list path (list.go:227-233) -/
def backendFor (cfg : Cfg) (c : ClusterId) : Option Backend :=
  if c = cfg.localId then some cfg.localB else cfg.remotes c

def runCluster (cfg : Cfg) (o : Opts) (c : ClusterId) (todo : List Uuid) : CRes :=
  match backendFor cfg c with
  | none => ⟨[], [], .failed 404⟩
  | some B => clusterLoop B (remoteOpts cfg.localId o) todo.length todo 0

/-! ### merge (list.go:24-63) -/

def tsGe (a b : Obj) : Bool := decide (b.ts ≤ a.ts)

/-- `merged = cl` for the first non-empty page, `append` + `needSort` for every later non-empty
one, then "modified_at desc" if `needSort`. -/
def mergePages (pages : List (List Obj)) : List Obj :=
  let ne := pages.filter (fun p => decide (p ≠ []))
  if 2 ≤ ne.length then ne.flatten.mergeSort tsGe else ne.flatten

inductive Outcome where
  | ok (items : List Obj)
  | err (statuses : List Nat)   -- Go returns the error of whichever failing cluster reports first
deriving DecidableEq, Repr

structure Run where
  out : Outcome
  log : List (ClusterId × List (Opts × Resp))
deriving DecidableEq, Repr

def Stop.status? : Stop → Option Nat
  | .done => none
  | .failed s => some s
  | .starved => some 0

def splitResults (cfg : Cfg) (o : Opts) (gs : List (ClusterId × List Uuid)) : List (ClusterId × CRes) :=
  gs.map (fun g => (g.1, runCluster cfg o g.1 g.2))

def run (cfg : Cfg) (o : Opts) : Run :=
  match plan cfg.localId cfg.maxItems o with
  | .reject s => ⟨.err [s], []⟩
  | .empty => ⟨.ok [], []⟩
  | .passLocal =>
    let req := forwarded cfg.localId o
    match cfg.localB req 0 with
    | .error s => ⟨.err [s], [(cfg.localId, [(req, .error s)])]⟩
    | .page items => ⟨.ok items, [(cfg.localId, [(req, .page items)])]⟩
  | .split gs =>
    let rs := splitResults cfg o gs
    let errs := rs.filterMap (fun r => r.2.stop.status?)
    let log := rs.map (fun r => (r.1, r.2.log))
    if errs = [] then ⟨.ok (mergePages (rs.flatMap (fun r => r.2.pages))), log⟩
    else ⟨.err errs, log⟩

/-! ### context cancellation after the first error (list.go:215-216, 279-287)

The collector calls `cancel()` when it receives the first non-nil error. A backend that honours its
context (the RPC client does) then fails every later call of the other goroutines; those goroutines
report 502 — but after the first error, so their reports are never the one returned. `cut c = some k`
says: cluster `c`'s calls with index ≥ k see a cancelled context. -/

/-- a backend whose calls from index `k` on fail because the context was cancelled -/
def cutBackend (B : Backend) : Option Nat → Backend
  | none => B
  | some k => fun req idx => if k ≤ idx then .error 0 else B req idx

def runClusterCut (cfg : Cfg) (o : Opts) (c : ClusterId) (todo : List Uuid) (cut : Option Nat) : CRes :=
  match backendFor cfg c with
  | none => ⟨[], [], .failed 404⟩
  | some B => clusterLoop (cutBackend B cut) (remoteOpts cfg.localId o) todo.length todo 0

/-- the cancellation reaches cluster `g` before its loop has ended by itself -/
def affected (cfg : Cfg) (o : Opts) (cut : ClusterId → Option Nat) (g : ClusterId × List Uuid) : Bool :=
  match cut g.1 with
  | none => false
  | some k => decide (k < (runCluster cfg o g.1 g.2).log.length)

/-- The request under a cancellation schedule. `external = true`: the *caller's* context ended (client
gone, request timeout) — then there need not be any failing cluster, and the 502 of a cluster reached
by the cancellation can be the first error. `external = false`: only the collector's own `cancel()`
after a first error. The error returned by Go is the first one received: that of a cluster that
failed by itself (not `affected`), or — external only — the 502 of an affected one. An empty list
with failing clusters means the schedule is impossible (internal cancellation without a cause). -/
def runCancel (cfg : Cfg) (o : Opts) (cut : ClusterId → Option Nat) (external : Bool := false) : Run :=
  match plan cfg.localId cfg.maxItems o with
  | .split gs =>
    let rs := gs.map (fun g => (g.1, runClusterCut cfg o g.1 g.2 (cut g.1)))
    let log := rs.map (fun r => (r.1, r.2.log))
    if rs.filterMap (fun r => r.2.stop.status?) = [] then
      ⟨.ok (mergePages (rs.flatMap (fun r => r.2.pages))), log⟩
    else
      ⟨.err ((gs.filter (fun g => !affected cfg o cut g)).filterMap
          (fun g => (runCluster cfg o g.1 g.2).stop.status?) ++
        (if external then (gs.filter (fun g => affected cfg o cut g)).map (fun _ => 502) else [])), log⟩
  | _ => run cfg o

/-! ### conn.go chooseBackend (single-object requests), for comparison with `backendFor` -/

def chooseBackend (cfg : Cfg) (id : Str) : Backend :=
  let c : Option ClusterId :=
    if id.length = 27 then some (id.take 5) else if id.length ≠ 5 then none else some id
  match c with
  | none => cfg.localB
  | some c =>
    if c = cfg.localId then cfg.localB
    else match cfg.remotes c with
      | some b => b
      | none => cfg.localB

/-! ### conn.go UserList: the LoginCluster detour (conn.go:544-557) and batchUpdateUsers (483-542)

With `Login.LoginCluster` set to another cluster (and no bypass) a user list request never reaches
`generated_UserList`: it is handed, unchanged, to `chooseBackend(LoginCluster)` (the local backend
if that cluster has no proxy), and the returned users whose uuid starts with the LoginCluster id are
cached locally through `conn.local.UserBatchUpdate` (only uuids matter here). -/

def userListDetour (localId login : ClusterId) (o : Opts) : Bool :=
  decide (login ≠ []) && decide (login ≠ localId) && !o.bypass

/-- `strings.HasPrefix(user.UUID, id)` -/
def hasPrefix (pre s : Str) : Bool := s.take pre.length == pre

structure URun where
  out : Outcome
  /-- the list calls made: the generated path's log, or the single detour call -/
  log : List (ClusterId × List (Opts × Resp))
  /-- detour only: the one request/answer handed to chooseBackend(LoginCluster) -/
  detour : Option (Opts × Resp)
  /-- uuids passed to local.UserBatchUpdate (`none` = not called) and whether it failed -/
  update : Option (List Uuid × Bool)
deriving Repr

def runUserList (cfg : Cfg) (login : ClusterId) (updateFails : Bool) (o : Opts) : URun :=
  if userListDetour cfg.localId login o then
    match chooseBackend cfg login o 0 with
    | .error s => ⟨.err [s], [], some (o, .error s), none⟩
    | .page items =>
      let upd := dedup ((pageUuids items).filter (hasPrefix login))
      if upd = [] then ⟨.ok items, [], some (o, .page items), none⟩
      else if updateFails then ⟨.err [0], [], some (o, .page items), some (upd, true)⟩
      else ⟨.ok items, [], some (o, .page items), some (upd, false)⟩
  else
    let r := run cfg o
    ⟨r.out, r.log, none, none⟩

end ArvVerif.C20
