/-
C11 model: the Keep client's write path (sdk/go/keepclient).

* `putReplicas` (support.go:119-224): the three nested loops as a small-step machine. The only
  nondeterminism is (a) the per-(service, round) answer `script` and (b) which in-flight upload
  completes next (`picks`). A service is asked at most once per round and a service asked in round
  r+1 was asked in round r, so "round" and "attempt number of that service" coincide.
* `uploadToKeepServer` (support.go:58-117): what it extracts from an HTTP exchange (`upload`).
* `PutHR` / `PutHB` / `PutB` (keepclient.go:143-186): oversize rejection and which hash / length
  reaches `putReplicas` (`putHR`, `putHB`, `putB`).
* `loadKeepServers` (discover.go:187-231): the three root maps, `replicasPerService`,
  `foundNonDiskSvc` (`load`).

Strings are `List Nat` (bytes) or `List Char`. Go's `int` is modelled as unbounded `Int`
(no-overflow is an assumption; the replica header parser reproduces the int64 range check of
`fmt.Sscanf("%d")`).
-/
namespace ArvVerif.C11

abbrev Srv := Nat

/-! ### uploadToKeepServer -/

/-- `uploadStatus` as `putReplicas` reads it: `statusCode` (0 = no HTTP response),
`replicasStored`, `response` (trimmed body). -/
structure Up where
  code : Nat
  rep : Int
  body : List Nat
deriving Repr, DecidableEq, Inhabited

/-- One HTTP exchange as seen by `uploadToKeepServer`. -/
inductive Http
  /-- `Do` returned an error, whatever its kind: connection refused, reset, no route, timeout,
  unexpected EOF, request body failed, ... — `uploadToKeepServer` does not look at the error -/
  | connErr
  /-- a response: status code, value of `X-Keep-Replicas-Stored` (`none` = absent or empty),
  the bytes the body delivers, and whether the body then fails with a non-EOF error -/
  | resp (code : Nat) (hdr : Option (List Char)) (body : List Nat) (bodyErr : Bool)
deriving Repr

def isScanSpace (c : Char) : Bool := c == ' ' || c == '\t'
def isDecDigit (c : Char) : Bool := '0' ≤ c && c ≤ '9'

def decVal (cs : List Char) : Nat := cs.foldl (fun a c => a * 10 + (c.toNat - 48)) 0

/-- `rep := 1; fmt.Sscanf(xr, "%d", &rep)`: leading blanks skipped, one optional sign, the longest
run of decimal digits; the value is stored only if the run is non-empty and fits in int64;
trailing text is ignored. (Input alphabet assumed: blanks are space and tab, no newlines.) -/
def parseRep (s : List Char) : Int :=
  let s1 := s.dropWhile isScanSpace
  let (neg, s2) := match s1 with
    | '-' :: r => (true, r)
    | '+' :: r => (false, r)
    | r => (false, r)
  let run := s2.takeWhile isDecDigit
  if run.isEmpty then 1
  else
    let v := decVal run
    if neg then (if v ≤ 2^63 then - (v : Int) else 1)
    else (if v < 2^63 then (v : Int) else 1)

/-- ASCII white space removed by `strings.TrimSpace` (bodies are assumed to be ASCII). -/
def isTrimSpace (b : Nat) : Bool := b == 9 || b == 10 || b == 11 || b == 12 || b == 13 || b == 32

def trimSpace (bs : List Nat) : List Nat :=
  ((bs.dropWhile isTrimSpace).reverse.dropWhile isTrimSpace).reverse

/-- size of the `io.LimitedReader` around the response body -/
def bodyLimit : Nat := 4096

/-- What `uploadToKeepServer` sends on the status channel. For a non-200 answer the `response`
text only feeds the error message; the model keeps the trimmed body. -/
def upload : Http → Up
  | .connErr => { code := 0, rep := 0, body := [] }
  | .resp code hdr body _ =>
    { code := code
      rep := match hdr with
        | none => 1
        | some h => if h.isEmpty then 1 else parseRep h
      body := trimSpace (body.take bodyLimit) }

/-- `X-Keep-Replicas-Stored` values of the property's answer alphabet: absent, "1" or "2". -/
def AlphaHdr (h : Option (List Char)) : Prop := h = none ∨ h = some ['1'] ∨ h = some ['2']

/-- The property's answer alphabet ("200 with replicas-stored 1..2, 200 without header, 400, 403,
408, 429, 500, 502, 503, connection error, slow response"): a failed exchange, or a response with
any status code and any body whose replicas header is absent, "1" or "2". -/
def InAlphabet : Http → Prop
  | .connErr => True
  | .resp _ hdr _ _ => AlphaHdr hdr

/-! ### putReplicas -/

/-- the retry condition of `putReplicas` on `status.statusCode` -/
def retryable (code : Nat) : Bool :=
  code == 0 || code == 408 || code == 429 || (decide (500 ≤ code) && code != 503)

structure Cfg where
  /-- `kc.Want_replicas` -/
  want : Nat
  /-- `kc.replicasPerService` (1 = all writable services are disks, 0 = unknown) -/
  rps : Nat
  /-- `kc.Retries` -/
  retries : Nat
  /-- answer of service `s` to its request of round `r` -/
  script : Srv → Nat → Up

/-- `replicasPerThread` -/
def Cfg.rpt (c : Cfg) : Nat := if c.rps < 1 then c.want else c.rps

structure St where
  sv : List Srv
  next : Nat
  active : List Srv
  done : Int
  todo : Int
  retrySv : List Srv
  /-- value *after* the decrement at the top of the current round -/
  retriesRemaining : Nat
  round : Nat
  locator : List Nat
  /-- ghost: requests started (service, round), newest first -/
  reqLog : List (Srv × Nat)
  /-- ghost: answers processed (service, round), newest first -/
  respLog : List (Srv × Nat)
  /-- ghost: processed answers with status 200, newest first -/
  okLog : List (Srv × Nat)
deriving Repr

inductive Res
  | ok (loc : List Nat) (n : Int)
  | insufficient (loc : List Nat) (n : Int)
deriving Repr, DecidableEq

/-- `go kc.uploadToKeepServer(sv[nextServer], ...); nextServer++; active++` -/
def startOne (s : St) (h : s.next < s.sv.length) : St :=
  { s with active := s.active ++ [s.sv[s.next]], next := s.next + 1,
           reqLog := (s.sv[s.next], s.round) :: s.reqLog }

/-- the `for active*replicasPerThread < replicasTodo` loop: start uploads. `none` is the
"Could not write sufficient replicas" return. Fuel = an upper bound on the services left. -/
def startUploads (c : Cfg) : Nat → St → Option St
  | 0, s => some s
  | fuel+1, s =>
    if ((s.active.length * c.rpt : Nat) : Int) < s.todo then
      if h : s.next < s.sv.length then
        startUploads c fuel (startOne s h)
      else if s.active = [] ∧ s.retriesRemaining = 0 then none
      else some s
    else some s

/-- insertion into an ascending list -/
def insertAsc (a : Srv) : List Srv → List Srv
  | [] => [a]
  | b :: t => if a ≤ b then a :: b :: t else b :: insertAsc a t

/-- ascending insertion sort (structural recursion, so that examples evaluate in the kernel) -/
def sortAsc : List Srv → List Srv
  | [] => []
  | a :: t => insertAsc a (sortAsc t)

/-- Which in-flight upload answers next: the in-flight services sorted by number, entry
`p mod n`. (The correspondence driver releases responses by the same rule.) -/
def choose (active : List Srv) (p : Nat) : Srv :=
  let sorted := sortAsc active
  sorted.getD (p % sorted.length) 0

/-- `status := <-uploadStatusChan` and the bookkeeping after it, for the answer of `srv`. -/
def receive (c : Cfg) (s : St) (srv : Srv) : St :=
  let u := c.script srv s.round
  let s1 := { s with active := s.active.erase srv, respLog := (srv, s.round) :: s.respLog }
  let s2 := if u.code = 200 then
      { s1 with done := s1.done + u.rep, todo := s1.todo - u.rep, locator := u.body,
                okLog := (srv, s.round) :: s1.okLog }
    else s1
  if retryable u.code then { s2 with retrySv := s2.retrySv ++ [srv] } else s2

/-- hand-over to the next round: `sv = retryServers`, then the top of the outer loop -/
def nextRound (s : St) : St :=
  { s with sv := s.retrySv, retrySv := [], next := 0,
           retriesRemaining := s.retriesRemaining - 1, round := s.round + 1 }

inductive StepRes
  /-- an answer was received and processed (consumes one pick) -/
  | recv (s : St)
  /-- `break` out of the inner loop with nothing in flight: hand-over to the next round -/
  | round (s : St)
  /-- `putReplicas` returns (with the state at the return) -/
  | ret (r : Res) (s : St)

/-- One iteration of the `for replicasTodo > 0` loop body, or the hand-over to the next round,
or the final return. -/
def step (c : Cfg) (s : St) (pick : Nat) : StepRes :=
  if s.todo > 0 then
    match startUploads c (s.sv.length + 1) s with
    | none => .ret (.insufficient s.locator s.done) s
    | some s1 =>
      if s1.active ≠ [] then .recv (receive c s1 (choose s1.active pick))
      else -- `break` out of the inner loop: next round, or fall out of the outer loop
        if s1.retriesRemaining = 0 then .ret (.ok s1.locator s1.done) s1
        else .round (nextRound s1)
  else -- replicasTodo ≤ 0: the remaining outer iterations do nothing; return
    .ret (.ok s.locator s.done) s

/-- `picks`: one entry per answer received (which in-flight upload completes next); when the list
is exhausted the lowest-numbered in-flight service answers. -/
def run (c : Cfg) : Nat → St → List Nat → Option (Res × St)
  | 0, _, _ => none
  | fuel+1, s, picks =>
    match step c s (picks.headD 0) with
    | .ret r s' => some (r, s')
    | .recv s' => run c fuel s' picks.tail
    | .round s' => run c fuel s' picks

def init (c : Cfg) (sv : List Srv) : St :=
  { sv := sv, next := 0, active := [], done := 0, todo := c.want, retrySv := [],
    retriesRemaining := c.retries, round := 0, locator := [], reqLog := [], respLog := [],
    okLog := [] }

/-- enough fuel for every run (`C11_terminates`) -/
def fuelFor (c : Cfg) (sv : List Srv) : Nat := (c.retries + 1) * (sv.length + 1) + 1

/-- `putReplicas` with the writable services in probe order `sv`. -/
def put (c : Cfg) (sv : List Srv) (picks : List Nat) : Option (Res × St) :=
  run c (fuelFor c sv) (init c sv) picks

/-! ### PutHR / PutHB / PutB -/

/-- `BLOCKSIZE` -/
def blockSize : Int := 67108864

/-- What the entry points hand to `putReplicas`: the hash that goes into the URL, the
`expectedLength`, and whether a request body is attached (`expectedLength > 0`). -/
structure PutCall where
  hash : List Char
  expectedLength : Int
  hasBody : Bool
deriving Repr, DecidableEq

inductive Entry
  /-- `ErrOversizeBlock`, nothing is sent -/
  | oversize
  | call (p : PutCall)
deriving Repr, DecidableEq

def putHR (hash : List Char) (dataBytes : Int) : Entry :=
  if dataBytes > 0 ∧ dataBytes > blockSize then .oversize
  else .call { hash := hash, expectedLength := dataBytes, hasBody := decide (dataBytes > 0) }

def putHB (hash : List Char) (len : Nat) : Entry :=
  .call { hash := hash, expectedLength := len, hasBody := decide (len > 0) }

/-- `md5hex` is the hex MD5 of the buffer (a parameter: no theorem depends on MD5 itself). -/
def putB (md5hex : List Char) (len : Nat) : Entry := putHB md5hex len

/-! ### What reaches a service: PutHR's stream, hash check and buffer; the transport -/

/-- how the caller's `io.Reader` ends after delivering its bytes -/
inductive StreamEnd
  | eof
  | err
deriving Repr, DecidableEq

/-- the caller's reader as PutHR sees it: the bytes it delivers, then EOF or an error -/
structure Stream where
  data : List Nat
  fin : StreamEnd
deriving Repr

/-- how a request body ends after its bytes -/
inductive BodyEnd
  | eof
  /-- `BadChecksum` from `HashCheckingReader` -/
  | badChecksum
  /-- the stream's own error, passed on by `CloseWithError` -/
  | readErr
deriving Repr, DecidableEq

/-- `go func() { _, err := io.Copy(buf, HashCheckingReader{r, md5.New(), hash}); buf.CloseWithError(err) }()`:
the asyncbuf holds every byte the stream delivered; each reader made by `buf.NewReader` gets all of
them and then EOF only if the stream ended with EOF *and* the hex MD5 of the bytes is `hash`;
otherwise it ends with BadChecksum resp. the stream's error. (`md5hex` is a parameter.) -/
def bufferEnd (md5hex : List Nat → List Char) (hash : List Char) (st : Stream) : BodyEnd :=
  match st.fin with
  | .err => .readErr
  | .eof => if md5hex st.data = hash then .eof else .badChecksum

/-- One upload request as handed to the transport (`uploadToKeepServer`): hash in the URL,
`req.ContentLength`, and the body (absent unless `expectedLength > 0`). -/
structure Wire where
  hash : List Char
  contentLength : Int
  body : Option (List Nat × BodyEnd)
deriving Repr

/-- What a service receives, if anything: a transport completes a request only if the body can be
read to EOF and has the announced length (a request without body is complete). The scripted
HTTPClient of the correspondence check implements exactly this rule. -/
def Wire.delivered (w : Wire) : Option (List Nat) :=
  match w.body with
  | none => some []
  | some (bs, .eof) => if (bs.length : Int) = w.contentLength then some bs else none
  | some (_, _) => none

def wireOf (p : PutCall) (body : List Nat × BodyEnd) : Wire :=
  { hash := p.hash, contentLength := p.expectedLength, body := if p.hasBody then some body else none }

/-- requests made by `PutHR(hash, r, dataBytes)`; `none` = refused as oversize -/
def putHRWire (md5hex : List Nat → List Char) (hash : List Char) (st : Stream) (dataBytes : Int) :
    Option Wire :=
  match putHR hash dataBytes with
  | .oversize => none
  | .call p => some (wireOf p (st.data, bufferEnd md5hex hash st))

/-- requests made by `PutHB(hash, buf)`: the buffer as it is, the caller's hash unchecked -/
def putHBWire (hash : List Char) (buf : List Nat) : Wire :=
  match putHB hash buf.length with
  | .call p => wireOf p (buf, .eof)
  | .oversize => { hash := hash, contentLength := buf.length, body := none }

/-- requests made by `PutB(buf)` -/
def putBWire (md5hex : List Nat → List Char) (buf : List Nat) : Wire := putHBWire (md5hex buf) buf

/-- an honest store: 200 with the locator it issues iff the MD5 of what it received is the hash
in the URL (422 otherwise); nothing (transport failure) if the request was not delivered -/
def honestCode (md5hex : List Nat → List Char) (w : Wire) : Nat :=
  match w.delivered with
  | none => 0
  | some b => if md5hex b = w.hash then 200 else 422

/-! ### loadKeepServers -/

structure Svc where
  uuid : List Char
  host : List Char
  port : Int
  ssl : Bool
  typ : List Char
  ro : Bool
deriving Repr

abbrev RootMap := List (List Char × List Char)

/-- Go map assignment `m[k] = v` on an association list -/
def mapSet (m : RootMap) (k v : List Char) : RootMap := m.filter (fun e => e.1 != k) ++ [(k, v)]

structure Roots where
  listed : List (List Char)
  locals : RootMap
  writable : RootMap
  gateways : RootMap
  rps : Nat
  nonDisk : Bool
deriving Repr

def intDigits (i : Int) : List Char := (toString i).toList

def Svc.url (s : Svc) : List Char :=
  (if s.ssl then "https".toList else "http".toList) ++ "://".toList ++ s.host ++ [':'] ++ intDigits s.port

def loadStep (r : Roots) (s : Svc) : Roots :=
  if s.url ∈ r.listed then r else
  let wr := !s.ro
  let nd := s.typ != "disk".toList
  { listed := s.url :: r.listed
    locals := mapSet r.locals s.uuid s.url
    writable := if wr then mapSet r.writable s.uuid s.url else r.writable
    gateways := mapSet r.gateways s.uuid s.url
    rps := if wr && nd then 0 else r.rps
    nonDisk := r.nonDisk || nd }

/-- `loadKeepServers` on a client whose `foundNonDiskSvc` is `nd0` -/
def load (nd0 : Bool) (l : List Svc) : Roots :=
  l.foldl loadStep { listed := [], locals := [], writable := [], gateways := [], rps := 1, nonDisk := nd0 }

/-! ### discoverServices -/

/-- `fmt.Sprintf("00000-bi6l4-%015d", i)` -/
def uriUuid (i : Nat) : List Char :=
  let ds := (toString i).toList
  "00000-bi6l4-".toList ++ List.replicate (15 - ds.length) '0' ++ ds

/-- `discoverServices` with `kc.Arvados.KeepServiceURIs` set (ARVADOS_KEEP_SERVICES): every URI is
a local, writable and gateway root under a made-up uuid; the services count as non-disk, so
`replicasPerService` is 0. -/
def discoverURIs (uris : List (List Char)) : Roots :=
  let m : RootMap := uris.mapIdx fun i u => (uriUuid i, u)
  { listed := [], locals := m, writable := m, gateways := m, rps := 0, nonDisk := true }

/-- `discoverServices` otherwise: the "accessible" keep_services list of the API server (through the
per-host cache) goes to `loadKeepServers` of a fresh client. -/
def discoverAPI (l : List Svc) : Roots := load false l

/-- A long-lived client is given service lists one after the other (a second
`LoadKeepServicesFromJSON`, a refreshed discovery answer): every load rebuilds the maps and
`replicasPerService` from its list alone; only `foundNonDiskSvc` is sticky. -/
def reload (nd0 : Bool) : List (List Svc) → Roots
  | [] => { listed := [], locals := [], writable := [], gateways := [], rps := 1, nonDisk := nd0 }
  | [l] => load nd0 l
  | l :: rest => reload (load nd0 l).nonDisk rest

/-- everything a client holds after a load, except the sticky `foundNonDiskSvc` -/
def Roots.core (r : Roots) := (r.listed, r.locals, r.writable, r.gateways, r.rps)

end ArvVerif.C11
