/-
C14 model, layer L2: the worker pool's bookkeeping as atomic steps under `wp.mtx`.

Source: lib/dispatchcloud/worker/pool.go (`StartContainer`, `Running`, `KillContainer`,
`ForgetContainer`, `sync`, `updateWorker`) and worker.go (`startContainer` and its completion
closure, `probeAndUpdate`, `updateRunning`, `closeRunner`, `shutdown`, `setIdleBehavior`,
`shutdownIfIdle`, `eligibleForShutdown`, `shutdownIfBroken`).

Every function below is one critical section of the Go code (one `wp.mtx.Lock() … Unlock()`),
so any execution of the pool is an interleaving of these steps. Real time enters only as the
value `now` of `time.Now()` inside a step and as the booleans "this timeout has expired";
`now` is a natural number and callers supply strictly increasing values (environment).
Go maps are lists without duplicates, compared as sets by the driver.

Used by L3 (Model/C14_Proto.lean) and meant to be reused by C15: keep names stable.
-/
import ArvVerif.Model.C14
namespace ArvVerif.C14

/-- `worker.State` -/
inductive WState where
  | unknown | booting | idle | running | shutdown
deriving DecidableEq, Repr, Inhabited

/-- `worker.IdleBehavior` -/
inductive IdleB where
  | run | hold | drain
deriving DecidableEq, Repr, Inhabited

/-- One `*worker` as far as container bookkeeping is concerned. -/
structure Worker where
  id : Nat
  itype : IType
  state : WState
  idleB : IdleB
  starting : List Uuid     -- keys of wkr.starting
  running : List Uuid      -- keys of wkr.running
  updated : Nat            -- wkr.updated
  busy : Nat               -- wkr.busy
  probed : Nat             -- wkr.probed
deriving DecidableEq, Repr, Inhabited

/-- `m[u] = …` on the key list of a Go map -/
def sInsert (l : List Uuid) (u : Uuid) : List Uuid := if l.contains u then l else l ++ [u]

/-- `delete(m, u)` on the key list of a Go map -/
def sRemove (l : List Uuid) (u : Uuid) : List Uuid := l.filter (fun x => x != u)

namespace Worker

/-- `len(wkr.running)+len(wkr.starting) == 0` -/
def isEmpty (w : Worker) : Bool := w.running.isEmpty && w.starting.isEmpty

/-- Synchronous part of `wkr.startContainer(ctr)`: `starting[uuid] = rr; state = Running`.
(`updated` is *not* touched here.) -/
def accept (w : Worker) (u : Uuid) : Worker :=
  { w with starting := sInsert w.starting u, state := .running }

/-- The completion closure of `startContainer`, run when `rr.Start()` has returned. Since fix
18910db it first checks `wkr.starting[uuid] != rr` and does nothing if a probe (or `Close`) has
already moved or removed its runner; otherwise `updated = busy = now; delete(starting, uuid);
running[uuid] = rr`. (`u ∈ starting` stands for "`starting[uuid]` is this closure's runner": a
later `startContainer` of the same uuid on the same worker replaces the runner, which the callers
of this function account for by not running a superseded closure.) -/
def startDone (w : Worker) (u : Uuid) (now : Nat) : Worker :=
  if w.starting.contains u then
    { w with updated := now, busy := now, starting := sRemove w.starting u, running := sInsert w.running u }
  else w

/-- `wkr.closeRunner(uuid)`: nothing if `uuid` is not in `running`; otherwise remove it, stamp
`updated`, and go Idle when nothing is left. The second component says whether
`wp.exited[uuid] = now` was recorded. -/
def closeRunner (w : Worker) (u : Uuid) (now : Nat) : Worker × Bool :=
  if w.running.contains u then
    let w1 := { w with running := sRemove w.running u, updated := now }
    (if w1.state == .running && w1.isEmpty then { w1 with state := .idle } else w1, true)
  else (w, false)

/-- `wkr.shutdown()` -/
def shutdown (w : Worker) (now : Nat) : Worker :=
  { w with updated := now, state := .shutdown }

/-- `eligibleForShutdown()` for a draining worker, or for an idle one whose idle timeout has
expired (`idleTimedOut`); `allGivenUp` ⇔ every remaining runner has `givenup` set. -/
def eligibleForShutdown (w : Worker) (idleTimedOut allGivenUp : Bool) : Bool :=
  if w.idleB == .hold then false else
  let draining := w.idleB == .drain
  match w.state with
  | .booting => draining
  | .idle => draining || idleTimedOut
  | .running => draining && allGivenUp
  | _ => false

/-- `shutdownIfIdle()` -/
def shutdownIfIdle (w : Worker) (idleTimedOut allGivenUp : Bool) (now : Nat) : Worker :=
  if w.eligibleForShutdown idleTimedOut allGivenUp then w.shutdown now else w

/-- `setIdleBehavior(b)` (tags are not modelled) -/
def setIdleBehavior (w : Worker) (b : IdleB) (idleTimedOut allGivenUp : Bool) (now : Nat) : Worker :=
  ({ w with idleB := b }).shutdownIfIdle idleTimedOut allGivenUp now

/-- First loop of `updateRunning`: for every reported uuid — already running: nothing; starting:
move to running; neither: "crunch-run process detected", add to running. -/
def adoptAlive (w : Worker) : List Uuid → Worker × Bool
  | [] => (w, false)
  | u :: rest =>
    if w.running.contains u then adoptAlive w rest
    else
      let w1 := { w with running := w.running ++ [u], starting := sRemove w.starting u }
      ((adoptAlive w1 rest).1, true)

/-- Second loop of `updateRunning`: `closeRunner` for every running uuid that was not reported
(written here in closed form: all of them are removed, `updated` is stamped if there was one,
and the worker goes Idle if it was Running and nothing is left; `closeDead_eq_fold` in
Proofs/C14_L2.lean shows this is the sequence of `closeRunner` calls). Returns the closed uuids
(each gets `wp.exited[uuid] = now`). -/
def closeDead (w : Worker) (alive : List Uuid) (now : Nat) : Worker × List Uuid :=
  let dead := w.running.filter (fun u => !alive.contains u)
  if dead.isEmpty then (w, [])
  else
    let w1 := { w with running := w.running.filter (fun u => alive.contains u), updated := now }
    (if w1.state == .running && w1.isEmpty then { w1 with state := .idle } else w1, dead)

/-- `wkr.updateRunning(ctrUUIDs)`: new worker, uuids closed, `changed`. -/
def updateRunning (w : Worker) (alive : List Uuid) (now : Nat) : Worker × List Uuid × Bool :=
  let a := w.adoptAlive alive
  let c := a.1.closeDead alive now
  (c.1, c.2, a.2 || !c.2.isEmpty)

end Worker

/-! ### `probeRunning`: reading the answer of `crunch-run --list` -/

/-- One line of the `crunch-run --list` output as `probeRunning` classifies it. -/
inductive ProbeLine where
  | empty                  -- "" (after the final newline)
  | broken                 -- "broken"
  | uuid (u : Uuid)        -- a single token: a container with a live crunch-run
  | stale (u : Uuid)       -- "<uuid> stale": crunch-run itself has exited
  | other                  -- anything else with more than one token
deriving DecidableEq, Repr, Inhabited

/-- The loop of `probeRunning` over the lines, in any order: the containers reported running,
whether "broken" was reported, whether a stale run lock was reported. No line ends the loop. -/
def parseProbe : List ProbeLine → List Uuid × Bool × Bool
  | [] => ([], false, false)
  | l :: rest =>
    let r := parseProbe rest
    match l with
    | .uuid u => (u :: r.1, r.2.1, r.2.2)
    | .broken => (r.1, true, r.2.2)
    | .stale _ => (r.1, r.2.1, true)
    | _ => r

/-- What one `probeAndUpdate` has collected when it takes the lock for the last time. -/
structure Probe where
  stamp : Nat              -- `updated := wkr.updated` read when the probe began
  booted : Bool            -- boot probe succeeded (or the worker was Idle/Running, or became so meanwhile)
  ok : Bool                -- `crunch-run --list` was run and succeeded
  broken : Bool            -- it reported "broken" (or a stale run lock for too long)
  uuids : List Uuid        -- containers it listed
  timedOut : Bool          -- `probeStart - wkr.probed ≥` boot/probe timeout (for shutdownIfBroken)
  allGivenUp : Bool        -- every remaining runner has given up (for a drain decision)
deriving Repr, Inhabited

namespace Worker

/-- `if reportedBroken && idleBehavior == Run { setIdleBehavior(Drain) }` -/
def drainStep (w : Worker) (p : Probe) (now : Nat) : Worker :=
  if p.broken && w.idleB == .run then w.setIdleBehavior .drain false p.allGivenUp now else w

/-- `!ok || (!booted && len(ctrUUIDs) == 0 && len(wkr.running) == 0)` -/
def probeFailed (w : Worker) (p : Probe) : Bool :=
  !p.ok || (!p.booted && p.uuids.isEmpty && w.running.isEmpty)

/-- The failed-probe branch: nothing if a shutdown was initiated during the probe, otherwise
`shutdownIfBroken(dur)`. -/
def applyFailed (w : Worker) (p : Probe) (now : Nat) : Worker :=
  if w.state == .shutdown && decide (w.updated > p.stamp) then w
  else if w.idleB != .hold && p.timedOut then w.shutdown now
  else w

/-- The branch that uses the probe result: busy stamp, `updateRunning`, first-boot transition,
Idle/Running fix-up, `updated` stamp. -/
def applyFresh (w : Worker) (p : Probe) (now : Nat) : Worker × List Uuid :=
  let w := if !p.uuids.isEmpty || !w.running.isEmpty then { w with busy := now } else w
  let r := w.updateRunning p.uuids now
  let w := r.1
  let firstBoot := p.booted && (w.state == .unknown || w.state == .booting)
  let w := if firstBoot then { w with state := .idle } else w
  if !(r.2.2 || firstBoot) then (w, r.2.1)
  else
    let w := if w.state == .idle && !w.isEmpty then { w with state := .running }
             else if w.state == .running && w.isEmpty then { w with state := .idle }
             else w
    ({ w with updated := now }, r.2.1)

/-- The final critical section of `probeAndUpdate`. Returns the worker and the uuids whose
`wp.exited` entry is set to `now`. -/
def probeApply (w : Worker) (p : Probe) (now : Nat) : Worker × List Uuid :=
  let w := w.drainStep p now
  if w.probeFailed p then (w.applyFailed p now, [])
  else
    let w := { w with probed := now }
    -- the stale-probe guard
    if p.stamp != w.updated then (w, [])
    else w.applyFresh p now

/-- The probe result is actually used to update `running`/`starting`: the run probe succeeded,
the result is not the "nothing booted, nothing seen, nothing tracked" case, and the worker has
not been updated since the probe began (the stale-probe guard). -/
def probeFresh (w : Worker) (p : Probe) (now : Nat) : Bool :=
  !(w.drainStep p now).probeFailed p && p.stamp == (w.drainStep p now).updated

end Worker

/-- `*Pool` as far as container bookkeeping is concerned. -/
structure Pool where
  workers : List Worker             -- wp.workers (distinct ids)
  exited : List (Uuid × Nat)        -- wp.exited
deriving Repr, Inhabited

namespace Pool

def find (p : Pool) (id : Nat) : Option Worker := p.workers.find? (fun w => w.id == id)

/-- replace the worker with `w.id` -/
def put (p : Pool) (w : Worker) : Pool :=
  { p with workers := p.workers.map (fun x => if x.id == w.id then w else x) }

/-- `exited[u] = now` for each `u` -/
def markExited (p : Pool) (us : List Uuid) (now : Nat) : Pool :=
  { p with exited := us.foldl (fun ex u => ex.filter (fun q => q.1 != u) ++ [(u, now)]) p.exited }

/-- `Running()`: every starting/running uuid of every worker with zero time, overridden by the
`exited` entries. -/
def runningView (p : Pool) (u : Uuid) : RunView :=
  match p.exited.find? (fun q => q.1 == u) with
  | some q => some (some q.2)
  | none => if p.workers.any (fun w => w.running.contains u || w.starting.contains u) then some none else none

/-- keys of `Running()` (may contain duplicates; compared as a set) -/
def runningKeys (p : Pool) : List Uuid :=
  p.workers.flatMap (fun w => w.running ++ w.starting) ++ p.exited.map (·.1)

/-- `KillContainer(uuid)`: true iff some worker has it in `running` or `starting` (its runner's
`Kill` is then started in the background). -/
def killContainer (p : Pool) (u : Uuid) : Bool :=
  p.workers.any (fun w => w.running.contains u || w.starting.contains u)

/-- `ForgetContainer(uuid)` -/
def forget (p : Pool) (u : Uuid) : Pool :=
  { p with exited := p.exited.filter (fun q => q.1 != u) }

/-- Workers `StartContainer(it, …)` may pick: right type, Idle, IdleBehavior run … -/
def startable (p : Pool) (it : IType) : List Worker :=
  p.workers.filter (fun w => w.itype == it && w.state == .idle && w.idleB == .run)

/-- … and among them one with the latest `busy` (map order decides between equals). -/
def startCandidates (p : Pool) (it : IType) : List Nat :=
  let c := p.startable it
  (c.filter (fun w => c.all (fun x => decide (x.busy ≤ w.busy)))).map (·.id)

/-- `StartContainer(it, ctr)` choosing candidate `wid`; `none` = returned false. -/
def startContainer (p : Pool) (it : IType) (u : Uuid) (wid : Nat) : Option Pool :=
  if (p.startCandidates it).contains wid then
    match p.find wid with
    | some w => some (p.put (w.accept u))
    | none => none
  else none

/-- completion closure of `startContainer` on worker `wid` -/
def startDone (p : Pool) (wid : Nat) (u : Uuid) (now : Nat) : Pool :=
  match p.find wid with
  | some w => p.put (w.startDone u now)
  | none => p

/-- `onKilled(uuid)` → `closeRunner(uuid)` on worker `wid` -/
def closeRunner (p : Pool) (wid : Nat) (u : Uuid) (now : Nat) : Pool :=
  match p.find wid with
  | some w =>
    let r := w.closeRunner u now
    let p := p.put r.1
    if r.2 then p.markExited [u] now else p
  | none => p

def probeApply (p : Pool) (wid : Nat) (pr : Probe) (now : Nat) : Pool :=
  match p.find wid with
  | some w =>
    let r := w.probeApply pr now
    (p.put r.1).markExited r.2 now
  | none => p

def shutdownWorker (p : Pool) (wid : Nat) (now : Nat) : Pool :=
  match p.find wid with
  | some w => p.put (w.shutdown now)
  | none => p

def setIdleBehavior (p : Pool) (wid : Nat) (b : IdleB) (idleTimedOut allGivenUp : Bool) (now : Nat) : Pool :=
  match p.find wid with
  | some w => p.put (w.setIdleBehavior b idleTimedOut allGivenUp now)
  | none => p

/-- One instance of the cloud's list as `Pool.sync` reads it. -/
structure Listed where
  id : Nat
  itype : IType
  idleTag : Option IdleB   -- valid IdleBehavior tag, if any
  created : Bool           -- its secret tag matches an unfinished Create call (⇒ StateBooting)
deriving Repr, Inhabited

/-- `updateWorker(inst, it)` -/
def updateWorker (p : Pool) (l : Listed) (now : Nat) : Pool :=
  match p.find l.id with
  | some w => p.put { w with updated := now }
  | none =>
    { p with workers := p.workers ++ [{
        id := l.id, itype := l.itype,
        state := if l.created then .booting else .unknown,
        idleB := l.idleTag.getD .run,
        starting := [], running := [], updated := now, busy := now, probed := now }] }

/-- `Pool.sync(threshold, instances)`: update/add listed instances (retrying `shutdown` on a
worker that is still listed `timeoutShutdown` after its shutdown: `retry`), then drop every
worker not updated after `threshold`. -/
def sync (p : Pool) (threshold : Nat) (listed : List Listed) (retry : Nat → Bool) (now : Nat) : Pool :=
  let p := listed.foldl (fun p l =>
    let existed := (p.find l.id).isSome
    let p := p.updateWorker l now
    match p.find l.id with
    | some w => if existed && w.state == .shutdown && retry l.id then p.put (w.shutdown now) else p
    | none => p) p
  { p with workers := p.workers.filter (fun w => decide (w.updated > threshold)) }

/-- Answer of the cloud's `Instances()` call as `getInstancesAndSync` sees it. -/
inductive ListResult where
  | ok (listed : List Listed)
  | failed                  -- any error, a rate-limit error included
deriving Repr, Inhabited

/-- `getInstancesAndSync`: `threshold := time.Now()`, list the instances, and only if that
succeeded `sync(threshold, instances)`; on any error (rate limiting included) the pool is left
as it is. `th < now`. -/
def getInstancesAndSync (p : Pool) (r : ListResult) (retry : Nat → Bool) (th now : Nat) : Pool :=
  match r with
  | .ok listed => p.sync th listed retry now
  | .failed => p

end Pool

/-- Worker ids are distinct (they are the keys of the Go map `wp.workers`). -/
def Pool.WF (p : Pool) : Prop := p.workers.Pairwise (fun a b => a.id ≠ b.id)

end ArvVerif.C14
