/-
C15 model, part 1b: two pieces of glue between the response functions of Model/C15.lean and the code
around them (added with the seeded changes C15-g and C15-h).

* `probeOfLines` / `probeLines`: a whole `probeAndUpdate` whose `crunch-run --list` answer is given as
  the *lines* the instance printed (C14's `ProbeLine`/`parseProbe`, imported read-only), instead of the
  already classified `ProbeIn`. What matters for C15: a `"<uuid> stale"` line (crunch-run has exited,
  arv-mount or another leftover still holds the lock file) is **not** a running container — the probe
  must find the process gone (`closeRunner`, `wp.exited[uuid]`), otherwise `scheduler.sync` never
  cancels / re-queues the container and the worker never becomes idle.
* `runBody` / `runBodies`: the goroutines `lockContainer` / `cancel` / `kill` / `requeue` run to
  completion one after the other on the scheduler's operation latch (`sch.uuidOp`; C14's `Latch`,
  `uuidLock`, `uuidUnlock`): refused ⇒ nothing but the wake-up; acquired ⇒ the calls, and the latch is
  released on **every** path (`defer sch.uuidUnlock(uuid)` directly after the acquisition) — the
  early return of `lockContainer` ("container no longer queued by the time we decided to lock it")
  and the error returns included. A latch that stays behind makes every later `cancel`, `requeue`,
  `kill` and `lock` of that container a no-op for ever.
-/
import ArvVerif.Model.C15
namespace ArvVerif.C15
open ArvVerif.C14

/-! ### worker.go: `probeRunning`'s reading of the list, feeding `probeAndUpdate` -/

/-- The `ProbeIn` of a probe whose boot probe answered `bootOk` and whose `crunch-run --list` exited 0
printing `ls`. `staleFor` = `wkr.staleRunLockSince` before the probe, `dur` = time since the last
successful probe. -/
def probeOfLines (bootOk : Bool) (ls : List ProbeLine) (staleFor : Option Nat) (dur : Nat) : ProbeIn :=
  let r := parseProbe ls
  { bootOk := bootOk, listOk := true, uuids := r.1, saysBroken := r.2.1, staleLine := r.2.2,
    staleFor := staleFor, dur := dur }

/-- `probeAndUpdate()` on a worker whose instance printed `ls`. -/
def probeLines (w : Worker) (T : Timeouts) (gu : List Uuid) (bootOk : Bool) (ls : List ProbeLine)
    (staleFor : Option Nat) (dur : Nat) (now : Nat) : Worker × List Uuid :=
  probeAndUpdate w T gu (probeOfLines bootOk ls staleFor dur) now

/-! ### scheduler: the bodies of the spawned goroutines, with the latch -/

/-- The queue/pool calls of a goroutine that has obtained the latch. `apiOk` = the API call
(`queue.Lock`/`Cancel`/`Unlock`) succeeded; only `lockContainer` behaves differently when it failed
(it returns before its second `queue.Get`). -/
def bodyEffects (stateNow : Option CState) (apiOk : Bool) (op : Op) (u : Uuid) : List Effect :=
  if op = .lock ∧ stateNow = some .queued ∧ apiOk = false then [.queueGet u, .queueLock u]
  else asyncEffect false stateNow op u

/-- One spawned goroutine, from `uuidLock` to its return. -/
structure Body where
  op : Op
  uuid : Uuid
  stateNow : Option CState    -- what `queue.Get` answers (looked at by `lockContainer` only)
  apiOk : Bool
deriving Repr, Inhabited

/-- What a goroutine that runs to completion leaves behind: the latch, the calls it made, and
whether the scheduler's wake-up timer was re-armed (`uuidLock` refused). -/
structure BodyOut where
  latch : Latch
  effects : List Effect
  wake : Bool
deriving Repr, Inhabited

def runBody (l : Latch) (b : Body) : BodyOut :=
  let r := uuidLock l b.uuid b.op
  if r.1 then ⟨uuidUnlock r.2 b.uuid, bodyEffects b.stateNow b.apiOk b.op b.uuid, false⟩
  else ⟨r.2, [], true⟩

/-- Goroutines that run to completion one after the other (what the driver can observe; concurrent
holders are C14's `LStep`). -/
def runBodies (l : Latch) : List Body → Latch × List BodyOut
  | [] => (l, [])
  | b :: rest =>
    let o := runBody l b
    let r := runBodies o.latch rest
    (r.1, o :: r.2)

end ArvVerif.C15
