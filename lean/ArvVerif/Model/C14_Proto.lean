/-
C14 model, layer L3: the dispatcher protocol as a transition system.

State = the pool's bookkeeping (the L2 `Worker` records, one per instance id) composed with an
environment: which instances exist, the ground-truth process table of every instance, start
commands and probes in flight, the scheduler's position inside a pass (only what L1 proves about
it: `StartContainer(c)` comes directly after `KillContainer(c) = false`), and the recovery phase
after a dispatcher restart. Every `Step` is one critical section of the Go code (named after
it) or one environment event. Real time, SSH, goroutine scheduling and the cloud API are
environment: any interleaving of the steps is allowed.

Environment assumptions (each is the guard of the step it restricts):
* **A1** (`recoveryDone`): when `fixStaleLocks` finishes after a restart, every instance that has
  not been successfully probed since the restart hosts no crunch-run process. The code waits for
  this (no worker in state Unknown) but gives up on a timeout, or when an unreachable unknown
  instance is shut down — that escape hatch is the assumption.
* **A2** (`poolRemove`): an instance that disappears from the cloud's list no longer exists.
  (`instCreate`): a new instance starts with an empty process table.
* (A3 of earlier versions — "the completion closure of `startContainer` runs while the worker is
  still busy with that start" — is no longer needed: since fix 18910db the closure does nothing
  when its runner has left `wkr.starting`. `out i` keeps only the latest start command of a
  worker; an older one whose worker went Idle has completed or will complete as a no-op.)
* truthful probes (`probeSample`: the listed processes are those alive at one instant between
  the probe's begin and its application) and truthful kill (`killed`: `crunch-run --kill`
  reports success only when the process is gone).

Intended for reuse by C15 (liveness): `PState`, `Step`, `Reach`, `Inv` (Proofs/C14_L3.lean).
-/
import ArvVerif.Model.C14_Pool
namespace ArvVerif.C14

/-- function update -/
def upd {α : Type} (f : Nat → α) (i : Nat) (v : α) : Nat → α := fun j => if j = i then v else f j

@[simp] theorem upd_same {α : Type} (f : Nat → α) (i : Nat) (v : α) : upd f i v i = v := by simp [upd]
@[simp] theorem upd_ne {α : Type} (f : Nat → α) {i j : Nat} (v : α) (h : j ≠ i) : upd f i v j = f j := by
  simp [upd, h]

inductive Phase where
  | recovering   -- after a (re)start, until fixStaleLocks has finished
  | scheduling   -- runQueue/sync passes are being made
deriving DecidableEq, Repr

structure PState where
  /-- `wp.workers`, by instance id -/
  wk : Nat → Option Worker
  /-- the instance exists in the cloud -/
  live : Nat → Bool
  /-- ground truth: containers with a live crunch-run process on the instance -/
  procs : Nat → List Uuid
  /-- ghost: since the last restart the pool's bookkeeping for the instance has been brought in
  line with its process table (a probe result was applied, or the instance was created later) -/
  probed : Nat → Bool
  /-- outstanding `crunch-run --detach` of worker i: `(c, false)` accepted but not yet executed on
  the VM, `(c, true)` executed, completion closure not yet run -/
  out : Nat → Option (Uuid × Bool)
  /-- probe in flight on worker i: the `updated` stamp read at its begin, and the process list it
  sampled (once it has) -/
  probe : Nat → Option (Nat × Option (List Uuid))
  /-- the scheduler's previous call was `KillContainer(c)` answering false -/
  lastKillFalse : Option Uuid
  phase : Phase
  /-- logical clock: every `time.Now()` taken under the pool lock is `clock + 1` -/
  clock : Nat

def PState.init : PState :=
  { wk := fun _ => none, live := fun _ => false, procs := fun _ => [], probed := fun _ => false,
    out := fun _ => none, probe := fun _ => none, lastKillFalse := none, phase := .recovering, clock := 0 }

/-- `c` is claimed by worker `i`: in its `starting` or `running` map. -/
def PState.claims (s : PState) (i : Nat) (c : Uuid) : Prop :=
  ∃ w, s.wk i = some w ∧ (c ∈ w.running ∨ c ∈ w.starting)

/-- **A1** -/
def A1 (s : PState) : Prop := ∀ i, s.probed i = false → s.procs i = []

inductive Step : PState → PState → Prop where
  /- ---- environment: cloud and VMs ---- -/
  /-- a new instance comes into existence (A2: with an empty process table) -/
  | instCreate (s : PState) (i : Nat)
      (h1 : s.live i = false) (h2 : s.wk i = none) (h3 : s.out i = none) (h4 : s.probe i = none) :
      Step s { s with live := upd s.live i true, procs := upd s.procs i [], probed := upd s.probed i true }
  /-- an instance is destroyed (or dies); its processes die with it -/
  | instDestroy (s : PState) (i : Nat) :
      Step s { s with live := upd s.live i false, procs := upd s.procs i [] }
  /-- a crunch-run process exits (normally, crashing, or killed) -/
  | procExit (s : PState) (i : Nat) (c : Uuid) :
      Step s { s with procs := upd s.procs i (sRemove (s.procs i) c) }
  /- ---- Pool.sync ---- -/
  /-- an instance not yet in `wp.workers` is listed: new worker, Unknown or Booting -/
  | poolAdd (s : PState) (i : Nat) (st : WState) (ib : IdleB) (it : IType)
      (h1 : s.wk i = none) (h2 : st = .unknown ∨ st = .booting) :
      Step s { s with
        wk := upd s.wk i (some { id := i, itype := it, state := st, idleB := ib, starting := [],
                                 running := [], updated := s.clock + 1, busy := s.clock + 1,
                                 probed := s.clock + 1 }),
        clock := s.clock + 1 }
  /-- `updateWorker` on a listed instance that is already a worker -/
  | poolTouch (s : PState) (i : Nat) (w : Worker) (h1 : s.wk i = some w) :
      Step s { s with wk := upd s.wk i (some { w with updated := s.clock + 1 }), clock := s.clock + 1 }
  /-- a worker whose instance is no longer listed is dropped (A2: the instance is gone) -/
  | poolRemove (s : PState) (i : Nat) (h1 : s.live i = false) :
      Step s { s with wk := upd s.wk i none, out := upd s.out i none, probe := upd s.probe i none }
  /- ---- probeAndUpdate ---- -/
  | probeBegin (s : PState) (i : Nat) (w : Worker)
      (h1 : s.wk i = some w) (h2 : s.probe i = none) (h3 : w.state ≠ .shutdown) :
      Step s { s with probe := upd s.probe i (some (w.updated, none)) }
  /-- `crunch-run --list` runs on the VM: the result is the process table at this instant -/
  | probeSample (s : PState) (i : Nat) (st : Nat)
      (h1 : s.probe i = some (st, none)) (h2 : s.live i = true) :
      Step s { s with probe := upd s.probe i (some (st, some (s.procs i))) }
  /-- the final critical section of `probeAndUpdate` (L2 `Worker.probeApply`); a successful run
  probe carries the sampled list -/
  | probeDone (s : PState) (i : Nat) (w : Worker) (p : Probe) (smp : Option (List Uuid))
      (h1 : s.wk i = some w) (h2 : s.probe i = some (p.stamp, smp))
      (h3 : p.ok = true → smp = some p.uuids) :
      Step s { s with
        wk := upd s.wk i (some (w.probeApply p (s.clock + 1)).1),
        probe := upd s.probe i none,
        probed := upd s.probed i (s.probed i || Worker.probeFresh w p (s.clock + 1)),
        clock := s.clock + 1 }
  /- ---- scheduler (what L1 proves about a pass) ---- -/
  /-- `KillContainer(c)` finds a runner -/
  | schedKillTrue (s : PState) (c : Uuid) (h1 : s.phase = .scheduling) (h2 : ∃ i, s.claims i c) :
      Step s { s with lastKillFalse := none }
  /-- `KillContainer(c)` answers false: no worker has `c` in `running` or `starting` -/
  | schedKillFalse (s : PState) (c : Uuid) (h1 : s.phase = .scheduling) (h2 : ∀ i, ¬ s.claims i c) :
      Step s { s with lastKillFalse := some c }
  /-- `StartContainer(c)` directly after `KillContainer(c) = false` (L1 `C14_start_only_locked`),
  accepted by an Idle worker in run mode (L2 `C14_start_needs_idle_run`) -/
  | schedStart (s : PState) (i : Nat) (c : Uuid) (w : Worker)
      (h1 : s.phase = .scheduling) (h2 : s.lastKillFalse = some c) (h3 : s.wk i = some w)
      (h4 : w.state = .idle) (h5 : w.idleB = .run) :
      Step s { s with wk := upd s.wk i (some (w.accept c)), out := upd s.out i (some (c, false)),
                      lastKillFalse := none }
  /-- any other scheduler call, or the end of a pass -/
  | schedOther (s : PState) : Step s { s with lastKillFalse := none }
  /- ---- start commands ---- -/
  /-- `crunch-run --detach c` is executed on the VM; a process appears if the instance exists and
  the command works (`b`) -/
  | startExec (s : PState) (i : Nat) (c : Uuid) (b : Bool) (h1 : s.out i = some (c, false)) :
      Step s { s with out := upd s.out i (some (c, true)),
                      procs := if s.live i && b then upd s.procs i (sInsert (s.procs i) c) else s.procs }
  /-- the completion closure of `startContainer` (a no-op if its runner has left `starting`) -/
  | startDone (s : PState) (i : Nat) (c : Uuid) (w : Worker)
      (h1 : s.out i = some (c, true)) (h2 : s.wk i = some w) :
      Step s { s with wk := upd s.wk i (some (w.startDone c (s.clock + 1))), out := upd s.out i none,
                      clock := s.clock + 1 }
  /- ---- other pool steps ---- -/
  /-- `onKilled(c)` → `closeRunner(c)`: `crunch-run --kill` reported that the process is gone -/
  | killed (s : PState) (i : Nat) (c : Uuid) (w : Worker) (h1 : s.wk i = some w) (h2 : c ∉ s.procs i) :
      Step s { s with wk := upd s.wk i (some (w.closeRunner c (s.clock + 1)).1), clock := s.clock + 1 }
  /-- `wkr.shutdown()` for whatever reason (idle timeout, drain, management API, quota) -/
  | shutdown (s : PState) (i : Nat) (w : Worker) (h1 : s.wk i = some w) :
      Step s { s with wk := upd s.wk i (some (w.shutdown (s.clock + 1))), clock := s.clock + 1 }
  /-- `SetIdleBehavior` -/
  | setIdle (s : PState) (i : Nat) (w : Worker) (b : IdleB) (t g : Bool) (h1 : s.wk i = some w) :
      Step s { s with wk := upd s.wk i (some (w.setIdleBehavior b t g (s.clock + 1))), clock := s.clock + 1 }
  /- ---- dispatcher process ---- -/
  /-- the dispatcher process dies and a new one starts: all pool and scheduler state is lost -/
  | restart (s : PState) :
      Step s { s with wk := fun _ => none, out := fun _ => none, probe := fun _ => none,
                      probed := fun _ => false, lastKillFalse := none, phase := .recovering }
  /-- `fixStaleLocks` returns and scheduling begins (**A1**) -/
  | recoveryDone (s : PState) (h1 : s.phase = .recovering) (hA1 : A1 s) :
      Step s { s with phase := .scheduling }

inductive Reach : PState → Prop where
  | init : Reach PState.init
  | step {s t : PState} : Reach s → Step s t → Reach t

/-! ### snapshots (for checking real executions against the invariant)

The end-to-end driver samples, at linearization points of the real pool (entry of
`worker.startContainer`, `worker.updateRunning`, `Pool.updateWorker`, all under `wp.mtx`), every
worker's bookkeeping together with the stub cloud's process table of its instance. `snapOK` is the
part of the L3 invariant that is visible in such a snapshot; `C14_snapshot_check_sound`
(Props/C14_L3.lean) shows that every reachable model state passes it. -/

structure SnapW where
  id : Nat
  state : WState
  starting : List Uuid
  running : List Uuid
  procs : List Uuid        -- live crunch-run processes on the worker's instance
deriving Repr, Inhabited

def SnapW.ok (w : SnapW) : Bool :=
  -- an Idle worker tracks nothing
  (w.state != .idle || (w.starting.isEmpty && w.running.isEmpty)) &&
  -- on an Idle/Running (hence probed) worker every process is claimed
  (!(w.state == .idle || w.state == .running) ||
    w.procs.all (fun c => w.running.contains c || w.starting.contains c))

def snapOK (ws : List SnapW) : Bool :=
  ws.all SnapW.ok &&
  -- mutual exclusion between the instances in the snapshot
  ws.all (fun a => ws.all (fun b => a.id == b.id || a.procs.all (fun c => !b.procs.contains c)))

def PState.snap (s : PState) (dom : List Nat) : List SnapW :=
  dom.filterMap (fun i => (s.wk i).map (fun w => ⟨i, w.state, w.starting, w.running, s.procs i⟩))

end ArvVerif.C14
