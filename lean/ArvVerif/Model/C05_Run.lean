/-
C05 model, part 4: one sweep of `Balancer.Run` around the per-block decision — how the inputs of
balanceBlock come into being and what leaves the process.

* sdk/go/arvados/keep_service.go `index()`: a timestamp below 1e12 on an index line is taken to be in
  seconds (old keepstore) and multiplied by 1e9 (`normMtime`, int64 arithmetic).
* balance.go `GetCurrentState`: a device mounted several times is indexed once and the entries are
  applied to every mount of the device (`equivMount`; `rep` names the mount whose index is used);
  `MinMtime` = now − BlobSignatureTTL; `addCollection`: replication_desired or, when null, the
  cluster default; the storage classes of the collection *as fetched* — `EachCollection`
  (collection.go) names the attributes it wants in `Select`, and an attribute that is not selected
  arrives empty (`selClasses`; finding F05b, repaired: the attribute is selected now).
* balance.go `Run`: CheckSanityLate (no collection / nothing desired / default replication < 1 ⇒
  nothing is sent), CommitPulls / CommitTrash only when the run options say so.
-/
import ArvVerif.Model.C05_BlockState
namespace ArvVerif.C05

/-- int64 wrap-around -/
def wrap64 (v : Int) : Int := (v + 9223372036854775808) % 18446744073709551616 - 9223372036854775808

/-- the threshold below which an index timestamp is taken to be in seconds -/
def secondsThreshold : Int := 1000000000000
def nsPerSecond : Int := 1000000000

/-- `if mtime < 1e12 { mtime = mtime * 1e9 }` -/
def normMtime (raw : Int) : Int :=
  if raw < secondsThreshold then wrap64 (raw * nsPerSecond) else raw

/-- one line of an index response: block (numbered) and the number after it -/
structure IdxEntry where
  blk : Nat
  raw : Int
  deriving DecidableEq, Repr

/-- a collection as stored by the API server -/
structure Coll where
  pdh : Nat
  repl : Option Nat          -- replication_desired (null = none)
  classes : List Class       -- storage_classes_desired
  blocks : List Nat          -- the block locators of the manifest, in order
  deriving DecidableEq, Repr

/-- the attributes `EachCollection` asks the API server for (`Select`; Tie.C05.tie_select) — the code
after the fix: commit for F05b -/
def selectedAttrs : List String :=
  ["uuid", "unsigned_manifest_text", "modified_at", "portable_data_hash", "replication_desired",
   "storage_classes_desired"]

/-- does keep-balance receive `storage_classes_desired`? -/
def selClassesNow : Bool := selectedAttrs.contains "storage_classes_desired"

/-- the select list before the fix: commit for F05b (kept for the regression theorems) -/
def selectedAttrsOld : List String :=
  ["uuid", "unsigned_manifest_text", "modified_at", "portable_data_hash", "replication_desired"]

def selClassesOld : Bool := selectedAttrsOld.contains "storage_classes_desired"

/-- `coll.StorageClassesDesired` as keep-balance receives it: empty unless the attribute is selected -/
def fetchedClasses (selClasses : Bool) (c : Coll) : List Class := if selClasses then c.classes else []

/-- `addCollection`, for one occurrence of a block in the manifest -/
def collOp (selClasses : Bool) (defRepl : Nat) (c : Coll) : BlockOp :=
  .coll (some c.pdh) (fetchedClasses selClasses c) (c.repl.getD defRepl)

/-- the replicas `GetCurrentState` records for block `b`: for every mount of the cleaned-up layout,
the entries for `b` in the index of the mount that represents its device -/
def delivered (idx : Nat → List IdxEntry) (rep : Nat → Nat) (mounts : List Mount) (b : Nat) : List Replica :=
  mounts.flatMap fun m =>
    (idx (rep m.id)).filterMap fun e => if e.blk = b then some ⟨m.id, m.srv, normMtime e.raw⟩ else none

/-- the references `GetCurrentState` records for block `b` -/
def collOps (selClasses : Bool) (defRepl : Nat) (colls : List Coll) (b : Nat) : List BlockOp :=
  colls.flatMap fun c => (c.blocks.filter (· == b)).map fun _ => collOp selClasses defRepl c

/-- one arrival order (index entries first); theorems are about any order -/
def blockOps (selClasses : Bool) (defRepl : Nat) (idx : Nat → List IdxEntry) (rep : Nat → Nat)
    (mounts : List Mount) (colls : List Coll) (b : Nat) : List BlockOp :=
  (delivered idx rep mounts b).map .rep ++ collOps selClasses defRepl colls b

structure RunCfg where
  commitPulls : Bool
  commitTrash : Bool
  safeState : Bool       -- the rendezvous state equals RunOptions.SafeRendezvousState
  defRepl : Nat          -- defaultCollectionReplication
  minMtime : Int         -- now − BlobSignatureTTL, nanoseconds
  selClasses : Bool      -- "storage_classes_desired" ∈ Select
  deriving Repr

inductive RunErr where
  | zeroCollections | zeroDesired | defaultRepl
  deriving DecidableEq, Repr

/-- CheckSanityLate -/
def sanityLate (cfg : RunCfg) (ncoll : Nat) (states : List BlockSt) : Option RunErr :=
  if ncoll = 0 then some .zeroCollections
  else if !(states.any fun bs => bs.desired.any fun p => decide (0 < p.2)) then some .zeroDesired
  else if cfg.defRepl < 1 then some .defaultRepl
  else none

/-- the environment balanceBlock works in for a gathered block -/
def envOf (rank : Nat → Nat) (devLess : Dev → Dev → Bool) (minMtime : Int) (bs : BlockSt) : Env :=
  { rank := rank, devLess := devLess, minMtime := minMtime, desiredMap := bs.desired }

/-- what the sweep sends: `none` = no PUT at all -/
def sentList (commit : Bool) (err : Option RunErr) (computed : List α) : Option (List α) :=
  if commit && err.isNone then some computed else none

/-- number of (empty) trash lists sent by ClearTrashLists before the state is read -/
def clearCount (cfg : RunCfg) (nsvc : Nat) : Nat := if cfg.commitTrash && !cfg.safeState then nsvc else 0

end ArvVerif.C05
