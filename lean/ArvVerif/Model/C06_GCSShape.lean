/-
C06(c') structural view of `GetCurrentState`'s control skeleton (fact kind `skeleton_in_func`):
instead of comparing the whole skeleton with a literal (which breaks on any rewrite of the
device-deduplication loops, of the logging, or of the order in which unrelated statements appear),
`shapeOf` cuts it into the parts the small-step model `Model/C06_GCS.lean` is about:

* `pro`    — what runs before the first goroutine is started (the discovery-document request and
             its guard must be in there; the rest — building the device table — is not constrained),
* `bodies` — the body of every `go func() { … }()` literal, in source order (index worker,
             collection processor, collection scanner),
* `epi`    — what runs outside the goroutine bodies from the first `go` on (loop end, `wg.Add`,
             `wg.Wait`, the final `len(errs)` test and the two returns).

`call len` tokens are dropped first: `len(…)` is used for logging as well as for the protocol tests,
and every protocol test `len(errs) > 0` is visible as an `if` condition anyway.
-/
namespace ArvVerif.C06.GCS

structure Shape where
  pro : List String
  bodies : List (List String)
  epi : List String
deriving Repr, DecidableEq

/-- a token that opens a block (`if … {`, `for {`, `func {`, `case {`); `} else {` closes one and opens one -/
def opensBlock (t : String) : Bool := t.endsWith "{" && !t.startsWith "}"

/-- `cur = none`: outside a goroutine body; `cur = some (depth, tokens so far, reversed)`: inside one. -/
def shapeGo : List String → Option (Nat × List String) → Shape → Shape
  | [], _, acc => { acc with pro := acc.pro.reverse, bodies := acc.bodies.reverse, epi := acc.epi.reverse }
  | "go" :: "func {" :: rest, none, acc => shapeGo rest (some (0, [])) acc
  | t :: rest, none, acc =>
    if acc.bodies.isEmpty then shapeGo rest none { acc with pro := t :: acc.pro }
    else shapeGo rest none { acc with epi := t :: acc.epi }
  | t :: rest, some (d, cur), acc =>
    if t == "}" then
      match d with
      | 0 => shapeGo rest none { acc with bodies := cur.reverse :: acc.bodies }
      | d + 1 => shapeGo rest (some (d, t :: cur)) acc
    else if opensBlock t then shapeGo rest (some (d + 1, t :: cur)) acc
    else shapeGo rest (some (d, t :: cur)) acc

def shapeOf (skel : List String) : Shape :=
  shapeGo (skel.filter (· != "call len")) none ⟨[], [], []⟩

/-- `pat` occurs as a contiguous block -/
def hasBlock (pat : List String) : List String → Bool
  | [] => pat.isEmpty
  | t :: rest => pat.isPrefixOf (t :: rest) || hasBlock pat rest

/-- index worker: fetch the index; on error offer it to `errs` (non-blocking select), cancel, return;
if some other goroutine already failed return; otherwise add the replicas (the loop) -/
def workerBody : List String :=
  ["defer", "call wg.Done",
   "call mounts[0].KeepService.IndexMount => idx,err",
   "if err != nil {", "case {", "}", "case {", "}", "call cancel", "return", "}",
   "if len(errs) > 0 {", "return", "}",
   "for {", "}"]

/-- collection processor: for every collection from `collQ`: `addCollection`; on its error or when some
other goroutine failed: offer the error, drain `collQ` (the empty `for`), cancel, return -/
def processorBody : List String :=
  ["defer", "call wg.Done",
   "for {",
   "call bal.addCollection => err",
   "if err != nil || len(errs) > 0 {", "case {", "}", "case {", "}", "for {", "}", "call cancel", "return", "}",
   "}"]

/-- collection scanner: `EachCollection` with a callback that sends to `collQ` and gives up when some
other goroutine failed, and a progress function; then `close(collQ)`; on error offer it and cancel -/
def scannerBody : List String :=
  ["defer", "call wg.Done",
   "call EachCollection => err",
   "func {", "if len(errs) > 0 {", "return", "}", "return", "}",
   "func {", "}",
   "call close",
   "if err != nil {", "case {", "}", "case {", "}", "call cancel", "}"]

/-- outside the goroutines, from the first `go` on: end of the per-device loop, the two `wg.Add`,
`wg.Wait`, `if len(errs) > 0 { return <-errs }`, `return nil` -/
def epilogue : List String :=
  ["}", "call wg.Add", "call wg.Add", "call wg.Wait", "if len(errs) > 0 {", "return", "}", "return"]

/-- the discovery-document request with its guard -/
def ddGuard : List String := ["call c.DiscoveryDocument => dd,err", "if err != nil {", "return", "}"]

end ArvVerif.C06.GCS
