/-
C18 model: federated collection fetches (lib/controller/federation/conn.go `rewriteManifest`,
`Conn.CollectionGet`, `tryLocalThenRemotes`; sdk/go/arvados/collection.go `PortableDataHash`;
legacy lib/controller/fed_collections.go `rewriteSignatures`, `fetchRemoteCollectionByPDH`).

Strings are `List Char` (one `Char` per byte; the driver maps bytes 0..255 to code points 0..255).
`md5 : Str → Str` (32 hex characters) is a parameter everywhere.

Quirks of the code that the model keeps on purpose:
* `PortableDataHash`'s regexps use `[^ ]*`, which also matches `\n`: its unit is the
  *space*-delimited token, so a block locator that ends a line forms one token with the newline
  and the stream name that follow it (`rewriteManifest` had the same quirk until fix d80c6cd; it
  now stops at the newline);
* `PortableDataHash` cuts a token that begins `␠[0-9a-f]{32}+digits` down to that prefix whatever
  follows the digits (hints, junk, a newline and the next stream name);
* `rewriteManifest` replaces `+A` in every token that begins `␠[0-9a-f]{32}+` (size not required);
* by-UUID requests are not hash-checked, and are rewritten whenever the UUID prefix differs from
  the cluster id (even when the request was served by the local backend);
* the local answer of a by-PDH request is hash-checked too (mismatch ⇒ 502, no fan-out);
* `tryLocalThenRemotes` has no timeout: with a hanging remote and no valid answer it returns only
  when the client's context ends (then 502);
* legacy `rewriteSignatures` uses bufio.ScanLines (final newline optional, a `\r` before `\n` is
  dropped, every output line ends in `\n`), strips only locators matching `SignedLocatorRe`.
-/
namespace ArvVerif.C18

abbrev Str := List Char

/-! ## generic splitting -/

/-- `strings.Split(s, sep)` for a one-byte separator: never empty, no token contains `sep`. -/
def splitOn (sep : Char) : Str → List Str
  | [] => [[]]
  | c :: cs =>
    if c = sep then [] :: splitOn sep cs
    else match splitOn sep cs with
      | [] => [[c]]
      | t :: ts => (c :: t) :: ts

/-- `strings.Join(ts, sep)`. -/
def joinWith (sep : Char) : List Str → Str
  | [] => []
  | [t] => t
  | t :: ts => t ++ sep :: joinWith sep ts

/-- apply `f` to every element but the first -/
def mapTail {α : Type} (f : α → α) : List α → List α
  | [] => []
  | a :: as => a :: as.map f

/-! ## character classes -/

def isDigit (c : Char) : Bool := decide (48 ≤ c.toNat) && decide (c.toNat ≤ 57)
def isLowerHex (c : Char) : Bool := isDigit c || (decide (97 ≤ c.toNat) && decide (c.toNat ≤ 102))
def isXDigit (c : Char) : Bool := isLowerHex c || (decide (65 ≤ c.toNat) && decide (c.toNat ≤ 70))

/-! ## rewriteManifest (conn.go:183-187) -/

/-- The token (without its leading space) begins `[0-9a-f]{32}\+`. -/
def locPrefix (t : Str) : Bool :=
  (t.take 32).length == 32 && (t.take 32).all isLowerHex && (t.drop 32).head? == some '+'

/-- `strings.Replace(tok, "+A", "+R"+id+"-", -1)`. -/
def replaceSig (id : Str) : Str → Str
  | [] => []
  | [c] => [c]
  | c :: d :: rest =>
    if c = '+' ∧ d = 'A' then '+' :: 'R' :: (id ++ '-' :: replaceSig id rest)
    else c :: replaceSig id (d :: rest)

def notNL (c : Char) : Bool := c != '\n'

/-- the part of a space-delimited token up to its first newline / from its first newline on -/
def linePart (t : Str) : Str := t.takeWhile notNL
def restPart (t : Str) : Str := t.dropWhile notNL

/-- one regexp match: `[^ \n]*` stops at the first newline, so only the part of the token before
its first newline is subject to the replacement (fix d80c6cd; before it the whole token was) -/
def rewriteTok (id : Str) (t : Str) : Str :=
  if locPrefix t then replaceSig id (linePart t) ++ restPart t else t

/-- `regexp(" [0-9a-f]{32}\+[^ \n]*").ReplaceAllStringFunc(mt, replace +A)`: a match starts at a
space and runs to the next space or newline, so the matches are exactly the line parts of the
space-delimited tokens after the first that begin with 32 lowercase hex digits and a `+` (what
follows a newline inside such a token contains no space, so no further match starts there). -/
def rewriteManifest (mt id : Str) : Str :=
  joinWith ' ' (mapTail (rewriteTok id) (splitOn ' ' mt))

/-! ## PortableDataHash (collection.go:99-119) -/

/-- length of the `[0-9a-f]{32}\+\d+` prefix of a token, if it has one (blkRe without the space) -/
def sizedLen (t : Str) : Option Nat :=
  if locPrefix t then
    let d := ((t.drop 33).takeWhile isDigit).length
    if d = 0 then none else some (33 + d)
  else none

def stripTok (t : Str) : Str :=
  match sizedLen t with
  | some n => t.take n
  | none => t

/-- what is fed to MD5: tokRe ` ?[^ ]*` tiles the text into the first token and the
space-prefixed later tokens; blkRe needs the leading space, so the first token is never cut -/
def pdhText (mt : Str) : Str := joinWith ' ' (mapTail stripTok (splitOn ' ' mt))

def natToDec (n : Nat) : Str := Nat.toDigits 10 n

def pdh (md5 : Str → Str) (mt : Str) : Str :=
  md5 (pdhText mt) ++ '+' :: natToDec (pdhText mt).length

/-- the acceptance test of CollectionGet (conn.go:268): equal, or the request is pdh+"+"+hints -/
def pdhOK (md5 : Str → Str) (req mt : Str) : Bool :=
  pdh md5 mt == req || (pdh md5 mt ++ ['+']).isPrefixOf req

/-! ## Conn.CollectionGet / tryLocalThenRemotes -/

structure Coll where
  uuid : Str
  manifest : Str
deriving DecidableEq, Repr

/-- what a backend's CollectionGet does -/
inductive Answer where
  | coll (c : Coll)
  | err (status : Nat)
  | hang                     -- returns ctx.Err() once the context is cancelled
deriving DecidableEq, Repr

/-- result of the closure `fn` for one backend -/
inductive Outcome where
  | accept (c : Coll)
  | fail (status : Nat)
deriving DecidableEq, Repr

inductive Result where
  | ok (c : Coll)
  | error (status : Nat)
deriving DecidableEq, Repr

/-- errStatus of `context.Canceled` (not an HTTPStatus-er) -/
def cancelledStatus : Nat := 500

/-- The closure passed to tryLocalThenRemotes (conn.go:258-283) for the backend `rid`
(`[]` = local). `none`: the backend hangs, nothing is delivered until cancellation. -/
def fnOutcome (md5 : Str → Str) (req rid : Str) : Answer → Option Outcome
  | .coll c =>
    if pdhOK md5 req c.manifest then
      some (.accept (if rid = [] then c else { c with manifest := rewriteManifest c.manifest rid }))
    else some (.fail 502)
  | .err s => some (.fail s)
  | .hang => none

def firstAccept : List Outcome → Option Coll
  | [] => none
  | .accept c :: _ => some c
  | .fail _ :: rest => firstAccept rest

def isFail404 : Outcome → Bool
  | .fail s => s == 404
  | .accept _ => false

/-- The receive loop (conn.go:159-172) over the sequence of delivered outcomes; `pending` remotes
never answer before the client gives up and then deliver `context.Canceled`. -/
def recvLoop (outs : List Outcome) (pending : Nat) : Result :=
  match firstAccept outs with
  | some c => .ok c
  | none =>
    if pending = 0 ∧ outs.all isFail404 then .error 404 else .error 502

/-- the remotes' outcomes in completion order (hanging ones deliver nothing) -/
def delivered (md5 : Str → Str) (req : Str) (order : List (Str × Answer)) : List Outcome :=
  order.filterMap (fun p => fnOutcome md5 req p.1 p.2)

def lookup (id : Str) : List (Str × Answer) → Option Answer
  | [] => none
  | (k, a) :: rest => if k = id then some a else lookup id rest

/-- chooseBackend for a 27-character UUID: local for the own prefix and for unknown prefixes -/
def chooseBackend (clusterID : Str) (loc : Answer) (remotes : List (Str × Answer)) (uuid : Str) : Answer :=
  if uuid.take 5 = clusterID then loc
  else match lookup (uuid.take 5) remotes with
    | some a => a
    | none => loc

structure Script where
  clusterID : Str
  req : Str                        -- options.UUID
  fwd : Str                        -- options.ForwardedFor
  loc : Answer
  remotes : List (Str × Answer)    -- conn.remotes (a map: ids distinct)
  order : List (Str × Answer)      -- the remotes in the order their calls complete (hanging ones,
                                   -- if listed, deliver nothing)
deriving Repr

/-- by-UUID branch (conn.go:248-255): no hash check; rewritten iff the prefix is not ours -/
def getByUUID (s : Script) : Result :=
  match chooseBackend s.clusterID s.loc s.remotes s.req with
  | .coll c =>
    .ok (if s.req.take 5 ≠ s.clusterID then { c with manifest := rewriteManifest c.manifest (s.req.take 5) } else c)
  | .err st => .error st
  | .hang => .error cancelledStatus

/-- by-PDH branch (conn.go:256-288 with tryLocalThenRemotes 140-173) -/
def getByPDH (md5 : Str → Str) (s : Script) : Result :=
  match fnOutcome md5 s.req [] s.loc with
  | none => .error cancelledStatus               -- local hangs until the client gives up
  | some (.accept c) => .ok c
  | some (.fail st) =>
    if st ≠ 404 ∨ s.fwd ≠ [] then .error st
    else
      let outs := delivered md5 s.req s.order
      recvLoop outs (s.remotes.length - outs.length)

def collectionGet (md5 : Str → Str) (s : Script) : Result :=
  if s.req.length = 27 then getByUUID s else getByPDH md5 s

/-- A sequence of requests served by one long-lived `Conn` (the controller creates a single
federation.Conn and uses it for every request): `Conn` holds only the cluster configuration and
its backends, `CollectionGet` keeps no state, so every request is answered as if it were the
first — the k-th result is `collectionGet` of the k-th script. -/
def collectionGetSeq (md5 : Str → Str) (history : List Script) : List Result :=
  history.map (collectionGet md5)

/-! ### answers that arrive together

When several remotes answer at (nearly) the same moment, the order in which their closures reach
the hash test, the `first <- c` send and `errchan` is up to the scheduler: any permutation of the
answering remotes can be the completion order. The closure shares nothing with the other closures
or with the caller except the one-slot channel `first` (which carries the *already rewritten*
collection), so the set of possible results is the set of `collectionGet` results over the
permutations of `order`. -/

/-- all ways to insert `a` into a list -/
def insertions {α : Type} (a : α) : List α → List (List α)
  | [] => [[a]]
  | b :: bs => (a :: b :: bs) :: (insertions a bs).map (b :: ·)

/-- all permutations of a list (n! of them, with repetitions if elements repeat) -/
def perms {α : Type} : List α → List (List α)
  | [] => [[]]
  | a :: as => (perms as).flatMap (insertions a)

/-- every result the call can have when the answering remotes complete in an unspecified order -/
def collectionGetAnyOrder (md5 : Str → Str) (s : Script) : List Result :=
  (perms s.order).map (fun o => collectionGet md5 { s with order := o })

/-- Did the client have to give up (cancel its context) for the call to return? -/
def needsClientCancel (md5 : Str → Str) (s : Script) : Bool :=
  if s.req.length = 27 then
    decide (chooseBackend s.clusterID s.loc s.remotes s.req = .hang)
  else match fnOutcome md5 s.req [] s.loc with
    | none => true
    | some (.accept _) => false
    | some (.fail st) =>
      if st ≠ 404 ∨ s.fwd ≠ [] then false
      else (firstAccept (delivered md5 s.req s.order)).isNone
        && decide ((delivered md5 s.req s.order).length < s.remotes.length)

/-- Which backends see a CollectionGet call: `true` = the fan-out to all remotes happens. -/
def fansOut (md5 : Str → Str) (s : Script) : Bool :=
  if s.req.length = 27 then false
  else match fnOutcome md5 s.req [] s.loc with
    | some (.fail st) => decide (st = 404) && decide (s.fwd = [])
    | _ => false

/-! ## legacy path: rewriteSignatures (fed_collections.go:25-131) -/

def dropCR (l : Str) : Str :=
  match l.getLast? with
  | some '\r' => l.dropLast
  | _ => l

/-- bufio.ScanLines over the whole text -/
def scanLines (s : Str) : List Str :=
  let parts := splitOn '\n' s
  let ls := if parts.getLast? = some [] then parts.dropLast else parts
  ls.map dropCR

def isHintChar (c : Char) : Bool :=
  isDigit c || (decide (65 ≤ c.toNat) && decide (c.toNat ≤ 90)) || (decide (97 ≤ c.toNat) && decide (c.toNat ≤ 122))
    || c == '@' || c == '_' || c == '-'

/-- `[B-Z][A-Za-z0-9@_-]*` (a `+`-separated part) -/
def isHintPart : Str → Bool
  | [] => false
  | c :: rest => decide (66 ≤ c.toNat) && decide (c.toNat ≤ 90) && rest.all isHintChar

/-- `A[[:xdigit:]]{40}@[[:xdigit:]]{8}` (a `+`-separated part) -/
def isSigPart (p : Str) : Bool :=
  p.length == 50 && p.head? == some 'A' && ((p.drop 1).take 40).all isXDigit
    && (p.drop 41).head? == some '@' && (p.drop 42).all isXDigit

structure Signed where
  hash : Str
  size : Option Str          -- digits of m[2]
  before : List Str          -- hints of m[3]
  sig : Str                  -- the part `A<sig>@<exp>`
  after : List Str           -- hints of m[8]
deriving Repr, DecidableEq

/-- optional `(\+[0-9]+)` part: a non-empty all-digit part directly after the hash -/
def splitSize : List Str → Option Str × List Str
  | p :: r => if p ≠ [] ∧ p.all isDigit = true then (some p, r) else (none, p :: r)
  | [] => (none, [])

/-- hints* signature hints* -/
def parseHints (h : Str) (size : Option Str) (hs : List Str) : Option Signed :=
  match hs.dropWhile isHintPart with
  | s :: after =>
    if isSigPart s && after.all isHintPart then
      some { hash := h, size := size, before := hs.takeWhile isHintPart, sig := s, after := after }
    else none
  | [] => none

/-- SignedLocatorRe as a parser over the `+`-separated parts of a token -/
def parseSigned (t : Str) : Option Signed :=
  match splitOn '+' t with
  | [] => none
  | h :: ps =>
    if h.length == 32 && h.all isXDigit then parseHints h (splitSize ps).1 (splitSize ps).2
    else none

def Signed.hashSize (p : Signed) : Str :=
  match p.size with
  | some d => p.hash ++ '+' :: d
  | none => p.hash

/-- `"%s%s%s+R%s-%s%s", m[1], m[2], m[3], clusterID, m[5][2:], m[8]` -/
def Signed.rewritten (p : Signed) (id : Str) : Str :=
  joinWith '+' ((p.hash :: (match p.size with | some d => [d] | none => [])) ++ p.before
    ++ [('R' :: id) ++ '-' :: p.sig.drop 1] ++ p.after)

/-- what goes to the output buffer for one token after the stream name -/
def legacyOutTok (id : Str) (t : Str) : Str :=
  match parseSigned t with
  | some p => p.rewritten id
  | none => t

/-- what goes to the hasher for one token after the stream name -/
def legacyHashTok (t : Str) : Str :=
  match parseSigned t with
  | some p => p.hashSize
  | none => t

def lineOf (f : Str → Str) (toks : List Str) : Str :=
  joinWith ' ' (mapTail f toks) ++ ['\n']

inductive LegacyErr where
  | invalidStream | pdhField | hash
deriving DecidableEq, Repr

/-- the scan loop: `none` when some line has fewer than 3 tokens -/
def legacyScan (id : Str) : List Str → Option (Str × Str)      -- (output, hashed)
  | [] => some ([], [])
  | l :: rest =>
    let toks := splitOn ' ' l
    if toks.length < 3 then none
    else match legacyScan id rest with
      | none => none
      | some (o, h) => some (lineOf (legacyOutTok id) toks ++ o, lineOf legacyHashTok toks ++ h)

/-- rewriteSignatures on a decoded 200 response: record = (manifest_text, portable_data_hash) -/
def rewriteSignatures (md5 : Str → Str) (id expect mt pdhField : Str) : Except LegacyErr Str :=
  match legacyScan id (scanLines mt) with
  | none => .error .invalidStream
  | some (o, h) =>
    let expect' := if expect = [] then pdhField else expect
    if expect ≠ [] ∧ expect ≠ pdhField then .error .pdhField
    else if md5 h ++ '+' :: natToDec h.length ≠ expect' then .error .hash
    else .ok o

/-! ## legacy fan-out: fetchRemoteCollectionByPDH (fed_collections.go:186-312) -/

/-- a remote's reply as the goroutine sees it -/
inductive LegacyReply where
  | record (mt pdhField : Str)     -- 200 with a decodable record
  | status (code : Nat)            -- any other status
  | reqErr                         -- transport error
deriving DecidableEq, Repr

inductive LegacyOutcome where
  | success (mt : Str)
  | http (code : Nat)              -- HTTPError{code}
  | other                          -- any other error
deriving DecidableEq, Repr

def legacyOutcome (md5 : Str → Str) (pdhReq : Str) (id : Str) : LegacyReply → LegacyOutcome
  | .record mt f =>
    match rewriteSignatures md5 id pdhReq mt f with
    | .ok o => .success o
    | .error _ => .other
  | .status c => if c = 200 then .other else .http c
  | .reqErr => .other

def legacyFirst : List LegacyOutcome → Option Str
  | [] => none
  | .success m :: _ => some m
  | _ :: rest => legacyFirst rest

def legacyIs404 : LegacyOutcome → Bool
  | .http c => c == 404
  | _ => false

/-- result of the fan-out after a local 404: the first success in completion order, else 404 when
every collected error is an HTTP 404, else 502 -/
def legacyFanOut (md5 : Str → Str) (pdhReq : Str) (order : List (Str × LegacyReply)) : Except Nat Str :=
  let outs := order.map (fun p => legacyOutcome md5 pdhReq p.1 p.2)
  match legacyFirst outs with
  | some m => .ok m
  | none => if outs.all legacyIs404 then .error 404 else .error 502


/-! ## the whole delegate fetchRemoteCollectionByPDH (fed_collections.go:186-312) -/

/-- what the local Rails API does with the proxied request -/
inductive LegacyLocal where
  | reply (r : LegacyReply)
  | hang                           -- no answer until the client gives up
deriving DecidableEq, Repr

inductive LegacyFetch where
  | unhandled                      -- the delegate declines: path is not a by-PDH collection path
  | localRecord (mt field : Str)   -- local 200: forwarded verbatim, not hash-checked
  | localStatus (code : Nat)       -- any other local status except 404: forwarded verbatim
  | ok (mt : Str)                  -- a remote's response that rewriteSignatures accepted
  | error (code : Nat)
deriving DecidableEq, Repr

/-- `collectionsByPDHRe` with one repetition of its group: `[0-9a-fA-F]{32}\+[0-9]+` to the end of
the path (the regexp allows the group to repeat and then takes the last repetition; requests of
that shape are outside the model and the generator) -/
def isPDHPath (req : Str) : Bool :=
  (req.take 32).length == 32 && (req.take 32).all isXDigit && (req.drop 32).head? == some '+'
    && !(req.drop 33).isEmpty && (req.drop 33).all isDigit

/-- local first (`filterLocalClusterResponse`: error ⇒ 502, 404 ⇒ search the federation, anything
else is forwarded as it is); then the fan-out. `order` lists the remotes whose requests complete,
in completion order; the others hang until the client gives up, after which only the errors
collected so far count. -/
def legacyFetchByPDH (md5 : Str → Str) (req : Str) (loc : LegacyLocal)
    (order : List (Str × LegacyReply)) : LegacyFetch :=
  if !isPDHPath req then .unhandled else
  match loc with
  | .hang => .error 502
  | .reply .reqErr => .error 502
  | .reply (.record mt f) => .localRecord mt f
  | .reply (.status c) =>
    if c = 404 then
      match legacyFanOut md5 req order with
      | .ok m => .ok m
      | .error e => .error e
    else .localStatus c

/-- Does the client have to give up for the delegate to return? -/
def legacyNeedsClientCancel (md5 : Str → Str) (req : Str) (loc : LegacyLocal)
    (nRemotes : Nat) (order : List (Str × LegacyReply)) : Bool :=
  isPDHPath req &&
  match loc with
  | .hang => true
  | .reply (.status c) =>
    decide (c = 404) && decide (order.length < nRemotes) &&
      (match legacyFanOut md5 req order with | .ok _ => false | .error _ => true)
  | _ => false

/-! ## the legacy by-UUID delegate fetchRemoteCollectionByUUID (fed_collections.go:157-184) -/

inductive LegacyUFetch where
  | unhandled                      -- the delegate declines (not GET, no uuid, own cluster's uuid)
  | ok (mt : Str)                  -- the remote's 200 record, accepted by rewriteSignatures
  | status (code : Nat)            -- the remote's non-200 answer, forwarded verbatim
  | error (code : Nat)
deriving DecidableEq, Repr

/-- `uuid` is what `collectionsRe` captured: empty or a 27-character collection UUID. `peer` is the
`RemoteClusters` entry for the UUID's prefix (`none`: no such entry ⇒ HTTPError 404 from
`remoteClusterRequest`). The 200 record goes through `rewriteSignatures` with the prefix as cluster
id and **no** expected hash; whatever it refuses becomes 502. -/
def legacyFetchByUUID (md5 : Str → Str) (clusterID uuid : Str) (isGet : Bool)
    (peer : Option LegacyLocal) : LegacyUFetch :=
  if !isGet || uuid.isEmpty then .unhandled
  else if uuid.take 5 = clusterID then .unhandled
  else match peer with
    | none => .error 404
    | some .hang => .error 502
    | some (.reply .reqErr) => .error 502
    | some (.reply (.status c)) => if c = 200 then .error 502 else .status c
    | some (.reply (.record mt f)) =>
      match rewriteSignatures md5 (uuid.take 5) [] mt f with
      | .ok o => .ok o
      | .error _ => .error 502

/-- the client has to give up iff the delegate waits for a hanging remote -/
def legacyUNeedsClientCancel (clusterID uuid : Str) (isGet : Bool) (peer : Option LegacyLocal) : Bool :=
  isGet && !uuid.isEmpty && decide (uuid.take 5 ≠ clusterID) && decide (peer = some .hang)

end ArvVerif.C18
