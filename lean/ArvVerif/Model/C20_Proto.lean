/-
C20 model, part 2: the concurrent part of `splitListRequest` (list.go:215-297) as a transition system.

  ctx, cancel := context.WithCancel(ctx)
  errs := make(chan error, len(todoByRemote))
  for clusterID, todo := range todoByRemote { go func(...) { ...exactly one send to errs... }(...) }
  for range todoByRemote { if err := <-errs; err != nil && firstErr == nil { firstErr = err; cancel() } }
  return firstErr

* One goroutine per group. Its local state is the phase of the loop it is in (`GPhase`), what it has
  handed to the merge callback so far (`Acc`) and, for the analysis only, the index of the call at
  which it saw the cancelled context (`sawCancel`).
* One loop iteration is two atomic steps: `prepare` (the goroutine writes the request for its batch
  into its variable `remoteOpts`: `remoteOpts.Filters = [uuid in batch]`) and `call` (it reads that
  variable, calls `fn`, and processes the answer). Variables live in a store `vars : slot → Opts`; each
  goroutine has a slot. In the code `remoteOpts` is declared inside the goroutine, i.e. the slots are
  pairwise distinct; the model allows any allocation so that the theorem can say what distinctness buys
  (and the counter-instance what a shared variable costs).
* A call made while the context is cancelled *may* see the cancellation (`callCancelled`: the backend
  honours its context and fails, status-less) or may not (`call`: the answer had been on its way, or
  the backend ignores the context). Nothing else is assumed about timing.
* `errs` is a FIFO buffer; the collector receives one value at a time; the first non-nil error becomes
  `firstErr` and cancels the context. Every interleaving of goroutine steps and receives is a run.
-/
import ArvVerif.Model.C20
namespace ArvVerif.C20

/-- what a goroutine has handed to the merge callback / asked its backend so far, in call order -/
structure Acc where
  pages : List (List Obj)
  log : List (Opts × Resp)
deriving DecidableEq, Repr

def Acc.add (a : Acc) (pg : List (List Obj)) (req : Opts) (resp : Resp) : Acc :=
  ⟨a.pages ++ pg, a.log ++ [(req, resp)]⟩

inductive GPhase where
  | loop (todo : List Uuid) (idx : Nat)       -- at `for len(todo) > 0` (idx = 0: before the backend test too)
  | prepared (todo : List Uuid) (idx : Nat)   -- `remoteOpts.Filters` written, `fn` not yet called
  | finished (stop : Stop)                    -- has sent its one value to `errs`
deriving DecidableEq, Repr

structure GState where
  c : ClusterId
  todo0 : List Uuid
  slot : ClusterId                 -- which variable holds this goroutine's `remoteOpts`
  acc : Acc
  phase : GPhase
  sawCancel : Option Nat
deriving DecidableEq, Repr

/-- a value on `errs`: `none` = nil, `some s` = an error with http status `s` -/
abbrev Sent := Option Nat

/-- what the goroutine does with the answer to call `idx` (list.go:251-280) -/
def afterCall (g : GState) (todo : List Uuid) (idx : Nat) (req : Opts) (resp : Resp) : GState × Option Sent :=
  match resp with
  | .error _ => ({ g with acc := g.acc.add [] req resp, phase := .finished (.failed 502) }, some (some 502))
  | .page items =>
    if items = [] then
      ({ g with acc := g.acc.add [[]] req (.page []), phase := .finished .done }, some none)
    else if accepts todo (pageUuids items) = false then
      ({ g with acc := g.acc.add [items] req (.page items), phase := .finished (.failed 502) }, some (some 502))
    else if (remaining todo items).length = todo.length then
      ({ g with acc := g.acc.add [items] req (.page items), phase := .finished (.failed 502) }, some (some 502))
    else
      ({ g with acc := g.acc.add [items] req (.page items), phase := .loop (remaining todo items) (idx + 1) }, none)

def setVar (vars : ClusterId → Opts) (s : ClusterId) (v : Opts) : ClusterId → Opts :=
  fun k => if k = s then v else vars k

/-- One atomic step of a goroutine: `GStep cfg ropts vars cancelled g g' vars' sent`. -/
inductive GStep (cfg : Cfg) (ropts : Opts) (vars : ClusterId → Opts) (cancelled : Bool) :
    GState → GState → (ClusterId → Opts) → Option Sent → Prop where
  /-- list.go:230-233: no proxy for this cluster -/
  | noBackend (g : GState) (todo : List Uuid) (idx : Nat) :
      g.phase = .loop todo idx → backendFor cfg g.c = none →
      GStep cfg ropts vars cancelled g { g with phase := .finished (.failed 404) } vars (some (some 404))
  /-- `len(todo) == 0`: leave the loop, `errs <- nil` -/
  | exit (g : GState) (idx : Nat) (B : Backend) :
      g.phase = .loop [] idx → backendFor cfg g.c = some B →
      GStep cfg ropts vars cancelled g { g with phase := .finished .done } vars (some none)
  /-- list.go:242-249: (re)build the batch, write `remoteOpts.Filters` -/
  | prepare (g : GState) (todo : List Uuid) (idx : Nat) (B : Backend) :
      g.phase = .loop todo idx → todo ≠ [] → backendFor cfg g.c = some B →
      GStep cfg ropts vars cancelled g { g with phase := .prepared todo idx }
        (setVar vars g.slot (batchReq ropts todo)) none
  /-- list.go:251-280: `fn(ctx, clusterID, backend, remoteOpts)` answered by the backend -/
  | call (g : GState) (todo : List Uuid) (idx : Nat) (B : Backend) :
      g.phase = .prepared todo idx → backendFor cfg g.c = some B →
      GStep cfg ropts vars cancelled g (afterCall g todo idx (vars g.slot) (B (vars g.slot) idx)).1 vars
        (afterCall g todo idx (vars g.slot) (B (vars g.slot) idx)).2
  /-- the same call failing because the context has been cancelled -/
  | callCancelled (g : GState) (todo : List Uuid) (idx : Nat) :
      g.phase = .prepared todo idx → cancelled = true →
      GStep cfg ropts vars cancelled g
        { g with acc := g.acc.add [] (vars g.slot) (.error 0), phase := .finished (.failed 502),
                 sawCancel := some idx } vars (some (some 502))

structure PState where
  gs : List GState
  vars : ClusterId → Opts
  chan : List Sent              -- `errs`, oldest first
  received : Nat                -- iterations of the collector loop done
  firstErr : Option Nat
  cancelled : Bool              -- `cancel()` has been called

/-- the collector's `if err != nil && firstErr == nil { firstErr = err; cancel() }` -/
def collect (v : Sent) (s : PState) : PState :=
  match v, s.firstErr with
  | some e, none => { s with firstErr := some e, cancelled := true }
  | _, _ => s

inductive PStep (cfg : Cfg) (ropts : Opts) : PState → PState → Prop where
  | gor (s : PState) (pre post : List GState) (g g' : GState) (vars' : ClusterId → Opts) (sent : Option Sent) :
      s.gs = pre ++ g :: post → GStep cfg ropts s.vars s.cancelled g g' vars' sent →
      PStep cfg ropts s { s with gs := pre ++ g' :: post, vars := vars', chan := s.chan ++ sent.toList }
  | recv (s : PState) (v : Sent) (rest : List Sent) :
      s.chan = v :: rest → s.received < s.gs.length →
      PStep cfg ropts s { collect v s with chan := rest, received := s.received + 1 }

inductive PSteps (cfg : Cfg) (ropts : Opts) : PState → PState → Prop where
  | refl (s : PState) : PSteps cfg ropts s s
  | tail (s t u : PState) : PSteps cfg ropts s t → PStep cfg ropts t u → PSteps cfg ropts s u

/-- `slotOf` = how `remoteOpts` variables are allocated to the goroutines; `id` = one per goroutine
(the code), a constant function = one shared variable. -/
def initG (slotOf : ClusterId → ClusterId) (g : ClusterId × List Uuid) : GState :=
  ⟨g.1, g.2, slotOf g.1, ⟨[], []⟩, .loop g.2 0, none⟩

def initP (slotOf : ClusterId → ClusterId) (o : Opts) (gs : List (ClusterId × List Uuid)) : PState :=
  ⟨gs.map (initG slotOf), fun _ => o, [], 0, none, false⟩

def GState.isFinished (g : GState) : Bool :=
  match g.phase with
  | .finished _ => true
  | _ => false

/-- `splitListRequest` has returned: every goroutine has sent, the collector has received them all -/
def PState.complete (s : PState) : Prop :=
  (∀ g ∈ s.gs, g.isFinished = true) ∧ s.received = s.gs.length

/-- what the goroutine did, as a `CRes` (for a finished goroutine) -/
def GState.result (g : GState) : CRes :=
  ⟨g.acc.pages, g.acc.log, match g.phase with | .finished st => st | _ => .starved⟩

/-- the cancellation schedule a run realised: the call index at which the goroutine of cluster `c`
saw the cancelled context -/
def PState.cutOf (s : PState) (c : ClusterId) : Option Nat :=
  (s.gs.find? (fun g => decide (g.c = c))).bind (·.sawCancel)

/-- termination measure: steps a goroutine can still take -/
def GState.measure (g : GState) : Nat :=
  match g.phase with
  | .loop todo _ => 2 * todo.length + 2
  | .prepared todo _ => 2 * todo.length + 1
  | .finished _ => 0

def PState.measure (s : PState) : Nat :=
  (s.gs.map GState.measure).sum + (s.gs.length - s.received)

end ArvVerif.C20
