/-
C16 model, part B2: the part of lib/dispatchcloud/worker/pool.go + throttle.go that answers a
runQueue pass — `Pool.AtQuota`, `Pool.Create`, `Pool.KillContainer`, `Pool.StartContainer` — with
its clock.

* `now` is `time.Now()`, `atQuotaUntil` the pool field of that name, `thrErr` / `thrUntil` the
  `throttleCreate` throttle (`thr.err != nil`, `thr.until`), `creating` = `len(wp.creating)`,
  `maxOps` = `maxConcurrentInstanceCreateOps`, `idle t` the number of workers of type `t` in
  `StateIdle` with `IdleBehaviorRun`, `runningProc u` whether a crunch-run process for `u` is known
  to the pool (`KillContainer` answers true).
* The calls of one pass are modelled at a *frozen clock* and without cloud responses: `now` does not
  change, `creating` only grows (an entry is removed only when the cloud's Create call returns, in
  another goroutine), `atQuotaUntil` is only set by such a returning call. What a moving clock does
  is shown by `example`s in Props (a hold-off that expires between two calls un-blocks Create).
* `throttle.Error()` clears an expired error as a side effect; `Pool.Create` evaluates it only if the
  quota test was false (`||` short-circuit).
-/
import ArvVerif.Model.C16_RunQueue
namespace ArvVerif.C16.RQ

structure RPool where
  now : Nat
  atQuotaUntil : Nat
  thrErr : Bool
  thrUntil : Nat
  creating : Nat
  maxOps : Nat
  idle : Nat → Nat
  runningProc : Nat → Bool

/-- `throttle.Error() != nil`: an error is held and `time.Now().After(thr.until)` is false -/
def RPool.throttled (p : RPool) : Bool := p.thrErr && !decide (p.thrUntil < p.now)

/-- hold-off set when MaxConcurrentInstanceCreateOps is reached: `time.Now().Add(5*time.Second)`, in ms -/
def createOpsHoldoff : Nat := 5000

def realPool : Pool RPool where
  atQuota := fun p => (decide (p.now < p.atQuotaUntil), p)
  create := fun _ p =>
    if p.now < p.atQuotaUntil then (false, p)
    else
      -- throttle.Error() has been called: an expired error is dropped
      let p1 := { p with thrErr := p.throttled }
      if p.throttled = true then (false, p1)
      else if 0 < p.maxOps ∧ p.maxOps ≤ p.creating then
        (false, { p1 with thrErr := true, thrUntil := p.now + createOpsHoldoff })
      else (true, { p1 with creating := p.creating + 1 })
  kill := fun _ u p => (p.runningProc u, p)
  start := fun t _ p =>
    if p.idle t = 0 then (false, p)
    else (true, { p with idle := fun x => if x = t then p.idle x - 1 else p.idle x })

/-- the states in which `Create` returns false -/
def createBlocked (p : RPool) : Prop :=
  p.now < p.atQuotaUntil ∨ p.throttled = true ∨ (0 < p.maxOps ∧ p.maxOps ≤ p.creating)

instance (p : RPool) : Decidable (createBlocked p) := by unfold createBlocked; infer_instance

end ArvVerif.C16.RQ
