/-
C09 — SPECIFICATION side: the published manifest grammar as C09 needs it.

`C10.parseSpec` is the grammar of doc/architecture/manifest-format (with `\ooo` escapes). The property
demands that empty directories survive a save, and the only way the code (and the API server's
validator, `EMPTY_DIR_TOKEN_REGEXP`) has for that is a stream holding the single token `0:0:\056`
— an empty file named ".", which the grammar's "no component may be ." otherwise forbids. So:

  a line is a stream of the published grammar (`C10.specLine`)
         or the empty-directory marker  `<stream name> d41d8cd98f00b204e9800998ecf8427e+0 0:0:\056`
         with a stream name of the published grammar other than "." itself.

Everything is decidable and executable.
-/
import ArvVerif.Model.C09
namespace ArvVerif.C09

inductive Line9
  | stream (s : C10.Stream)
  | marker (name : Bytes)       -- unescaped stream name of an empty directory
  deriving DecidableEq, Repr

/-- the marker line of an empty directory: its unescaped stream name -/
def markerLine? (line : Bytes) : Option Bytes :=
  match C10.splitOn C10.bSpace line with
  | [nm, b, t] =>
    if b = emptyLoc ∧ t = markerTok ∧ C10.tokenBytesOk nm = true then
      match C10.specUnescape nm with
      | some n => if C10.specStreamNameOk n = true ∧ n ≠ [C10.bDot] then some n else none
      | none => none
    else none
  | _ => none

def specLine9 (line : Bytes) : Option Line9 :=
  match C10.specLine line with
  | some s => some (Line9.stream s)
  | none => (markerLine? line).map Line9.marker

/-- the text as a list of lines of the grammar; `none` = outside the grammar -/
def parse9 (txt : Bytes) : Option (List Line9) :=
  if txt = [] then some [] else
  let lines := C10.splitOn C10.bNL txt
  if lines.getLast? = some [] then C10.mapOpt specLine9 lines.dropLast else none

/-- valid under the published grammar (plus the empty-directory marker) -/
def ValidManifest9 (txt : Bytes) : Prop := (parse9 txt).isSome = true

instance (txt : Bytes) : Decidable (ValidManifest9 txt) := by unfold ValidManifest9; infer_instance

/-- the streams of a parsed text (what `C10.resolve` / `C10.fileContent` interpret) -/
def streamsOf : List Line9 → C10.Manifest
  | [] => []
  | Line9.stream s :: rest => s :: streamsOf rest
  | Line9.marker _ :: rest => streamsOf rest

/-- the directories a parsed text mentions as such: every stream name and every marker -/
def lineNames : List Line9 → List Bytes
  | [] => []
  | Line9.stream s :: rest => s.name :: lineNames rest
  | Line9.marker n :: rest => n :: lineNames rest

def markersOf : List Line9 → List Bytes
  | [] => []
  | Line9.stream _ :: rest => markersOf rest
  | Line9.marker n :: rest => n :: markersOf rest

/-! ### what marshalManifest is expected to write, structurally -/

/-- the stream of a directory from the final state of the stream builder -/
def streamOfEmit (path : List Bytes) (e : Emit) : C10.Stream :=
  ⟨prefixOf path, if e.blocksRev.isEmpty then [⟨emptyLoc, 0⟩] else e.blocksRev.reverse,
   e.partsRev.reverse.map fun p => ⟨p.off, p.len, p.name⟩⟩

/-- the lines of one directory -/
def dirLines (d : Dir9) : Option (List Line9) :=
  if d.isEmpty then some (if d.path.isEmpty then [] else [Line9.marker (prefixOf d.path)])
  else match emitFiles ⟨[], 0, []⟩ d.files with
    | none => none
    | some e => some (if e.partsRev.isEmpty then [] else [Line9.stream (streamOfEmit d.path e)])

def treeLines : Tree9 → Option (List Line9)
  | [] => some []
  | d :: rest =>
    match dirLines d, treeLines rest with
    | some a, some b => some (a ++ b)
    | _, _ => none

end ArvVerif.C09
