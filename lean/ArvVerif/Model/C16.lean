/-
C16 model, part A: lib/dispatchcloud/node_size.go

  estimateDockerImageSize, EstimateScratchSpace, the needRAM formula and ChooseInstanceType's
  filter-and-minimise loop.

* Go `int64` arithmetic is modelled exactly: every `+`/`*` is followed by `wrap64` (two's complement
  wrap-around), `/` on int64 is `Int.tdiv` (truncation toward zero).  The property theorems are stated
  over the *unbounded* formulas (`needRAMSpec`, `needScratchSpec`) and `C16_arith` shows the wrapped
  code computes them whenever the final values fit in int64.
* `cc.InstanceTypes` is a Go map, so the loop sees the table in an arbitrary order and the error
  path (a second, independent map iteration followed by an unstable `sort.Slice`) yields an
  arbitrary price-sorted permutation.  The model therefore takes the iteration order `order` and
  the error list `avail` as *inputs*; the theorems quantify over every `order` that is a
  permutation of the table and every `avail` satisfying `IsAvail`.
* Prices are `Int` (the driver uses multiples of 1/64, exactly representable in float64, and
  sends the numerator); float64 comparison on such values is the integer comparison. NaN is
  excluded by this choice of type.
* The loop is modelled with its quirk: when nothing has been accepted yet (`ok = false`) the
  comparisons `it.Price == best.Price`, `it.RAM < best.RAM`, `it.VCPUs < best.VCPUs` are made
  against the zero-valued `best` (price 0, RAM 0, VCPUs 0) exactly as in the Go code.
-/
namespace ArvVerif.C16

/-! ### int64 -/

def two63 : Int := 9223372036854775808
def two64 : Int := 18446744073709551616

/-- two's complement wrap-around of Go `int64` arithmetic -/
def wrap64 (x : Int) : Int := (x + two63) % two64 - two63

def inInt64 (x : Int) : Prop := -two63 ≤ x ∧ x < two63

instance (x : Int) : Decidable (inInt64 x) := by unfold inInt64; infer_instance

/-! ### configuration and container -/

/-- arvados.InstanceType (the fields the chooser reads). `price` is the price in units of 1/64. -/
structure IType where
  name : Nat
  vcpus : Int
  ram : Int
  scratch : Int
  price : Int
  preemptible : Bool
deriving Repr, DecidableEq, Inhabited

/-- the zero value of `arvados.InstanceType` (`best` before anything is accepted) -/
def zeroType : IType := { name := 0, vcpus := 0, ram := 0, scratch := 0, price := 0, preemptible := false }

/-- a mount: kind (bytes) and capacity -/
structure Mount where
  kind : List UInt8
  capacity : Int
deriving Repr, DecidableEq

/-- arvados.Container (the fields the chooser reads) -/
structure Ctr where
  vcpus : Int
  ram : Int
  keepCacheRAM : Int
  preemptible : Bool
  image : List UInt8
  mounts : List Mount
deriving Repr

/-! ### estimateDockerImageSize -/

/-- var discountConfiguredRAMPercent = 5 -/
def discountConfiguredRAMPercent : Int := 5

def isLowerHex (b : UInt8) : Bool := (48 ≤ b && b ≤ 57) || (97 ≤ b && b ≤ 102)
def isDigit (b : UInt8) : Bool := 48 ≤ b && b ≤ 57

def digitsVal (ds : List UInt8) : Nat := ds.foldl (fun a d => a * 10 + (d.toNat - 48)) 0

/-- Hand-written matcher for `^[0-9a-f]{32}\+(\d+)$` (Go RE2, no flags: `$` is end of text, `\d` is
ASCII only); returns the decimal value of group 1. -/
def pdhSize? (s : List UInt8) : Option Nat :=
  let h := s.take 32
  if h.length = 32 ∧ h.all isLowerHex = true then
    match s.drop 32 with
    | 43 :: ds => if ds ≠ [] ∧ ds.all isDigit = true then some (digitsVal ds) else none
    | _ => none
  else none

def mib64 : Int := 64 * 1024 * 1024

/-- the unbounded formula of the heuristic: ((n - 80) / 42) * 64 MiB for n ≥ 122, else 0 -/
def imageSizeOfLen (n : Nat) : Int :=
  if n < 122 then 0 else (((n : Int) - 80) / 42) * mib64

/-- estimateDockerImageSize as the Go code computes it: no regexp match ⇒ 0; ParseInt out of int64
range ⇒ 0; n < 122 ⇒ 0; else the heuristic with int64 wrap-around on the multiplication. -/
def imageSize64 (pdh : List UInt8) : Int :=
  match pdhSize? pdh with
  | none => 0
  | some n => if two63 ≤ (n : Int) then 0 else wrap64 (imageSizeOfLen n)

/-- the same without wrap-around (what the property text means) -/
def imageSizeSpec (pdh : List UInt8) : Int :=
  match pdhSize? pdh with
  | none => 0
  | some n => if two63 ≤ (n : Int) then 0 else imageSizeOfLen n

/-! ### EstimateScratchSpace -/

def tmpKind : List UInt8 := [116, 109, 112]   -- "tmp"

def tmpCaps (ms : List Mount) : List Int := (ms.filter (fun m => m.kind = tmpKind)).map (·.capacity)

/-- `needScratch += m.Capacity` over the tmp mounts, in the (arbitrary) order given -/
def sum64 (cs : List Int) : Int := cs.foldl (fun a c => wrap64 (a + c)) 0

def scratch64 (caps : List Int) (img : Int) : Int :=
  let s := sum64 caps
  let s := if s < img then img else s
  wrap64 (s + img)

/-- unbounded: max(Σ tmp, img) + img -/
def scratchSpec (caps : List Int) (img : Int) : Int :=
  let s := caps.foldl (· + ·) 0
  (if s < img then img else s) + img

/-! ### needRAM -/

/-- needRAM as computed in int64 -/
def needRAM64 (ram keep reserve : Int) : Int :=
  let a := wrap64 (ram + keep)
  let b := wrap64 (a + reserve)
  let c := wrap64 (b * 100)
  Int.tdiv c (100 - discountConfiguredRAMPercent)

/-- unbounded: (ram + keepCache + reserve) · 100 / 95, truncated -/
def needRAMSpec (ram keep reserve : Int) : Int :=
  Int.tdiv ((ram + keep + reserve) * 100) (100 - discountConfiguredRAMPercent)

/-! ### ChooseInstanceType -/

/-- what a type must offer -/
structure Need where
  vcpus : Int
  ram : Int
  scratch : Int
  preemptible : Bool
deriving Repr, DecidableEq

/-- the needs as the Go code computes them (int64) -/
def needOf (reserve : Int) (c : Ctr) : Need :=
  { vcpus := c.vcpus
    ram := needRAM64 c.ram c.keepCacheRAM reserve
    scratch := scratch64 (tmpCaps c.mounts) (imageSize64 c.image)
    preemptible := c.preemptible }

/-- the needs as the property text states them (unbounded arithmetic) -/
def needSpec (reserve : Int) (c : Ctr) : Need :=
  { vcpus := c.vcpus
    ram := needRAMSpec c.ram c.keepCacheRAM reserve
    scratch := scratchSpec (tmpCaps c.mounts) (imageSizeSpec c.image)
    preemptible := c.preemptible }

/-- a type satisfies every constraint -/
def Adequate (n : Need) (it : IType) : Prop :=
  n.scratch ≤ it.scratch ∧ n.ram ≤ it.ram ∧ n.vcpus ≤ it.vcpus ∧ it.preemptible = n.preemptible

instance (n : Need) (it : IType) : Decidable (Adequate n it) := by unfold Adequate; infer_instance

/-- one iteration of the `switch` in the loop; the state is `(ok, best)` -/
def chooseStep (n : Need) (acc : Bool × IType) (it : IType) : Bool × IType :=
  if acc.1 = true ∧ it.price > acc.2.price then acc
  else if it.scratch < n.scratch then acc
  else if it.ram < n.ram then acc
  else if it.vcpus < n.vcpus then acc
  else if it.preemptible ≠ n.preemptible then acc
  else if it.price = acc.2.price ∧ (it.ram < acc.2.ram ∨ it.vcpus < acc.2.vcpus) then acc
  else (true, it)

def chooseLoop (n : Need) (order : List IType) : Bool × IType :=
  order.foldl (chooseStep n) (false, zeroType)

inductive Result where
  | notConfigured                     -- ErrInstanceTypesNotConfigured
  | unsat (avail : List IType)        -- ConstraintsNotSatisfiableError{AvailableTypes}
  | ok (it : IType)
deriving Repr, DecidableEq

/-- ChooseInstanceType for one iteration order of the map and one outcome of the error-path sort -/
def chooseWith (order avail : List IType) (reserve : Int) (c : Ctr) : Result :=
  if order.length = 0 then .notConfigured
  else
    let r := chooseLoop (needOf reserve c) order
    if r.1 = false then .unsat avail else .ok r.2

/-- what the error path guarantees about `AvailableTypes`: all configured types, ascending price -/
structure IsAvail (table avail : List IType) : Prop where
  perm : avail.Perm table
  sorted : avail.Pairwise (fun a b => a.price ≤ b.price)

def leP (a b : IType) : Bool := decide (a.price ≤ b.price)

/-- one executable inhabitant of `IsAvail` -/
def availSorted (table : List IType) : List IType := table.mergeSort leP

/-! ### the set of results the map order can produce (used by the driver to print the allowed set) -/

/-- `y` is at least as good as `x` in RAM and VCPUs and better in one -/
def SDom (y x : IType) : Prop :=
  x.ram ≤ y.ram ∧ x.vcpus ≤ y.vcpus ∧ (x.ram < y.ram ∨ x.vcpus < y.vcpus)

instance (y x : IType) : Decidable (SDom y x) := by unfold SDom; infer_instance

/-- cheapest adequate types that no other cheapest adequate type strictly dominates -/
def allowed (n : Need) (table : List IType) : List IType :=
  let ad := table.filter (fun it => decide (Adequate n it))
  let cheapest := ad.filter (fun it => ad.all (fun y => decide (it.price ≤ y.price)))
  cheapest.filter (fun it => cheapest.all (fun y => !decide (SDom y it)))

end ArvVerif.C16
