/-
C06(b) model: the two index readers and the producer contract.

* `scanLines` — what a `bufio.Scanner` with the default `ScanLines` split function yields for a
  body that is read to a clean EOF: the lines without their `\n`, one trailing `\r` dropped from
  each (`dropCR`), a final unterminated non-empty line is a token, and a line of `maxTok` = 65536
  bytes or more stops the scan with `ErrTooLong`.
* `ksIndex` — the loop of sdk/go/arvados/keep_service.go `KeepService.index`.
* `getIndex` — the suffix test of sdk/go/keepclient/keepclient.go `KeepClient.GetIndex`.
* `handleIndex` — services/keepstore/handlers.go `handleIndex`: the volumes' `IndexTo` output in
  order, stopping at the first volume that reports an error, and the terminating `\n` only when
  every volume succeeded.
Bytes are natural numbers (10 = `\n`, 13 = `\r`, 32 = space).
-/
namespace ArvVerif.C06

abbrev Byte := Nat
abbrev Line := List Byte

def NL : Byte := 10
def CR : Byte := 13
def SP : Byte := 32

/-- bufio.MaxScanTokenSize -/
def maxTok : Nat := 65536

/-- bufio's `dropCR`: drop one trailing `\r`. -/
def dropCR (l : Line) : Line :=
  match l.getLast? with
  | some 13 => l.dropLast
  | _ => l

inductive Tok
  | line (l : Line)
  | tooLong
deriving Repr, DecidableEq

/-- Tokens of a complete body. `cur` is the current line, reversed. -/
def scanGo : List Byte → Line → List Tok
  | [], cur =>
    if cur = [] then []
    else if maxTok ≤ cur.length then [.tooLong]
    else [.line (dropCR cur.reverse)]
  | b :: rest, cur =>
    if b = 10 then
      if maxTok ≤ cur.length then [.tooLong]
      else .line (dropCR cur.reverse) :: scanGo rest []
    else scanGo rest (b :: cur)

def scanLines (body : List Byte) : List Tok := scanGo body []

/-! ### strconv.ParseInt(s, 10, 64) -/

def digitVal? (b : Byte) : Option Nat := if 48 ≤ b ∧ b ≤ 57 then some (b - 48) else none

def parseDigits : List Byte → Nat → Option Nat
  | [], acc => some acc
  | b :: rest, acc =>
    match digitVal? b with
    | some d => parseDigits rest (acc * 10 + d)
    | none => none

/-- `none` = syntax or range error -/
def parseInt64 (s : List Byte) : Option Int :=
  let (neg, ds) := match s with
    | 43 :: r => (false, r)
    | 45 :: r => (true, r)
    | r => (false, r)
  if ds = [] then none
  else match parseDigits ds 0 with
    | none => none
    | some n =>
      if neg then (if n ≤ 2 ^ 63 then some (-(n : Int)) else none)
      else (if n < 2 ^ 63 then some (n : Int) else none)

/-- Go's wrapping int64 arithmetic -/
def wrap64 (x : Int) : Int := (x + 2 ^ 63) % 2 ^ 64 - 2 ^ 63

/-- `if mtime < 1e12 { mtime = mtime * 1e9 }` -/
def fixMtime (m : Int) : Int := if m < 1000000000000 then wrap64 (m * 1000000000) else m

/-- `strings.Split(line, " ")` -/
def splitSP : Line → Line → List Line
  | [], cur => [cur.reverse]
  | b :: rest, cur => if b = 32 then cur.reverse :: splitSP rest [] else splitSP rest (b :: cur)

structure Entry where
  digest : Line
  mtime : Int
deriving Repr, DecidableEq

inductive IdxErr
  | http            -- status ≠ 200 / transport error
  | nonTerminalBlank
  | fields
  | mtime
  | scan
  | noEOF
  | incomplete      -- keepclient.ErrIncompleteIndex
deriving Repr, DecidableEq

def parseLine (l : Line) : Except IdxErr Entry :=
  match splitSP l [] with
  | [a, b] =>
    match parseInt64 b with
    | some m => .ok ⟨a, fixMtime m⟩
    | none => .error .mtime
  | _ => .error .fields

/-- the `for scanner.Scan()` loop of `KeepService.index` followed by its two final tests -/
def ksLoop : List Tok → Bool → List Entry → Except IdxErr (List Entry)
  | [], sawEOF, acc => if sawEOF then .ok acc.reverse else .error .noEOF
  | .tooLong :: _, _, _ => .error .scan
  | .line l :: rest, sawEOF, acc =>
    if sawEOF then .error .nonTerminalBlank
    else if l = [] then ksLoop rest true acc
    else match parseLine l with
      | .ok e => ksLoop rest false (e :: acc)
      | .error e => .error e

def ksIndex (body : List Byte) : Except IdxErr (List Entry) := ksLoop (scanLines body) false []

/-- The same loop when reading the body ends with a read error (dropped connection, timeout) instead
of a clean EOF: the scanner hands over some of the lines that arrived (`toks`: how many depends on
how the bytes and the error were delivered), `scanner.Err()` is then non-nil, the loop stops and
"Error scanning index response" is returned unless a line-level error came first. -/
def ksLoopAbort : List Tok → Bool → List Entry → Except IdxErr (List Entry)
  | [], _, _ => .error .scan
  | .tooLong :: _, _, _ => .error .scan
  | .line l :: rest, sawEOF, acc =>
    if sawEOF then .error .nonTerminalBlank
    else if l = [] then ksLoopAbort rest true acc
    else match parseLine l with
      | .ok e => ksLoopAbort rest false (e :: acc)
      | .error e => .error e

/-- `GetIndex` with a read error: `ioutil.ReadAll` fails, the error is returned. -/
def getIndexAbort (_received : List Byte) : Except IdxErr (List Byte) := .error .http

/-- `bytes.HasSuffix(respBody, []byte("\n\n"))` -/
def endsWithBlank (body : List Byte) : Bool := [10, 10].isSuffixOf body

/-- `GetIndex`: complete iff body = "\n" or body ends with "\n\n"; returns the body minus its last byte -/
def getIndex (body : List Byte) : Except IdxErr (List Byte) :=
  if body = [10] ∨ endsWithBlank body = true then .ok body.dropLast else .error .incomplete

/-! ### Producer -/

/-- What one volume's `IndexTo` did: the bytes it wrote and whether it returned nil. -/
structure VolOut where
  written : List Byte
  ok : Bool
deriving Repr

def handleIndex : List VolOut → List Byte
  | [] => [10]
  | v :: rest => if v.ok then v.written ++ handleIndex rest else v.written

/-- A well-formed response: every line followed by `\n`, then one empty line. -/
def render (ls : List Line) : List Byte := ls.flatMap (fun l => l ++ [10]) ++ [10]

/-- decimal digits of a natural number, as bytes -/
def decimal (n : Nat) : List Byte := (Nat.toDigits 10 n).map (fun c => c.toNat)

end ArvVerif.C06
