/-
C07 model, part 3: the MAC of the implementation. `hmacSha1` is the executable HMAC-SHA1 of
`Base/SHA1.lean` on byte strings in the representation of `Model/C07.lean` (byte `b` ↦
`Char.ofNat b`). The Lean driver instantiates the model's `mac` parameter with it, and it is
compared with Go's `crypto/hmac` + `crypto/sha1` through every correspondence case.
-/
import ArvVerif.Base.SHA1
import ArvVerif.Model.C07
namespace ArvVerif.C07

def toBytes (s : Str) : ByteArray := ByteArray.mk (s.map (fun c => UInt8.ofNat c.toNat)).toArray

def ofBytes (b : ByteArray) : Str := b.toList.map (fun x => Char.ofNat x.toNat)

/-- HMAC-SHA1(key, msg), raw digest -/
def hmacSha1 (key msg : Str) : List UInt8 := (SHA1.hmac (toBytes key) (toBytes msg)).data.toList

end ArvVerif.C07
