/-
C01 model, histories: a keepstore process serves a *sequence* of requests, and between any two of
them the bytes under any block path of any mount may change behind its back (media decay, a restore
that preserves size and timestamp, an operator's `cp -p`): the property says "whatever bytes are
stored on its volumes" at the time of the request. In the code nothing but the round-robin counter
of `RRVolumeManager` survives from one request to the next (handlers.go `GetBlock`/`PutBlock` keep no
per-block state), so the answer to a request is a function of the *current* mount contents; this
file states that as an executable trace semantics, and Props/C01_History.lean proves the property
clauses for every step of every history. A change that lets an earlier successful read influence a
later one (a "verified before" cache keyed by size/mtime) disagrees with this model as soon as a
fault event follows a read.
-/
import ArvVerif.Model.C01
namespace ArvVerif.C01

section
variable {δ β : Type} [DecidableEq δ] [DecidableEq β]

/-- The file under the block path of `h` on mount `i` now holds `c` (any mount, read-only or not;
an index past the mount list changes nothing). Nothing else changes. -/
def corruptAt (vols : List (Vol δ β)) (i : Nat) (h : δ) (c : β) : List (Vol δ β) :=
  vols.modify i (fun v => { v with files := update v.files h c })

/-- What happens to a keepstore process, one after the other. -/
inductive Event (δ β : Type) where
  | get (h : δ)
  | head (h : δ)
  | put (h : δ) (body : β) (clKnown : Bool)
  /-- not a request: the stored bytes change behind the server's back -/
  | fault (i : Nat) (h : δ) (c : β)

/-- What the client sees of an event. -/
inductive Obs (β : Type) where
  | get (r : GetResp β)
  | head (r : GetResp β)
  | put (r : PutResp)
  | fault

/-- One event on mount list `vols` with round-robin counter `rr`. -/
def stepEvent (hash : β → δ) (size : β → Nat) (vols : List (Vol δ β)) (rr : Nat) :
    Event δ β → Obs β × List (Vol δ β) × Nat
  | .get h => (.get (handleGet hash size vols h), vols, rr)
  | .head h => (.head (handleHead hash size vols h), vols, rr)
  | .put h body cl =>
    let r := handlePut hash size vols rr h body cl
    (.put r.1, r.2.1, r.2.2)
  | .fault i h c => (.fault, corruptAt vols i h c, rr)

/-- One step of a trace: the mounts before, the event, what was observed, the mounts after. -/
structure Step (δ β : Type) where
  before : List (Vol δ β)
  ev : Event δ β
  obs : Obs β
  after : List (Vol δ β)

/-- The trace of a history. -/
def runHistory (hash : β → δ) (size : β → Nat) : List (Event δ β) → List (Vol δ β) → Nat → List (Step δ β)
  | [], _, _ => []
  | e :: rest, vols, rr =>
    let r := stepEvent hash size vols rr e
    { before := vols, ev := e, obs := r.1, after := r.2.1 } :: runHistory hash size rest r.2.1 r.2.2

end

end ArvVerif.C01
