/-
C08 — collection filesystem, DIRECTORY / HANDLE LAYER (sdk/go/arvados/fs_base.go,
fs_filehandle.go, collectionFileSystem.Flush/Sync).

The tree is a flat map `(directory id, name) ↦ node` plus a table of directories `(name, parent
id)` — the flattened form of the code's per-directory `inodes` maps and `parent` pointers. Inodes
are never deleted from the tables: removing or overwriting an entry only drops the map entry, so
handles on unlinked files/directories keep working, as in the code.

The step function `step` is generic in the file representation (`FileImpl`): instantiated with the
concrete segment layer (`concImpl`) it is the model of the code; instantiated with plain byte lists
(`specImpl`) it is the specification ("ordinary in-memory filesystem"). The tree code is shared, so
the refinement proof only has to relate the file operations.
-/
import ArvVerif.Model.C08
namespace ArvVerif.C08

inductive Node
  | dir (id : Nat)
  | file (id : Nat)
  deriving DecidableEq, Repr, Inhabited

/-- Error classes (the driver maps Go error values to the same names). -/
inductive Err
  | ok | eof | noent | exist | inval | invalop | notempty | isdir | notdir | rofile | wronly
  | negoff | syncflag | badflag | io | panic | hang
  deriving DecidableEq, Repr, Inhabited

/-- File-level operations the directory/handle layer needs. `W` is the world the files live in
(Keep store for the concrete layer, nothing for the spec). -/
structure FileImpl (F P W : Type) where
  newFile : F
  ptr0 : P
  size : F → Nat
  off : P → Nat
  seekTo : P → Nat → P
  trunc : F → Nat → Except Err F
  /-- one `Read` call with a buffer of the given length: data, new pointer, `ok`/`eof`/`io` -/
  read : W → F → P → Nat → Except Err (Bytes × P × Err)
  /-- `filehandle.Write` (flag = O_APPEND handle) -/
  write : W → F → P → Bool → Bytes → Except Err (W × F × P × Nat)
  /-- `dirnode.flush` on the files of one directory in name order (flag = shortBlocks) -/
  flush : W → List F → Bool → W × List F

structure Handle (P : Type) where
  node : Node
  ptr : P
  app : Bool
  rd : Bool
  wr : Bool

structure FS (F P W : Type) where
  world : W
  /-- directory entries: (parent directory id, name) ↦ node -/
  ents : List ((Nat × String) × Node)
  /-- directories by id: (fileinfo.name, parent id); id 0 is the root, its own parent -/
  dirs : List (String × Nat)
  /-- files by id: (fileinfo.name, content) -/
  files : List (String × F)
  handles : List (Nat × Handle P)

def FS.init {F P W : Type} (w : W) : FS F P W := ⟨w, [], [(".", 0)], [], []⟩

inductive Op
  | openF (h : Nat) (path : String) (acc : Nat) (app cre excl trunc sync dirPerm : Bool)
  | create (h : Nat) (path : String)
  | write (h : Nat) (data : Bytes)
  | read (h : Nat) (n : Nat)
  | readn (h : Nat) (n : Nat)
  | seek (h : Nat) (off : Int) (whence : Nat)
  | trunc (h : Nat) (size : Nat)
  | close (h : Nat)
  | hstat (h : Nat)
  | hreaddir (h : Nat)
  | hsync (h : Nat)
  | mkdir (path : String)
  | rename (old new : String)
  | remove (path : String)
  | removeAll (path : String)
  | stat (path : String)
  | readdir (path : String)
  | flush (path : String) (short : Bool)
  | sync
  deriving Repr

inductive Res
  | err (e : Err)
  | wrote (n : Nat) (e : Err)
  | data (d : Bytes) (e : Err)
  | pos (p : Nat) (e : Err)
  | info (name : String) (isDir : Bool) (size : Nat)
  | listing (l : List (String × Bool × Nat))
  | badOp
  deriving Repr

/-! ### Tree primitives -/

section Tree
variable {F P W : Type}

def child (ents : List ((Nat × String) × Node)) (d : Nat) (name : String) : Option Node :=
  (ents.find? (fun e => e.1 == (d, name))).map (·.2)

def eraseEnt (ents : List ((Nat × String) × Node)) (d : Nat) (name : String) : List ((Nat × String) × Node) :=
  ents.filter (fun e => !(e.1 == (d, name)))

def setEnt (ents : List ((Nat × String) × Node)) (d : Nat) (name : String) (n : Node) :
    List ((Nat × String) × Node) :=
  eraseEnt ents d name ++ [((d, name), n)]

def entriesOf (ents : List ((Nat × String) × Node)) (d : Nat) : List (String × Node) :=
  (ents.filter (fun e => e.1.1 == d)).map (fun e => (e.1.2, e.2))

def parentOf (dirs : List (String × Nat)) (d : Nat) : Nat :=
  match dirs[d]? with
  | some (_, p) => p
  | none => 0

def special (name : String) : Bool := name == "" || name == "." || name == ".."

/-- `rlookup(start, path)`: "." and "" are skipped and ".." goes to the parent while the current
node is a directory; any component looked up in a file is ErrNotADirectory. -/
def walk (ents : List ((Nat × String) × Node)) (dirs : List (String × Nat)) :
    Node → List String → Except Err Node
  | n, [] => pure n
  | Node.file _, _ :: _ => throw Err.notdir
  | Node.dir d, name :: rest =>
    if name == "." || name == "" then walk ents dirs (Node.dir d) rest
    else if name == ".." then walk ents dirs (Node.dir (parentOf dirs d)) rest
    else match child ents d name with
      | none => throw Err.noent
      | some n => walk ents dirs n rest

def splitPath (path : String) : List String := path.splitOn "/"

/-- `path.Split`: (components of the directory part — it ends in "/" or is empty, hence the
trailing ""; last component). -/
def splitDirBase (path : String) : List String × String :=
  let comps := splitPath path
  (comps.dropLast ++ [""], comps.getLast?.getD "")

def trimSlashes (path : String) : String :=
  String.ofList ((path.toList.reverse.dropWhile (· == '/')).reverse)

/-- The directory a path's parent part names (always a directory when it resolves at all, because
the parent part ends in "/"). -/
def lookupDir (s : FS F P W) (comps : List String) : Except Err Nat :=
  match walk s.ents s.dirs (Node.dir 0) comps with
  | Except.error e => throw e
  | Except.ok (Node.dir d) => pure d
  | Except.ok (Node.file _) => throw Err.notdir

def nodeName (s : FS F P W) : Node → String
  | Node.dir d => match s.dirs[d]? with | some (n, _) => n | none => "?"
  | Node.file f => match s.files[f]? with | some (n, _) => n | none => "?"

def dirSize (s : FS F P W) (d : Nat) : Nat := (entriesOf s.ents d).length

def nodeSize (impl : FileImpl F P W) (s : FS F P W) : Node → Nat
  | Node.dir d => dirSize s d
  | Node.file f => match s.files[f]? with | some (_, c) => impl.size c | none => 0

def nodeIsDir : Node → Bool
  | Node.dir _ => true
  | Node.file _ => false

def infoOf (impl : FileImpl F P W) (s : FS F P W) (n : Node) : Res :=
  Res.info (nodeName s n) (nodeIsDir n) (nodeSize impl s n)

def listingOf (impl : FileImpl F P W) (s : FS F P W) (d : Nat) : Res :=
  Res.listing ((entriesOf s.ents d).map (fun e => (nodeName s e.2, nodeIsDir e.2, nodeSize impl s e.2)))

/-- ancestors-or-self of directory `d` (the `needLock` walk of Rename); fuel = number of dirs. -/
def ancestors (dirs : List (String × Nat)) : Nat → Nat → List Nat
  | 0, d => [d]
  | fuel + 1, d => if parentOf dirs d == d then [d] else d :: ancestors dirs fuel (parentOf dirs d)

/-- directories reachable from `d` (itself included), for recursive flush; fuel = number of dirs -/
def subdirs (ents : List ((Nat × String) × Node)) : Nat → Nat → List Nat
  | 0, d => [d]
  | fuel + 1, d =>
    d :: (entriesOf ents d).flatMap (fun e => match e.2 with
      | Node.dir c => subdirs ents fuel c
      | Node.file _ => [])

def getHandle (s : FS F P W) (h : Nat) : Option (Handle P) :=
  (s.handles.find? (fun e => e.1 == h)).map (·.2)

def setHandle (s : FS F P W) (h : Nat) (v : Handle P) : FS F P W :=
  { s with handles := s.handles.filter (fun e => !(e.1 == h)) ++ [(h, v)] }

def setFile (s : FS F P W) (f : Nat) (c : F) : FS F P W :=
  match s.files[f]? with
  | some (n, _) => { s with files := s.files.set f (n, c) }
  | none => s

def errOf {α : Type} : Except Err α → Err
  | Except.error e => e
  | Except.ok _ => Err.ok

/-- Add a new inode under (d, name). -/
def addNode (impl : FileImpl F P W) (s : FS F P W) (d : Nat) (name : String) (isDir : Bool) :
    FS F P W × Node :=
  if isDir then
    let n := Node.dir s.dirs.length
    ({ s with dirs := s.dirs ++ [(name, d)], ents := setEnt s.ents d name n }, n)
  else
    let n := Node.file s.files.length
    ({ s with files := s.files ++ [(name, impl.newFile)], ents := setEnt s.ents d name n }, n)

/-! ### Operations -/

/-- `fileSystem.openFile`. -/
def openFile (impl : FileImpl F P W) (s : FS F P W) (path : String) (acc : Nat)
    (app cre excl trunc sync dirPerm : Bool) : FS F P W × Except Err (Handle P) :=
  if sync then (s, throw Err.syncflag) else
  let (dcomps, name) := splitDirBase path
  match lookupDir s dcomps with
  | Except.error e => (s, throw e)
  | Except.ok d =>
    if acc > 2 then (s, throw Err.badflag) else
    let readable := acc == 0 || acc == 2
    let writable := acc == 1 || acc == 2
    if !writable && (name == "." || name == "") then (s, pure ⟨Node.dir d, impl.ptr0, false, false, false⟩)
    else if !writable && name == ".." then
      (s, pure ⟨Node.dir (parentOf s.dirs d), impl.ptr0, false, false, false⟩)
    else if special name then (s, throw Err.inval)
    else match child s.ents d name with
      | none =>
        if !cre then (s, throw Err.noent) else
        let (s', n) := addNode impl s d name dirPerm
        (s', pure ⟨n, impl.ptr0, app, readable, writable⟩)
      | some n =>
        if excl then (s, throw Err.exist)
        else if trunc then
          if !writable then (s, throw Err.badflag)
          else match n with
            | Node.dir _ => (s, throw Err.badflag)
            | Node.file f =>
              match s.files[f]? with
              | none => (s, throw Err.panic)
              | some (_, c) =>
                match impl.trunc c 0 with
                | Except.error e => (s, throw e)
                | Except.ok c' => (setFile s f c', pure ⟨n, impl.ptr0, app, readable, writable⟩)
        else (s, pure ⟨n, impl.ptr0, app, readable, writable⟩)

def doOpen (impl : FileImpl F P W) (s : FS F P W) (h : Nat) (path : String) (acc : Nat)
    (app cre excl trunc sync dirPerm : Bool) : FS F P W × Res :=
  match openFile impl s path acc app cre excl trunc sync dirPerm with
  | (s', Except.error e) => (s', Res.err e)
  | (s', Except.ok hd) => (setHandle s' h hd, Res.err Err.ok)

/-- `fileSystem.Mkdir`. -/
def doMkdir (impl : FileImpl F P W) (s : FS F P W) (path : String) : FS F P W × Res :=
  let (dcomps, name) := splitDirBase path
  match lookupDir s dcomps with
  | Except.error e => (s, Res.err e)
  | Except.ok d =>
    if special name then (s, Res.err Err.inval)
    else match child s.ents d name with
      | some _ => (s, Res.err Err.exist)
      | none => ((addNode impl s d name true).1, Res.err Err.ok)

def setNameParent (s : FS F P W) (n : Node) (name : String) (d : Nat) : FS F P W :=
  match n with
  | Node.dir k => { s with dirs := s.dirs.set k (name, d) }
  | Node.file f =>
    match s.files[f]? with
    | some (_, c) => { s with files := s.files.set f (name, c) }
    | none => s

/-- `fileSystem.Rename`. The two nested `Child` calls first store the moved inode under
(newdir, newname) and then delete (olddir, oldname) — unless both are the same directory entry
(fix 100856b: `if newdirf.inode == olddirf.inode && newname == oldname { return oldinode, nil }`). -/
def doRename (s : FS F P W) (old new : String) : FS F P W × Res :=
  let (ocomps, oldname) := splitDirBase old
  if special oldname then (s, Res.err Err.inval) else
  match lookupDir s ocomps with
  | Except.error e => (s, Res.err e)
  | Except.ok od =>
    let (ncomps, newname0) := splitDirBase new
    if newname0 == "." || newname0 == ".." then (s, Res.err Err.inval) else
    let newname := if newname0 == "" then oldname else newname0
    match lookupDir s ncomps with
    | Except.error e => (s, Res.err e)
    | Except.ok nd =>
      match child s.ents od oldname with
      | none => (s, Res.err Err.noent)
      | some n =>
        let locked := ancestors s.dirs s.dirs.length od ++ ancestors s.dirs s.dirs.length nd
        let intoItself := match n with
          | Node.dir k => locked.contains k
          | Node.file _ => false
        if intoItself then (s, Res.err Err.inval) else
        match child s.ents nd newname with
        | some (Node.dir _) => (s, Res.err Err.isdir)
        | _ =>
          let s1 := { s with ents := setEnt s.ents nd newname n }
          let s2 := setNameParent s1 n newname nd
          ({ s2 with ents := if od = nd ∧ oldname = newname then s2.ents else eraseEnt s2.ents od oldname },
           Res.err Err.ok)

/-- `fileSystem.remove`; `RemoveAll` turns every ErrNotExist (also of the parent lookup) into success. -/
def doRemove (s : FS F P W) (path : String) (recursive : Bool) : FS F P W × Res :=
  let (dcomps, name) := splitDirBase (trimSlashes path)
  if special name then (s, Res.err Err.inval) else
  match lookupDir s dcomps with
  | Except.error e => (s, Res.err (if recursive ∧ e = Err.noent then Err.ok else e))
  | Except.ok d =>
    match child s.ents d name with
    | none => (s, Res.err (if recursive then Err.ok else Err.noent))
    | some n =>
      let nonEmptyDir := match n with
        | Node.dir k => dirSize s k > 0
        | Node.file _ => false
      if !recursive && nonEmptyDir then (s, Res.err Err.notempty)
      else ({ s with ents := eraseEnt s.ents d name }, Res.err Err.ok)

def insertSorted (x : String × Nat) : List (String × Nat) → List (String × Nat)
  | [] => [x]
  | y :: ys => if x.1 < y.1 then x :: y :: ys else y :: insertSorted x ys

/-- the *file* children of directory `d` in name order: (name, file id) -/
def sortedFiles (s : FS F P W) (d : Nat) : List (String × Nat) :=
  ((entriesOf s.ents d).filterMap (fun e => match e.2 with
    | Node.file f => some (e.1, f)
    | Node.dir _ => none)).foldr insertSorted []

/-- `dirnode.flush` of one directory's files: (file id, content) pairs in name order are handed
to the file layer's flush and written back. -/
def flushDir (impl : FileImpl F P W) (short : Bool) (s : FS F P W) (d : Nat) : FS F P W :=
  let pairs := (sortedFiles s d).filterMap (fun e => (s.files[e.2]?).map (fun nf => (e.2, nf.2)))
  let r := impl.flush s.world (pairs.map (·.2)) short
  ((pairs.map (·.1)).zip r.2).foldl (fun s (fc : Nat × F) => setFile s fc.1 fc.2) { s with world := r.1 }

def doSync (impl : FileImpl F P W) (s : FS F P W) : FS F P W × Res :=
  ((subdirs s.ents s.dirs.length 0).foldl (flushDir impl true) s, Res.err Err.ok)

/-- `collectionFileSystem.Flush(path, shortBlocks)`: everything below when path is "", otherwise
only the files of the named directory. -/
def doFlush (impl : FileImpl F P W) (s : FS F P W) (path : String) (short : Bool) : FS F P W × Res :=
  match walk s.ents s.dirs (Node.dir 0) (splitPath path) with
  | Except.error e => (s, Res.err e)
  | Except.ok (Node.file _) => (s, Res.err Err.notdir)
  | Except.ok (Node.dir d) =>
    let ds := if path == "" then subdirs s.ents s.dirs.length d else [d]
    (ds.foldl (flushDir impl short) s, Res.err Err.ok)

/-- one `filehandle.Read` -/
def handleRead (impl : FileImpl F P W) (s : FS F P W) (h : Nat) (hd : Handle P) (n : Nat) :
    FS F P W × Bytes × Err :=
  if !hd.rd then (s, [], Err.wronly) else
  match hd.node with
  | Node.dir _ => (setHandle s h { hd with ptr := impl.ptr0 }, [], Err.invalop)
  | Node.file f =>
    match s.files[f]? with
    | none => (s, [], Err.panic)
    | some (_, c) =>
      match impl.read s.world c hd.ptr n with
      | Except.error e => (s, [], e)
      | Except.ok (d, p, e) => (setHandle s h { hd with ptr := p }, d, e)

/-- the driver's `readn`: Read until `want` bytes, an error, or `want+2` calls -/
def readLoop (impl : FileImpl F P W) : Nat → FS F P W → Nat → Nat → Bytes → FS F P W × Bytes × Err
  | 0, s, _, _, acc => (s, acc, Err.ok)
  | fuel + 1, s, h, want, acc =>
    if acc.length ≥ want then (s, acc, Err.ok) else
    match getHandle s h with
    | none => (s, acc, Err.panic)
    | some hd =>
      let (s', d, e) := handleRead impl s h hd (want - acc.length)
      if e == Err.ok then readLoop impl fuel s' h want (acc ++ d) else (s', acc ++ d, e)

/-- The step function: one operation of the history. -/
def step (impl : FileImpl F P W) (s : FS F P W) : Op → FS F P W × Res
  | Op.openF h path acc app cre excl trunc sync dirPerm => doOpen impl s h path acc app cre excl trunc sync dirPerm
  | Op.create h path => doOpen impl s h path 2 false true false true false false
  | Op.write h data =>
    match getHandle s h with
    | none => (s, Res.badOp)
    | some hd =>
      if !hd.wr then (s, Res.wrote 0 Err.rofile) else
      match hd.node with
      | Node.dir _ => (setHandle s h { hd with ptr := impl.ptr0 }, Res.wrote 0 Err.invalop)
      | Node.file f =>
        match s.files[f]? with
        | none => (s, Res.wrote 0 Err.panic)
        | some (_, c) =>
          match impl.write s.world c hd.ptr hd.app data with
          | Except.error e => (s, Res.wrote 0 e)
          | Except.ok (w, c', p, n) =>
            (setHandle (setFile { s with world := w } f c') h { hd with ptr := p }, Res.wrote n Err.ok)
  | Op.read h n =>
    match getHandle s h with
    | none => (s, Res.badOp)
    | some hd => let (s', d, e) := handleRead impl s h hd n; (s', Res.data d e)
  | Op.readn h n =>
    match getHandle s h with
    | none => (s, Res.badOp)
    | some _ => let (s', d, e) := readLoop impl (n + 2) s h n []; (s', Res.data d e)
  | Op.seek h off whence =>
    match getHandle s h with
    | none => (s, Res.badOp)
    | some hd =>
      let cur : Int := impl.off hd.ptr
      let target : Int :=
        if whence = 0 then off else if whence = 1 then cur + off
        else if whence = 2 then (nodeSize impl s hd.node : Int) + off else cur
      if target < 0 then (s, Res.pos (impl.off hd.ptr) Err.negoff)
      else (setHandle s h { hd with ptr := impl.seekTo hd.ptr target.toNat }, Res.pos target.toNat Err.ok)
  | Op.trunc h size =>
    match getHandle s h with
    | none => (s, Res.badOp)
    | some hd =>
      match hd.node with
      | Node.dir _ => (s, Res.err Err.invalop)
      | Node.file f =>
        match s.files[f]? with
        | none => (s, Res.err Err.panic)
        | some (_, c) =>
          match impl.trunc c size with
          | Except.error e => (s, Res.err e)
          | Except.ok c' => (setFile s f c', Res.err Err.ok)
  | Op.close h =>
    match getHandle s h with
    | none => (s, Res.badOp)
    | some _ => ({ s with handles := s.handles.filter (fun e => !(e.1 == h)) }, Res.err Err.ok)
  | Op.hstat h =>
    match getHandle s h with
    | none => (s, Res.badOp)
    | some hd => (s, infoOf impl s hd.node)
  | Op.hreaddir h =>
    match getHandle s h with
    | none => (s, Res.badOp)
    | some hd =>
      match hd.node with
      | Node.file _ => (s, Res.err Err.invalop)
      | Node.dir d => (s, listingOf impl s d)
  | Op.hsync h =>
    match getHandle s h with
    | none => (s, Res.badOp)
    | some _ => doSync impl s
  | Op.mkdir path => doMkdir impl s path
  | Op.rename old new => doRename s old new
  | Op.remove path => doRemove s path false
  | Op.removeAll path => doRemove s path true
  | Op.stat path =>
    match walk s.ents s.dirs (Node.dir 0) (splitPath path) with
    | Except.error e => (s, Res.err e)
    | Except.ok n => (s, infoOf impl s n)
  | Op.readdir path =>
    match openFile impl s path 0 false false false false false false with
    | (_, Except.error e) => (s, Res.err e)
    | (_, Except.ok hd) =>
      match hd.node with
      | Node.file _ => (s, Res.err Err.invalop)
      | Node.dir d => (s, listingOf impl s d)
  | Op.flush path short => doFlush impl s path short
  | Op.sync => doSync impl s

/-- Run a history; outputs in order. -/
def run (impl : FileImpl F P W) : FS F P W → List Op → FS F P W × List Res
  | s, [] => (s, [])
  | s, op :: ops =>
    let (s1, r) := step impl s op
    let (s2, rs) := run impl s1 ops
    (s2, r :: rs)

end Tree

/-! ### The two instances -/

def ioErr : IOErr → Err
  | IOErr.ok => Err.ok
  | IOErr.eof => Err.eof
  | IOErr.io => Err.io

/-- The model of the code: segments, pointers, Keep store. `filehandle.Write` = O_APPEND
repositioning, `filenode.Write`, then (lock released) the background flushes settle. -/
def concImpl (hash : Bytes → Loc) (max : Nat) : FileImpl FileNode Ptr Store where
  newFile := FileNode.empty
  ptr0 := Ptr.zero
  size := fun fn => fn.size
  off := fun p => p.off
  seekTo := Ptr.seekTo
  trunc := fun fn n => match truncate max fn n with
    | some fn' => pure fn'
    | none => throw Err.panic
  read := fun st fn p n => match readAt st fn p n with
    | some r => pure (r.data, r.ptr, ioErr r.err)
    | none => throw Err.panic
  write := fun st fn p app data =>
    let p := if app then appendPtr fn else p
    match write hash max st fn p data with
    | WriteRes.done w n => pure (w.st, settle hash w.fn, w.ptr, n)
    | WriteRes.panic => throw Err.panic
    | WriteRes.hang => throw Err.hang
  flush := fun st fns short => flushFiles hash max st fns short

/-- The specification: a file is a byte list, a pointer is an offset. -/
def specImpl : FileImpl Bytes Nat Unit where
  newFile := []
  ptr0 := 0
  size := fun f => f.length
  off := fun p => p
  seekTo := fun _ o => o
  trunc := fun f n => pure (specTruncate f n)
  read := fun _ f p n =>
    let d := specRead f p n
    pure (d, p + d.length, if p ≥ f.length ∨ (p + d.length = f.length ∧ d.length < n) then Err.eof else Err.ok)
  write := fun _ f p app data =>
    let p := if app then f.length else p
    pure ((), specWrite f p data, p + data.length, data.length)
  flush := fun w fs _ => (w, fs)

/-! ### Initial state from a manifest (fs_collection.go loadManifest / createFileAndParents)

Input is already tokenised: per stream the directory name, the blocks (their bytes; locator =
`hash`) and the file tokens (offset, length, name). `none` = loadManifest returns an error. -/

structure LoadSeg where
  loc : Loc
  size : Nat

/-- the inner `for ; segIdx < len(segments); segIdx++` loop for one file token; returns the
segments to append and the new (segIdx, pos). -/
def loadToken (segs : List LoadSeg) (offset length : Nat) :
    Nat → Nat → Nat → List Seg → (List Seg × Nat × Nat)
  | 0, segIdx, pos, acc => (acc, segIdx, pos)
  | fuel + 1, segIdx, pos, acc =>
    match segs[segIdx]? with
    | none => (acc, segIdx, pos)
    | some seg =>
      let next := pos + seg.size
      if next ≤ offset || seg.size == 0 then loadToken segs offset length fuel (segIdx + 1) next acc
      else if pos ≥ offset + length then (acc, segIdx, pos)
      else
        let blkOff := if pos < offset then offset - pos else 0
        let blkLen0 := seg.size - blkOff
        let blkLen := if pos + blkOff + blkLen0 > offset + length then offset + length - pos - blkOff else blkLen0
        let acc := if blkLen > 0 then acc ++ [Seg.stored seg.loc seg.size blkOff blkLen] else acc
        if next > offset + length then (acc, segIdx, pos)
        else loadToken segs offset length fuel (segIdx + 1) next acc

/-- `createFileAndParents`: the directory walk (creating missing directories). -/
def loadDirs (s : FS FileNode Ptr Store) : Nat → List String → Option (FS FileNode Ptr Store × Nat)
  | d, [] => some (s, d)
  | d, name :: rest =>
    if name == "" || name == "." then loadDirs s d rest
    else if name == ".." then
      if d == 0 then none else loadDirs s (parentOf s.dirs d) rest
    else match child s.ents d name with
      | none =>
        let (s', n) := addNode (concImpl (fun _ => []) 1) s d name true
        (match n with
         | Node.dir k => loadDirs s' k rest
         | Node.file _ => none)
      | some (Node.dir k) => loadDirs s k rest
      | some (Node.file _) => none

/-- `createFileAndParents`, last component: the file named `base` in directory `d` (created empty
if missing); a directory of that name is an error. -/
def loadFile (hash : Bytes → Loc) (s : FS FileNode Ptr Store) (d : Nat) (base : String) :
    Option (FS FileNode Ptr Store × Nat) :=
  match child s.ents d base with
  | none =>
    (match addNode (concImpl hash 1) s d base false with
     | (s', Node.file f) => some (s', f)
     | _ => none)
  | some (Node.file f) => some (s, f)
  | some (Node.dir _) => none

/-- One file token `offset:length:name` of a stream whose blocks are `segs`; the state carries the
(segIdx, pos) cursor of `loadManifest` across the tokens of the stream. -/
def loadTok (hash : Bytes → Loc) (dirname : String) (segs : List LoadSeg)
    (acc : Option (FS FileNode Ptr Store × Nat × Nat)) (tok : Nat × Nat × String) :
    Option (FS FileNode Ptr Store × Nat × Nat) :=
  match acc with
  | none => none
  | some (s, segIdx, pos) =>
    let comps := splitPath (dirname ++ "/" ++ tok.2.2)
    let base := comps.getLast?.getD ""
    match loadDirs s 0 comps.dropLast with
    | none => none
    | some (s, d) =>
      if base == "." then
        if tok.2.1 == 0 then some (s, segIdx, pos) else none
      else if special base then none
      else
        match loadFile hash s d base with
        | none => none
        | some (s, f) =>
          let cur : Nat × Nat := if pos > tok.1 then (0, 0) else (segIdx, pos)
          let r := loadToken segs tok.1 tok.2.1 (segs.length + 1) cur.1 cur.2 []
          if r.2.1 == segs.length && r.2.2 < tok.1 + tok.2.1 then none
          else match s.files[f]? with
            | none => none
            | some (_, fn) =>
              some (setFile s f { fn with segs := fn.segs ++ r.1, size := fn.size + sumLen r.1 }, r.2.1, r.2.2)

def loadStream (hash : Bytes → Loc) (s : FS FileNode Ptr Store) (dirname : String) (blocks : List Bytes)
    (toks : List (Nat × Nat × String)) : Option (FS FileNode Ptr Store) :=
  let segs : List LoadSeg := blocks.map (fun b => ⟨hash b, b.length⟩)
  let st := blocks.foldl (fun st b => Store.put hash st b) s.world
  if toks.isEmpty || blocks.isEmpty || dirname == "" then none else
  (toks.foldl (loadTok hash dirname segs) (some ({ s with world := st }, 0, 0))).map (·.1)

def loadManifest (hash : Bytes → Loc) (streams : List (String × List Bytes × List (Nat × Nat × String))) :
    Option (FS FileNode Ptr Store) :=
  streams.foldl (fun acc (st : String × List Bytes × List (Nat × Nat × String)) =>
    match acc with
    | none => none
    | some s => loadStream hash s st.1 st.2.1 st.2.2) (some (FS.init (fun _ => none)))

end ArvVerif.C08
