/-
C13 — reader/writer locks with writer preference (Go's sync.RWMutex), for the operations that walk
DOWN one path of the tree: filehandle Read / Write / Seek / Stat / Truncate, the completion
goroutines and waitPrune (one inode lock), OpenFile / Mkdir / remove / Readdir / Stat(path)
(a directory, then one child).

Model/C13_Lock.lean treats every lock as exclusive. That hides one way to deadlock that only exists
with sync.RWMutex: a goroutine that read-locks a mutex it has already read-locked blocks for ever as
soon as another goroutine has called Lock() in between (the pending writer waits for the first read
lock, the second RLock queues behind the pending writer). Here an acquisition has a mode, a pending
writer blocks new readers, and an operation may wait for itself.

Lock ids as in C13_Lock: 0 = fileSystem.mutex, n+1 = inode n.
-/
import ArvVerif.Model.C13_Lock
namespace ArvVerif.C13.RW
open ArvVerif.C13.Lock (Lk)

inductive Mode
  | r
  | w
  deriving DecidableEq, Repr

/-- what one (single-goroutine) operation instance is doing: the locks it holds, each with its
mode, and the acquisition it is blocked in, if any -/
structure ROp where
  held : List (Lk × Mode)
  want : Option (Lk × Mode)
  deriving Repr

/-- `j` stands in the way of the acquisition `a = (l, m)`:
  * `j` holds `l` and one of the two modes is `w`; or
  * writer preference: `a` is a read lock and `j` has called `Lock()` on `l` and not got it yet.
(Go lets a reader pass while no writer is pending, whoever holds read locks; every real wait is one
of these edges, so "no cycle of these edges" is at least as strong as "no cycle of real waits".) -/
def Blocks (j : ROp) (a : Lk × Mode) : Prop :=
  (∃ h ∈ j.held, h.1 = a.1 ∧ (h.2 = Mode.w ∨ a.2 = Mode.w)) ∨ (a.2 = Mode.r ∧ j.want = some (a.1, Mode.w))

instance (j : ROp) (a : Lk × Mode) : Decidable (Blocks j a) := by unfold Blocks; exact inferInstance

/-- operation i waits for operation j (i = j is possible: a re-entrant acquisition) -/
def Waits (ops : List ROp) (i j : Nat) : Prop :=
  ∃ oi oj a, ops[i]? = some oi ∧ ops[j]? = some oj ∧ oi.want = some a ∧ Blocks oj a

inductive Path (ops : List ROp) : Nat → Nat → Prop
  | single {i j : Nat} : Waits ops i j → Path ops i j
  | cons {i j k : Nat} : Waits ops i j → Path ops j k → Path ops i k

/-- The discipline: the lock an operation asks for ranks strictly above every lock it holds
(whatever the modes). In particular it never asks for a lock it holds. -/
def Ordered (rank : Lk → Nat) (o : ROp) : Prop :=
  ∀ a, o.want = some a → ∀ h ∈ o.held, rank h.1 < rank a.1

/-- the state of an operation that takes the locks of `script` one after the other, after `k` of them -/
def atStep (script : List (Lk × Mode)) (k : Nat) : ROp := ⟨script.take k, script[k]?⟩

/-! ### the scripts of the code (inode numbers; `create`: O_CREATE) -/

/-- filehandle.Read: `f.inode.RLock()` -/
def readScript (n : Nat) : List (Lk × Mode) := [(n + 1, Mode.r)]
/-- filehandle.Seek: `f.inode.Size()` → filenode.Size: `fn.RLock()`, released before Seek goes on
(tie_handleSeekSkeleton, tie_nodeSizeSkeleton) -/
def seekScript (n : Nat) : List (Lk × Mode) := [(n + 1, Mode.r)]
/-- filehandle.Stat → FileInfo: `fn.RLock()` -/
def statScript (n : Nat) : List (Lk × Mode) := [(n + 1, Mode.r)]
/-- filehandle.Write / Truncate, the goroutine tails of pruneMemSegments and async commitBlock,
waitPrune: `fn.Lock()` -/
def writeScript (n : Nat) : List (Lk × Mode) := [(n + 1, Mode.w)]
/-- openFile: the directory (write lock with O_CREATE, else read lock), then the child for O_TRUNC -/
def openScript (create : Bool) (d c : Nat) : List (Lk × Mode) :=
  [(d + 1, if create then Mode.w else Mode.r), (c + 1, Mode.w)]
/-- treenode.Readdir: the directory's read lock, then one child at a time (FileInfo: a file's read
lock, a directory's write lock) -/
def readdirScript (d c : Nat) (childIsDir : Bool) : List (Lk × Mode) :=
  [(d + 1, Mode.r), (c + 1, if childIsDir then Mode.w else Mode.r)]
/-- remove / Mkdir: the directory's write lock, then (remove of a directory: `node.Size()`) the child -/
def removeScript (d c : Nat) : List (Lk × Mode) := [(d + 1, Mode.w), (c + 1, Mode.w)]

/-- what the seeded change C13-h turns Seek into: RLock, then Size() → RLock again -/
def reentrantSeekScript (n : Nat) : List (Lk × Mode) := [(n + 1, Mode.r), (n + 1, Mode.r)]

end ArvVerif.C13.RW
