/-
C03: BlockCache under concurrency (block_cache.go Get / Sweep) as a transition system over atomic
steps. Every step is what happens inside one critical section of `c.mtx`:

  lookup r k     reader r runs the first locked section of Get for cache key k: a finished entry
                 without error is returned at once; a pending entry is joined (the reader then waits
                 on `b.fetched`); a missing entry, or a finished entry **holding an error**, is
                 replaced by a fresh pending entry and a new fetch goroutine is started
  fetchDone f e  fetch goroutine f stores its outcome `e` in its cacheBlock (which may or may not
                 still be in the map) and closes `fetched`: every reader waiting on it gets `e`
  sweep keep     Sweep deletes any set of keys (an over-approximation of the LRU rule; pending
                 entries can be deleted too, their waiting readers still get the outcome)

Any number of readers, any interleaving. A fetch id carries the key it was started for.
-/
import ArvVerif.Model.C03
namespace ArvVerif.C03

abbrev Key := List Char
abbrev FetchId := Key × Nat

inductive CE where
  | pending (f : FetchId)
  | done (e : Entry)
deriving DecidableEq, Repr

structure CS where
  cache : Key → Option CE
  waiting : List (Nat × Key × FetchId)      -- reader, key it asked for, fetch it waits on
  results : List (Nat × Key × Entry)        -- what BlockCache.Get returned to reader r asking for k
  inflight : List FetchId
  nextFid : Nat

def CS.init : CS := { cache := fun _ => none, waiting := [], results := [], inflight := [], nextFid := 0 }

inductive Act where
  | lookup (r : Nat) (k : Key)
  | fetchDone (f : FetchId) (e : Entry)
  | sweep (keep : Key → Bool)

def setKey (c : Key → Option CE) (k : Key) (v : Option CE) : Key → Option CE :=
  fun k' => if k' = k then v else c k'

def startFetch (s : CS) (r : Nat) (k : Key) : CS :=
  let f : FetchId := (k, s.nextFid)
  { s with cache := setKey s.cache k (some (.pending f)),
           waiting := (r, k, f) :: s.waiting,
           inflight := f :: s.inflight,
           nextFid := s.nextFid + 1 }

def apply (s : CS) : Act → CS
  | .lookup r k =>
    match s.cache k with
    | none => startFetch s r k
    | some (.pending f) => { s with waiting := (r, k, f) :: s.waiting }
    | some (.done e) =>
      match e.err with
      | none => { s with results := (r, k, e) :: s.results }
      | some _ => startFetch s r k            -- `!ok || b.err != nil`: refetch, never serve
  | .fetchDone f e =>
    if f ∈ s.inflight then
      { s with
        cache := if s.cache f.1 = some (.pending f) then setKey s.cache f.1 (some (.done e)) else s.cache,
        inflight := s.inflight.erase f,
        waiting := s.waiting.filter (fun w => w.2.2 ≠ f),
        results := ((s.waiting.filter (fun w => w.2.2 = f)).map (fun w => (w.1, w.2.1, e))) ++ s.results }
    else s
  | .sweep keep => { s with cache := fun k => if keep k then s.cache k else none }

/-- An action is possible when a finishing fetch reports an outcome the fetch can actually
produce for its key (`out k e`). -/
def Act.Valid (out : Key → Entry → Prop) : Act → Prop
  | .fetchDone f e => out f.1 e
  | _ => True

/-- States reachable by any interleaving of any number of readers, fetch completions and sweeps. -/
inductive Reach (out : Key → Entry → Prop) : CS → Prop where
  | init : Reach out CS.init
  | step (s : CS) (a : Act) : Reach out s → a.Valid out → Reach out (apply s a)

end ArvVerif.C03
