/-
C14 model, layer L3 (second half): the queue cache against the API server.

Source: lib/dispatchcloud/container/queue.go (`Update`, `poll`, `updateWithResp`, `Lock`, `Unlock`,
`Cancel`, `Forget`). The API record of a container moves Queued → Locked → Running → Complete,
with Cancelled reachable from every non-final state; Locked ⇄ Queued only by this dispatcher's
`Lock`/`Unlock` (single dispatcher per token: "Locked by this dispatcher"). The cache
(`cq.current`) changes by the response of the dispatcher's own calls (`updateWithResp`, which
also marks the uuid `dontupdate` while a poll is in flight), by `Forget`, and at the end of a
poll, which reads every container at some instant *during* the poll (so a poll result may be
stale, but never overwrites a newer local result).

`QEv.start c` is the scheduler's `StartContainer(c)`; L1 (`C14_start_only_locked`) says it happens
only for a container that is Locked in the pass's `Entries()` snapshot, which is the guard here.
-/
import ArvVerif.Model.C14
namespace ArvVerif.C14

def CState.final (s : CState) : Bool := s == .complete || s == .cancelled

structure QState where
  api : Uuid → CState                 -- the API server's record
  cache : Uuid → Option CState        -- cq.current
  polling : Bool                      -- a poll is in flight (cq.dontupdate != nil)
  snap : Uuid → Option CState         -- what the poll in flight has read so far
  dont : Uuid → Bool                  -- cq.dontupdate

inductive QEv where
  | env | lock (c : Uuid) | unlock (c : Uuid) | cancel (c : Uuid) | forget (c : Uuid)
  | poll | start (c : Uuid)
deriving DecidableEq, Repr

def qupd {α : Type} (f : Uuid → α) (c : Uuid) (v : α) : Uuid → α := fun d => if d = c then v else f d

theorem qupd_eq {α : Type} (f : Uuid → α) (c d : Uuid) (v : α) :
    qupd f c v d = if d = c then v else f d := rfl

/-- `updateWithResp`: the cache entry (if there is one) takes the response's state; during a
poll the uuid is marked `dontupdate`. -/
def QState.localUpdate (s : QState) (c : Uuid) (st : CState) : QState :=
  { s with api := qupd s.api c st,
           cache := fun d => if d = c ∧ s.cache c ≠ none then some st else s.cache d,
           dont := fun d => if d = c then (s.polling || s.dont c) else s.dont d }

inductive QStep : QState → QEv → QState → Prop where
  /-- someone else (user, crunch-run) moves the API record forward -/
  | apiCancel (s : QState) (c : Uuid) (h : (s.api c).final = false) :
      QStep s .env { s with api := qupd s.api c .cancelled }
  | apiRun (s : QState) (c : Uuid) (h : s.api c = .locked) :
      QStep s .env { s with api := qupd s.api c .running }
  | apiComplete (s : QState) (c : Uuid) (h : s.api c = .running) :
      QStep s .env { s with api := qupd s.api c .complete }
  /-- a new container is submitted (fresh uuid: not known to the API or the cache) -/
  | apiSubmit (s : QState) (c : Uuid) (h : s.api c = .other) (h' : s.cache c = none) :
      QStep s .env { s with api := qupd s.api c .queued }
  /-- the dispatcher's own calls; they succeed only from the right API state -/
  | lockOk (s : QState) (c : Uuid) (h : s.api c = .queued) :
      QStep s (.lock c) (s.localUpdate c .locked)
  | unlockOk (s : QState) (c : Uuid) (h : s.api c = .locked) :
      QStep s (.unlock c) (s.localUpdate c .queued)
  | cancelOk (s : QState) (c : Uuid) (h : (s.api c).final = false) :
      QStep s (.cancel c) (s.localUpdate c .cancelled)
  | forget (s : QState) (c : Uuid) :
      QStep s (.forget c) { s with cache := qupd s.cache c none }
  /-- `Update` begins: `dontupdate = {}` -/
  | pollBegin (s : QState) (h : s.polling = false) :
      QStep s .poll { s with polling := true, snap := fun _ => none, dont := fun _ => false }
  /-- one container's record is read by one of the poll's list requests -/
  | pollRead (s : QState) (c : Uuid) (h : s.polling = true) :
      QStep s .poll { s with snap := qupd s.snap c (some (s.api c)) }
  /-- `Update` ends: entries that were read replace (or are added to) the cache unless marked
  `dontupdate`; entries that were not read are expunged. (The poll reads finished containers only
  when they are in the cache at that moment; the model lets it read any, which only adds
  behaviours.) -/
  | pollEnd (s : QState) (h : s.polling = true) :
      QStep s .poll { s with
        polling := false,
        cache := fun c => if s.dont c then s.cache c else s.snap c }
  /-- `StartContainer(c)` (L1: only for a container Locked in the pass's queue snapshot) -/
  | start (s : QState) (c : Uuid) (h : s.cache c = some .locked) :
      QStep s (.start c) s

def QState.init : QState :=
  { api := fun _ => .other, cache := fun _ => none, polling := false, snap := fun _ => none,
    dont := fun _ => false }

inductive QReachFrom (s : QState) : QState → Prop where
  | refl : QReachFrom s s
  | step {t u : QState} {ev : QEv} : QReachFrom s t → QStep t ev u → QReachFrom s u

abbrev QReach (s : QState) : Prop := QReachFrom QState.init s

end ArvVerif.C14
