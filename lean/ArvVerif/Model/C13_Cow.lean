/-
C13 — memSegment as a slice header over a heap of allocations (sdk/go/arvados/fs_collection.go
memSegment.{Truncate, WriteAt, Slice}, and the hand-off of `seg.buf` to a background writer in
pruneMemSegments / commitBlock).

The value model of C08 (`memTruncate`, `memWriteAt`) cannot say "the bytes handed to PutB are never
written afterwards" because a value has no identity. Here a segment is (allocation id, len, cap,
flushing) and the buffer lives in a heap, so in-place writes and fresh allocations are different
things, exactly as in the Go code:

  Truncate(n): if n > cap(buf) || (flushing != nil && n > len(buf)) → new allocation (copy, zero
               fill), flushing = nil; else reslice in place and zero buf[oldlen:n] IN PLACE.
  WriteAt(p, off): panic if off+len(p) > len(buf); if flushing != nil → new allocation (copy),
               flushing = nil; then copy p into buf[off:] IN PLACE.
  Slice: a new segment over a new allocation.
  hand-off (seg.flushing = done; PutB(seg.buf) in a goroutine): records (allocation, len, bytes).
-/
import ArvVerif.Base.Bytes
namespace ArvVerif.C13.Cow

/-- a memSegment: `buf` = heap[ptr][0:len], capacity `cap`; `flushing` = some channel id or nil -/
structure MSeg where
  ptr : Nat
  len : Nat
  cap : Nat
  flushing : Option Nat
  deriving Repr, DecidableEq

/-- a buffer that was handed to a background writer: allocation, length, the bytes at hand-off -/
structure Shared where
  ptr : Nat
  len : Nat
  snap : Bytes
  deriving Repr

structure State where
  heap : List Bytes          -- allocation id = index; each entry has its capacity as length
  segs : List MSeg
  shared : List Shared

def zeros (n : Nat) : Bytes := List.replicate n 0

/-- `for i := a; i < b; i++ { buf[i] = 0 }` -/
def zeroRange (buf : Bytes) (a b : Nat) : Bytes :=
  if a < b then buf.take a ++ zeros (min b buf.length - a) ++ buf.drop (min b buf.length) else buf

/-- `copy(buf[off:], p)` -/
def copyAt (buf : Bytes) (off : Nat) (p : Bytes) : Bytes :=
  buf.take off ++ p.take (buf.length - off) ++ buf.drop (off + p.length)

/-- capacity Go's Truncate chooses: 1024, 4096, ... ≥ n -/
def newsize (n : Nat) : Nat := Id.run do
  let mut sz := 1024
  for _ in [0:32] do
    if sz < n then sz := sz * 4
  return sz

inductive Op
  | truncate (i n : Nat)
  | writeAt (i : Nat) (p : Bytes) (off : Nat)
  | slice (i off len : Nat)
  | handOff (i tok : Nat)          -- seg.flushing = done; go PutB(seg.buf)
  | drop (i : Nat)                 -- the segment leaves the file (truncate, overwrite, replaced by a stored segment)
  deriving Repr

def bufOf (st : State) (sg : MSeg) : Bytes := ((st.heap[sg.ptr]?).getD []).take sg.len

/-- `none` = Go panics -/
def step (st : State) : Op → Option State
  | Op.truncate i n =>
    match st.segs[i]? with
    | none => none
    | some sg =>
      if n > sg.cap ∨ (sg.flushing ≠ none ∧ n > sg.len) then
        let cap' := if newsize n < n then n else newsize n
        let newbuf := (bufOf st sg).take n ++ zeros (cap' - min n sg.len)
        some { st with heap := st.heap ++ [newbuf],
                       segs := st.segs.set i { ptr := st.heap.length, len := n, cap := cap', flushing := none } }
      else
        let old := (st.heap[sg.ptr]?).getD []
        some { st with heap := st.heap.set sg.ptr (zeroRange old sg.len n),
                       segs := st.segs.set i { sg with len := n } }
  | Op.writeAt i p off =>
    match st.segs[i]? with
    | none => none
    | some sg =>
      if off + p.length > sg.len then none
      else if sg.flushing ≠ none then
        let newbuf := copyAt (bufOf st sg) off p
        some { st with heap := st.heap ++ [newbuf],
                       segs := st.segs.set i { ptr := st.heap.length, len := sg.len, cap := sg.len, flushing := none } }
      else
        let old := (st.heap[sg.ptr]?).getD []
        some { st with heap := st.heap.set sg.ptr (copyAt old off p) }
  | Op.slice i off len =>
    match st.segs[i]? with
    | none => none
    | some sg =>
      if off > sg.len then none
      else
        let newbuf := ((bufOf st sg).drop off).take len ++ zeros (len - (sg.len - off))
        some { st with heap := st.heap ++ [newbuf],
                       segs := st.segs ++ [{ ptr := st.heap.length, len := len, cap := len, flushing := none }] }
  | Op.handOff i tok =>
    match st.segs[i]? with
    | none => none
    | some sg =>
      some { st with segs := st.segs.set i { sg with flushing := some tok },
                     shared := ⟨sg.ptr, sg.len, bufOf st sg⟩ :: st.shared }
  | Op.drop i =>
    if i < st.segs.length then some { st with segs := st.segs.eraseIdx i } else none

def run : State → List Op → Option State
  | st, [] => some st
  | st, op :: ops =>
    match step st op with
    | none => none
    | some st' => run st' ops

end ArvVerif.C13.Cow
