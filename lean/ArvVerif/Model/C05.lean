/-
C05 model: keep-balance's per-block decisions (services/keep-balance/balance.go: cleanupMounts,
setupLookupTables, balanceBlock, computeBlockState, rendezvousLess; change_set.go: the JSON shape
of Trash and Pull).

Encoding. Storage classes and device ids are natural numbers; device 0 is the blank DeviceID ""
(never entered into `wantDev`, never deduplicated). Class codes are assigned by the driver in the
lexicographic order of the class names, so `sort.Strings(bal.classes)` is a numeric sort. Mounts
and services are identified by numbers (Go: pointer identity). Replica mtimes are `Int` (int64).

Nondeterminism. `bal.KeepServices` is a map and `sort.Slice` is unstable, so the slot order after
each per-class sort is *some* permutation that is sorted w.r.t. the code's comparator
(`IsSorted (less env c)`). The model takes the sort as a parameter `sorter` and `RunOK` states that
every call made during the run returned such a list; every theorem is proved for every such run.
The executable driver enumerates all sorted lists (the groups of slots that compare equal are tiny).
-/
namespace ArvVerif.C05

abbrev Class := Nat
abbrev Dev := Nat

/-! ## Layout as discovered (`discoverMounts`), `cleanupMounts`, `setupLookupTables` -/

/-- A mount as reported by a keepstore server (`arvados.KeepMount`). `classes` are the *keys* of
`StorageClasses` (the code ranges over keys and ignores the boolean values). -/
structure RawMount where
  id : Nat
  dev : Dev
  ro : Bool
  repl : Int
  classes : List Class
  deriving DecidableEq, Repr

structure RawService where
  id : Nat
  ro : Bool
  mounts : List RawMount
  deriving DecidableEq, Repr

def allRawMounts (svcs : List RawService) : List RawMount := svcs.flatMap (·.mounts)

/-- `rwdev`: the non-blank devices that are mounted read-write somewhere (mount flag only; the
server's read-only flag is applied later, in setupLookupTables). -/
def rwDevs (svcs : List RawService) : List Dev :=
  ((allRawMounts svcs).filter (fun m => !m.ro && m.dev != 0)).map (·.dev)

/-- `if mnt.Replication <= 0 { mnt.Replication = 1 }` -/
def fixRepl (m : RawMount) : RawMount := if m.repl ≤ 0 then { m with repl := 1 } else m

/-- `cleanupMounts`: drop read-only mounts whose device is mounted read-write elsewhere; force
replication ≥ 1. -/
def cleanupMounts (svcs : List RawService) : List RawService :=
  let rw := rwDevs svcs
  svcs.map fun s =>
    { s with mounts := (s.mounts.filter (fun m => !(m.ro && rw.contains m.dev))).map fixRepl }

/-- A mount as `balanceBlock` sees it after `setupLookupTables`: read-only if the mount or its
server is; member of `dflt` when it lists no class. -/
structure Mount where
  id : Nat
  srv : Nat
  dev : Dev
  ro : Bool
  repl : Nat
  classes : List Class
  deriving DecidableEq, Repr

def effMount (dflt : Class) (s : RawService) (m : RawMount) : Mount :=
  { id := m.id, srv := s.id, dev := m.dev, ro := m.ro || s.ro, repl := m.repl.toNat,
    classes := if m.classes.isEmpty then [dflt] else m.classes }

/-- the mounts of all services, with the lookup-table view of flags and classes -/
def effMounts (dflt : Class) (svcs : List RawService) : List Mount :=
  svcs.flatMap fun s => s.mounts.map (effMount dflt s)

def insertSorted (le : α → α → Bool) (a : α) : List α → List α
  | [] => [a]
  | b :: l => if le a b then a :: b :: l else b :: insertSorted le a l

/-- structural insertion sort (reduces in the kernel, unlike `mergeSort`) -/
def isort (le : α → α → Bool) : List α → List α
  | [] => []
  | a :: l => insertSorted le a (isort le l)

def dedupNat : List Nat → List Nat
  | [] => []
  | a :: l => if l.contains a then dedupNat l else a :: dedupNat l

/-- `bal.classes`: "default" plus every class some mount lists, sorted. -/
def classesOf (dflt : Class) (svcs : List RawService) : List Class :=
  isort (fun a b => decide (a ≤ b)) (dedupNat (dflt :: (allRawMounts svcs).flatMap (·.classes)))

def inClass (c : Class) (m : Mount) : Bool := m.classes.contains c

/-! ## balanceBlock -/

/-- one entry of `blk.Replicas` -/
structure Replica where
  mnt : Nat
  srv : Nat
  mtime : Int
  deriving DecidableEq, Repr

structure Slot where
  mnt : Mount
  repl : Option Int
  want : Bool
  deriving DecidableEq, Repr

/-- the replica `balanceBlock` attaches to a mount: the *last* entry of `blk.Replicas` naming it -/
def replicaOn (reps : List Replica) (id : Nat) : Option Int :=
  (reps.reverse.find? (fun r => r.mnt == id)).map (·.mtime)

/-- slot construction; initial `want` is "have, and can't delete" -/
def initSlots (mounts : List Mount) (reps : List Replica) : List Slot :=
  mounts.map fun m =>
    let r := replicaOn reps m.id
    { mnt := m, repl := r, want := r.isSome && m.ro }

def lookupD (m : List (Class × Nat)) (c : Class) : Option Nat := (m.find? (fun p => p.1 == c)).map (·.2)

/-- what the run provides for one block -/
structure Env where
  rank : Nat → Nat              -- srvRendezvous: position of a service in the rendezvous order
  devLess : Dev → Dev → Bool    -- rendezvousLess(DeviceID i, DeviceID j, blkid)
  minMtime : Int
  desiredMap : List (Class × Nat)   -- blk.Desired (a map: the first entry of a key counts)

/-- `blk.Desired[class]` (0 when absent) -/
def Env.desired (env : Env) (c : Class) : Nat := (lookupD env.desiredMap c).getD 0

/-- `for class, desired := range blk.Desired` finds a class with desired > 0 satisfying `p` -/
def Env.wantsSome (env : Env) (p : Class → Bool) : Bool :=
  env.desiredMap.any (fun e => decide (env.desired e.1 ≠ 0) && p e.1)

/-- the comparator handed to `sort.Slice` for class `c` -/
def less (env : Env) (c : Class) (a b : Slot) : Bool :=
  if inClass c a.mnt != inClass c b.mnt then inClass c a.mnt
  else if a.want != b.want then a.want
  else if env.rank a.mnt.srv != env.rank b.mnt.srv then decide (env.rank a.mnt.srv < env.rank b.mnt.srv)
  else if a.repl.isSome != b.repl.isSome then a.repl.isSome
  else env.devLess a.mnt.dev b.mnt.dev

/-- what an (unstable) sort with a strict-weak-order comparator guarantees -/
def IsSorted (lt : α → α → Bool) (inp out : List α) : Prop :=
  out.Perm inp ∧ out.Pairwise (fun a b => lt b a = false)

/-- the maps and counters local to one class iteration -/
structure PassSt where
  wantSrv : List Nat
  wantMnt : List Nat
  wantDev : List Dev
  protMnt : List Nat
  protDev : List Dev     -- devices whose replication is already counted in replProt
  replWant : Nat
  replProt : Nat
  utd : List Int         -- unsafeToDelete (shared by all iterations)
  done : Bool
  deriving DecidableEq, Repr

/-- the protection part of trySlot: the replica becomes unsafe to delete; it counts toward
`replProt` only if its mount is in class `c` and its device has not been counted yet -/
def protectStep (c : Class) (d : Nat) (s : Slot) (st : PassSt) : PassSt :=
  match s.repl with
  | some t =>
    if st.replProt < d && !st.protMnt.contains s.mnt.id then
      { st with utd := t :: st.utd, protMnt := s.mnt.id :: st.protMnt,
                replProt := if inClass c s.mnt && !st.protDev.contains s.mnt.dev
                            then st.replProt + s.mnt.repl else st.replProt,
                protDev := if s.mnt.dev != 0 then s.mnt.dev :: st.protDev else st.protDev }
    else st
  | none => st

def wantStep (d : Nat) (s : Slot) (st : PassSt) : PassSt :=
  if st.replWant < d && (s.repl.isSome || !s.mnt.ro) then
    { st with wantSrv := s.mnt.srv :: st.wantSrv, wantMnt := s.mnt.id :: st.wantMnt,
              wantDev := if s.mnt.dev != 0 then s.mnt.dev :: st.wantDev else st.wantDev,
              replWant := st.replWant + s.mnt.repl }
  else st

/-- `trySlot(i)`; `done` holds its return value -/
def trySlot (c : Class) (d : Nat) (s : Slot) (st : PassSt) : PassSt :=
  if st.wantMnt.contains s.mnt.id || st.wantDev.contains s.mnt.dev then { st with done := false }
  else
    let st2 := wantStep d s (protectStep c d s st)
    { st2 with done := decide (d ≤ st2.replProt) && decide (d ≤ st2.replWant) }

def pass1Step (c : Class) (d : Nat) (st : PassSt) (s : Slot) : PassSt :=
  if st.done then st else if st.wantSrv.contains s.mnt.srv then st else trySlot c d s st

def pass2Step (c : Class) (d : Nat) (st : PassSt) (s : Slot) : PassSt :=
  if st.done then st else trySlot c d s st

/-- first pass: distinct servers only -/
def pass1 (c : Class) (d : Nat) (slots : List Slot) (st : PassSt) : PassSt := slots.foldl (pass1Step c d) st
/-- second pass: no restriction -/
def pass2 (c : Class) (d : Nat) (slots : List Slot) (st : PassSt) : PassSt := slots.foldl (pass2Step c d) st

/-- the `safe` loop, with its `break`; `seen` is `safeDev` (a device counts once) -/
def safeCount (c : Class) (d : Nat) : List Slot → List Dev → Nat → Nat
  | [], _, safe => safe
  | s :: rest, seen, safe =>
    if s.repl.isNone || !inClass c s.mnt || seen.contains s.mnt.dev then safeCount c d rest seen safe
    else if d ≤ safe + s.mnt.repl then safe + s.mnt.repl
    else safeCount c d rest (if s.mnt.dev != 0 then s.mnt.dev :: seen else seen) (safe + s.mnt.repl)

/-- state carried from one class iteration to the next -/
structure BState where
  slots : List Slot
  utd : List Int
  underrep : Bool
  deriving DecidableEq, Repr

def passInit (utd : List Int) : PassSt :=
  { wantSrv := [], wantMnt := [], wantDev := [], protMnt := [], protDev := [], replWant := 0, replProt := 0,
    utd := utd, done := false }

/-- the mtimes added by the "devices mounted on multiple servers" loop; `devs` is
`wantDev` ∪ `protDev` -/
def wantDevMtimes (devs : List Dev) (slots : List Slot) : List Int :=
  slots.filterMap fun s => if devs.contains s.mnt.dev then s.repl else none

def markWant (wantMnt : List Nat) (s : Slot) : Slot :=
  if wantMnt.contains s.mnt.id then { s with want := true } else s

/-- one iteration of `for _, class := range bal.classes` on the slot list as sorted for `c`.
`slots[i].want = true` is applied at the end (mount identities are distinct and `want` is not read
during the iteration). -/
def classIter (env : Env) (c : Class) (sorted : List Slot) (b : BState) : BState :=
  let d := env.desired c
  let st := pass2 c d sorted (pass1 c d sorted (passInit b.utd))
  { slots := sorted.map (markWant st.wantMnt),
    utd := wantDevMtimes (st.wantDev ++ st.protDev) sorted ++ st.utd,
    underrep := if b.underrep then true else decide (safeCount c d sorted [] 0 < d) }

/-- the loop over `bal.classes`; `sorter c l` is what `sort.Slice` made of `l` for class `c` -/
def runClasses (env : Env) (sorter : Class → List Slot → List Slot) : List Class → BState → BState
  | [], b => b
  | c :: cs, b =>
    if env.desired c = 0 then runClasses env sorter cs b
    else runClasses env sorter cs (classIter env c (sorter c b.slots) b)

/-- every sort call of the run returned a sorted permutation of its input -/
def RunOK (env : Env) (sorter : Class → List Slot → List Slot) : List Class → BState → Prop
  | [], _ => True
  | c :: cs, b =>
    if env.desired c = 0 then RunOK env sorter cs b
    else IsSorted (less env c) b.slots (sorter c b.slots) ∧
         RunOK env sorter cs (classIter env c (sorter c b.slots) b)

/-- the weaker requirement the safety theorems actually need: every sort call returned SOME
permutation of its input (sortedness only matters for which of the safe outcomes is chosen) -/
def RunPerm (env : Env) (sorter : Class → List Slot → List Slot) : List Class → BState → Prop
  | [], _ => True
  | c :: cs, b =>
    if env.desired c = 0 then RunPerm env sorter cs b
    else (sorter c b.slots).Perm b.slots ∧
         RunPerm env sorter cs (classIter env c (sorter c b.slots) b)

theorem RunOK.toPerm {env : Env} {sorter : Class → List Slot → List Slot} :
    ∀ {cs : List Class} {b : BState}, RunOK env sorter cs b → RunPerm env sorter cs b := by
  intro cs
  induction cs with
  | nil => intro b _; trivial
  | cons c cs ih =>
    intro b h
    unfold RunOK at h
    unfold RunPerm
    by_cases hd : env.desired c = 0
    · simp only [hd, if_true] at h ⊢; exact ih h
    · simp only [hd, if_false] at h ⊢; exact ⟨h.1.1, ih h.2⟩

/-- "Don't trash any replicas of an underreplicated block, or replicas whose Mtimes are identical to
needed replicas" -/
def finalSlot (b : BState) (s : Slot) : Slot :=
  match s.repl with
  | some t => if b.underrep || b.utd.contains t then { s with want := true } else s
  | none => s

def finalWant (b : BState) : List Slot := b.slots.map (finalSlot b)

inductive Change where
  | trash (mtime : Int)
  | lost
  | pull (src : Option Nat)   -- service of blk.Replicas[0]
  | stay
  | none
  deriving DecidableEq, Repr

def Change.isTrash : Change → Bool
  | .trash _ => true
  | _ => false

/-- the final `switch` -/
def change (env : Env) (reps : List Replica) (s : Slot) : Change :=
  match s.repl with
  | some t => if !s.want && decide (t < env.minMtime) then .trash t else .stay
  | none =>
    if s.want then
      if reps.isEmpty then .lost
      else if !s.mnt.ro then .pull (reps.head?.map (·.srv))
      else .none
    else .none

structure Result where
  changes : List (Slot × Change)
  final : BState
  lost : Bool
  deriving Repr

/-- `lost`: set by the switch for a wanted empty slot of a block without replicas, and after the
loop for any block without replicas that is wanted in some class (offered or not) -/
def lostFlag (env : Env) (reps : List Replica) (changes : List (Slot × Change)) : Bool :=
  changes.any (fun p => p.2 == .lost) || (reps.isEmpty && env.wantsSome (fun _ => true))

/-- the state before the class loop: `underreplicated` starts true when the block is wanted in a
class that has no mount table (`bal.mountsByClass[class] == nil`, i.e. the class is not in
`bal.classes`) -/
def initState (env : Env) (classes : List Class) (mounts : List Mount) (reps : List Replica) : BState :=
  { slots := initSlots mounts reps, utd := [], underrep := env.wantsSome (fun c => !classes.contains c) }

/-- `balanceBlock` on the mounts of the (cleaned-up) layout -/
def balanceBlock (env : Env) (classes : List Class) (sorter : Class → List Slot → List Slot)
    (mounts : List Mount) (reps : List Replica) : Result :=
  let b := runClasses env sorter classes (initState env classes mounts reps)
  let changes := (finalWant b).map (fun s => (s, change env reps s))
  { changes := changes, final := b, lost := lostFlag env reps changes }

def BalanceOK (env : Env) (classes : List Class) (sorter : Class → List Slot → List Slot)
    (mounts : List Mount) (reps : List Replica) : Prop :=
  RunOK env sorter classes (initState env classes mounts reps)

def BalancePerm (env : Env) (classes : List Class) (sorter : Class → List Slot → List Slot)
    (mounts : List Mount) (reps : List Replica) : Prop :=
  RunPerm env sorter classes (initState env classes mounts reps)

theorem BalanceOK.toPerm {env : Env} {classes : List Class} {sorter : Class → List Slot → List Slot}
    {mounts : List Mount} {reps : List Replica} (h : BalanceOK env classes sorter mounts reps) :
    BalancePerm env classes sorter mounts reps := RunOK.toPerm h

/-- the whole per-block pipeline from the discovered layout -/
def plan (env : Env) (dflt : Class) (sorter : Class → List Slot → List Slot)
    (svcs : List RawService) (reps : List Replica) : Result :=
  let cl := cleanupMounts svcs
  balanceBlock env (classesOf dflt cl) sorter (effMounts dflt cl) reps

/-! ## computeBlockState (statistics only) -/

structure BBS where
  needed : Nat
  unneeded : Nat
  pulling : Nat
  unachievable : Bool
  deriving DecidableEq, Repr

def computeBlockState (slots : List Slot) (only : Option Class) (have_ needRepl : Nat) : BBS :=
  let step := fun (acc : BBS × Nat × List Dev) (s : Slot) =>
    let (bbs, repl, counted) := acc
    if (match only with | some c => !inClass c s.mnt | none => false) then acc
    else if counted.contains s.mnt.dev then acc
    else
      let counted' := if s.mnt.dev != 0 then s.mnt.dev :: counted else counted
      if s.repl.isSome && s.want then ({ bbs with needed := bbs.needed + 1 }, repl + s.mnt.repl, counted')
      else if s.repl.isSome && !s.want then ({ bbs with unneeded := bbs.unneeded + 1 }, repl + s.mnt.repl, counted')
      else if s.repl.isNone && s.want && decide (0 < have_) then ({ bbs with pulling := bbs.pulling + 1 }, repl + s.mnt.repl, counted')
      else (bbs, repl, counted')
  let (bbs, repl, _) := slots.foldl step ({ needed := 0, unneeded := 0, pulling := 0, unachievable := false }, 0, [])
  { bbs with unachievable := decide (repl < needRepl) }

/-! ## change_set.go: what is sent to keepstore -/

structure TrashReq where
  locator : List Char
  blockMtime : Int
  mountUUID : List Char
  deriving DecidableEq, Repr

structure PullReq where
  locator : List Char
  servers : List (List Char)
  mountUUID : List Char
  deriving DecidableEq, Repr

/-- `string(t.SizedDigest[:32])` -/
def locatorOf (blkid : List Char) : List Char := blkid.take 32

def trashReq (blkid : List Char) (uuidOf : Nat → List Char) (s : Slot) (mtime : Int) : TrashReq :=
  { locator := locatorOf blkid, blockMtime := mtime, mountUUID := uuidOf s.mnt.id }

def pullReq (blkid : List Char) (uuidOf urlOf : Nat → List Char) (s : Slot) (src : Nat) : PullReq :=
  { locator := locatorOf blkid, servers := [urlOf src], mountUUID := uuidOf s.mnt.id }

def trashFields : List String := ["locator", "block_mtime", "mount_uuid"]
def pullFields : List String := ["locator", "servers", "mount_uuid"]

def quote (s : List Char) : String := "\"" ++ String.ofList s ++ "\""

/-- `Trash.MarshalJSON` (ids and hashes in this domain need no JSON escaping); the keys are
`trashFields` (Tie.C05.tie_trashJSON) -/
def TrashReq.json (t : TrashReq) : String :=
  "{\"locator\":" ++ quote t.locator ++ ",\"block_mtime\":" ++ toString t.blockMtime ++
    ",\"mount_uuid\":" ++ quote t.mountUUID ++ "}"

/-- `Pull.MarshalJSON`; the keys are `pullFields` (Tie.C05.tie_pullJSON) -/
def PullReq.json (p : PullReq) : String :=
  "{\"locator\":" ++ quote p.locator ++ ",\"servers\":[" ++ ",".intercalate (p.servers.map quote) ++
    "],\"mount_uuid\":" ++ quote p.mountUUID ++ "}"

/-- the trash requests of a result -/
def Result.trashes (r : Result) : List (Slot × Int) :=
  r.changes.filterMap fun p => match p.2 with | .trash t => some (p.1, t) | _ => none

/-! ## physical-device semantics (the specification side of the safety clause) -/

/-- the physical device behind a mount: its non-blank DeviceID, or the mount itself -/
def devKey (m : Mount) : Nat × Nat := if m.dev = 0 then (0, m.id) else (1, m.dev)

/-- two mounts are views of one physical device -/
def sameDevice (a b : Mount) : Bool := devKey a == devKey b

/-- one representative mount per physical device -/
def distinctDevices : List Mount → List Mount
  | [] => []
  | a :: l => if (distinctDevices l).any (sameDevice a) then distinctDevices l else a :: distinctDevices l

/-- replication of class `c` offered by the physical devices behind `held` -/
def physRepl (c : Class) (held : List Mount) : Nat :=
  (((distinctDevices held).filter (inClass c)).map (·.repl)).sum

/-- mounts on which the block was observed -/
def Result.heldBefore (r : Result) : List Mount :=
  (r.changes.filter (fun p => p.1.repl.isSome)).map (·.1.mnt)

def Result.trashedMounts (r : Result) : List Mount :=
  (r.changes.filter (fun p => p.2.isTrash)).map (·.1.mnt)

/-- mounts through which the block is still visible after every trash request was carried out and
no pull succeeded: a trash on any view of a device removes the device's replica -/
def Result.heldAfter (r : Result) : List Mount :=
  r.heldBefore.filter fun m => !(r.trashedMounts.any (sameDevice m))

end ArvVerif.C05
