/-
C07 model: blob permission signatures.

Code modelled (all in /repo):
* sdk/go/arvados/blob_signature.go — `makePermSignature`, `SignLocator`, `SignedLocatorRe`
  (hand-written matcher `matchSigned`), `VerifySignature`, `parseHexTimestamp`, `SignManifest`
  with `mBlkRe`, `mPermHintRe` and the `\S+` tokenizer (sdk/go/keepclient/perms.go only re-exports
  these).
* services/keepstore/perms.go — `SignLocator` / `VerifySignature` wrappers (error mapping).
* services/keepstore/handlers.go — the two GET routes of `MakeRESTRouter`, `handleGET`'s order
  (remote-hint bypass → signature gate → volume read), `handlePUT`'s signing of the reply.
* services/api/app/models/blob.rb — `generate_signature` / `sign_locator` transcribed as the
  reference definition (`Ref.*`).

Go strings are byte strings; a byte `b` is represented by `Char.ofNat b` (the driver maps bytes
0–255 to the first 256 code points). All regexps involved only test ASCII classes, `[^+]`, `[^/]`,
`\S` and `.`; on a byte string (valid UTF-8 or not) each of them consumes whole runs of bytes
≥ 0x80 exactly as the per-byte test does, so the byte-level matchers below describe them exactly.

The MAC is a parameter: `mac key msg` is the raw digest (HMAC-SHA1 in the implementation, any
function in the theorems). Time is explicit: `nowNs` is the wall clock in nanoseconds since the
epoch at the moment `VerifySignature` calls `time.Now()`.
-/
namespace ArvVerif.C07

abbrev Str := List Char

/-! ## character classes -/

def isDigit (c : Char) : Bool := '0' ≤ c && c ≤ '9'
def isLowerHex (c : Char) : Bool := isDigit c || ('a' ≤ c && c ≤ 'f')
/-- `[[:xdigit:]]` -/
def isXDigit (c : Char) : Bool := isLowerHex c || ('A' ≤ c && c ≤ 'F')
/-- `[B-Z]` -/
def isHintStart (c : Char) : Bool := 'B' ≤ c && c ≤ 'Z'
/-- `[A-Za-z0-9@_-]` -/
def isHintChar (c : Char) : Bool :=
  isDigit c || ('A' ≤ c && c ≤ 'Z') || ('a' ≤ c && c ≤ 'z') || c == '@' || c == '_' || c == '-'
/-- RE2 `\s` = `[\t\n\f\r ]`; `\S` is its complement. -/
def isSpace (c : Char) : Bool := c == '\t' || c == '\n' || c == '\x0c' || c == '\r' || c == ' '

/-! ## number formatting / parsing -/

/-- lowercase hex of a natural number, no padding (`strconv.FormatInt(n,16)`, `%x`, Ruby `to_s(16)`) -/
def natHex (n : Nat) : Str := Nat.toDigits 16 n

def padLeft (w : Nat) (s : Str) : Str := List.replicate (w - s.length) '0' ++ s

/-- Go `fmt.Sprintf("%08x", v)` for an int64 `v`: width 8 *including* the sign. -/
def fmt08x (v : Int) : Str :=
  if 0 ≤ v then padLeft 8 (natHex v.toNat) else '-' :: padLeft 7 (natHex (-v).toNat)

/-- `strconv.FormatInt(v, 16)` -/
def intHex (v : Int) : Str :=
  if 0 ≤ v then natHex v.toNat else '-' :: natHex (-v).toNat

/-- `int64(d.Seconds())` for a `time.Duration` of `ttlNs` nanoseconds: truncation toward zero.
(Exact while |d| is below about 10^15 ns; beyond that the float addition inside `Seconds()` can
round up when the fractional part is within 2^-20 of a whole second. Stated as an assumption.) -/
def ttlSeconds (ttlNs : Int) : Int := Int.tdiv ttlNs 1000000000

/-- the TTL as it enters the signed message -/
def ttlHex (ttlNs : Int) : Str := intHex (ttlSeconds ttlNs)

def hexVal? (c : Char) : Option Nat :=
  if isDigit c then some (c.toNat - 48)
  else if 'a' ≤ c ∧ c ≤ 'f' then some (c.toNat - 87)
  else if 'A' ≤ c ∧ c ≤ 'F' then some (c.toNat - 55)
  else none

/-- value of a string of hex digits, `none` if some character is not a hex digit -/
def hexNat? : Str → Nat → Option Nat
  | [], acc => some acc
  | c :: cs, acc => match hexVal? c with
    | some v => hexNat? cs (acc * 16 + v)
    | none => none

/-- optional sign of `strconv.ParseInt`: (negative?, rest) -/
def splitSign : Str → Bool × Str
  | '+' :: r => (false, r)
  | '-' :: r => (true, r)
  | r => (false, r)

/-- `strconv.ParseInt(s, 16, 0)` on a 64-bit platform (no base prefix, no underscores because the
base is explicit; optional sign; at least one digit; range error outside int64), followed by
`time.Unix(v, 0)`: the result is the number of whole seconds. -/
def parseHexTimestamp (s : Str) : Option Int :=
  let neg := (splitSign s).1
  let ds := (splitSign s).2
  if ds.isEmpty then none else
  match hexNat? ds 0 with
  | none => none
  | some v =>
    if neg then (if v ≤ 2 ^ 63 then some (-(v : Int)) else none)
    else (if v < 2 ^ 63 then some (v : Int) else none)

/-! ## the signature -/

/-- two lowercase hex digits per digest byte (`fmt.Sprintf("%x", digest)`) -/
def hexOfDigest (d : List UInt8) : Str :=
  d.flatMap (fun b => [Nat.digitChar (b.toNat / 16), Nat.digitChar (b.toNat % 16)])

/-- the byte string fed to the MAC: `hash@token@expiry@ttl` -/
def sigMessage (blobHash apiToken expiryHex ttlHex : Str) : Str :=
  blobHash ++ '@' :: apiToken ++ '@' :: expiryHex ++ '@' :: ttlHex

variable (mac : Str → Str → List UInt8)

/-- `makePermSignature` -/
def makePermSignature (blobHash apiToken expiryHex ttlHex key : Str) : Str :=
  hexOfDigest (mac key (sigMessage blobHash apiToken expiryHex ttlHex))

/-- the hint appended by `SignLocator`: `+A<sig>@<expiry>` -/
def sigHint (blobHash apiToken : Str) (expiry ttlNs : Int) (key : Str) : Str :=
  '+' :: 'A' :: makePermSignature mac blobHash apiToken (fmt08x expiry) (ttlHex ttlNs) key
    ++ '@' :: fmt08x expiry

/-- `strings.Split(loc, "+")[0]` -/
def hashPart (loc : Str) : Str := loc.takeWhile (· ≠ '+')

/-- `SignLocator(blobLocator, apiToken, time.Unix(expiry,0), ttl, key)` -/
def signLocator (loc apiToken : Str) (expiry ttlNs : Int) (key : Str) : Str :=
  if key.isEmpty || apiToken.isEmpty then loc
  else loc ++ sigHint mac (hashPart loc) apiToken expiry ttlNs key

/-! ## SignedLocatorRe

`^([[:xdigit:]]{32})(\+[0-9]+)?((\+[B-Z][A-Za-z0-9@_-]*)*)(\+A([[:xdigit:]]{40})@([[:xdigit:]]{8}))((\+[B-Z][A-Za-z0-9@_-]*)*)$`

None of the character classes contains `+`, so a match splits the string at every `+` into
fields: 32 hex digits; optionally a decimal size; any number of `[B-Z]…` hints; exactly one field
`A<40 hex>@<8 hex>`; any number of `[B-Z]…` hints. The matcher works on that field list. -/

/-- `strings.Split(s, sep)` for a one-character separator: always at least one field -/
def splitOn (sep : Char) : Str → List Str
  | [] => [[]]
  | c :: cs =>
    if c = sep then [] :: splitOn sep cs
    else match splitOn sep cs with
      | f :: fs => (c :: f) :: fs
      | [] => [[c]]

/-- `[0-9]+` -/
def isSizeField (f : Str) : Bool := !f.isEmpty && f.all isDigit

/-- `[B-Z][A-Za-z0-9@_-]*` -/
def isOtherHint : Str → Bool
  | c :: r => isHintStart c && r.all isHintChar
  | [] => false

/-- `A([[:xdigit:]]{40})@([[:xdigit:]]{8})` → (signature, expiry) -/
def parseSigField : Str → Option (Str × Str)
  | 'A' :: r =>
    if r.length = 49 && (r.take 40).all isXDigit && (r.drop 40).head? == some '@'
        && (r.drop 41).all isXDigit
    then some (r.take 40, r.drop 41) else none
  | _ => none

/-- `(\+[0-9]+)?` directly after the hash -/
def dropSizeField : List Str → List Str
  | f :: r => if isSizeField f then r else f :: r
  | [] => []

/-- `SignedLocatorRe.FindStringSubmatch`: groups 1 (hash), 6 (signature), 7 (expiry) -/
def matchSigned (s : Str) : Option (Str × Str × Str) :=
  match splitOn '+' s with
  | [] => none
  | h :: fs =>
    if h.length = 32 && h.all isXDigit then
      match (dropSizeField fs).dropWhile isOtherHint with
      | [] => none
      | f :: r =>
        match parseSigField f with
        | none => none
        | some (sig, e) => if r.all isOtherHint then some (h, sig, e) else none
    else none

/-! ## VerifySignature -/

inductive Verdict where
  | ok        -- nil
  | expired   -- ErrSignatureExpired
  | invalid   -- ErrSignatureInvalid
  | missing   -- ErrSignatureMissing
deriving Repr, DecidableEq

/-- `time.Unix(t,0).Before(now)` with `now` given in nanoseconds -/
def expiredAt (t nowNs : Int) : Bool := decide (t * 1000000000 < nowNs)

/-- `VerifySignature(signedLocator, apiToken, ttl, key)` evaluated when the clock reads `nowNs` -/
def verifySignature (s apiToken : Str) (ttlNs : Int) (key : Str) (nowNs : Int) : Verdict :=
  match matchSigned s with
  | none => .missing
  | some (blobHash, sig, expiryHex) =>
    match parseHexTimestamp expiryHex with
    | none => .invalid
    | some t =>
      if expiredAt t nowNs then .expired
      else if sig ≠ makePermSignature mac blobHash apiToken expiryHex (ttlHex ttlNs) key then .invalid
      else .ok

/-! ## SignManifest -/

/-- `mBlkRe = ^[0-9a-f]{32}.*` on a token (tokens contain no newline, so `.*` is no restriction) -/
def isBlockToken (t : Str) : Bool := (t.take 32).length = 32 && (t.take 32).all isLowerHex

/-- `mPermHintRe.ReplaceAllString(tok, "")` with `mPermHintRe = \+A[^+]*`: one left-to-right
scan; `skipping` is true while inside a match. -/
def stripPerm : (skipping : Bool) → Str → Str
  | _, [] => []
  | skipping, c :: rest =>
    if c = '+' then
      match rest with
      | 'A' :: _ => stripPerm true rest
      | _ => '+' :: stripPerm false rest
    else if skipping then stripPerm true rest
    else c :: stripPerm false rest

def stripPermHints (t : Str) : Str := stripPerm false t

/-- the callback of `ReplaceAllStringFunc` -/
def signToken (apiToken : Str) (expiry ttlNs : Int) (key : Str) (t : Str) : Str :=
  if isBlockToken t then signLocator mac (stripPermHints t) apiToken expiry ttlNs key else t

/-- apply `f` to every maximal whitespace-free field; `cur` is the field being collected.
`regexp.MustCompile(`\S+`).ReplaceAllStringFunc(m, f)` is `mapFields f [] m` for every `f` with
`f [] = []` (the regexp never matches the empty field; `signToken … [] = []`). -/
def mapFields (f : Str → Str) : Str → Str → Str
  | cur, [] => f cur
  | cur, c :: rest =>
    if isSpace c then f cur ++ c :: mapFields f [] rest
    else mapFields f (cur ++ [c]) rest

/-- `SignManifest(manifest, apiToken, time.Unix(expiry,0), ttl, key)` -/
def signManifest (m apiToken : Str) (expiry ttlNs : Int) (key : Str) : Str :=
  mapFields (signToken mac apiToken expiry ttlNs key) [] m

/-! ## keepstore -/

structure KSConfig where
  blobSigning : Bool     -- Collections.BlobSigning
  ttlNs : Int            -- Collections.BlobSigningTTL
  key : Str              -- Collections.BlobSigningKey

/-- keepstore/perms.go `VerifySignature`: `none` = nil, `some 401` = ExpiredError,
`some 403` = PermissionError -/
def ksVerify (cfg : KSConfig) (loc apiToken : Str) (nowNs : Int) : Option Nat :=
  match verifySignature mac loc apiToken cfg.ttlNs cfg.key nowNs with
  | .ok => none
  | .expired => some 401
  | _ => some 403

/-- `strings.Contains(s, pat)` -/
def containsSub (pat : Str) : Str → Bool
  | [] => pat.isEmpty
  | c :: cs => pat.isPrefixOf (c :: cs) || containsSub pat cs

/-- The GET routes `/{hash:[0-9a-f]{32}}` and `/{hash:[0-9a-f]{32}}+{hints}` (gorilla/mux turns
`{hints}` into `[^/]+` and anchors both ends). Argument: the path without its leading slash.
Result: the `hash` route variable. -/
def routeHash (loc : Str) : Option Str :=
  let h := loc.take 32
  if h.length = 32 && h.all isLowerHex then
    match loc.drop 32 with
    | [] => some h
    | '+' :: hints => if !hints.isEmpty && hints.all (· != '/') then some h else none
    | _ => none
  else none

inductive GetOutcome where
  | noRoute                   -- NotFoundHandler: 400
  | remoteProxy               -- rtr.remoteProxy.Get (never reads a local volume for the caller)
  | denied (code : Nat)       -- http.Error before any volume access
  | readVolume (hash : Str)   -- GetBlock(ctx, volmgr, hash, …)
deriving Repr, DecidableEq

/-- `handleGET` up to the point where it either answers or reads a volume -/
def handleGET (cfg : KSConfig) (loc apiToken : Str) (nowNs : Int) : GetOutcome :=
  match routeHash loc with
  | none => .noRoute
  | some h =>
    if containsSub ['+', 'R'] loc && !containsSub ['+', 'A'] loc then .remoteProxy
    else if cfg.blobSigning then
      match ksVerify mac cfg loc apiToken nowNs with
      | some code => .denied code
      | none => .readVolume h
    else .readVolume h

/-! ## keepstore: what comes before `handleGET` (token extraction, URL path handling) -/

/-- `GetAPIToken`: group 2 of `authRe = ^(OAuth2|Bearer)\s+(.*)` on the first Authorization
header value, "" when the header is absent or does not match. `\s+` is greedy over
`[\t\n\f\r ]`, `.` stops at the first newline. -/
def getAPIToken : Option Str → Str
  | none => []
  | some v =>
    if ['O', 'A', 'u', 't', 'h', '2'].isPrefixOf v || ['B', 'e', 'a', 'r', 'e', 'r'].isPrefixOf v then
      match v.drop 6 with
      | c :: r => if isSpace c then ((c :: r).dropWhile isSpace).takeWhile (· ≠ '\n') else []
      | [] => []
    else []

/-- net/url's unescape for a path: `%XX` → byte, any other `%` is an error; `+` stays `+`. -/
def pctDecode : Str → Option Str
  | [] => some []
  | '%' :: a :: b :: rest =>
    match hexVal? a, hexVal? b, pctDecode rest with
    | some x, some y, some r => some (Char.ofNat (x * 16 + y) :: r)
    | _, _, _ => none
  | '%' :: _ => none
  | c :: rest => (pctDecode rest).map (c :: ·)

/-- element stack of `path.Clean` on a rooted path: empty and `.` elements vanish, `..` removes
the element before it (nothing at the root) -/
def cleanSegs : List Str → List Str → List Str
  | st, [] => st.reverse
  | st, s :: r =>
    if s.isEmpty || s == ['.'] then cleanSegs st r
    else if s == ['.', '.'] then cleanSegs (st.drop 1) r
    else cleanSegs (s :: st) r

def joinSlash : List Str → Str
  | [] => []
  | [s] => s
  | s :: r => s ++ '/' :: joinSlash r

/-- gorilla/mux `cleanPath` (path.Clean, trailing slash kept) -/
def cleanPath (p : Str) : Str :=
  match p with
  | [] => ['/']
  | c :: r =>
    let p' := if c = '/' then c :: r else '/' :: c :: r
    let np := '/' :: joinSlash (cleanSegs [] (splitOn '/' (p'.drop 1)))
    if p'.getLast? == some '/' && np != ['/'] then np ++ ['/'] else np

inductive ServeOutcome where
  | redirect (path : Str)        -- 301 to the cleaned path (mux, before any route is tried)
  | handled (o : GetOutcome)
deriving Repr, DecidableEq

/-- A GET request as the router sees it: `path` is `req.URL.Path` (already percent-decoded by
net/http), `hdr` the first Authorization header value. Paths that are not in canonical form are
redirected; otherwise the routes are tried on the path without its leading slash (paths that are
not `/`+32 hex… never reach `handleGET`; the other GET routes of keepstore — /index, /status.json,
/debug.json, /mounts…, /_health/… — are outside this model and the generator never requests
them). -/
def serveGET (cfg : KSConfig) (path : Str) (hdr : Option Str) (nowNs : Int) : ServeOutcome :=
  if cleanPath path != path then .redirect (cleanPath path)
  else .handled (handleGET mac cfg (path.drop 1) (getAPIToken hdr) nowNs)

/-! ## keepstore: the remote-proxy exit of `handleGET` (proxy_remote.go `remoteProxy.Get`)

Taken for locators with `+R` and without `+A`. It never calls `GetBlock` on a local volume: it
either answers with an error or forwards the request to a remote cluster's Keep services with the
caller's token salted for that cluster. (With `X-Keep-Signature: local…` the fetched block is also
*written* to a local volume and a fresh local signature is returned; that path is not modelled.) -/

/-- sdk/go/auth `SaltToken(token, remote)`, as far as the proxy distinguishes outcomes -/
inductive SaltResult where
  | ok (salted : Str)
  | obsolete            -- ErrObsoleteToken → 400
  | otherError          -- ErrTokenFormat / ErrSalted → 500
deriving Repr, DecidableEq

/-- `reObsoleteToken = ^[0-9a-z]{41,}$` -/
def isObsoleteToken (t : Str) : Bool :=
  decide (41 ≤ t.length) && t.all (fun c => isDigit c || ('a' ≤ c && c ≤ 'z'))

def saltToken (token remote : Str) : SaltResult :=
  match splitOn '/' token with
  | v2 :: uuid :: secret :: _ =>
    if v2 == ['v', '2'] then
      if secret.length ≠ 40 then
        .ok (['v', '2', '/'] ++ uuid ++ '/' :: hexOfDigest (mac secret remote))
      else if remote.isPrefixOf uuid then .ok token
      else .otherError
    else if isObsoleteToken token then .obsolete else .otherError
  | _ => if isObsoleteToken token then .obsolete else .otherError

inductive RemoteOutcome where
  | status (code : Nat)                              -- answered locally, no request sent
  | forward (remote : Str) (locator : Str) (token : Str)   -- remoteClient.Get(locator) with that token
deriving Repr, DecidableEq

/-- the loop over the `+`-separated parts: `acc` = parts kept so far (reversed), `sel` = the
remote chosen so far with the salted token -/
def remoteParts (configured : Str → Bool) (token : Str) :
    List Str → List Str → Option (Str × Str) → RemoteOutcome
  | [], acc, none => .status 400                                   -- "bad request": no usable +R hint
  | [], acc, some (r, t) => .forward r (joinPlus acc.reverse) t
  | part :: rest, acc, sel =>
    if part.head? == some 'A' then remoteParts configured token rest acc sel      -- drop local hint
    else if decide (7 < part.length) && part.head? == some 'R' && part[6]? == some '-' then
      let remoteID := (part.drop 1).take 5
      if !configured remoteID then .status 400                     -- "remote cluster not configured"
      else match saltToken mac token remoteID with
        | .obsolete => .status 400
        | .otherError => .status 500
        | .ok salted => remoteParts configured token rest (('A' :: part.drop 7) :: acc) (some (remoteID, salted))
    else remoteParts configured token rest (part :: acc) sel
where
  joinPlus : List Str → Str
    | [] => []
    | [s] => s
    | s :: r => s ++ '+' :: joinPlus r

/-- `remoteProxy.Get` up to the request it sends -/
def remoteProxyGet (configured : Str → Bool) (loc token : Str) : RemoteOutcome :=
  if token.isEmpty then .status 401
  else match splitOn '+' loc with
    | [] => .status 400
    | h :: parts => remoteParts mac configured token parts [h] none

/-- How `remoteClient.Get(locator)` ended (keepclient `getOrHead`, C03's ground), as far as
`remoteProxy.Get` distinguishes it. -/
inductive RemoteReply where
  | data (body : Str)   -- a Keep service of the remote cluster answered 200 with this body
  | notFound            -- `*keepclient.ErrNotFound`, permanent (the services answered 404, 403, 401 …)
  | temporary           -- `*keepclient.ErrNotFound` with `Temporary()`: network error, 408, 429 or 5xx
                        --   from a service on the last retry round
  | otherError          -- any other error (size hint ≠ Content-Length, …)
deriving Repr, DecidableEq

/-- what the client of keepstore receives: status and, for block data, the body -/
structure Response where
  status : Nat
  body : Option Str     -- `some b`: block data `b` was written; `none`: an error text
deriving Repr, DecidableEq

/-- the `switch err.(type)` at the end of `remoteProxy.Get` -/
def remoteFinish : RemoteReply → Response
  | .data b => ⟨200, some b⟩
  | .notFound => ⟨404, none⟩
  | .temporary => ⟨404, none⟩
  | .otherError => ⟨502, none⟩

/-- number of requests one Keep service of the remote cluster receives for one `remoteClient.Get`
(`retries` = `KeepClient.Retries`): only a temporary failure is tried again -/
def remoteRequests (retries : Nat) : RemoteReply → Nat
  | .temporary => retries + 1
  | _ => 1

/-- The whole `+R` exit of `handleGET` without `X-Keep-Signature: local`. `remote r l t` is what the
remote cluster `r` does with the forwarded locator `l` and salted token `t`; `localStore` is what
the local volumes hold — deliberately an argument, see `C07_remote_never_local`. -/
def remoteProxyServe (configured : Str → Bool) (loc token : Str)
    (remote : Str → Str → Str → RemoteReply) (_localStore : Str → Option Str) : Response :=
  match remoteProxyGet mac configured loc token with
  | .status c => ⟨c, none⟩
  | .forward r l t => remoteFinish (remote r l t)

/-- decimal (`%d`) of a size -/
def natDec (n : Nat) : Str := Nat.toDigits 10 n

/-- The locator `handlePUT` writes back after a successful `PutBlock`, when the clock reads
`nowNs`: `hash+size`, signed for the caller's token with expiry now+TTL if a key is configured
and a token was presented. -/
def putReply (cfg : KSConfig) (hash : Str) (size : Nat) (apiToken : Str) (nowNs : Int) : Str :=
  let loc := hash ++ '+' :: natDec size
  if !cfg.key.isEmpty && !apiToken.isEmpty then
    signLocator mac loc apiToken ((nowNs + cfg.ttlNs) / 1000000000) cfg.ttlNs cfg.key
  else loc

/-! ## blob.rb reference (transcription) -/
namespace Ref

/-- `[blob_hash, api_token, timestamp, blob_signature_ttl].join('@')` -/
def message (blobHash apiToken timestampHex ttlHex : Str) : Str :=
  blobHash ++ ['@'] ++ apiToken ++ ['@'] ++ timestampHex ++ ['@'] ++ ttlHex

/-- `OpenSSL::HMAC.hexdigest('sha1', key, message)` -/
def generateSignature (key blobHash apiToken timestampHex ttlHex : Str) : Str :=
  hexOfDigest (mac key (message blobHash apiToken timestampHex ttlHex))

/-- `Blob.sign_locator` from the point where `timestamp_hex` is known:
`blob_locator + '+A' + signature + '@' + timestamp_hex`, the hash being
`blob_locator.split('+').first` and the TTL `BlobSigningTTL.to_i.to_s(16)`. -/
def signLocatorTs (loc apiToken timestampHex : Str) (ttlSecs : Nat) (key : Str) : Str :=
  let blobHash := loc.takeWhile (· ≠ '+')
  loc ++ ['+', 'A'] ++ generateSignature mac key blobHash apiToken timestampHex (natHex ttlSecs)
    ++ ['@'] ++ timestampHex

/-- `Blob.sign_locator` with `:expire` given: `timestamp.to_s(16)` is not zero-padded. -/
def signLocator (loc apiToken : Str) (expire : Nat) (ttlSecs : Nat) (key : Str) : Str :=
  signLocatorTs mac loc apiToken (natHex expire) ttlSecs key

end Ref

end ArvVerif.C07
