/-
C11 model, part 2.

* `sdk/go/asyncbuf` (buf.go): the buffer PutHR puts between the caller's stream and the upload
  goroutines — one writer (`Write`*, then `CloseWithError`), any number of readers made at any time
  by `NewReader`, each with its own offset. `AStep` is one call; `runSys` runs a writer program
  against an arbitrary schedule of reader calls. Ghost fields record what every reader has received
  and the first error it has been given.
* `writableIdx`: which entries of a service list `putReplicas` may be given (glue between
  `loadKeepServers` and `putReplicas`: `kc.WritableLocalRoots()`), by position in the list.
-/
import ArvVerif.Model.C11
namespace ArvVerif.C11

/-! ### asyncbuf -/

/-- the error a Buffer is closed with / a Read returns: `io.EOF` or any other error (tagged) -/
inductive AErr
  | eof
  | other (tag : Nat)
deriving Repr, DecidableEq

/-- one reader made by `NewReader`: `read` = # bytes already read; ghost: the bytes it has
returned so far and the first error it has returned -/
structure ARd where
  off : Nat
  got : List Nat
  ended : Option AErr
deriving Repr

structure ABuf where
  /-- `b.data` -/
  data : List Nat
  /-- `b.err`: `none` = nil = there might be more writes -/
  err : Option AErr
  readers : List ARd
deriving Repr

/-- `NewBuffer(buf)` -/
def ABuf.new (init : List Nat) : ABuf := { data := init, err := none, readers := [] }

inductive AOp
  /-- `Write(p)` -/
  | write (p : List Nat)
  /-- `CloseWithError(e)`; `none` = nil, which means io.EOF (`Close()` is `CloseWithError(nil)`) -/
  | close (e : Option AErr)
  /-- `NewReader()` -/
  | newReader
  /-- reader `i` calls `Read(p)` with `len(p) = n` -/
  | read (i : Nat) (n : Nat)
deriving Repr

inductive AOut
  /-- `Write` returned (n, nil) -/
  | wrote (n : Nat)
  /-- `Write` after close: (0, b.err) -/
  | writeErr (e : AErr)
  | closed
  /-- `NewReader` returned reader number `i` -/
  | reader (i : Nat)
  /-- `Read` returned (len bs, nil) -/
  | got (bs : List Nat)
  /-- `Read` returned (0, e) -/
  | fin (e : AErr)
  /-- `Read` waits on the condition variable (nothing to read, not closed, len(p) > 0) -/
  | block
  /-- no such reader -/
  | noReader
deriving Repr, DecidableEq

/-- One call on the buffer (each method body runs under `b.cond.L`, so calls are atomic). -/
def AStep (b : ABuf) : AOp → ABuf × AOut
  | .write p =>
    match b.err with
    | some e => (b, .writeErr e)
    | none => ({ b with data := b.data ++ p }, .wrote p.length)
  | .close e => ({ b with err := some (e.getD .eof) }, .closed)
  | .newReader =>
    ({ b with readers := b.readers ++ [{ off := 0, got := [], ended := none }] }, .reader b.readers.length)
  | .read i n =>
    match b.readers[i]? with
    | none => (b, .noReader)
    | some r =>
      if r.off < b.data.length then
        -- `n := copy(p, buf[r.read:]); r.read += n; return n, nil`
        let bs := (b.data.drop r.off).take n
        ({ b with readers := b.readers.set i { r with off := r.off + bs.length, got := r.got ++ bs } }, .got bs)
      else
        match b.err with
        | some e =>
          ({ b with readers := b.readers.set i { r with ended := some (r.ended.getD e) } }, .fin e)
        | none => if n = 0 then (b, .got []) else (b, .block)

/-- a sequence of calls made one after the other -/
def runOps (b : ABuf) : List AOp → ABuf × List AOut
  | [] => (b, [])
  | op :: rest =>
    let (b1, o) := AStep b op
    let (b2, os) := runOps b1 rest
    (b2, o :: os)

/-- who moves next: the writer goroutine (its next call), or a reader-side call -/
inductive Sched
  | writer
  | newReader
  | read (i : Nat) (n : Nat)
deriving Repr

/-- The writer goroutine runs its program `prog` in order; reader-side calls come in between in any
order (`sched`). State: the buffer and what is left of the writer's program. -/
def runSys (b : ABuf) (prog : List AOp) : List Sched → ABuf × List AOp
  | [] => (b, prog)
  | .writer :: rest =>
    match prog with
    | [] => runSys b [] rest
    | op :: prog' => runSys (AStep b op).1 prog' rest
  | .newReader :: rest => runSys (AStep b .newReader).1 prog rest
  | .read i n :: rest => runSys (AStep b (.read i n)).1 prog rest

/-- `io.Copy(buf, HashCheckingReader{r, md5.New(), hash})` then `buf.CloseWithError(err)`: the
writer program of PutHR for a stream delivered in the pieces `chunks` and an outcome `e` of the
copy (`none` = nil error) -/
def copyProg (chunks : List (List Nat)) (e : Option AErr) : List AOp :=
  chunks.map AOp.write ++ [AOp.close e]

/-- the error PutHR's copy goroutine closes the buffer with, given how the checked stream ends -/
def closeArg : BodyEnd → Option AErr
  | .eof => none
  | .badChecksum => some (.other 1)
  | .readErr => some (.other 2)

/-- the end a request body (a reader of the buffer) reports, as a `BodyEnd` -/
def endOf : AErr → BodyEnd
  | .eof => .eof
  | .other 1 => .badChecksum
  | .other _ => .readErr

/-! ### which listed services may be written to -/

/-- positions in the service list `l` whose uuid is in the writable root map built by
`loadKeepServers` (`kc.WritableLocalRoots()`); `putReplicas` probes these, in rendezvous order -/
def writableIdx (l : List Svc) : List Nat :=
  (List.range l.length).filter fun i =>
    match l[i]? with
    | some s => (load false l).writable.any (fun e => e.1 == s.uuid)
    | none => false

end ArvVerif.C11
