/-
C04, link between the two layers.

The interleaving layer (`Model/C04_Race.lean`) abstracts time to "younger than the TTL or not" and the
server to one block path of one volume; the history layer (`Model/C04.lean`) has real timestamps but
executes requests one after the other. This file builds, for a race configuration `c` and concrete
times, the HISTORY-layer instance of the same situation (one writable volume, hash 0, the pre-existing
copy with timestamp `mt`, for an untrash an old intact trashed copy) and the two requests as history
ops, and defines what both layers let an observer see at quiescence (`Obs`): the two responses, what is
at the block path (intact?, younger than the TTL?) and which trashed copies exist.

`Props/C04.lean` (`C04_race_linearizable`) proves: every interleaving of the race layer ends, observably,
like one of the two sequential histories [P, T] / [T, P] of the history layer — for all times consistent
with the configuration. The model driver prints both sequential outcomes for every race case (`seq=`),
and the plugin checks that the real implementation's outcome is one of them.
-/
import ArvVerif.Model.C04
import ArvVerif.Model.C04_Race
namespace ArvVerif.C04.Compose
open ArvVerif.C04

/-- what is visible at quiescence, in both layers -/
structure Obs where
  p : Res                          -- response to the PUT / TOUCH
  t : Res                          -- response to the DELETE / untrash (`quiet` for a trash-list item)
  blk : Option (Bool × Bool)       -- file at the block path: (intact, younger than the TTL)
  trash : List Bool                -- trashed copies of the hash: intact?
deriving DecidableEq, Repr

/-! ### interleaving layer -/

def obsR (s : Race.St) : Obs :=
  { p := match s.resP with
      | .okTouch | .okWrite => .code 200
      | .notFound => .code 404
      | .none => .quiet
    t := match s.cfg.top with
      | .ti => .quiet
      | .del => (match s.resT with
          | .notFound => .code 404
          | .kept | .trashed => .deleted 1 0
          | .failed => .deleted 0 1
          | _ => .quiet)
      | .untrash => (match s.resT with
          | .restored => .code 200
          | .notFound => .code 404
          | _ => .quiet)
    blk := s.blk.map fun i => (s.good i, s.fresh i)
    trash := (if s.locA = .trash then [s.good .a] else []) ++ (if s.locB = .trash then [s.good .b] else [])
               ++ (if s.locX = .trash then [s.good .x] else []) }

/-- the two sequential schedules: all of P (at most 17 steps), then all of T (at most 7), and vice versa -/
def schedPT : List Bool := List.replicate 17 true ++ List.replicate 7 false
def schedTP : List Bool := List.replicate 7 false ++ List.replicate 17 true

/-! ### history layer: the same situation with concrete times -/

/-- times of an instance: TTL, trash lifetime, ticks per second, current time, timestamp of the
pre-existing copy, timestamp and deadline of the trashed copy (untrash only) -/
structure Times where
  ttl : Nat
  life : Nat
  res : Nat
  now : Nat
  mt : Nat
  xmt : Nat
  xdl : Nat

def hCfg (c : Race.Cfg) (τ : Times) : Cfg :=
  { ttl := τ.ttl, life := if c.life0 then 0 else τ.life, blobTrash := true, conc := 1, res := τ.res }

def hVol (c : Race.Cfg) (τ : Times) : Vol :=
  { id := 0, ro := false
    blocks := fun h => if h = 0 then
        (match c.pre with
         | .absent => none
         | .good => some { good := true, mtime := τ.mt }
         | .corrupt => some { good := false, mtime := τ.mt })
      else none
    trash := match c.top with
      | .untrash => [{ hash := 0, deadline := τ.xdl, file := { good := true, mtime := τ.xmt } }]
      | _ => [] }

def hSt (c : Race.Cfg) (τ : Times) : St := { vols := [hVol c τ], now := τ.now, rr := 0 }

def hP (c : Race.Cfg) : Op := match c.pop with | .touch => .touch 0 | .put => .put 0 true

/-- the trash-list item names the timestamp of the stored copy (the only interesting request; keep-balance
builds it from the index) -/
def hT (c : Race.Cfg) (τ : Times) : Op :=
  match c.top with | .del => .delete 0 | .ti => .trashItem 0 τ.mt none | .untrash => .untrash 0

/-- the times fit the configuration: TTL > 0, lifetime > 0 unless `life0`, and the pre-existing copy is
older than the TTL exactly when the configuration says so; the trashed copy is old -/
def Times.fits (τ : Times) (c : Race.Cfg) : Prop :=
  0 < τ.ttl ∧ 0 < τ.life ∧ (c.ageOld = true ↔ ¬ τ.now < τ.mt + τ.ttl) ∧ ¬ τ.now < τ.xmt + τ.ttl

def obsH (hc : Cfg) (s : St) (p t : Res) : Obs :=
  match s.vols with
  | [v] =>
    { p := p, t := t
      blk := (v.blocks 0).map fun f => (f.good, young hc s.now f.mtime)
      trash := (v.trash.filter fun e => e.hash = 0).map fun e => e.file.good }
  | _ => { p := p, t := t, blk := none, trash := [] }

/-- outcome of the history [P, T] -/
def seqPT (c : Race.Cfg) (τ : Times) : Obs :=
  let r1 := step (hCfg c τ) (hSt c τ) (hP c)
  let r2 := step (hCfg c τ) r1.1 (hT c τ)
  obsH (hCfg c τ) r2.1 r1.2 r2.2

/-- outcome of the history [T, P] -/
def seqTP (c : Race.Cfg) (τ : Times) : Obs :=
  let r1 := step (hCfg c τ) (hSt c τ) (hT c τ)
  let r2 := step (hCfg c τ) r1.1 (hP c)
  obsH (hCfg c τ) r2.1 r2.2 r1.2

/-- the instance the correspondence check runs: TTL 10 units, lifetime 5 units, old = 20 units, fresh = 1
unit, the trashed copy 30 units old with 3 units to live (1 unit = 256 ticks) -/
def drvTimes (c : Race.Cfg) : Times :=
  { ttl := 2560, life := 1280, res := 1, now := 10000000
    mt := if c.ageOld then 10000000 - 5120 else 10000000 - 256
    xmt := 10000000 - 7680, xdl := 10000000 + 768 - 128 }

end ArvVerif.C04.Compose
