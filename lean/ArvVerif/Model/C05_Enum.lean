/-
C05 model, part 2: the executable enumeration of everything an unstable sort may return. The
minimal slots under the comparator (those not above a minimal one) form the first group, the rest
is grouped the same way, and every permutation of every group is produced.
`Proofs/C05Enum.lean`: every list produced is a permutation of the input (no assumption on the
comparator). `Proofs/C05_EnumComplete.lean`: for a strict weak order the lists produced are exactly
the sorted permutations of the input, and the code's comparator is a strict weak order.
-/
import ArvVerif.Model.C05
namespace ArvVerif.C05

def insertions (a : α) : List α → List (List α)
  | [] => [[a]]
  | b :: l => (a :: b :: l) :: (insertions a l).map (b :: ·)

def perms : List α → List (List α)
  | [] => [[]]
  | a :: l => (perms l).flatMap (insertions a)

/-- an element of `a :: l` that no element is below -/
def minOf (lt : α → α → Bool) (a : α) (l : List α) : α := l.foldl (fun m x => if lt x m then x else m) a

/-- the groups of mutually incomparable elements, lowest first (`n` is fuel ≥ the length) -/
def sortedGroups (lt : α → α → Bool) : Nat → List α → List (List α)
  | 0, l => if l.isEmpty then [] else [l]      -- fuel exhausted (not reached for an irreflexive comparator)
  | _ + 1, [] => []
  | n + 1, a :: l =>
    let m := minOf lt a l
    ((a :: l).filter (fun x => !lt m x)) :: sortedGroups lt n ((a :: l).filter (fun x => lt m x))

def fact : Nat → Nat
  | 0 => 1
  | n + 1 => (n + 1) * fact n

/-- all concatenations of one permutation per group -/
def groupProducts : List (List α) → List (List α)
  | [] => [[]]
  | g :: gs => (perms g).flatMap (fun p => (groupProducts gs).map (p ++ ·))

/-- every list that `sort.Slice` with comparator `lt` may produce from `l` (none if too many) -/
def allSorted (lt : α → α → Bool) (l : List α) : Option (List (List α)) :=
  let gs := sortedGroups lt l.length l
  if gs.foldl (fun acc g => acc * fact g.length) 1 > 5000 then none
  else some (groupProducts gs)

end ArvVerif.C05
