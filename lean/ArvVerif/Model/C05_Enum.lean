/-
C05 model, part 2: the executable enumeration of everything an unstable sort may return. The slots
are merge-sorted with the comparator, cut into runs of slots the comparator does not separate, and
every permutation of every run is produced. Used by the driver to print the allowed set;
`Proofs/C05Enum.lean` proves that every list produced is a permutation of the input, which is all
the property theorems require of a sort result (`RunPerm`).
-/
import ArvVerif.Model.C05
namespace ArvVerif.C05

def insertions (a : α) : List α → List (List α)
  | [] => [[a]]
  | b :: l => (a :: b :: l) :: (insertions a l).map (b :: ·)

def perms : List α → List (List α)
  | [] => [[]]
  | a :: l => (perms l).flatMap (insertions a)

/-- consecutive runs of elements that the comparator does not separate -/
def tieGroups (lt : α → α → Bool) : List α → List (List α)
  | [] => []
  | a :: l =>
    match tieGroups lt l with
    | [] => [[a]]
    | g :: gs =>
      match g with
      | b :: _ => if !lt a b && !lt b a then (a :: g) :: gs else [a] :: g :: gs
      | [] => [a] :: gs

def fact : Nat → Nat
  | 0 => 1
  | n + 1 => (n + 1) * fact n

/-- all concatenations of one permutation per group -/
def groupProducts (gs : List (List α)) : List (List α) :=
  gs.foldr (fun g acc => (perms g).flatMap (fun p => acc.map (p ++ ·))) [[]]

/-- every list that `sort.Slice` with comparator `lt` may produce from `l` (none if too many) -/
def allSorted (lt : α → α → Bool) (l : List α) : Option (List (List α)) :=
  let gs := tieGroups lt (l.mergeSort (fun a b => !lt b a))
  if gs.foldl (fun acc g => acc * fact g.length) 1 > 5000 then none
  else some (groupProducts gs)

end ArvVerif.C05
