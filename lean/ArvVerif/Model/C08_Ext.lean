/-
C08 — collection filesystem, EXTENSION LAYER (third extension pass).

Adds, on top of the unchanged `step` of `Model/C08_FS.lean` (imported by C09/C13/C17, kept stable):

* `filehandle.Readdir(count)` with `count > 0` (fs_filehandle.go): the first call on a handle takes a
  snapshot of the directory (`f.unreaddirs`), every call hands out the next `count` entries of that
  snapshot, `io.EOF` once it is used up — and for ever after (the snapshot is never taken again);
  `count <= 0` returns the whole current listing and does not touch the snapshot.
* `collectionFileSystem.Size()` (= `dirnode.TreeSize`, "total data bytes in all files").
* `collectionFileSystem.MemorySize()` (= `dirnode.MemorySize`: bytes held in memSegments).
* `memSegment` with its spare capacity (`cap(buf) - len(buf)`, holding stale bytes): `capTruncate`,
  `capWriteAt`, `capSlice` mirror the Go code including the zeroing loop; `Proofs/C08_Ext` shows that
  the spare bytes never become visible, i.e. `Seg.mem` of `Model/C08` is a sound abstraction.

`XFS` = the filesystem state plus the `unreaddirs` slice of every handle slot that has one.
-/
import ArvVerif.Model.C08_FS
namespace ArvVerif.C08

/-- an `os.FileInfo` as far as the property looks at it: name, IsDir, Size -/
abbrev Entry := String × Bool × Nat

/-- `filehandle.unreaddirs` once it is non-nil: the snapshot taken by the first paged call and how
many of its entries have been handed out. (Go keeps the remaining slice `snap[pos:]`.) -/
structure Unread where
  snap : List Entry
  pos : Nat
  deriving Repr

structure XFS (F P W : Type) where
  fs : FS F P W
  /-- handle slot ↦ unreaddirs; a slot that is missing here has `unreaddirs == nil` -/
  unread : List (Nat × Unread)

inductive XOp
  | base (o : Op)
  /-- `Readdir(count)` through handle `h` -/
  | hreaddirN (h : Nat) (count : Nat)
  /-- `collectionFileSystem.Size()` -/
  | fsSize
  /-- `collectionFileSystem.MemorySize()` -/
  | memSize
  deriving Repr

inductive XRes
  | base (r : Res)
  /-- one page of a paged Readdir (in snapshot order; the Go map order is arbitrary, so drivers
  compare page lengths and the sorted union) -/
  | page (p : List Entry) (e : Err)
  | size (n : Nat)
  deriving Repr

section
variable {F P W : Type}

/-- the entries `inode.Readdir()` returns for directory `d` -/
def entriesList (impl : FileImpl F P W) (s : FS F P W) (d : Nat) : List Entry :=
  (entriesOf s.ents d).map (fun e => (nodeName s e.2, nodeIsDir e.2, nodeSize impl s e.2))

theorem listingOf_eq (impl : FileImpl F P W) (s : FS F P W) (d : Nat) :
    listingOf impl s d = Res.listing (entriesList impl s d) := rfl

/-- The paging part of `filehandle.Readdir(count)` once `unreaddirs` is set:
`len(unreaddirs) == 0` → EOF; otherwise the first `min count len` entries. -/
def pageStep (u : Unread) (count : Nat) : List Entry × Unread × Err :=
  if u.pos ≥ u.snap.length then ([], u, Err.eof)
  else
    let p := (u.snap.drop u.pos).take count
    (p, { u with pos := u.pos + p.length }, Err.ok)

def getUnread (us : List (Nat × Unread)) (h : Nat) : Option Unread :=
  (us.find? (fun e => e.1 == h)).map (·.2)

def eraseUnread (us : List (Nat × Unread)) (h : Nat) : List (Nat × Unread) :=
  us.filter (fun e => !(e.1 == h))

def setUnread (us : List (Nat × Unread)) (h : Nat) (u : Unread) : List (Nat × Unread) :=
  eraseUnread us h ++ [(h, u)]

/-- `dirnode.TreeSize` / `dirnode.MemorySize`: sum of `val` over all files below directory `d`
(fuel = number of directories + 1; the real recursion has no bound and relies on the tree being a
tree). -/
def treeSum (s : FS F P W) (val : Nat → Nat) : Nat → Nat → Nat
  | 0, _ => 0
  | fuel + 1, d =>
    ((entriesOf s.ents d).map (fun e => match e.2 with
      | Node.file f => val f
      | Node.dir c => treeSum s val fuel c)).sum

/-- `collectionFileSystem.Size()` -/
def fsSize (impl : FileImpl F P W) (s : FS F P W) : Nat :=
  treeSum s (fun f => nodeSize impl s (Node.file f)) (s.dirs.length + 1) 0

/-- `collectionFileSystem.MemorySize()` for a per-file measure `mem` -/
def memSize (mem : F → Nat) (s : FS F P W) : Nat :=
  treeSum s (fun f => match s.files[f]? with | some (_, c) => mem c | none => 0) (s.dirs.length + 1) 0

/-- does this base operation give slot `h` a fresh `filehandle` (so `unreaddirs` is nil again) or
drop it? -/
def slotReset : Op → Res → Option Nat
  | Op.openF h .., Res.err Err.ok => some h
  | Op.create h _, Res.err Err.ok => some h
  | Op.close h, Res.err Err.ok => some h
  | _, _ => none

/-- One operation of the extended history. `mem` = bytes of a file held in memory (0 in the plain
model, where nothing is ever "in memory" as opposed to "in Keep"). -/
def stepX (impl : FileImpl F P W) (mem : F → Nat) (x : XFS F P W) : XOp → XFS F P W × XRes
  | XOp.base o =>
    let sr := step impl x.fs o
    (⟨sr.1, match slotReset o sr.2 with
            | some h => eraseUnread x.unread h
            | none => x.unread⟩, XRes.base sr.2)
  | XOp.hreaddirN h count =>
    match getHandle x.fs h with
    | none => (x, XRes.base Res.badOp)
    | some hd =>
      match hd.node with
      | Node.file _ => (x, XRes.base (Res.err Err.invalop))
      | Node.dir d =>
        if count = 0 then (x, XRes.base (listingOf impl x.fs d))
        else
          let u := (getUnread x.unread h).getD ⟨entriesList impl x.fs d, 0⟩
          let pr := pageStep u count
          (⟨x.fs, setUnread x.unread h pr.2.1⟩, XRes.page pr.1 pr.2.2)
  | XOp.fsSize => (x, XRes.size (fsSize impl x.fs))
  | XOp.memSize => (x, XRes.size (memSize mem x.fs))

/-- the pages a sequence of paged calls with the given counts hands out -/
def pageRun : Unread → List Nat → List (List Entry)
  | _, [] => []
  | u, c :: cs => (pageStep u c).1 :: pageRun (pageStep u c).2.1 cs

def runX (impl : FileImpl F P W) (mem : F → Nat) : XFS F P W → List XOp → XFS F P W × List XRes
  | x, [] => (x, [])
  | x, op :: ops =>
    let (x1, r) := stepX impl mem x op
    let (x2, rs) := runX impl mem x1 ops
    (x2, r :: rs)

end

/-- bytes of a file held in memSegments -/
def memOf (fn : FileNode) : Nat :=
  (fn.segs.map (fun s => match s with
    | Seg.mem buf _ => buf.length
    | Seg.stored .. => 0)).sum

/-! ### memSegment with its spare capacity

`buf` is `me.buf`, `spare` are the `cap(me.buf) - len(me.buf)` bytes of the backing array behind it
(whatever was there before: bytes cut off by an earlier in-place shrink). -/

structure CapSeg where
  buf : Bytes
  spare : Bytes
  fl : Flush
  deriving Repr

/-- `newsize := 1024; for newsize < n { newsize = newsize << 2 }` (fuel: 32 shifts cover 2^64) -/
def newCap : Nat → Nat → Nat → Nat
  | 0, c, _ => c
  | fuel + 1, c, n => if c < n then newCap fuel (c * 4) n else c

/-- `memSegment.Truncate(n)`, statement by statement. `zero = false` is the function without its
zeroing loop (seeded change C08-h / mutation M4), kept to state the regression witness. -/
def capTruncate (zero : Bool) (c : CapSeg) (n : Nat) : CapSeg :=
  if n > c.buf.length + c.spare.length ∨ (c.fl ≠ Flush.none ∧ n > c.buf.length) then
    -- newbuf := make([]byte, n, newsize); copy(newbuf, me.buf); me.flushing = nil
    ⟨c.buf.take n ++ zeros (n - c.buf.length), zeros (newCap 32 1024 n - n), Flush.none⟩
  else if n ≤ c.buf.length then
    -- me.buf = me.buf[:n]   (the cut-off bytes stay in the backing array)
    ⟨c.buf.take n, c.buf.drop n ++ c.spare, c.fl⟩
  else
    -- me.buf = me.buf[:n]; for i := oldlen; i < n; i++ { me.buf[i] = 0 }
    let k := n - c.buf.length
    ⟨c.buf ++ (if zero then zeros k else c.spare.take k), c.spare.drop k, c.fl⟩

/-- `memSegment.WriteAt(p, off)`; a buffer shared with a flush is copied first
(`append([]byte(nil), me.buf...)`: the copy has no spare bytes worth mentioning). -/
def capWriteAt (c : CapSeg) (p : Bytes) (off : Nat) : Option CapSeg :=
  if off + p.length > c.buf.length then none
  else
    let buf' := c.buf.take off ++ p ++ c.buf.drop (off + p.length)
    if c.fl ≠ Flush.none then some ⟨buf', [], Flush.none⟩ else some ⟨buf', c.spare, Flush.none⟩

/-- `memSegment.Slice(off, length)`: `make([]byte, length)` + `copy` — a fresh array. -/
def capSlice (c : CapSeg) (n : Nat) (length : Option Nat) : CapSeg :=
  match length with
  | some l => ⟨((c.buf.drop n).take l) ++ zeros (l - (c.buf.length - n)), [], Flush.none⟩
  | none => ⟨c.buf.drop n, [], Flush.none⟩

/-- what `Model/C08` keeps of a memSegment -/
def CapSeg.seg (c : CapSeg) : Seg := Seg.mem c.buf c.fl

end ArvVerif.C08
