/-
C15 model, part 3: runner *objects* of one worker (finding F15a).

C14's L2 `Worker` keeps only the uuids in `starting`/`running`. The Go maps hold `*remoteRunner`
objects, each with a `closed` channel that `closeRunner` closes (`rr.Close()`); closing it twice
panics and takes the whole dispatcher process down. This model keeps the object identities:

* `accept`   `Pool.StartContainer` → `worker.startContainer`: a new runner `r` goes into `starting`
             and the `crunch-run --detach` command is outstanding (`pending`);
* `probe`    a successful, fresh `probeAndUpdate` of a booted worker reporting the uuids `alive`
             (`updateRunning`: adopt from `starting` / detect unknown ones / `closeRunner` the rest);
* `startDone` the completion closure of `startContainer`, as fixed by /repo 18910db:
             `if starting[uuid] != rr { return }; delete(starting, uuid); running[uuid] = rr` — only a
             runner that is still the one in `starting` is moved.
* `startDoneOld` the closure before the fix: `delete(starting, uuid); running[uuid] = rr` with the runner
             object captured at `accept`, whatever happened to it meanwhile. It re-inserted a runner
             that one probe had adopted and a later probe had closed; the next probe then panicked
             (`C15_no_self_crash_before_fix_fails`). With the fix no interleaving panics
             (`C15_no_self_crash`, Props/C15_O1.lean).
-/
import ArvVerif.Model.C14_Pool
namespace ArvVerif.C15
open ArvVerif.C14

structure RW where
  state : WState                     -- Idle / Running (the worker is booted, in run mode)
  starting : List (Uuid × Nat)       -- wkr.starting : uuid ↦ runner object
  running : List (Uuid × Nat)        -- wkr.running
  closed : List Nat                  -- runner objects whose `closed` channel is closed
  pending : List (Uuid × Nat)        -- outstanding `rr.Start()` calls
  exited : List Uuid                 -- wp.exited keys
  next : Nat                         -- next fresh runner object
deriving Repr, DecidableEq

inductive RWOp where
  | accept (u : Uuid)
  | probe (alive : List Uuid)
  | startDone (u : Uuid)
deriving Repr, DecidableEq

def lookup (l : List (Uuid × Nat)) (u : Uuid) : Option Nat := (l.find? (fun p => p.1 == u)).map (·.2)
def erase (l : List (Uuid × Nat)) (u : Uuid) : List (Uuid × Nat) := l.filter (fun p => p.1 != u)
def insert (l : List (Uuid × Nat)) (u : Uuid) (r : Nat) : List (Uuid × Nat) := erase l u ++ [(u, r)]

namespace RW

def empty (w : RW) : Bool := w.running.isEmpty && w.starting.isEmpty

/-- `closeRunner(uuid)`; `none` = `rr.Close()` panicked ("close of closed channel") -/
def closeRunner (w : RW) (u : Uuid) : Option RW :=
  match lookup w.running u with
  | none => some w
  | some r =>
    if w.closed.contains r then none
    else
      let w1 := { w with running := erase w.running u, closed := r :: w.closed,
                         exited := if w.exited.contains u then w.exited else w.exited ++ [u] }
      some (if w1.state == .running && w1.empty then { w1 with state := .idle } else w1)

/-- first loop of `updateRunning` -/
def adopt (w : RW) : List Uuid → RW × Bool
  | [] => (w, false)
  | u :: rest =>
    if (lookup w.running u).isSome then adopt w rest
    else match lookup w.starting u with
      | some r => ((adopt { w with running := insert w.running u r, starting := erase w.starting u } rest).1, true)
      | none => ((adopt { w with running := insert w.running u w.next, next := w.next + 1 } rest).1, true)

/-- second loop of `updateRunning` over the given running uuids -/
def closeDead (alive : List Uuid) : List Uuid → RW → Option (RW × Bool)
  | [], w => some (w, false)
  | u :: rest, w =>
    if alive.contains u then closeDead alive rest w
    else match w.closeRunner u with
      | none => none
      | some w1 => (closeDead alive rest w1).map (fun r => (r.1, true))

/-- a successful fresh probe of the booted worker -/
def probe (w : RW) (alive : List Uuid) : Option RW :=
  let a := w.adopt alive
  match closeDead alive (a.1.running.map (·.1)) a.1 with
  | none => none
  | some (w1, c) =>
    if !(a.2 || c) then some w1
    else if w1.state == .idle && !w1.empty then some { w1 with state := .running }
    else if w1.state == .running && w1.empty then some { w1 with state := .idle }
    else some w1

/-- `StartContainer` on this worker: refused unless Idle -/
def accept (w : RW) (u : Uuid) : RW :=
  if w.state != .idle then w
  else { w with starting := insert w.starting u w.next, pending := w.pending ++ [(u, w.next)],
                next := w.next + 1, state := .running }

/-- completion closure of `startContainer` for the oldest outstanding start of `u` (fixed code):
only a runner that is still the one in `starting` is moved to `running` -/
def startDone (w : RW) (u : Uuid) : RW :=
  match lookup w.pending u with
  | none => w
  | some r =>
    let w1 := { w with pending := w.pending.filter (fun p => !(p.1 == u && p.2 == r)) }
    if lookup w.starting u = some r then
      { w1 with starting := erase w.starting u, running := insert w.running u r }
    else w1

def step (w : RW) : RWOp → Option RW
  | .accept u => some (w.accept u)
  | .probe alive => w.probe alive
  | .startDone u => some (w.startDone u)

def run (w : RW) : List RWOp → Option RW
  | [] => some w
  | op :: rest => match w.step op with
    | none => none
    | some w1 => run w1 rest

/-- the closure before the fix -/
def startDoneOld (w : RW) (u : Uuid) : RW :=
  match lookup w.pending u with
  | none => w
  | some r => { w with starting := erase w.starting u, running := insert w.running u r,
                       pending := w.pending.filter (fun p => !(p.1 == u && p.2 == r)) }

def stepOld (w : RW) : RWOp → Option RW
  | .accept u => some (w.accept u)
  | .probe alive => w.probe alive
  | .startDone u => some (w.startDoneOld u)

def runOld (w : RW) : List RWOp → Option RW
  | [] => some w
  | op :: rest => match w.stepOld op with
    | none => none
    | some w1 => runOld w1 rest

def fresh : RW := ⟨.idle, [], [], [], [], [], 0⟩

end RW

/-! ### `Pool.reportSSHConnected` (finding F15b, fixed in /repo 847719d)

Called through `TagVerifier.VerifyHostKey` when an SSH connection to an instance has been verified:
`wkr := wp.workers[inst.ID()]; if wkr == nil { return }; if wkr.state != StateBooting || … { return }; …`.
The map lookup yields nil when `Pool.sync` has dropped the worker while the handshake was in
progress (instance destroyed and gone from the cloud's list). Before the fix there was no nil check
and `wkr.state` panicked (`reportSSHConnectedOld`). -/

/-- `none` = the process panics; `some b`: it returned, having looked at a worker (`b`) or not -/
def reportSSHConnected (workers : List Nat) (id : Nat) : Option Bool :=
  if workers.contains id then some true else some false

/-- the code before the fix -/
def reportSSHConnectedOld (workers : List Nat) (id : Nat) : Option Bool :=
  if workers.contains id then some true else none

end ArvVerif.C15
