/-
C15 model, part 3: the periodic loops of the dispatcher in (discrete) real time — where the weak
fairness premise P2 of `C15_converges` comes from.

Every dispatcher action of the liveness system (Model/C15_Live.lean) is performed by one of four
loops, each of the shape "wait for the next wake-up, run the handler, repeat":

| loop | wake-ups | handler | kinds it serves |
|---|---|---|---|
| `Pool.runProbes`    | `time.Ticker(probeInterval)`                    | shutdownIfIdle of every worker, then a probe of every worker | boot probeUnknown noticeDead jobGone idleTimeout drainShutdown brokenTimeout |
| `Pool.runSync`      | `time.Timer`, re-armed after the handler          | getInstancesAndSync | destroyRetry (and the listing that the others read) |
| queue poll (in `Scheduler.run`) | `time.Ticker(queueUpdateInterval)`    | `queue.Update()`, which notifies the scheduler | — (feeds the next loop) |
| `Scheduler.run`     | notifications of the queue and the pool, `wakeup` timer | `runQueue(); sync()` | lock start create requeue cancel staleResolve |

`time.Ticker` (Go runtime, trusted): a channel with a buffer of one; a tick that finds the buffer
full is dropped. A loop `for range ticker.C { handler }` therefore starts its next handler run when
the handler has returned *and* a tick has arrived since the previous run began — never earlier than
the next tick, never later than the first tick after the handler's return.

`Driven ticks start dur` says exactly this about a sequence of handler runs (`start j`, lasting
`dur j`) and a stream of wake-ups `ticks`. It is a relation, not a function: the only things assumed
of the wake-up stream are that it is strictly increasing (`Ticks`), begins no later than the loop,
and has gaps of at most `G`. A periodic ticker is the instance `periodic p`; the ends of the handler
runs of one loop (`ends`) are again such a stream — that is how the queue poll drives the scheduler.
-/
namespace ArvVerif.C15

/-- a stream of wake-up times: strictly increasing -/
def Ticks (ticks : Nat → Nat) : Prop := ∀ i, ticks i < ticks (i + 1)

/-- successive wake-ups are at most `G` apart -/
def GapLe (ticks : Nat → Nat) (G : Nat) : Prop := ∀ i, ticks (i + 1) ≤ ticks i + G

/-- `time.NewTicker(p)` created at time 0: ticks at p, 2p, 3p, … -/
def periodic (p : Nat) : Nat → Nat := fun i => (i + 1) * p

/-- `t` is the first wake-up strictly after `x` -/
def FirstAfter (ticks : Nat → Nat) (x t : Nat) : Prop :=
  (∃ i, ticks i = t) ∧ x < t ∧ ∀ i, x < ticks i → t ≤ ticks i

/-- The loop `for range C { handler }` over a one-slot channel fed by `ticks`: the first run starts
at the first wake-up; run `j+1` starts when run `j` has returned and a wake-up has arrived after run
`j` began (a wake-up during the handler waits in the buffer, further ones are dropped). -/
def Driven (ticks start dur : Nat → Nat) : Prop :=
  start 0 = ticks 0 ∧
  ∀ j, ∃ t, FirstAfter ticks (start j) t ∧ start (j + 1) = max (start j + dur j) t

/-- The loop of `Pool.runSync`: a `time.Timer` that is re-armed with `p` when the handler returns. -/
def TimerDriven (p : Nat) (start dur : Nat → Nat) : Prop :=
  ∀ j, start (j + 1) = start j + dur j + p

/-- the moments at which the handler runs of a loop return (for `queue.Update()`: the moments at
which the scheduler is notified) -/
def ends (start dur : Nat → Nat) : Nat → Nat := fun j => start j + dur j

/-! ### start-up and shut-down order of the dispatcher (dispatcher.go `run`, scheduler.go `run`) -/

inductive RunEv where
  | firstUpdate      -- `queue.Update()` repeated until it succeeds once
  | pollStart        -- the queue poll goroutine is started
  | fixStaleLocks    -- `sch.fixStaleLocks()` (returns: recovery is over)
  | subscribe        -- pool and queue notifications subscribed
  | runQueue | sync  -- one pass
  | wait             -- the `select`
deriving DecidableEq, Repr, Inhabited

/-- `Scheduler.run` up to its `n`-th pass -/
def schedRun (n : Nat) : List RunEv :=
  [.firstUpdate, .pollStart, .fixStaleLocks, .subscribe] ++ (List.replicate n [RunEv.runQueue, .sync, .wait]).flatten

inductive DispEv where
  | schedStart | waitStop | schedStop | poolStop | instanceSetStop | closeStopped
deriving DecidableEq, Repr, Inhabited

/-- `dispatcher.run()`: the deferred calls run last-in first-out when `disp.stop` is signalled -/
def dispRun : List DispEv := [.schedStart, .waitStop, .schedStop, .poolStop, .instanceSetStop, .closeStopped]

end ArvVerif.C15
