/-
C05 model, part 3: block_state.go — how a block's replicas and desired replication are gathered
before balanceBlock looks at it (`BlockStateMap.AddReplicas` → `addReplica`,
`BlockStateMap.IncreaseDesired` → `increaseDesired`), and what collectStatistics writes to the
lost-blocks report. Portable data hashes are numbers here.
-/
import ArvVerif.Model.C05
namespace ArvVerif.C05

structure BlockSt where
  refs : Option (List Nat)         -- `Refs` (nil, or the set of pdhs; only tracked while there is no replica)
  refCount : Nat
  replicas : List Replica
  desired : List (Class × Nat)     -- `Desired` (a map; nil = [])
  deriving DecidableEq, Repr

def BlockSt.empty : BlockSt := { refs := none, refCount := 0, replicas := [], desired := [] }

/-- `addReplica` -/
def addReplica (bs : BlockSt) (r : Replica) : BlockSt :=
  { bs with replicas := bs.replicas ++ [r], refs := none }

/-- `if d, ok := bs.Desired[class]; !ok || d < n { bs.Desired[class] = n }` -/
def raiseDesired (m : List (Class × Nat)) (c : Class) (n : Nat) : List (Class × Nat) :=
  match lookupD m c with
  | none => m ++ [(c, n)]
  | some d => if d < n then m.map (fun p => if p.1 == c then (c, n) else p) else m

/-- `increaseDesired(pdh, classes, n)`; `pdh = none` is the empty string -/
def increaseDesired (dflt : Class) (bs : BlockSt) (pdh : Option Nat) (classes : List Class) (n : Nat) : BlockSt :=
  { bs with
    refs := match pdh with
      | some h => if bs.replicas.isEmpty then
          (let cur := bs.refs.getD []; some (if cur.contains h then cur else cur ++ [h]))
        else bs.refs
      | none => bs.refs
    refCount := bs.refCount + 1
    desired := (if classes.isEmpty then [dflt] else classes).foldl (fun m c => raiseDesired m c n) bs.desired }

/-- `blk.Desired[class]` as balanceBlock reads it -/
def desiredOf (bs : BlockSt) (c : Class) : Nat := (lookupD bs.desired c).getD 0

inductive BlockOp where
  | rep (r : Replica)                                  -- an index entry for the block
  | coll (pdh : Option Nat) (classes : List Class) (n : Nat)   -- a collection referencing the block
  deriving DecidableEq, Repr

def BlockOp.repOf : BlockOp → Option Replica
  | .rep r => some r
  | .coll _ _ _ => none

def applyOp (dflt : Class) (bs : BlockSt) : BlockOp → BlockSt
  | .rep r => addReplica bs r
  | .coll pdh classes n => increaseDesired dflt bs pdh classes n

/-- the state of a block after the index entries and collections arrived in some order -/
def gather (dflt : Class) (ops : List BlockOp) : BlockSt := ops.foldl (applyOp dflt) BlockSt.empty

/-- the pdhs printed after the hash in the lost-blocks report -/
def lostRefs (bs : BlockSt) : List Nat := bs.refs.getD []

end ArvVerif.C05
