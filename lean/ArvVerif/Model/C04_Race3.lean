/-
C04, interleaving layer, third party: an empty-trash sweep running WHILE one PUT/TOUCH races with one
DELETE / trash-list item on the same block.

`UnixVolume.EmptyTrash` walks the volume directory and, for every name that matches
`/<32 hex>.trash.<digits>$` (`unixTrashLocRegexp`) and whose deadline is not in the future, calls
`Remove(name)`; it takes neither the Serialize lock nor a flock. As far as the files of ONE block are
concerned, each of its filesystem steps is therefore: unlink one inode that is currently linked at a
trash name. `sweep i` models exactly that and OVER-approximates when it may happen: any trashed copy may
be removed at any scheduler turn (the real sweep removes only names it listed earlier and whose deadline
has passed; a copy trashed during the race has its whole lifetime ahead). The block path and
WriteBlock's temp file `tmp<hash><random>` do not match the pattern (tie `trashLocRe`).

`init3 c true` = an (expired) trashed copy `x` of the same hash is present at the start, so that there is
something for the sweep to remove from the beginning. Untrash as second thread is excluded here: a sweep
against an untrash of the same trashed copy is a race on the trash entry itself, whose two outcomes
(restored / already gone) are those of the sequential history layer.
-/
import ArvVerif.Model.C04_Race
namespace ArvVerif.C04.Race

def St.loc (s : St) : Ino → Loc
  | .a => s.locA
  | .b => s.locB
  | .x => s.locX

/-- one filesystem step of a sweep: `Remove(<h>.trash.<deadline>)` of the trashed copy `i`, if it is there -/
def sweep (i : Ino) (s : St) : St := if s.loc i = .trash then s.setLoc i .gone else s

inductive Act
  | p                 -- one micro-step of the PUT / TOUCH
  | t                 -- one micro-step of the DELETE / trash-list item
  | sweep (i : Ino)   -- one Remove of the sweep
deriving DecidableEq, Repr

def step3 : Act → St → St
  | .p, s => stepP s
  | .t, s => stepT s
  | .sweep i, s => sweep i s

/-- three-party interleaving semantics: the scheduler is an arbitrary list of actions -/
def run3 : List Act → St → St
  | [], s => s
  | a :: as, s => run3 as (step3 a s)

def init3 (c : Cfg) (junk : Bool) : St := if junk then { init c with locX := .trash } else init c

end ArvVerif.C04.Race
