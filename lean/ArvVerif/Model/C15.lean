/-
C15 model, part 1: the *response* functions of the dispatcher — what each periodic action does in a
given (state, timer) configuration. Real time enters only as explicit elapsed durations compared
with the configured timeouts (`Timeouts`); every comparison has the strictness of the Go code.

Built on the C14 models (imported read-only): L1 `syncPass`/`asyncEffect`/`staleLocks`
(Model/C14.lean) and L2 `Worker`/`Pool` (Model/C14_Pool.lean). New here:

* `shutdownIfBroken`, `probeTick` (the body of `runProbes`' first loop), `mkProbe`/`probeAndUpdate`
  (a whole sequential `probeAndUpdate`, including `probeRunning`'s stale-run-lock rule) — worker.go;
* `poolSync` (`Pool.sync` with the list of re-issued `Destroy` calls) — pool.go;
* `killRun` (the goroutine of `remoteRunner.Kill`) and `onUnkillable` — runner.go / worker.go;
* `fslRun` (the loop of `fixStaleLocks`) — scheduler/fix_stale_locks.go;
* `asyncEffectW` (a refused latch schedules a wake-up) — scheduler/run_queue.go `uuidLock`;
* `CPool` (`Pool.Create`, its background goroutine, `Unallocated`, `AtQuota`), `runSync` — pool.go;
* `saveTags`, `workerClose` — worker.go.

The liveness transition system is Model/C15_Live.lean.
-/
import ArvVerif.Model.C14_Pool
namespace ArvVerif.C15
open ArvVerif.C14

/-- The timeouts of `worker.Pool` (any unit; the same unit as the elapsed durations). -/
structure Timeouts where
  idle : Nat            -- timeoutIdle
  booting : Nat         -- timeoutBooting
  probe : Nat           -- timeoutProbe
  shutdown : Nat        -- timeoutShutdown
  term : Nat            -- timeoutTERM
  staleRunLock : Nat    -- timeoutStaleRunLock
deriving Repr, Inhabited

/-- every runner in `running`/`starting` has `givenup` set (`gu` = uuids of given-up runners) -/
def allGivenUp (w : Worker) (gu : List Uuid) : Bool :=
  w.running.all (fun u => gu.contains u) && w.starting.all (fun u => gu.contains u)

/-! ### worker.go: shutdownIfBroken, shutdownIfIdle as `runProbes` calls it -/

/-- `label, threshold := "", timeoutProbe; if Unknown || Booting { threshold = timeoutBooting }` -/
def brokenThreshold (w : Worker) (T : Timeouts) : Nat :=
  if w.state == .unknown || w.state == .booting then T.booting else T.probe

/-- `shutdownIfBroken(dur)`: never for Hold; nothing while `dur < threshold`; otherwise `shutdown()`. -/
def shutdownIfBroken (w : Worker) (T : Timeouts) (dur : Nat) (now : Nat) : Worker × Bool :=
  if w.idleB == .hold then (w, false)
  else if dur < brokenThreshold w T then (w, false)
  else (w.shutdown now, true)

/-- `time.Since(wkr.busy) >= timeoutIdle` -/
def idleTimedOut (T : Timeouts) (sinceBusy : Nat) : Bool := decide (T.idle ≤ sinceBusy)

/-- One worker's turn in the first loop of `runProbes`:
`if wkr.state == StateShutdown || wkr.shutdownIfIdle() { continue }; workers = append(workers, id)`.
Second component: the worker will be probed in this round. -/
def probeTick (w : Worker) (T : Timeouts) (gu : List Uuid) (sinceBusy : Nat) (now : Nat) : Worker × Bool :=
  if w.state == .shutdown then (w, false)
  else if w.eligibleForShutdown (idleTimedOut T sinceBusy) (allGivenUp w gu) then (w.shutdown now, false)
  else (w, true)

/-- `onUnkillable(uuid)` (the runner's `givenup` flag has been set by the caller): nothing for
Hold, otherwise `setIdleBehavior(Drain)`. -/
def onUnkillable (w : Worker) (gu : List Uuid) (now : Nat) : Worker :=
  if w.idleB == .hold then w else w.setIdleBehavior .drain false (allGivenUp w gu) now

/-! ### worker.go: one whole `probeAndUpdate` without concurrent pool activity -/

/-- What the remote commands of one probe answer, and the clock readings it makes. -/
structure ProbeIn where
  bootOk : Bool            -- boot probe (and runner deployment) succeeded; asked only in Unknown/Booting
  listOk : Bool            -- `crunch-run --list` exited 0
  uuids : List Uuid        -- its plain uuid lines
  saysBroken : Bool        -- it printed "broken"
  staleLine : Bool         -- it printed some "<uuid> stale"
  staleFor : Option Nat    -- `staleRunLockSince`: `none` = zero time, `some d` = set `d` ago
  dur : Nat                -- `probeStart.Sub(wkr.probed)`
deriving Repr, Inhabited

/-- `probeRunning`'s stale-run-lock rule: broken once stale locks have been reported for longer
than `timeoutStaleRunLock` (strictly). -/
def staleBroken (T : Timeouts) (pi : ProbeIn) : Bool :=
  pi.staleLine && (match pi.staleFor with | some d => decide (d > T.staleRunLock) | none => false)

/-- `staleRunLockSince` after a successful `probeRunning`: cleared / set now / kept. -/
def staleAfter (pi : ProbeIn) : Option Nat :=
  if !pi.staleLine then none else match pi.staleFor with | none => some 0 | some d => some d

/-- The `Probe` record (C14 L2) a sequential `probeAndUpdate` ends up with. -/
def mkProbe (w : Worker) (T : Timeouts) (gu : List Uuid) (pi : ProbeIn) : Probe :=
  let booted := (w.state == .idle || w.state == .running) || pi.bootOk
  let ran := booted || w.state == .unknown          -- `if booted || wkr.state == StateUnknown`
  let ok := ran && pi.listOk
  { stamp := w.updated, booted := booted, ok := ok,
    broken := ok && (pi.saysBroken || staleBroken T pi),
    uuids := if ok then pi.uuids else [],
    timedOut := decide (brokenThreshold w T ≤ pi.dur),
    allGivenUp := allGivenUp w gu }

/-- `probeAndUpdate()` run to completion with nothing else touching the pool meanwhile. -/
def probeAndUpdate (w : Worker) (T : Timeouts) (gu : List Uuid) (pi : ProbeIn) (now : Nat) :
    Worker × List Uuid :=
  if w.state == .shutdown then (w, []) else w.probeApply (mkProbe w T gu pi) now

/-! ### pool.go: `sync` with the re-issued Destroy calls -/

/-- `time.Since(wkr.destroyed) > wp.timeoutShutdown` -/
def retryOf (T : Timeouts) (sinceDestroyed : Nat → Nat) : Nat → Bool :=
  fun id => decide (sinceDestroyed id > T.shutdown)

/-- One listed instance in the first loop of `Pool.sync`; the accumulator also collects the ids
for which `wkr.shutdown()` (hence `Destroy`) is invoked again. -/
def syncStep (retry : Nat → Bool) (now : Nat) (acc : Pool × List Nat) (l : Pool.Listed) : Pool × List Nat :=
  let existed := (acc.1.find l.id).isSome
  let p := acc.1.updateWorker l now
  match p.find l.id with
  | some w =>
    if existed && w.state == .shutdown && retry l.id then (p.put (w.shutdown now), acc.2 ++ [l.id])
    else (p, acc.2)
  | none => (p, acc.2)

/-- `Pool.sync(threshold, instances)`: the pool afterwards (equal to C14's `Pool.sync`,
`poolSync_fst` in Proofs/C15.lean) and the instances whose `Destroy` was re-issued. -/
def poolSync (p : Pool) (threshold : Nat) (listed : List Pool.Listed) (retry : Nat → Bool) (now : Nat) :
    Pool × List Nat :=
  let r := listed.foldl (syncStep retry now) (p, [])
  ({ r.1 with workers := r.1.workers.filter (fun w => decide (w.updated > threshold)) }, r.2)

/-! ### pool.go: `Create` and the pending-create bookkeeping (`wp.creating`) -/

/-- how the cloud's `Create` call ends -/
inductive CreateRes where
  | ok          -- an instance was created
  | quota       -- error implementing cloud.QuotaError with IsQuotaError()
  | rateLimit   -- error implementing cloud.RateLimitError with a retry time in the future
  | other       -- any other error
deriving DecidableEq, Repr, Inhabited

/-- what `Create`/`Unallocated`/`AtQuota` depend on, for one instance type -/
structure CPool where
  creating : Nat       -- `len(wp.creating)`: Create calls that have not returned
  booting : Nat        -- workers added by successful Create calls (StateBooting, nothing running)
  atQuota : Bool       -- `time.Now().Before(wp.atQuotaUntil)`
  throttled : Bool     -- `wp.instanceSet.throttleCreate.Error() != nil`
deriving DecidableEq, Repr, Inhabited

namespace CPool

/-- `Create(it)` up to the start of the background goroutine; `none` = it returned false -/
def call (p : CPool) : Option CPool :=
  if p.atQuota || p.throttled then none else some { p with creating := p.creating + 1 }

/-- the background goroutine after `wp.instanceSet.Create` has returned: the pending entry is
deleted on **every** path (`defer delete(wp.creating, secret)`); a quota error switches Create off
for quotaErrorTTL, a rate-limit error until its retry time; success adds the worker. -/
def ret (p : CPool) (r : CreateRes) : CPool :=
  { creating := p.creating - 1,
    booting := if r = .ok then p.booting + 1 else p.booting,
    atQuota := p.atQuota || decide (r = .quota),
    throttled := p.throttled || decide (r = .rateLimit) }

/-- `Unallocated()[it]` (no Unknown, Idle or draining workers in this scenario) -/
def unallocated (p : CPool) : Nat := p.creating + p.booting

/-- a `Create` call that runs to completion with the given cloud answer -/
def create (p : CPool) (r : CreateRes) : CPool × Bool :=
  match p.call with
  | none => (p, false)
  | some p1 => (p1.ret r, true)

end CPool

/-! ### pool.go: `runSync` -/

/-- how one `getInstancesAndSync()` ends: `nil`, or an error (the cloud's `Instances()` failed, or the
list throttle is still in its hold-off) -/
inductive ListRes where
  | ok | err
deriving DecidableEq, Repr, Inhabited

inductive SyncEv where
  | list (r : ListRes)     -- getInstancesAndSync() returned r (after `Pool.sync` when r = ok)
  | rearm                  -- timer.Reset(wp.syncInterval)
deriving DecidableEq, Repr, Inhabited

/-- one firing of `runSync`'s timer: list (and sync), log an error if any, re-arm the timer — on
every path -/
def runSyncIter (r : ListRes) : List SyncEv := [.list r, .rearm]

/-- the loop over the answers of the successive listings -/
def runSync (rs : List ListRes) : List SyncEv := rs.flatMap runSyncIter

/-! ### worker.go: `saveTags` and `Close` -/

/-- cloud instance tags (a Go map: keys unique) -/
abbrev Tags := List (String × String)

def Tags.get (t : Tags) (k : String) : Option String := (t.find? (fun p => p.1 == k)).map (·.2)

/-- `tags[k] = v` -/
def Tags.set : Tags → String → String → Tags
  | [], k, v => [(k, v)]
  | p :: rest, k, v => if p.1 == k then (k, v) :: rest else p :: Tags.set rest k v

/-- `saveTags()`: nothing when the instance's tags already carry the worker's instance type and
idle behaviour; otherwise `instance.SetTags(tags)` with the instance's **whole** tag set, the two
entries updated (`SetTags` replaces the set: everything else — InstanceSetID, InstanceSecret,
resource tags — must be written back). `none` = no call. -/
def saveTags (tags : Tags) (kType kIdle itName ib : String) : Option Tags :=
  if tags.get kType == some itName && tags.get kIdle == some ib then none
  else some ((tags.set kType itName).set kIdle ib)

/-- what `worker.Close()` does, in order (deferred calls run last-in first-out: the executor is
closed after the pool mutex has been released, because closing it can wait for an SSH handshake
whose last step, `reportSSHConnected`, needs that mutex) -/
inductive CloseEv where
  | lock | abandonRunners | unlock | executorClose
deriving DecidableEq, Repr, Inhabited

def workerClose : List CloseEv := [.lock, .abandonRunners, .unlock, .executorClose]

/-! ### runner.go: the goroutine started by `Kill` -/

/-- One tick of the `timeoutSignal` ticker: the time since `Kill` was called, and whether the
`crunch-run --kill` command (if it gets sent) exits 0. -/
structure KTick where
  elapsed : Nat
  sigOk : Bool
deriving Repr, Inhabited

inductive KillEnd where
  | waiting     -- script exhausted, goroutine still ticking
  | closed      -- `rr.isClosed()`: the runner was closed (process gone), goroutine returns
  | gaveUp      -- `time.Now().After(termDeadline)`: `givenup = true; onUnkillable(uuid)`
deriving DecidableEq, Repr, Inhabited

structure KState where
  w : Worker
  gu : List Uuid           -- runners with `givenup`
  exited : List Uuid       -- `wp.exited` entries recorded by `closeRunner`
deriving Repr, Inhabited

/-- The runner of `u` is closed iff the worker no longer tracks it (`closeRunner` removed it from
`running`; a runner still in `starting` is never closed). -/
def tracked (w : Worker) (u : Uuid) : Bool := w.running.contains u || w.starting.contains u

/-- The `for range t.C` loop of `Kill` for the runner of `u`: closed → return; past the TERM
deadline (strictly) → give up and call `onUnkillable`; otherwise send SIGTERM, and when the
command succeeds `onKilled` → `closeRunner` (a no-op for a runner still in `starting`). -/
def killRun (T : Timeouts) (u : Uuid) (now : Nat) : List KTick → KState → KState × KillEnd
  | [], s => (s, .waiting)
  | t :: rest, s =>
    if !tracked s.w u then (s, .closed)
    else if t.elapsed > T.term then
      let gu := u :: s.gu
      ({ s with gu := gu, w := onUnkillable s.w gu now }, .gaveUp)
    else if t.sigOk then
      let r := s.w.closeRunner u now
      killRun T u now rest { s with w := r.1, exited := if r.2 then s.exited ++ [u] else s.exited }
    else killRun T u now rest s

/-! ### scheduler/fix_stale_locks.go -/

inductive Wake where
  | notify     -- `case <-wp:` a pool notification
  | timeout    -- `case <-timeout.C:` staleLockTimeout expired
deriving DecidableEq, Repr, Inhabited

/-- What one evaluation of the loop condition and body sees. -/
structure FslSnap where
  anyUnknown : Bool
  entries : List Ent
  running : Uuid → Bool

/-- The loop of `fixStaleLocks` over the successive snapshots it takes, each followed by the
event that ends its `select`. `stale` is the variable of the same name (initially nil).
`none`: still waiting when the script ends. `some us`: it returned after `Unlock` of `us`.
(Quirk kept: what gets unlocked is the list computed in the *last* iteration, even when the loop
ends because no worker is Unknown any more.) -/
def fslRun : List (FslSnap × Wake) → List Uuid → Option (List Uuid)
  | [], _ => none
  | (s, wk) :: rest, stale =>
    if !s.anyUnknown then some stale
    else
      let st := staleLocks s.entries s.running
      if st.isEmpty then some []
      else match wk with
        | .timeout => some st
        | .notify => fslRun rest st

/-! ### scheduler/run_queue.go: uuidLock's wake-up -/

/-- Body of a `lockContainer`/`cancel`/`kill`/`requeue` goroutine plus "the scheduler's wake-up
timer was reset to 250 ms" (done by `uuidLock` exactly when the latch is refused). -/
def asyncEffectW (latchHeld : Bool) (stateNow : Option CState) (op : Op) (u : Uuid) : List Effect × Bool :=
  (asyncEffect latchHeld stateNow op u, latchHeld)

end ArvVerif.C15
