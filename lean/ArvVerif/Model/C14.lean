/-
C14 model, layer L1: the pure decision logic of one scheduler pass.

Source: lib/dispatchcloud/scheduler/run_queue.go (`runQueue`, `lockContainer`, `uuidLock`,
`uuidUnlock`) and sync.go (`sync`, `cancel`, `kill`, `requeue`).

A pass is modelled as a function from *snapshots* (the queue's `Entries()`, the pool's
`Running()`, `Unallocated()`, `CountWorkers()[StateUnknown] > 0`, the queue-update time) and an
*answer script* (the booleans returned, in call order, by `AtQuota`, `KillContainer`, `Create`
and `StartContainer`) to the ordered list of pool/queue calls the pass makes. Nothing else enters:
the pass reads no other state. The goroutines it spawns (`go sch.lockContainer`, `go sch.cancel`,
`go sch.kill`, `go sch.requeue`) are recorded as calls (`goLock`, …); what such a goroutine does
once it runs is `asyncEffect` and depends on the per-container operation latch (`uuidOp`).

`runQueue` sorts the entries with the unstable `sort.Slice` over a slice filled in map order, so
"the sorted queue" is a relation: any permutation of the entries sorted by descending priority
(`IsPriorityOrder`). All theorems are for every such order; `priorityOrders` enumerates them for
the differential driver.

This file is also the base of C15/C16-style reasoning about a pass; keep names stable.
-/
namespace ArvVerif.C14

/-- Container identifiers (the model needs only equality). -/
abbrev Uuid := Nat
/-- Instance type identifiers. -/
abbrev IType := Nat

/-- `arvados.ContainerState`; `other` stands for any string that is none of the five. -/
inductive CState where
  | queued | locked | running | complete | cancelled | other
deriving DecidableEq, Repr, Inhabited

/-- One `container.QueueEnt` as far as a pass looks at it. `prio` is Go's int64 `Priority`
(the API keeps it in 0…1000, the code also tolerates negative values: `< 1` in runQueue,
`== 0` in sync). -/
structure Ent where
  uuid : Uuid
  state : CState
  prio : Int
  itype : IType
deriving DecidableEq, Repr, Inhabited

/-- Calls made by `runQueue`, in order, with the answers they received. -/
inductive Call where
  | atQuota (ans : Bool)                          -- sch.pool.AtQuota()
  | kill (u : Uuid) (ans : Bool)                  -- sch.pool.KillContainer(u, …)
  | goLock (u : Uuid)                             -- go sch.lockContainer(u)
  | unlock (u : Uuid)                             -- sch.queue.Unlock(u)   (synchronous)
  | create (t : IType) (ans : Bool)               -- sch.pool.Create(t)
  | start (t : IType) (u : Uuid) (ans : Bool)     -- sch.pool.StartContainer(t, ctr)
  | shutdown (t : IType)                          -- sch.pool.Shutdown(t)
deriving DecidableEq, Repr, Inhabited

/-! ### the `unalloc` map -/

/-- `map[InstanceType]int` as an association list; a missing key reads 0 (Go semantics). -/
abbrev Unalloc := List (IType × Int)

def Unalloc.get (m : Unalloc) (t : IType) : Int :=
  match m.find? (fun p => p.1 == t) with
  | some p => p.2
  | none => 0

/-- `m[t]--` (inserts the key when missing, like Go). -/
def Unalloc.dec (m : Unalloc) (t : IType) : Unalloc :=
  if m.any (fun p => p.1 == t) then m.map (fun p => if p.1 == t then (p.1, p.2 - 1) else p)
  else m ++ [(t, -1)]

/-! ### the answer script -/

/-- Next scripted answer; an exhausted script answers `false`. -/
def nextAns : List Bool → Bool × List Bool
  | [] => (false, [])
  | b :: rest => (b, rest)

/-! ### runQueue -/

/-- Result of one iteration of the `tryrun` loop (one queue entry). -/
structure IterOut where
  calls : List Call          -- calls made for this entry, in order
  stop : Bool                -- `overquota = sorted[i:]; break tryrun`
  un : Unalloc               -- `unalloc` afterwards
  dont : List IType          -- `dontstart` afterwards
  script : List Bool         -- answers not yet consumed
deriving Repr

/-- The start attempt for a Locked entry once a worker is accounted for:
`if dontstart[it] {} else if KillContainer(…) {} else if StartContainer(…) {} else { dontstart[it] = true }`.
`pre` are the calls already made for this entry. -/
def startAttempt (e : Ent) (un : Unalloc) (dont : List IType) (script : List Bool) (pre : List Call) :
    IterOut :=
  if dont.contains e.itype then ⟨pre, false, un, dont, script⟩
  else
    let ks := nextAns script
    if ks.1 then ⟨pre ++ [.kill e.uuid true], false, un, dont, ks.2⟩
    else
      let ss := nextAns ks.2
      ⟨pre ++ [.kill e.uuid false, .start e.itype e.uuid ss.1], false, un,
        if ss.1 then dont else e.itype :: dont, ss.2⟩

/-- One iteration of the `tryrun` loop. `running u` ⇔ `u` is a key of the `Running()` snapshot
taken before the loop; `dont` is `dontstart`. -/
def iter (running : Uuid → Bool) (e : Ent) (un : Unalloc) (dont : List IType) (script : List Bool) :
    IterOut :=
  if running e.uuid || decide (e.prio < 1) then ⟨[], false, un, dont, script⟩
  else match e.state with
  | .queued =>
    -- `if unalloc[it] < 1 && sch.pool.AtQuota()` (short-circuit: AtQuota only asked when < 1)
    let askQuota := decide (un.get e.itype < 1)
    let qs := if askQuota then nextAns script else (false, script)
    let pre : List Call := if askQuota then [.atQuota qs.1] else []
    if qs.1 then ⟨pre, true, un, dont, qs.2⟩
    else
      let ks := nextAns qs.2
      if ks.1 then ⟨pre ++ [.kill e.uuid true], false, un, dont, ks.2⟩
      else ⟨pre ++ [.kill e.uuid false, .goLock e.uuid], false, un.dec e.itype, dont, ks.2⟩
  | .locked =>
    -- first the worker accounting, then the start attempt
    if un.get e.itype > 0 then startAttempt e (un.dec e.itype) dont script []
    else
      let qs := nextAns script
      if qs.1 then ⟨[.atQuota true, .unlock e.uuid], true, un, dont, qs.2⟩
      else
        let cs := nextAns qs.2
        if cs.1 then startAttempt e un dont cs.2 [.atQuota false, .create e.itype true]
        else ⟨[.atQuota false, .create e.itype false], false, un, dont, cs.2⟩
  | _ => ⟨[], false, un, dont, script⟩

/-- The `Running()` snapshot of a pass: container ↦ zero time (`none`: process not known to have
exited) or the time of the pool's "exited at T" placeholder. -/
abbrev RunSnap := List (Uuid × Option Nat)

/-- All that `runQueue` reads of the snapshot: `_, running := running[ctr.UUID]` — whether the
container is a key. The exit time is *not* looked at: a container whose crunch-run has exited so
recently that the pool still keeps its placeholder is skipped like one with a live process
(its final state may not have reached the queue cache yet; `sync` decides what happens to it). -/
def snapKeys (snap : RunSnap) : Uuid → Bool := fun u => snap.any (fun p => p.1 == u)

/-- What is known after the `tryrun` loop. -/
structure LoopOut where
  calls : List Call          -- calls made by the loop, in order
  overquota : List Ent       -- `overquota = sorted[i:]` (empty when the loop ran to the end)
  unalloc : Unalloc          -- the decremented map
deriving Repr

/-- The `tryrun` loop over the sorted queue. -/
def tryrun (running : Uuid → Bool) :
    List Ent → Unalloc → List IType → List Bool → LoopOut
  | [], un, _, _ => ⟨[], [], un⟩
  | e :: rest, un, dont, script =>
    let r := iter running e un dont script
    if r.stop then ⟨r.calls, e :: rest, r.un⟩
    else
      let o := tryrun running rest r.un r.dont r.script
      { o with calls := r.calls ++ o.calls }

/-- `if len(overquota) > 0 { … }`: unlock every Locked entry of the tail. The shutdown requests
that follow range over a Go map, so their order is unspecified; see `shutdownTypes`. -/
def overquotaUnlocks (overquota : List Ent) : List Call :=
  (overquota.filter (fun e => e.state == .locked)).map (fun e => .unlock e.uuid)

/-- Types `t` with `unalloc[t] ≥ 1` after the loop, when the loop stopped at quota. Keys are
listed in the association list's order; the code visits them in map order. -/
def shutdownTypes (o : LoopOut) : List IType :=
  if o.overquota.isEmpty then [] else (o.unalloc.filter (fun p => decide (p.2 ≥ 1))).map (·.1)

/-- All calls of one `runQueue` pass over the given sorted queue (shutdowns last, in the
association list's key order). -/
def runQueue (sorted : List Ent) (running : Uuid → Bool) (un : Unalloc) (script : List Bool) :
    List Call :=
  let o := tryrun running sorted un [] script
  o.calls ++ overquotaUnlocks o.overquota ++ (shutdownTypes o).map .shutdown

/-- What `sort.Slice(sorted, priority descending)` over the map's values guarantees. -/
structure IsPriorityOrder (entries sorted : List Ent) : Prop where
  perm : sorted.Perm entries
  sorted : sorted.Pairwise (fun a b => b.prio ≤ a.prio)

/-- One executable priority order (stable merge sort). -/
def priorityOrder (entries : List Ent) : List Ent :=
  entries.mergeSort (fun a b => decide (b.prio ≤ a.prio))

/-- All permutations of a list (for the driver's allowed set; lists have ≤ 4 elements there). -/
def perms {α : Type} : List α → List (List α)
  | [] => [[]]
  | x :: xs => (perms xs).flatMap (fun p => (List.range (p.length + 1)).map (fun i => p.take i ++ x :: p.drop i))

def isSortedDesc (l : List Ent) : Bool :=
  match l with
  | [] => true
  | [_] => true
  | a :: b :: rest => decide (b.prio ≤ a.prio) && isSortedDesc (b :: rest)

/-- Every priority order of the entries (driver only). -/
def priorityOrders (entries : List Ent) : List (List Ent) :=
  (perms entries).filter isSortedDesc

/-! ### the per-container operation latch (`uuidOp`, `uuidLock`, `uuidUnlock`) -/

inductive Op where
  | lock | cancel | kill | requeue
deriving DecidableEq, Repr, Inhabited

/-- `sch.uuidOp`. -/
abbrev Latch := List (Uuid × Op)

def Latch.held (l : Latch) (u : Uuid) : Bool := l.any (fun p => p.1 == u)

/-- `uuidLock(u, op)`: non-blocking; `(true, l')` when acquired. -/
def uuidLock (l : Latch) (u : Uuid) (op : Op) : Bool × Latch :=
  if l.held u then (false, l) else (true, (u, op) :: l)

/-- `uuidUnlock(u)`. -/
def uuidUnlock (l : Latch) (u : Uuid) : Latch := l.filter (fun p => p.1 != u)

/-- Queue/pool calls made by a spawned goroutine once it runs. -/
inductive Effect where
  | queueGet (u : Uuid)
  | queueLock (u : Uuid)
  | queueCancel (u : Uuid)
  | queueUnlock (u : Uuid)
  | poolKill (u : Uuid)
  | poolForget (u : Uuid)
deriving DecidableEq, Repr, Inhabited

/-- Body of `lockContainer` / `cancel` / `kill` / `requeue`: nothing when the latch is taken;
otherwise the operation. `stateNow` is what `queue.Get` answers at that moment (only
`lockContainer` looks: it gives up unless the container is still Queued). -/
def asyncEffect (latchHeld : Bool) (stateNow : Option CState) (op : Op) (u : Uuid) : List Effect :=
  if latchHeld then [] else
  match op with
  | .lock => if stateNow = some .queued then [.queueGet u, .queueLock u, .queueGet u] else [.queueGet u]
  | .cancel => [.queueCancel u]
  | .kill => [.poolKill u, .poolForget u]
  | .requeue => [.queueUnlock u]

/-! ### goroutines competing for the latch

Every `go sch.lockContainer/cancel/kill/requeue` is a goroutine that first calls `uuidLock`
(`pending`), gives up when refused, otherwise performs its queue/pool calls while `holding` and
finally `uuidUnlock`s. `LStep` is any interleaving of any number of such goroutines. -/

inductive GPhase where
  | pending | holding | done
deriving DecidableEq, Repr

structure Gor where
  uuid : Uuid
  op : Op
  phase : GPhase
deriving DecidableEq, Repr

structure LSys where
  latch : Latch
  gs : List Gor
deriving Repr

inductive LStep : LSys → LSys → Prop where
  /-- a pass spawns a goroutine -/
  | spawn (s : LSys) (u : Uuid) (op : Op) :
      LStep s { s with gs := ⟨u, op, .pending⟩ :: s.gs }
  /-- `uuidLock` succeeds -/
  | acquire (l : Latch) (pre post : List Gor) (u : Uuid) (op : Op)
      (h : (uuidLock l u op).1 = true) :
      LStep ⟨l, pre ++ ⟨u, op, .pending⟩ :: post⟩
            ⟨(uuidLock l u op).2, pre ++ ⟨u, op, .holding⟩ :: post⟩
  /-- `uuidLock` is refused: the goroutine returns without doing anything -/
  | refuse (l : Latch) (pre post : List Gor) (u : Uuid) (op : Op)
      (h : (uuidLock l u op).1 = false) :
      LStep ⟨l, pre ++ ⟨u, op, .pending⟩ :: post⟩
            ⟨(uuidLock l u op).2, pre ++ ⟨u, op, .done⟩ :: post⟩
  /-- the deferred `uuidUnlock` -/
  | release (l : Latch) (pre post : List Gor) (u : Uuid) (op : Op) :
      LStep ⟨l, pre ++ ⟨u, op, .holding⟩ :: post⟩
            ⟨uuidUnlock l u, pre ++ ⟨u, op, .done⟩ :: post⟩

inductive LReach : LSys → Prop where
  | init : LReach ⟨[], []⟩
  | step {s t : LSys} : LReach s → LStep s t → LReach t

/-- number of goroutines currently performing an operation on `u` -/
def inFlight (s : LSys) (u : Uuid) : Nat :=
  s.gs.countP (fun g => g.phase == .holding && g.uuid == u)

/-! ### sync -/

/-- What `sync` decides for one queue entry / one stray process. -/
inductive SyncAct where
  | goCancel (u : Uuid)      -- go sch.cancel
  | goKill (u : Uuid)        -- go sch.kill
  | goRequeue (u : Uuid)     -- go sch.requeue
  | forget (u : Uuid)        -- sch.queue.Forget (synchronous)
deriving DecidableEq, Repr, Inhabited

/-- The `Running()` view of one container: `none` = not a key; `some none` = key with zero time
(process not known to have exited); `some (some t)` = exited at `t`. -/
abbrev RunView := Option (Option Nat)

/-- `!exited.IsZero() && qUpdated.After(exited)` -/
def exitedBefore (rv : RunView) (qUpdated : Nat) : Bool :=
  match rv with
  | some (some t) => decide (t < qUpdated)
  | _ => false

/-- The `switch ent.Container.State` of `sync` for one entry. -/
def syncEntry (anyUnknown : Bool) (qUpdated : Nat) (rv : RunView) (e : Ent) : Option SyncAct :=
  let running := rv.isSome
  match e.state with
  | .running =>
    if !running then (if !anyUnknown then some (.goCancel e.uuid) else none)
    else if exitedBefore rv qUpdated then some (.goCancel e.uuid)
    else if e.prio = 0 then some (.goKill e.uuid)
    else none
  | .complete | .cancelled =>
    if running then some (.goKill e.uuid) else some (.forget e.uuid)
  | .queued =>
    if running then some (.goKill e.uuid)
    else if e.prio = 0 then some (.forget e.uuid)
    else none
  | .locked =>
    if running && exitedBefore rv qUpdated then some (.goRequeue e.uuid)
    else if running && rv == some none && e.prio = 0 then some (.goKill e.uuid)
    else if !running && e.prio = 0 then some (.goRequeue e.uuid)
    else none
  | .other => none

/-- One `sync` pass: the decision for every entry (the code visits them in map order), then
`go sch.kill` for every `Running()` key that is not in the queue. `runKeys` are the keys of the
`Running()` snapshot, `rv` its lookup. -/
def syncPass (anyUnknown : Bool) (qUpdated : Nat) (entries : List Ent) (runKeys : List Uuid)
    (rv : Uuid → RunView) : List SyncAct :=
  entries.filterMap (fun e => syncEntry anyUnknown qUpdated (rv e.uuid) e)
  ++ (runKeys.filter (fun u => !entries.any (fun e => e.uuid == u))).map .goKill

/-! ### fixStaleLocks (scheduler/fix_stale_locks.go)

Runs once, before the first pass of a (re)started dispatcher. While some worker is in state
Unknown it collects the Locked containers that are not in `Running()`; with none it returns at
once; otherwise it waits for a pool notification or its timeout and looks again. When the loop
ends (no worker Unknown any more, or timeout) it unlocks the containers collected in the *last*
iteration. With no Unknown worker at the outset nothing is collected and nothing is unlocked. -/

/-- Locked containers that `Running()` does not report. -/
def staleLocks (entries : List Ent) (running : Uuid → Bool) : List Uuid :=
  (entries.filter (fun e => e.state == .locked && !running e.uuid)).map (·.uuid)

/-- What `fixStaleLocks` unlocks when the pool does not change while it waits: the stale locks
seen in its one iteration if a worker is Unknown (it then gives up on its timeout — or returns at
once when there are none), nothing if no worker is Unknown. -/
def fixStaleLocks (anyUnknown : Bool) (entries : List Ent) (running : Uuid → Bool) : List Uuid :=
  if anyUnknown then staleLocks entries running else []

/-- The queue after `Unlock` of the given containers. -/
def unlockAll (entries : List Ent) (us : List Uuid) : List Ent :=
  entries.map (fun e => if us.contains e.uuid && e.state == .locked then { e with state := .queued } else e)

/-- The queue after the `lockContainer` goroutines of a pass have run (latch free, `Lock`
succeeds): every container for which `goLock` was issued and that is still Queued is Locked. -/
def lockAll (entries : List Ent) (calls : List Call) : List Ent :=
  entries.map (fun e => if calls.contains (.goLock e.uuid) && e.state == .queued then { e with state := .locked } else e)

end ArvVerif.C14
