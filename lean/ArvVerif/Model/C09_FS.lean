/-
C09 — MODEL, part 2: glue between C08's directory/handle layer (which runs the operation
histories) and the tree `marshalManifest` walks; loading a filesystem from manifest text
(C10's model of loadManifest) into that layer; listings.

C08's tree uses `String` names; a byte `b` of a name is the character with code point `b`
(so the character order is Go's byte order and "/" splitting is unaffected).
-/
import ArvVerif.Model.C09
namespace ArvVerif.C09

open ArvVerif.C08 (Seg FileNode Ptr Flush Store Ref Node Err)

abbrev FS9 := C08.FS FileNode Ptr Keep

def nameBytes (s : String) : Bytes := s.toList.map (fun c => UInt8.ofNat c.toNat)
def bytesName (b : Bytes) : String := String.ofList (b.map fun c => Char.ofNat c.toNat)

/-- The file layer over a Keep that can fail: C08's `concImpl` with `writeK` and an asynchronous
flush whose failing groups simply stay in memory (`Flush()` does not report them). -/
def implK (hash : Bytes → C08.Loc) (max : Nat) : C08.FileImpl FileNode Ptr Keep where
  newFile := FileNode.empty
  ptr0 := Ptr.zero
  size := fun fn => fn.size
  off := fun p => p.off
  seekTo := Ptr.seekTo
  trunc := fun fn n => match C08.truncate max fn n with
    | some fn' => pure fn'
    | none => throw Err.panic
  read := fun k fn p n => match C08.readAt k.store fn p n with
    | some r => pure (r.data, r.ptr, C08.ioErr r.err)
    | none => throw Err.panic
  write := fun k fn p app data =>
    let p := if app then C08.appendPtr fn else p
    match writeK hash max k fn p data with
    | WriteResK.done w n => pure (w.k, C08.settle hash w.fn, w.ptr, n)
    | WriteResK.panic => throw Err.panic
    | WriteResK.hang => throw Err.hang
  flush := fun k fns short =>
    let r := flushFilesK hash max k fns short
    (r.1, r.2.1)

/-- the subdirectories of directory `d` in name order: (name, directory id) -/
def sortedDirs (s : FS9) (d : Nat) : List (String × Nat) :=
  ((C08.entriesOf s.ents d).filterMap (fun e => match e.2 with
    | Node.dir k => some (e.1, k)
    | Node.file _ => none)).foldr C08.insertSorted []

/-- the directories below (and including) `d` in marshal order, each with the ids of its files -/
def projFrom (s : FS9) : Nat → Nat → List Bytes → List (Dir9 × List Nat)
  | 0, _, _ => []
  | fuel + 1, d, path =>
    let files := (C08.sortedFiles s d).filterMap (fun e => (s.files[e.2]?).map (fun nf => (nameBytes e.1, e.2, nf.2)))
    let dirs := sortedDirs s d
    (⟨path, files.map (fun f => (f.1, f.2.2)), dirs.length⟩, files.map (·.2.1)) ::
      dirs.flatMap (fun e => projFrom s fuel e.2 (path ++ [nameBytes e.1]))

def project (s : FS9) : List (Dir9 × List Nat) := projFrom s (s.dirs.length + 1) 0 []

def treeOf (s : FS9) : Tree9 := (project s).map (·.1)

/-- store the flushed file nodes back under their ids -/
def writeBack (s : FS9) (ids : List (List Nat)) (t : Tree9) : FS9 :=
  (ids.zip t).foldl (fun s (p : List Nat × Dir9) =>
    (p.1.zip (p.2.files.map (·.2))).foldl (fun s (fc : Nat × FileNode) => C08.setFile s fc.1 fc.2) s) s

/-- `MarshalManifest(".")` on the filesystem -/
def marshalFS (hash : Bytes → C08.Loc) (max : Nat) (s : FS9) : FS9 × MRes :=
  let proj := project s
  let r := marshal9 hash max s.world (proj.map (·.1))
  ({ writeBack s (proj.map (·.2)) r.2.1 with world := r.1 }, r.2.2)

/-! ## loading from manifest text -/

def sizeOfLoc (loc : Bytes) : Nat :=
  match C10.fsLocator loc with
  | some l => l.size
  | none => 0

def segOfC10 (sg : C10.Seg) : Seg := Seg.stored sg.loc (sizeOfLoc sg.loc) sg.off sg.len

def dirIdOf (s : FS9) (p : List Bytes) : Option Nat :=
  match C08.walk s.ents s.dirs (Node.dir 0) (p.map bytesName) with
  | Except.ok (Node.dir d) => some d
  | _ => none

def addPath (s : FS9) (p : List Bytes) (isDir : Bool) : FS9 × Option Node :=
  match p.getLast?, dirIdOf s p.dropLast with
  | some name, some d =>
    let r := C08.addNode (implK (fun _ => []) 1) s d (bytesName name) isDir
    (r.1, some r.2)
  | _, _ => (s, none)

/-- the filesystem `loadManifest` builds, from C10's flat image of it -/
def fsOfTree (k : Keep) (t : C10.FsTree) : FS9 :=
  let s0 : FS9 := C08.FS.init k
  let s1 := t.dirs.foldl (fun s p => (addPath s p true).1) s0
  t.files.foldl (fun s (e : List Bytes × List C10.Seg) =>
    match addPath s e.1 false with
    | (s', some (Node.file f)) =>
      let segs := e.2.map segOfC10
      C08.setFile s' f ⟨segs, C08.sumLen segs, 0⟩
    | (s', _) => s') s1

/-- `Collection.FileSystem()`: `none` = loadManifest returned an error -/
def loadFS (k : Keep) (txt : Bytes) : Option FS9 := (C10.fsLoad txt).map (fsOfTree k)

/-! ## listings -/

inductive Entry
  | dir
  | file (content : Option Bytes)    -- `none`: a block is missing (read error)

/-- the bytes of a file as a reader gets them: `none` when a block is missing or shorter than a
segment needs (the read fails) -/
def fileContent (st : Store) (fn : FileNode) : Option Bytes :=
  fn.segs.foldl (fun acc sg =>
    match acc, sg with
    | some a, Seg.mem buf _ => some (a ++ buf)
    | some a, Seg.stored loc _ off len =>
      (match st loc with
       | some b => if off + len ≤ b.length then some (a ++ (b.drop off).take len) else none
       | none => none)
    | none, _ => none) (some [])

/-- every path of the live filesystem below the root, with file contents as read through the
segments -/
def listFrom (s : FS9) : Nat → Nat → List Bytes → List (List Bytes × Entry)
  | 0, _, _ => []
  | fuel + 1, d, path =>
    (C08.entriesOf s.ents d).flatMap fun e =>
      let p := path ++ [nameBytes e.1]
      match e.2 with
      | Node.file f =>
        (match s.files[f]? with
         | some (_, fn) => [(p, Entry.file (fileContent s.world.store fn))]
         | none => [])
      | Node.dir c => (p, Entry.dir) :: listFrom s fuel c p

def listFS (s : FS9) : List (List Bytes × Entry) := listFrom s (s.dirs.length + 1) 0 []

def segContent (st : Store) (segs : List C10.Seg) : Option Bytes :=
  segs.foldl (fun acc sg =>
    match acc, st sg.loc with
    | some a, some b => if sg.off + sg.len ≤ b.length then some (a ++ (b.drop sg.off).take sg.len) else none
    | _, _ => none) (some [])

/-- what a second filesystem loaded from `txt` holds; `none` = it does not load -/
def reload (st : Store) (txt : Bytes) : Option (List (List Bytes × Entry)) :=
  (C10.fsLoad txt).map fun t =>
    t.dirs.map (fun d => (d, Entry.dir)) ++ t.files.map (fun e => (e.1, Entry.file (segContent st e.2)))

end ArvVerif.C09
