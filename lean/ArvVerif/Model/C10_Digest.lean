/-
C10 — model of sdk/go/blockdigest/blockdigest.go (`FromString`, `BlockDigest.String`, `IsBlockLocator`,
`ParseBlockLocator`) and of the identical `manifest.ParseBlockLocator` (sdk/go/manifest/manifest.go), plus
the `strconv.ParseUint(s, 16, 64)` they rest on. The manifest package keys its block table
(`normalizedText`: `blocks := make(map[blockdigest.BlockDigest]int64)`) by the parsed digest; the codec model
(Model/C10_Go.lean) uses the lower-cased 32 digest characters `digestKey` instead — Proofs/C10_Digest.lean
proves that the two keys identify the same locators.
Core Lean only (linked into the model driver).
-/
import ArvVerif.Model.C10_Go
namespace ArvVerif.C10

/-- value of a hex digit byte (either case; only used on bytes satisfying `isAnyHex`) -/
def hexValB (c : UInt8) : Nat :=
  if isDigit c then c.toNat - 48 else if 97 ≤ c && c ≤ 102 then c.toNat - 87 else c.toNat - 55

def hexFold (s : Bytes) : Nat := s.foldl (fun acc c => acc * 16 + hexValB c) 0

/-- `strconv.ParseUint(s, 16, 64)`: non-empty, hex digits of either case only (no sign, no `0x`
prefix, no underscore: those need base 0), value below 2^64 -/
def parseHex64 (s : Bytes) : Option Nat :=
  if s ≠ [] ∧ s.all isAnyHex then
    if hexFold s < two64 then some (hexFold s) else none
  else none

/-- lower-case hex digit -/
def hexDigitB (n : Nat) : UInt8 := if n < 10 then UInt8.ofNat (48 + n) else UInt8.ofNat (87 + n)

/-- `fmt.Sprintf("%0wx", n)` for `n < 16^w` (a uint64 and `w = 16`): exactly `w` lower-case digits -/
def hexPad : Nat → Nat → Bytes
  | 0, _ => []
  | w + 1, n => hexPad w (n / 16) ++ [hexDigitB (n % 16)]

/-- `blockdigest.BlockDigest{H, L}` -/
structure BlockDigest where
  h : Nat
  l : Nat
deriving DecidableEq, Repr

/-- `blockdigest.FromString` -/
def digestFromString (s : Bytes) : Option BlockDigest :=
  if s.length ≠ 32 then none else
  match parseHex64 (s.take 16) with
  | none => none
  | some h =>
    match parseHex64 (s.drop 16) with
    | none => none
    | some l => some ⟨h, l⟩

/-- `BlockDigest.String()`: `fmt.Sprintf("%016x%016x", d.H, d.L)` -/
def digestString (d : BlockDigest) : Bytes := hexPad 16 d.h ++ hexPad 16 d.l

/-- `blockdigest.BlockLocator` / `manifest.BlockLocator` -/
structure BlockLoc where
  digest : BlockDigest
  size : Int
  hints : List Bytes
deriving DecidableEq, Repr

/-- `blockdigest.IsBlockLocator` -/
def isBlockLocator (t : Bytes) : Bool := isGoLocator t

/-- `blockdigest.ParseBlockLocator` = `manifest.ParseBlockLocator`: pattern test, `strings.Split(s, "+")`,
`FromString(tokens[0])`, `strconv.ParseInt(tokens[1], 10, 0)`, `Hints = tokens[2:]`. `Res.panic` stands for
the index-out-of-range on `tokens[1]` (proved unreachable: the pattern guarantees two tokens). -/
def parseBlockLocator (t : Bytes) : Res BlockLoc :=
  if !isGoLocator t then .err else
  match splitOn bPlus t with
  | d :: sz :: hints =>
    match digestFromString d with
    | none => .err
    | some dg =>
      match parseIntBits 64 sz with
      | none => .err
      | some n => .ok ⟨dg, n, hints⟩
  | _ => .panic

/-- lower-casing of the hex letters A–F (what `digestKey` applies to the 32 digest characters) -/
def lowerHexB (c : UInt8) : UInt8 := if 65 ≤ c && c ≤ 70 then c + 32 else c

end ArvVerif.C10
