/-
C15 model, part 2: the dispatcher protocol as a transition system for *liveness*.

It is C14's L3 (Model/C14_Proto.lean, Model/C14_Queue.lean) cut down to what progress depends on and
extended with what C14 leaves to the environment: the API state of every container, the instance
life cycle (create → boot → idle/busy → shutdown → destroyed), idle behaviour, timers as events,
quota back-off, the recovery phase after a restart, and an explicit fault budget.

* A container is either *free* (`Ctr`, not on any instance: Queued, Locked and waiting for a worker,
  Locked with a lock inherited from a previous dispatcher, Locked with a recorded process exit,
  Running with no process anywhere, or final) or it is the *job* of exactly one instance (`Job`:
  start accepted, process alive with API Locked/Running, process dead but still tracked, or final
  with a lingering process). C14's mutual exclusion is what makes "exactly one instance" right.
* An instance (`Inst`) has a type, a health (`ok`; `drain`: reported broken / unkillable process, i.e.
  IdleBehavior drain; `broken`: unreachable, never boots, crunch-run missing — its probes fail) and a
  phase of the worker that fronts it.
* Every dispatcher step is the *response* proved in Props/C15.lean for the corresponding
  configuration (the docstring of each constructor names it); environment steps are the cloud
  (P1), crunch-run, and faults. Real time does not occur: a timeout is an event.
* Faults (`Act.fault`) need `faults > 0` and consume one unit: premise P3 (finitely many faults).
* `Kind` are the actions that must eventually happen when continuously enabled (P1 for the cloud's,
  P2 for the dispatcher's); `Enabled` is their guard.

Assumption P4 is the guard of `idleTimeout`: an Idle run-mode worker is not shut down for idleness
while a Locked container of its type is waiting and the scheduler is running.
-/
import ArvVerif.Model.C15
namespace ArvVerif.C15
open ArvVerif.C14 (Uuid IType)

/-- phase of a container that is on no instance -/
inductive FPh where
  | queued        -- API Queued
  | locked        -- API Locked by this dispatcher, not reported by Running(): waits for a worker
  | lockedStale   -- API Locked by a previous dispatcher process; fixStaleLocks has not decided yet
  | exitedL       -- API Locked, the pool recorded that its process exited (`wp.exited`)
  | lostR         -- API Running, no process on any worker
  | fin           -- Complete or Cancelled
deriving DecidableEq, Repr

structure Ctr where
  uuid : Uuid
  ty : IType
  ph : FPh
deriving DecidableEq, Repr

/-- phase of a container that is the job of an instance -/
inductive JPh where
  | starting   -- StartContainer accepted; `crunch-run --detach` not yet executed
  | runL       -- live process, API still Locked
  | runR       -- live process, API Running
  | deadL      -- process gone before it reached Running (crash, failed start); worker still tracks it
  | deadR      -- process gone, API Running; worker still tracks it
  | done       -- container final; process (or arv-mount) lingers, or its exit is not yet noticed
deriving DecidableEq, Repr

structure Job where
  uuid : Uuid
  ph : JPh
deriving DecidableEq, Repr

inductive Health where
  | ok | drain | broken
deriving DecidableEq, Repr

/-- phase of the worker fronting an instance -/
inductive IPh where
  | creating                      -- Create call in flight
  | booting                       -- StateBooting
  | unknown (job : Option Job)    -- StateUnknown (after a restart); a job here is an untracked process
  | up (job : Option Job)         -- StateIdle (`none`) / StateRunning (`some`)
  | shutP (job : Option Job)      -- StateShutdown, Destroy in flight
  | shutF (job : Option Job)      -- StateShutdown, last Destroy failed; instance still listed
  | gone                          -- destroyed and dropped from the pool
deriving DecidableEq, Repr

def IPh.job : IPh → Option Job
  | .unknown j | .up j | .shutP j | .shutF j => j
  | _ => none

/-- the same worker phase with another job -/
def IPh.setJob : IPh → Option Job → IPh
  | .unknown _, j => .unknown j
  | .up _, j => .up j
  | .shutP _, j => .shutP j
  | .shutF _, j => .shutF j
  | p, _ => p

structure Inst where
  ty : IType
  health : Health
  ph : IPh
deriving DecidableEq, Repr

structure LState where
  faults : Nat            -- P3: remaining fault budget
  atQuota : Bool          -- `time.Now().Before(wp.atQuotaUntil)`
  recovering : Bool       -- fixStaleLocks has not returned yet
  types : List IType      -- the cluster's instance types
  ctrs : List Ctr
  insts : List Inst
deriving Repr

/-! ### counts used by guards -/

/-- Locked containers of type `t` waiting for a worker -/
def waiting (cs : List Ctr) (t : IType) : Nat := cs.countP (fun c => c.ph == .locked && c.ty == t)

/-- `Unallocated()[t]` as the dispatcher computes it: creating + booting + unknown/idle without a
job, not draining (it cannot tell a broken instance before the timeout). -/
def Inst.unallocReal (i : Inst) (t : IType) : Bool :=
  i.ty == t && i.health != .drain &&
  (match i.ph with | .creating | .booting | .unknown none | .up none => true | _ => false)

/-- … and those among them that really are usable -/
def Inst.unallocOk (i : Inst) (t : IType) : Bool := i.unallocReal t && i.health == .ok

def unallocReal (is : List Inst) (t : IType) : Nat := is.countP (fun i => i.unallocReal t)
def unallocOk (is : List Inst) (t : IType) : Nat := is.countP (fun i => i.unallocOk t)

/-! ### fair action kinds -/

inductive Kind where
  /- scheduler (P2) -/
  | lock | start | create | requeue | cancel | staleResolve | recoveryDone
  /- pool: probes, timers, sync (P2) -/
  | boot | probeUnknown | noticeDead | jobGone | idleTimeout | drainShutdown | brokenTimeout | destroyRetry
  | quotaExpire
  /- cloud and crunch-run (P1) -/
  | createDone | exec | apiRun | complete | destroyOk
deriving DecidableEq, Repr

inductive Act where
  | fair (k : Kind)
  | lockQ | unlockQ | quotaShutdown      -- scheduler actions while at quota; never required
  | fault                                 -- any fault (P3)
  | idle                                  -- nothing happens
deriving DecidableEq, Repr

/-- what becomes of the job of an instance that is destroyed: the worker is dropped, `Running()`
no longer reports the container -/
def released (ty : IType) : Option Job → List Ctr
  | none => []
  | some j => match j.ph with
    | .starting | .runL | .deadL => [⟨j.uuid, ty, .locked⟩]
    | .runR | .deadR => [⟨j.uuid, ty, .lostR⟩]
    | .done => []

/-- the new dispatcher process starts with an empty pool: every instance that still exists is
rediscovered as Unknown -/
def restartInst (i : Inst) : Inst :=
  match i.ph with
  | .creating | .booting => { i with ph := .unknown none }
  | .unknown j | .up j | .shutP j | .shutF j => { i with ph := .unknown j }
  | .gone => i

def restartCtr (c : Ctr) : Ctr :=
  match c.ph with
  | .locked | .exitedL => { c with ph := .lockedStale }
  | _ => c

/-- **A1** (C14): fixStaleLocks finishes only when no unprobed instance hosts a process -/
def noOrphans (is : List Inst) : Prop := ∀ i ∈ is, ∀ j, i.ph ≠ .unknown (some j)

def noUnknown (is : List Inst) : Prop := ∀ i ∈ is, ∀ j, i.ph ≠ .unknown j

inductive Step : LState → Act → LState → Prop where
  /- ------------------------------ scheduler ------------------------------ -/
  /-- runQueue: Queued, priority > 0, not at quota ⇒ `Lock` (C14_lock_only_queued) -/
  | lock (s : LState) (pre post : List Ctr) (c : Ctr)
      (h1 : s.ctrs = pre ++ c :: post) (h2 : c.ph = .queued) (h3 : s.recovering = false) (h4 : s.atQuota = false) :
      Step s (.fair .lock) { s with ctrs := pre ++ { c with ph := .locked } :: post }
  /-- the same while at quota (only when an unallocated worker exists; not required to happen) -/
  | lockQ (s : LState) (pre post : List Ctr) (c : Ctr)
      (h1 : s.ctrs = pre ++ c :: post) (h2 : c.ph = .queued) (h3 : s.recovering = false) (h4 : s.atQuota = true) :
      Step s .lockQ { s with ctrs := pre ++ { c with ph := .locked } :: post }
  /-- runQueue at quota: unlock Locked containers that cannot be mapped -/
  | unlockQ (s : LState) (pre post : List Ctr) (c : Ctr)
      (h1 : s.ctrs = pre ++ c :: post) (h2 : c.ph = .locked) (h3 : s.recovering = false) (h4 : s.atQuota = true) :
      Step s .unlockQ { s with ctrs := pre ++ { c with ph := .queued } :: post }
  /-- runQueue: Locked, an Idle run-mode worker of its type ⇒ `StartContainer`
  (C14_start_needs_idle_run, C15_resp_no_start_on_bad) -/
  | start (s : LState) (pre post : List Ctr) (c : Ctr) (ipre ipost : List Inst) (i : Inst)
      (h1 : s.ctrs = pre ++ c :: post) (h2 : c.ph = .locked) (h3 : s.recovering = false)
      (h4 : s.insts = ipre ++ i :: ipost) (h5 : i.ph = .up none) (h6 : i.health = .ok) (h7 : i.ty = c.ty) :
      Step s (.fair .start)
        { s with ctrs := pre ++ post, insts := ipre ++ { i with ph := .up (some ⟨c.uuid, .starting⟩) } :: ipost }
  /-- runQueue: more Locked containers of a type than unallocated workers, not at quota ⇒ `Create` -/
  | create (s : LState) (t : IType)
      (h1 : s.recovering = false) (h2 : s.atQuota = false) (h3 : t ∈ s.types)
      (h4 : unallocReal s.insts t < waiting s.ctrs t) :
      Step s (.fair .create) { s with insts := s.insts ++ [⟨t, .ok, .creating⟩] }
  /-- sync: Locked, process exit recorded ⇒ requeue (C15_resp_requeue) -/
  | requeue (s : LState) (pre post : List Ctr) (c : Ctr)
      (h1 : s.ctrs = pre ++ c :: post) (h2 : c.ph = .exitedL) (h3 : s.recovering = false) :
      Step s (.fair .requeue) { s with ctrs := pre ++ { c with ph := .queued } :: post }
  /-- sync: Running, no process anywhere, no Unknown worker ⇒ cancel (C15_resp_cancel) -/
  | cancel (s : LState) (pre post : List Ctr) (c : Ctr)
      (h1 : s.ctrs = pre ++ c :: post) (h2 : c.ph = .lostR) (h3 : s.recovering = false) (h4 : noUnknown s.insts) :
      Step s (.fair .cancel) { s with ctrs := pre ++ { c with ph := .fin } :: post }
  /-- fixStaleLocks has returned: an inherited lock was released (→ Queued) or is simply used
  (C15_resp_stale_unlock, C15_resp_stale_none) -/
  | staleResolve (s : LState) (pre post : List Ctr) (c : Ctr) (unlocked : Bool)
      (h1 : s.ctrs = pre ++ c :: post) (h2 : c.ph = .lockedStale) (h3 : s.recovering = false) :
      Step s (.fair .staleResolve)
        { s with ctrs := pre ++ { c with ph := if unlocked then .queued else .locked } :: post }
  /-- fixStaleLocks returns (C15_resp_stale_returns); **A1**: every surviving process has been found -/
  | recoveryDone (s : LState) (h1 : s.recovering = true) (h2 : noOrphans s.insts) :
      Step s (.fair .recoveryDone) { s with recovering := false }
  /- ------------------------------ pool ------------------------------ -/
  /-- first successful boot + run probe of a Booting worker -/
  | boot (s : LState) (ipre ipost : List Inst) (i : Inst)
      (h1 : s.insts = ipre ++ i :: ipost) (h2 : i.ph = .booting) (h3 : i.health ≠ .broken) :
      Step s (.fair .boot) { s with insts := ipre ++ { i with ph := .up none } :: ipost }
  /-- first successful probe of an Unknown worker: processes found are adopted (`updateRunning`) -/
  | probeUnknown (s : LState) (ipre ipost : List Inst) (i : Inst) (j : Option Job)
      (h1 : s.insts = ipre ++ i :: ipost) (h2 : i.ph = .unknown j) (h3 : i.health ≠ .broken) :
      Step s (.fair .probeUnknown) { s with insts := ipre ++ { i with ph := .up j } :: ipost }
  /-- a probe no longer lists a tracked process of an unfinished container: `closeRunner`, exit
  recorded (C14_fresh_probe_applied) -/
  | noticeDead (s : LState) (ipre ipost : List Inst) (i : Inst) (j : Job)
      (h1 : s.insts = ipre ++ i :: ipost) (h2 : i.ph = .up (some j)) (h3 : i.health ≠ .broken)
      (h4 : j.ph = .deadL ∨ j.ph = .deadR) :
      Step s (.fair .noticeDead)
        { s with insts := ipre ++ { i with ph := .up none } :: ipost,
                 ctrs := s.ctrs ++ [⟨j.uuid, i.ty, if j.ph = .deadL then .exitedL else .lostR⟩] }
  /-- the process of a final container is gone (exited, or killed by sync's `kill`), or the Kill
  loop gave up (`gaveUp`: the worker drains; C15_resp_unkillable) -/
  | jobGone (s : LState) (ipre ipost : List Inst) (i : Inst) (j : Job) (gaveUp : Bool)
      (h1 : s.insts = ipre ++ i :: ipost) (h2 : i.ph = .up (some j)) (h3 : i.health ≠ .broken) (h4 : j.ph = .done) :
      Step s (.fair .jobGone)
        { s with insts := ipre ++ { i with ph := .up none, health := if gaveUp then .drain else i.health } :: ipost }
  /-- runProbes: Idle, run mode, past timeoutIdle ⇒ shutdown (C15_resp_idle_timeout). **P4** -/
  | idleTimeout (s : LState) (ipre ipost : List Inst) (i : Inst)
      (h1 : s.insts = ipre ++ i :: ipost) (h2 : i.ph = .up none) (h3 : i.health = .ok)
      (h4 : s.recovering = true ∨ waiting s.ctrs i.ty = 0) :
      Step s (.fair .idleTimeout) { s with insts := ipre ++ { i with ph := .shutP none } :: ipost }
  /-- runProbes: draining, nothing running ⇒ shutdown (C15_resp_drain_shutdown) -/
  | drainShutdown (s : LState) (ipre ipost : List Inst) (i : Inst)
      (h1 : s.insts = ipre ++ i :: ipost) (h2 : i.ph = .booting ∨ i.ph = .up none) (h3 : i.health = .drain) :
      Step s (.fair .drainShutdown) { s with insts := ipre ++ { i with ph := .shutP none } :: ipost }
  /-- probes fail past timeoutBooting / timeoutProbe ⇒ shutdown (C15_resp_probe_timeout) -/
  | brokenTimeout (s : LState) (ipre ipost : List Inst) (i : Inst) (j : Option Job)
      (h1 : s.insts = ipre ++ i :: ipost) (h2 : (i.ph = .booting ∧ j = none) ∨ i.ph = .unknown j ∨ i.ph = .up j)
      (h3 : i.health = .broken) :
      Step s (.fair .brokenTimeout) { s with insts := ipre ++ { i with ph := .shutP j } :: ipost }
  /-- Pool.sync: still listed after timeoutShutdown ⇒ Destroy again (C15_resp_destroy_retry) -/
  | destroyRetry (s : LState) (ipre ipost : List Inst) (i : Inst) (j : Option Job)
      (h1 : s.insts = ipre ++ i :: ipost) (h2 : i.ph = .shutF j) :
      Step s (.fair .destroyRetry) { s with insts := ipre ++ { i with ph := .shutP j } :: ipost }
  /-- quotaErrorTTL has passed -/
  | quotaExpire (s : LState) (h1 : s.atQuota = true) :
      Step s (.fair .quotaExpire) { s with atQuota := false }
  /-- runQueue at quota: `Shutdown(it)` of a surplus Booting/Idle worker -/
  | quotaShutdown (s : LState) (ipre ipost : List Inst) (i : Inst)
      (h1 : s.insts = ipre ++ i :: ipost) (h2 : i.ph = .booting ∨ i.ph = .up none) (h3 : s.atQuota = true) :
      Step s .quotaShutdown { s with insts := ipre ++ { i with ph := .shutP none } :: ipost }
  /- ------------------------------ cloud and crunch-run (P1) ------------------------------ -/
  /-- the cloud has created the instance; it appears in the list (StateBooting) -/
  | createDone (s : LState) (ipre ipost : List Inst) (i : Inst)
      (h1 : s.insts = ipre ++ i :: ipost) (h2 : i.ph = .creating) :
      Step s (.fair .createDone) { s with insts := ipre ++ { i with ph := .booting } :: ipost }
  /-- `crunch-run --detach` runs on the VM -/
  | exec (s : LState) (ipre ipost : List Inst) (i : Inst) (j : Job)
      (h1 : s.insts = ipre ++ i :: ipost) (h2 : i.ph = .unknown (some j) ∨ i.ph = .up (some j))
      (h3 : i.health ≠ .broken) (h4 : j.ph = .starting) :
      Step s (.fair .exec)
        { s with insts := ipre ++ { i with ph := i.ph.setJob (some { j with ph := .runL }) } :: ipost }
  /-- crunch-run sets the container Running -/
  | apiRun (s : LState) (ipre ipost : List Inst) (i : Inst) (j : Job)
      (h1 : s.insts = ipre ++ i :: ipost) (h2 : i.ph.job = some j) (h4 : j.ph = .runL) :
      Step s (.fair .apiRun)
        { s with insts := ipre ++ { i with ph := i.ph.setJob (some { j with ph := .runR }) } :: ipost }
  /-- crunch-run finishes the container (Complete, or Cancelled on its own failure) -/
  | complete (s : LState) (ipre ipost : List Inst) (i : Inst) (j : Job)
      (h1 : s.insts = ipre ++ i :: ipost) (h2 : i.ph.job = some j) (h4 : j.ph = .runR) :
      Step s (.fair .complete)
        { s with ctrs := s.ctrs ++ [⟨j.uuid, i.ty, .fin⟩],
                 insts := ipre ++ { i with ph := i.ph.setJob (some { j with ph := .done }) } :: ipost }
  /-- the cloud honours Destroy; the instance leaves the list and the worker is dropped -/
  | destroyOk (s : LState) (ipre ipost : List Inst) (i : Inst) (j : Option Job)
      (h1 : s.insts = ipre ++ i :: ipost) (h2 : i.ph = .shutP j) :
      Step s (.fair .destroyOk)
        { s with insts := ipre ++ { i with ph := .gone } :: ipost, ctrs := s.ctrs ++ released i.ty j }
  /- ------------------------------ faults (P3) ------------------------------ -/
  /-- crunch-run dies (or never starts) before the container is Running -/
  | crashL (s : LState) (ipre ipost : List Inst) (i : Inst) (j : Job)
      (h0 : 0 < s.faults) (h1 : s.insts = ipre ++ i :: ipost) (h2 : i.ph.job = some j)
      (h4 : j.ph = .starting ∨ j.ph = .runL) :
      Step s .fault { s with faults := s.faults - 1,
                             insts := ipre ++ { i with ph := i.ph.setJob (some { j with ph := .deadL }) } :: ipost }
  /-- crunch-run dies after the container became Running -/
  | crashR (s : LState) (ipre ipost : List Inst) (i : Inst) (j : Job)
      (h0 : 0 < s.faults) (h1 : s.insts = ipre ++ i :: ipost) (h2 : i.ph.job = some j) (h4 : j.ph = .runR) :
      Step s .fault { s with faults := s.faults - 1,
                             insts := ipre ++ { i with ph := i.ph.setJob (some { j with ph := .deadR }) } :: ipost }
  /-- an instance breaks: unreachable, never boots, crunch-run missing -/
  | breakInst (s : LState) (ipre ipost : List Inst) (i : Inst)
      (h0 : 0 < s.faults) (h1 : s.insts = ipre ++ i :: ipost) :
      Step s .fault { s with faults := s.faults - 1, insts := ipre ++ { i with health := .broken } :: ipost }
  /-- an instance reports itself broken, keeps a stale run lock, or hosts an unkillable process:
  the worker is set to drain (C15_resp_broken_drain, C15_resp_unkillable) -/
  | drainInst (s : LState) (ipre ipost : List Inst) (i : Inst)
      (h0 : 0 < s.faults) (h1 : s.insts = ipre ++ i :: ipost) (h2 : i.health = .ok) :
      Step s .fault { s with faults := s.faults - 1, insts := ipre ++ { i with health := .drain } :: ipost }
  /-- a Destroy call fails -/
  | destroyFail (s : LState) (ipre ipost : List Inst) (i : Inst) (j : Option Job)
      (h0 : 0 < s.faults) (h1 : s.insts = ipre ++ i :: ipost) (h2 : i.ph = .shutP j) :
      Step s .fault { s with faults := s.faults - 1, insts := ipre ++ { i with ph := .shutF j } :: ipost }
  /-- a Create call fails: quota error (Create is switched off for quotaErrorTTL), or any other
  error such as a rate limit (`quota = false`) -/
  | createFail (s : LState) (ipre ipost : List Inst) (i : Inst) (quota : Bool)
      (h0 : 0 < s.faults) (h1 : s.insts = ipre ++ i :: ipost) (h2 : i.ph = .creating) :
      Step s .fault { s with faults := s.faults - 1, atQuota := s.atQuota || quota,
                             insts := ipre ++ { i with ph := .gone } :: ipost }
  /-- the dispatcher process dies and is restarted -/
  | restart (s : LState) (h0 : 0 < s.faults) :
      Step s .fault { s with faults := s.faults - 1, recovering := true,
                             ctrs := s.ctrs.map restartCtr, insts := s.insts.map restartInst }
  /-- a timer fires early, a call is rate-limited, … : anything that costs time but changes nothing -/
  | hiccup (s : LState) (h0 : 0 < s.faults) : Step s .fault { s with faults := s.faults - 1 }
  /- ------------------------------ nothing ------------------------------ -/
  | idle (s : LState) : Step s .idle s

/-! ### guards of the fair kinds -/

def Enabled (k : Kind) (s : LState) : Prop :=
  match k with
  | .lock => s.recovering = false ∧ s.atQuota = false ∧ ∃ c ∈ s.ctrs, c.ph = .queued
  | .start => s.recovering = false ∧ ∃ c ∈ s.ctrs, ∃ i ∈ s.insts, c.ph = .locked ∧ i.ph = .up none ∧ i.health = .ok ∧ i.ty = c.ty
  | .create => s.recovering = false ∧ s.atQuota = false ∧ ∃ t ∈ s.types, unallocReal s.insts t < waiting s.ctrs t
  | .requeue => s.recovering = false ∧ ∃ c ∈ s.ctrs, c.ph = .exitedL
  | .cancel => s.recovering = false ∧ noUnknown s.insts ∧ ∃ c ∈ s.ctrs, c.ph = .lostR
  | .staleResolve => s.recovering = false ∧ ∃ c ∈ s.ctrs, c.ph = .lockedStale
  | .recoveryDone => s.recovering = true ∧ noOrphans s.insts
  | .boot => ∃ i ∈ s.insts, i.ph = .booting ∧ i.health ≠ .broken
  | .probeUnknown => ∃ i ∈ s.insts, ∃ j, i.ph = .unknown j ∧ i.health ≠ .broken
  | .noticeDead => ∃ i ∈ s.insts, ∃ j, i.ph = .up (some j) ∧ i.health ≠ .broken ∧ (j.ph = .deadL ∨ j.ph = .deadR)
  | .jobGone => ∃ i ∈ s.insts, ∃ j, i.ph = .up (some j) ∧ i.health ≠ .broken ∧ j.ph = .done
  | .idleTimeout => ∃ i ∈ s.insts, i.ph = .up none ∧ i.health = .ok ∧ (s.recovering = true ∨ waiting s.ctrs i.ty = 0)
  | .drainShutdown => ∃ i ∈ s.insts, (i.ph = .booting ∨ i.ph = .up none) ∧ i.health = .drain
  | .brokenTimeout => ∃ i ∈ s.insts, i.health = .broken ∧ (i.ph = .booting ∨ (∃ j, i.ph = .unknown j) ∨ ∃ j, i.ph = .up j)
  | .destroyRetry => ∃ i ∈ s.insts, ∃ j, i.ph = .shutF j
  | .quotaExpire => s.atQuota = true
  | .createDone => ∃ i ∈ s.insts, i.ph = .creating
  | .exec => ∃ i ∈ s.insts, ∃ j, (i.ph = .unknown (some j) ∨ i.ph = .up (some j)) ∧ i.health ≠ .broken ∧ j.ph = .starting
  | .apiRun => ∃ i ∈ s.insts, ∃ j, i.ph.job = some j ∧ j.ph = .runL
  | .complete => ∃ i ∈ s.insts, ∃ j, i.ph.job = some j ∧ j.ph = .runR
  | .destroyOk => ∃ i ∈ s.insts, ∃ j, i.ph = .shutP j

/-! ### goals -/

/-- every container is Complete or Cancelled -/
def AllFinal (s : LState) : Prop :=
  (∀ c ∈ s.ctrs, c.ph = .fin) ∧ ∀ i ∈ s.insts, ∀ j, i.ph.job = some j → j.ph = .done

/-- no instance exists -/
def NoInstances (s : LState) : Prop := ∀ i ∈ s.insts, i.ph = .gone

/-- containers that exist (a final container whose process lingers is counted once, in `ctrs`) -/
def population (s : LState) : Nat :=
  s.ctrs.length + s.insts.countP (fun i => match i.ph.job with | some j => j.ph != .done | none => false)

/-! ### the variant -/

/-- rank of a free container; `q` = at quota (then Locked and Queued count the same, because the
scheduler may move a container either way) -/
def crank (q : Bool) : FPh → Nat
  | .fin => 0
  | .lostR => 1
  | .locked => if q then 7 else 6
  | .queued => 7
  | .exitedL => 8
  | .lockedStale => 8

/-- rank of a job; `bad` = its instance is broken or being destroyed (the job will be released) -/
def jrank (bad : Bool) : JPh → Nat
  | .done => 0
  | .deadR => 2
  | .runR => if bad then 2 else 3
  | .runL => if bad then 8 else 4
  | .starting => if bad then 8 else 5
  | .deadL => if bad then 8 else 9

def Inst.bad (i : Inst) : Bool :=
  i.health == .broken || (match i.ph with | .shutP _ | .shutF _ => true | _ => false)

def Inst.crank (i : Inst) : Nat :=
  match i.ph.job with
  | some j => jrank i.bad j.ph
  | none => 0

def Inst.irank (i : Inst) : Nat :=
  match i.ph with
  | .creating => 7
  | .booting => 6
  | .unknown _ => 6
  | .up (some _) => 5
  | .up none => 4
  | .shutF _ => 3
  | .shutP _ => 2
  | .gone => 0

def sumBy {α : Type} (f : α → Nat) (l : List α) : Nat := (l.map f).sum

/-- Locked containers for which no usable worker is on its way -/
def deficit (types : List IType) (cs : List Ctr) (is : List Inst) : Nat :=
  sumBy (fun t => waiting cs t - unallocOk is t) types

/-- The lexicographic variant: fault budget, quota back-off pending, recovery pending, work left in
the containers, workers still to be requested, life left in the instances. -/
structure Mu where
  f : Nat
  q : Nat
  r : Nat
  c : Nat
  d : Nat
  i : Nat
deriving DecidableEq, Repr

def mu (s : LState) : Mu :=
  { f := s.faults,
    q := if s.atQuota then 1 else 0,
    r := if s.recovering then 1 else 0,
    c := sumBy (fun c => crank s.atQuota c.ph) s.ctrs + sumBy Inst.crank s.insts,
    d := if s.atQuota || s.recovering then 0 else deficit s.types s.ctrs s.insts,
    i := sumBy Inst.irank s.insts }

def Mu.lt (a b : Mu) : Prop :=
  a.f < b.f ∨ (a.f = b.f ∧ (a.q < b.q ∨ (a.q = b.q ∧ (a.r < b.r ∨ (a.r = b.r ∧ (a.c < b.c ∨ (a.c = b.c ∧
    (a.d < b.d ∨ (a.d = b.d ∧ a.i < b.i)))))))))

def Mu.le (a b : Mu) : Prop := a = b ∨ a.lt b

end ArvVerif.C15
