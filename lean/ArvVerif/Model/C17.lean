/-
C17 — model of crunch-run's output copier (`lib/crunchrun/copier.go`) as the code is now.

Paths. Every Go path string the copier handles is absolute; it is modelled as the list of its
components, `rep [c1, …, cn] = "/c1/…/cn"` (so `"/a//b/"` is `["a", "", "b", ""]`; components may be
`""`, `"."`, `".."` — an absolute symlink target is used *as written*, the code does not clean it).
With this representation (components never contain `/`, mount points and the output path are clean)
 * `strings.HasPrefix(src+"/", root+"/")`      is `root <+: src`            (`List.isPrefixOf`)
 * `strings.HasPrefix(mnt, src+"/")`            is `src <+: mnt ∧ src.length < mnt.length`
 * `src[len(root):]`                            is `src.drop root.length`
 * `dest + "/" + name`                          is `dest ++ [name]`
 * `filepath.Join(filepath.Dir(src), target)`   is `cleanAbs (src.dropLast ++ target)`
 * `filepath.Join(".", mnt.Path, rest)`         is `cleanRel (mnt.path ++ rest)`.

Host filesystem. A flat map from *physical* paths (relative to a root `R` that contains the host
output directory at `hostOut`) to nodes. `namei` is `lstat(2)`: intermediate symbolic links are
followed (at most 40, as Linux does), `..` is physical, the last component is not followed. A host
symlink whose target is absolute leads out of `R` into the real host filesystem, where the
container's paths do not exist (assumption): `ENOENT`.

The walk (`walkMount` / `walkMountsBelow` / `walkHostFS` and the loop over directory entries) is one
function `walk` over a `Call`, recursive on an explicit fuel (every nested call consumes one unit);
`Res.fuel` is the model's rendering of "the recursion did not end". `n` is `maxSymlinks + 1`
(`maxSymlinks < 0` is `n = 0`). The order of `cfg.mounts` stands for Go's map iteration order.

`runPlan` is the rest of `Copy`: the extracted manifest fragments are loaded into a collection
filesystem (`loadManifest`/`createFileAndParents`), then `Mkdir` for `cp.dirs`, then `copyFile` for
`cp.files`; the result is what `MarshalManifest` saves (that the collection filesystem stores and
returns what was written is C08/C09's statement, and that `Extract` relocates files with their
content is C10's; both are used here as the meaning of the operations, see notes/C17.md).
-/
import ArvVerif.Base.Bytes
namespace ArvVerif.C17

abbrev Name := String
abbrev Path := List Name

/-! ## lexical path cleaning (Go `filepath.Clean`) -/

/-- one step of `Clean` on a rooted path; `st` is the stack of kept components, reversed -/
def cleanAbsStep (st : List Name) (c : Name) : List Name :=
  if c = "" ∨ c = "." then st
  else if c = ".." then st.drop 1
  else c :: st

/-- `filepath.Clean` of the rooted path with components `p` (result without the root `/`) -/
def cleanAbs (p : Path) : Path := (p.foldl cleanAbsStep []).reverse

/-- one step of `Clean` on a relative path: a leading `..` stays -/
def cleanRelStep (st : List Name) (c : Name) : List Name :=
  if c = "" ∨ c = "." then st
  else if c = ".." then
    match st with
    | [] => [".."]
    | top :: rest => if top = ".." then c :: st else rest
  else c :: st

/-- `filepath.Clean` of the relative path `./p` (result `[]` means `.`) -/
def cleanRel (p : Path) : Path := (p.foldl cleanRelStep []).reverse

/-- a path is clean: no empty, `.` or `..` component -/
def IsClean (p : Path) : Prop := ∀ c ∈ p, c ≠ "" ∧ c ≠ "." ∧ c ≠ ".."

instance (p : Path) : Decidable (IsClean p) := by unfold IsClean; infer_instance

/-! ## host filesystem -/

inductive Node where
  | file (content : Bytes)
  | dir
  /-- symbolic link: `abs` = the target starts with `/`; `target` = its components -/
  | link (abs : Bool) (target : Path)
  /-- device, FIFO, socket -/
  | special
deriving DecidableEq, Repr

abbrev Host := List (Path × Node)

def Host.get (h : Host) (p : Path) : Option Node :=
  if p = [] then some .dir else (h.find? (·.1 = p)).map (·.2)

/-- names in the directory `p` (`Readdirnames`), unsorted -/
def Host.children (h : Host) (p : Path) : List Name :=
  h.filterMap fun e => if e.1.dropLast = p ∧ e.1 ≠ [] then e.1.getLast? else none

inductive Stat where
  | enoent | enotdir | eloop
  | found (p : Path) (n : Node)
deriving DecidableEq, Repr

def maxHostLinks : Nat := 40

/-- `lstat` of the path `cur/comps` (`cur` a physical directory); `cnt` symlinks followed so far -/
def namei (h : Host) (cur : Path) (comps : List Name) (cnt : Nat) : Stat :=
  match comps with
  | [] => .found cur .dir
  | c :: rest =>
    if c = "" ∨ c = "." then namei h cur rest cnt
    else if c = ".." then namei h cur.dropLast rest cnt
    else
      match h.get (cur ++ [c]) with
      | none => .enoent
      | some .dir => namei h (cur ++ [c]) rest cnt
      | some (.link abs t) =>
        if rest = [] then .found (cur ++ [c]) (.link abs t)
        else if maxHostLinks ≤ cnt then .eloop
        else if abs then .enoent
        else namei h cur (t ++ rest) (cnt + 1)
      | some n => if rest = [] then .found (cur ++ [c]) n else .enotdir
termination_by (maxHostLinks - cnt, comps.length)
decreasing_by
  all_goals simp_wf
  · exact Prod.Lex.right _ (by simp)
  · exact Prod.Lex.right _ (by simp)
  · exact Prod.Lex.right _ (by simp)
  · apply Prod.Lex.left; omega

/-! ## configuration -/

/-- a mounted collection as `manifest.segment()` sees it: (directory, file name, content); an entry
`(d, ".", [])` is the marker that keeps the empty directory `d` -/
abbrev Coll := List (Path × Name × Bytes)

structure Mount where
  kind : String
  writable : Bool := false
  exclude : Bool := false
  /-- content of the collection named by `portable_data_hash`; `none`: the API lookup fails -/
  coll : Option Coll := none
  /-- components of the mount's `path` inside the collection -/
  path : Path := []
deriving Repr, DecidableEq

structure Cfg where
  ctrOut : Path
  hostOut : Path
  mounts : List (Path × Mount)
  secrets : List Path
deriving Repr

def Cfg.mount (cfg : Cfg) (p : Path) : Option Mount := (cfg.mounts.find? (·.1 = p)).map (·.2)

/-- `copyRegularFiles` -/
def copyRegular (m : Mount) : Bool :=
  m.kind = "text" || m.kind = "json" || (m.kind = "collection" && m.writable)

/-- `len(srcRoot)` for the best mount so far (`""` if none) -/
def rootLen : Option (Path × Mount) → Nat
  | none => 0
  | some b => b.1.length

/-- `mntinfo, isMount := cp.mounts[p]; isMount && !cp.copyRegularFiles(mntinfo)` -/
def skipMount (cfg : Cfg) (p : Path) : Bool :=
  match cfg.mount p with
  | some m => ! copyRegular m
  | none => false

/-- innermost mount containing `src` (first loop of `walkMount`) -/
def srcMount (cfg : Cfg) (src : Path) : Option (Path × Mount) :=
  cfg.mounts.foldl (fun best e =>
    if e.1.isPrefixOf src ∧ rootLen best < e.1.length then some e else best) none

/-- second loop of `walkMount`: a secret mount at or above `src`, deeper than the innermost mount -/
def underSecret (cfg : Cfg) (src : Path) (rl : Nat) : Bool :=
  cfg.secrets.any fun s => rl < s.length && s.isPrefixOf src

/-! ## manifest extraction (`Manifest.Extract(srcRelPath, dest)`) on the abstract collection -/

/-- an item of manifest text: a file with its content, or a directory marker -/
abbrev Frag := Path × Option Bytes

def extract (c : Coll) (rel dest : Path) : List Frag :=
  if rel.head? = some ".." then [] else
  match (if rel = [] then none else c.find? fun e => e.1 = rel.dropLast ∧ some e.2.1 = rel.getLast?) with
  | some e => [(if dest = [] then [e.2.1] else dest, some e.2.2)]
  | none =>
    (c.filter fun e => rel.isPrefixOf e.1).map fun e =>
      let d := dest ++ e.1.drop rel.length
      if e.2.1 = "." then (d, none) else (d ++ [e.2.1], some e.2.2)

/-! ## the plan -/

structure Plan where
  /-- `cp.dirs` -/
  dirs : List Path := []
  /-- `cp.files`: destination and physical host source (`none` = `os.DevNull`) -/
  files : List (Path × Option Path) := []
  /-- `cp.manifest` -/
  frags : List Frag := []
deriving Repr, DecidableEq

/-- `cp.dirs = append(cp.dirs, dest)` unless `dest == ""` -/
def Plan.addDir (st : Plan) (dest : Path) : Plan :=
  if dest = [] then st else { st with dirs := st.dirs ++ [dest] }
/-- the `.keep` placeholder of an empty directory, unless `dest == ""` -/
def Plan.addKeep (st : Plan) (dest : Path) : Plan :=
  if dest = [] then st else { st with files := st.files ++ [(dest ++ [".keep"], none)] }
/-- a regular file to copy from the host path `p` -/
def Plan.addFile (st : Plan) (dest p : Path) : Plan := { st with files := st.files ++ [(dest, some p)] }
/-- extracted manifest text appended to `cp.manifest` -/
def Plan.addFrags (st : Plan) (fs : List Frag) : Plan := { st with frags := st.frags ++ fs }

inductive Err where
  | notMounted | symlinks | lstat | kind | ftype | manifest
  | fs | mkdir | copy
deriving DecidableEq, Repr

inductive Res (α : Type) where
  | ok (a : α)
  | err (e : Err)
  /-- the code would compute a host path from a mount that is not the output directory -/
  | unmodelled
  /-- the recursion did not end within the fuel -/
  | fuel
deriving DecidableEq, Repr

def Res.bind {α β : Type} : Res α → (α → Res β) → Res β
  | .ok a, f => f a
  | .err e, _ => .err e
  | .unmodelled, _ => .unmodelled
  | .fuel, _ => .fuel

/-- `limitFollowSymlinks` -/
def limitFollowSymlinks : Nat := 10
/-- `walkMountsBelow` passes on the caller's `maxSymlinks`, capped at this value
(`if maxSymlinks > 0 { maxSymlinks = 0 }`, fix f009595; before it, the literal `0` itself) -/
def belowMaxSymlinks : Nat := 0

/-- insertion sort by `<` on strings (`sort.Strings`: bytewise order, which is code point order) -/
def insertName (x : Name) : List Name → List Name
  | [] => [x]
  | y :: ys => if x < y then x :: y :: ys else y :: insertName x ys
def sortNames (l : List Name) : List Name := l.foldr insertName []

inductive Call where
  /-- `walkMount(dest, src, n-1, below)` -/
  | mount (dest src : Path) (n : Nat) (below : Bool)
  /-- the remaining iterations of the loop in `walkMountsBelow(dest, src, n-1)` -/
  | below (dest src : Path) (n : Nat) (ms : List (Path × Mount))
  /-- `walkHostFS(dest, src, n-1, inc)` -/
  | host (dest src : Path) (n : Nat) (inc : Bool)
  /-- the remaining iterations of the loop over the entries of directory `src` -/
  | children (dest src : Path) (n : Nat) (names : List Name)

def walk (h : Host) (cfg : Cfg) : Nat → Call → Plan → Res Plan
  | 0, _, _ => .fuel
  | fuel + 1, .mount dest src n below, st =>
    let best := srcMount cfg src
    if underSecret cfg src (rootLen best) then .ok st else
    match best with
    | none => .err .notMounted
    | some (root, m) =>
      let cont (st : Plan) : Res Plan :=
        if below then walk h cfg fuel (.below dest src n cfg.mounts) st else .ok st
      if m.exclude then cont st
      else if m.kind = "tmp" then
        if root = cfg.ctrOut then walk h cfg fuel (.host dest src n below) st else .unmodelled
      else if m.kind ≠ "collection" then .err .kind
      else if ¬ m.writable then
        match m.coll with
        | none => .err .manifest
        | some c => cont (st.addFrags (extract c (cleanRel (m.path ++ src.drop root.length)) dest))
      else .unmodelled
  | _ + 1, .below _ _ _ [], st => .ok st
  | fuel + 1, .below dest src n ((mnt, m) :: ms), st =>
    if src.isPrefixOf mnt ∧ src.length < mnt.length ∧ ¬ copyRegular m then
      (walk h cfg fuel (.mount (dest ++ mnt.drop src.length) mnt (min n (belowMaxSymlinks + 1)) false) st).bind
        fun st' => walk h cfg fuel (.below dest src n ms) st'
    else walk h cfg fuel (.below dest src n ms) st
  | fuel + 1, .host dest src n inc, st =>
    (if inc then walk h cfg fuel (.below dest src n cfg.mounts) st else .ok st).bind fun st =>
    match namei h [] (cfg.hostOut ++ src.drop cfg.ctrOut.length) 0 with
    | .found _ (.link abs t) =>
      if n = 0 then .err .symlinks
      else walk h cfg fuel (.mount dest (if abs then t else cleanAbs (src.dropLast ++ t)) (n - 1) true) st
    | .found p .dir =>
      if h.children p = [] then .ok ((st.addDir dest).addKeep dest)
      else walk h cfg fuel (.children dest src n (sortNames (h.children p))) (st.addDir dest)
    | .found p (.file _) => .ok (st.addFile dest p)
    | .found _ .special => .err .ftype
    | _ => .err .lstat
  | _ + 1, .children _ _ _ [], st => .ok st
  | fuel + 1, .children dest src n (name :: names), st =>
    let src' := src ++ [name]
    if cfg.secrets.contains src' then walk h cfg fuel (.children dest src n names) st
    else if skipMount cfg src' then walk h cfg fuel (.children dest src n names) st
    else
      (walk h cfg fuel (.host (dest ++ [name]) src' n false) st).bind fun st' =>
        walk h cfg fuel (.children dest src n names) st'

/-- the scan of `Copy`: `walkMount("", ctrOutputDir, limitFollowSymlinks, true)` -/
def scan (h : Host) (cfg : Cfg) (fuel : Nat) : Res Plan :=
  walk h cfg fuel (.mount [] cfg.ctrOut (limitFollowSymlinks + 1) true) {}

/-! ## an explicit bound on the nesting of calls (proved sufficient in Proofs/C17_Term.lean) -/

/-- the longest path of the host tree -/
def depthBound (h : Host) : Nat := (h.map (·.1.length)).foldr max 0
def cS (h : Host) : Nat := h.length + 2
def cB (cfg : Cfg) : Nat := cfg.mounts.length + 2
def cL (h : Host) (cfg : Cfg) : Nat := (depthBound h + 1) * cS h + cB cfg + 2
def big (h : Host) (cfg : Cfg) (n : Nat) : Nat :=
  n * cL h cfg + (depthBound h + 1) * cS h + cB cfg + cB cfg + 2
/-- fuel that suffices for the whole scan of a runnable configuration -/
def fuelBound (h : Host) (cfg : Cfg) : Nat := big h cfg (limitFollowSymlinks + 1)

/-! ## the rest of `Copy`: the plan applied to a collection filesystem -/

inductive Ent where
  | file (c : Bytes)
  | dir
deriving DecidableEq, Repr

/-- the output collection: a flat map; the root is implicit -/
abbrev Tree := List (Path × Ent)

def Tree.get (t : Tree) (p : Path) : Option Ent :=
  if p = [] then some .dir else (t.find? (·.1 = p)).map (·.2)

def Tree.set (t : Tree) (p : Path) (e : Ent) : Tree :=
  if t.any (·.1 = p) then t.map fun x => if x.1 = p then (p, e) else x else t ++ [(p, e)]

/-- create the directories `pre ++ [c1]`, `pre ++ [c1, c2]`, …; `none` if one of them is a file -/
def mkParents (t : Tree) (pre : Path) : List Name → Option Tree
  | [] => some t
  | c :: rest =>
    match t.get (pre ++ [c]) with
    | none => mkParents (t.set (pre ++ [c]) .dir) (pre ++ [c]) rest
    | some .dir => mkParents t (pre ++ [c]) rest
    | some (.file _) => none

/-- one file token / marker of the manifest: `createFileAndParents` + appended segments -/
def addFrag (t : Tree) (f : Frag) : Option Tree :=
  match f.2 with
  | none => mkParents t [] f.1
  | some c =>
    (mkParents t [] f.1.dropLast).bind fun t =>
      match t.get f.1 with
      | none => some (t.set f.1 (.file c))
      | some (.file old) => some (t.set f.1 (.file (old ++ c)))
      | some .dir => none

def loadFrags : Tree → List Frag → Option Tree
  | t, [] => some t
  | t, f :: fs => (addFrag t f).bind fun t => loadFrags t fs

/-- `fs.Mkdir(d)`; `os.ErrExist` is not an error for `Copy` -/
def mkdir (t : Tree) (d : Path) : Option Tree :=
  match t.get d.dropLast with
  | some .dir =>
    match t.get d with
    | none => some (t.set d .dir)
    | some _ => some t
  | _ => none

/-- `copyFile`: `OpenFile(dst, O_CREATE|O_WRONLY)` (no truncation), `io.Copy`, `Close` -/
def copyFile (t : Tree) (dst : Path) (c : Bytes) : Option Tree :=
  match t.get dst.dropLast with
  | some .dir =>
    match t.get dst with
    | none => some (t.set dst (.file c))
    | some (.file old) => some (t.set dst (.file (c ++ old.drop c.length)))
    | some .dir => if c = [] then some t else none
  | _ => none

def mkdirs : Tree → List Path → Option Tree
  | t, [] => some t
  | t, d :: ds => (mkdir t d).bind fun t => mkdirs t ds

def srcContent (h : Host) : Option Path → Bytes
  | none => []
  | some p => match h.get p with | some (.file c) => c | _ => []

def copyFiles (h : Host) : Tree → List (Path × Option Path) → Option Tree
  | t, [] => some t
  | t, f :: fs => (copyFile t f.1 (srcContent h f.2)).bind fun t => copyFiles h t fs

def runPlan (h : Host) (p : Plan) : Res Tree :=
  match loadFrags [] p.frags with
  | none => .err .fs
  | some t =>
    match mkdirs t p.dirs with
    | none => .err .mkdir
    | some t =>
      match copyFiles h t p.files with
      | none => .err .copy
      | some t => .ok t

/-- `Copy()`: the saved collection, or the error -/
def copy (h : Host) (cfg : Cfg) (fuel : Nat) : Res Tree :=
  (scan h cfg fuel).bind (runPlan h)

/-- bytes written through `PutB` during `Copy` -/
def putBytes (h : Host) (p : Plan) : Nat :=
  (p.files.map fun f => (srcContent h f.2).length).sum

/-- configurations the driver runs: the only `tmp` mount is the output directory, no writable
collection mount (the others make the real code compute a host path from the wrong mount) -/
def runnable (cfg : Cfg) : Bool :=
  cfg.mounts.all fun e =>
    (e.2.kind ≠ "tmp" || e.1 = cfg.ctrOut) && !(e.2.kind = "collection" && e.2.writable)

/-- `runnable`, and no mount above the output path: the configurations for which the equality
theorems are proved (with a mount above, `walkMountsBelow` re-enters the output directory; since
fix f009595 with the caller's budget, so termination holds for every `runnable` configuration) -/
def supported (cfg : Cfg) : Bool :=
  cfg.mounts.all fun e =>
    (e.2.kind ≠ "tmp" || e.1 = cfg.ctrOut) &&
    !(e.2.kind = "collection" && e.2.writable) &&
    !(e.1.isPrefixOf cfg.ctrOut && e.1.length < cfg.ctrOut.length)

end ArvVerif.C17
