/-
C07 model, part 2: services/api/app/models/blob.rb `Blob.verify_signature!` transcribed
statement by statement (Ruby is not available in the sandbox, so this second implementation is
*not* run differentially; the transcribed source lines are tie facts, and the Python oracle of the
plugin carries an independent transcription).

Ruby semantics used, stated explicitly:
* `str.split(sep)` with a non-blank string `sep` and no limit: cut at every non-overlapping
  occurrence of `sep`, scanning left to right; then *trailing empty strings are removed*
  (`"a+".split('+') == ["a"]`, `"".split('+') == []`, `"+a".split('+') == ["", "a"]`).
* `ary.first` / `ary.last` of an empty array is `nil`; calling `.split` on `nil` raises
  `NoMethodError` (outcome `crash` — not an `InvalidSignatureError`, so `verify_signature` does
  not rescue it).
* `a, b = ary`: missing elements are `nil`, extra ones are dropped.
* `ts =~ /^[\da-f]+$/`: `^`/`$` are *line* anchors in Ruby, `\d` is `[0-9]`: the test succeeds iff
  some line of `ts` (lines separated by "\n") is a non-empty run of `[0-9a-f]`.
* `ts.to_i(16)`: optional leading whitespace, optional sign, optional `0x`, then hex digits (either
  case, single underscores allowed between digits) up to the first other character; 0 if none.
* `[a, b, c, d].join('@')` with `nil.to_s == ""`.
-/
import ArvVerif.Model.C07
namespace ArvVerif.C07.Ref

/-- cut at every non-overlapping occurrence of the two-character separator `a b`, left to right -/
def splitOn2 (a b : Char) : Str → List Str
  | [] => [[]]
  | [c] => [[c]]
  | c :: d :: r =>
    if c = a ∧ d = b then [] :: splitOn2 a b r
    else match splitOn2 a b (d :: r) with
      | f :: fs => (c :: f) :: fs
      | [] => [[c]]

/-- Ruby removes trailing empty strings from the result of `split` -/
def dropTrailingEmpty (l : List Str) : List Str := (l.reverse.dropWhile List.isEmpty).reverse

/-- `s.split(c)` for a one-character string `c` (not a blank) -/
def rsplit1 (c : Char) (s : Str) : List Str := dropTrailingEmpty (splitOn c s)

/-- `s.split('+A')` -/
def rsplitPlusA (s : Str) : List Str := dropTrailingEmpty (splitOn2 '+' 'A' s)

/-- Ruby `isspace` -/
def isRbSpace (c : Char) : Bool := isSpace c || c == '\x0b'

/-- digits of `to_i(16)`: hex digits, a single underscore only between two digits -/
def toIDigits : Str → Nat → Nat
  | [], acc => acc
  | c :: r, acc =>
    match hexVal? c with
    | some v => toIDigits r (acc * 16 + v)
    | none =>
      if c = '_' then
        match r with
        | d :: r' => match hexVal? d with
          | some v => toIDigits r' (acc * 16 + v)
          | none => acc
        | [] => acc
      else acc

/-- optional `0x` / `0X` in front of a digit -/
def strip0x (ds : Str) : Str :=
  match ds with
  | '0' :: x :: r => if (x = 'x' ∨ x = 'X') ∧ ((r.head?.bind hexVal?).isSome) then r else ds
  | _ => ds

/-- the digits of a number: it must start with a digit (no leading underscore) -/
def toINat (ds : Str) : Nat :=
  match ds with
  | c :: _ => if (hexVal? c).isSome then toIDigits ds 0 else 0
  | [] => 0

/-- `str.to_i(16)` -/
def toI16 (s : Str) : Int :=
  let s := s.dropWhile isRbSpace
  let v := toINat (strip0x (splitSign s).2)
  if (splitSign s).1 then -(v : Int) else v

/-- `ts =~ /^[\da-f]+$/` -/
def matchesHexLine (ts : Str) : Bool :=
  (splitOn '\n' ts).any (fun l => !l.isEmpty && l.all isLowerHex)

inductive RbVerdict where
  | ok                 -- returns true
  | noSignature        -- InvalidSignatureError 'No signature provided.'
  | notBase16          -- InvalidSignatureError 'Timestamp is not a base16 number.'
  | expired            -- InvalidSignatureError 'Signature expiry time has passed.'
  | invalid            -- InvalidSignatureError 'Signature is invalid.'
  | crash              -- NoMethodError (split on nil): not rescued by `verify_signature`
deriving Repr, DecidableEq

variable (mac : Str → Str → List UInt8)

/-- `Blob.verify_signature!(signed_blob_locator, api_token:, key:, now:)` with the configured
`BlobSigningTTL.to_i = ttlSecs`; `nowSec` is `opts[:now] or db_current_time.to_i` (whole seconds). -/
def verifySignature (loc apiToken key : Str) (ttlSecs : Nat) (nowSec : Int) : RbVerdict :=
  -- blob_hash = signed_blob_locator.split('+').first
  let blobHash : Option Str := (rsplit1 '+' loc).head?
  -- given_signature, timestamp = signed_blob_locator.split('+A').last.split('+').first.split('@')
  match (rsplitPlusA loc).getLast? with
  | none => .crash
  | some afterA =>
    match (rsplit1 '+' afterA).head? with
    | none => .crash
    | some field =>
      let parts := rsplit1 '@' field
      let given : Option Str := parts[0]?
      match parts[1]? with
      | none => .noSignature                                    -- if !timestamp
      | some timestamp =>
        if !matchesHexLine timestamp then .notBase16            -- unless timestamp =~ /^[\da-f]+$/
        else if toI16 timestamp < nowSec then .expired          -- if timestamp.to_i(16) < now
        else
          let mySignature := generateSignature mac key (blobHash.getD []) apiToken timestamp (natHex ttlSecs)
          if some mySignature ≠ given then .invalid             -- if my_signature != given_signature
          else .ok

/-- `Blob.verify_signature`: true / false, or the exception that is not rescued -/
def verifySignatureBool (loc apiToken key : Str) (ttlSecs : Nat) (nowSec : Int) : Option Bool :=
  match verifySignature mac loc apiToken key ttlSecs nowSec with
  | .ok => some true
  | .crash => none
  | _ => some false

end ArvVerif.C07.Ref
