/-
C06(c') model: services/keep-balance/balance.go `GetCurrentState` as a small-step system, at the
granularity of the statements the C06 instrumenter labels (`g<k>.<n>`; a program counter is the
label of the statement about to execute, 0 = the goroutine has ended).

Goroutines: one index worker per (non-redundant) mount, the collection processor, the collection
scanner. Shared state: the `errs` channel (capacity 1: `none` = empty, `some true` = a non-nil
error, `some false` = a nil error value), the `collQ` channel (length, capacity, closed), the
cancellation flag. Whether `IndexMount`, `addCollection`, a page request of `EachCollection`
fails is the environment's choice at every step (this over-approximates failures caused by the
cancelled context). Each goroutine carries one flag: worker — `IndexMount` failed; processor —
`addCollection` failed; scanner — `EachCollection` returned an error. A worker also records
whether it reached `AddReplicas`. Ghost counters: collections delivered to `collQ`, added by
`addCollection`, dropped (failed `addCollection` or drained).

After `wg.Wait()` the result is `<-errs` if `len(errs) > 0`, else nil.
-/
namespace ArvVerif.C06.GCS

structure Sh where
  errs : Option Bool
  q : Nat            -- len(collQ)
  cap : Nat          -- cap(collQ) = bufs
  closed : Bool
  cancelled : Bool
  delivered : Nat
  added : Nat
  dropped : Nat
deriving Repr, DecidableEq

structure Loc where
  pc : Nat
  flag : Bool
  added : Bool := false     -- worker only: AddReplicas was reached
deriving Repr, DecidableEq

/-- non-blocking `select { case errs <- e: default: }` -/
def trySend (sh : Sh) (e : Bool) : Sh :=
  match sh.errs with
  | none => { sh with errs := some e }
  | some _ => sh

/-- Index worker (goroutine literal g0). -/
def wStep (sh : Sh) (l : Loc) : List (Sh × Loc) :=
  match l.pc with
  | 1 => [(sh, { l with pc := 2 })]                                   -- defer wg.Done()
  | 2 => [(sh, { l with pc := 3 })]                                   -- logf
  | 3 => [(sh, { l with pc := 4, flag := false }),                    -- idx, err := IndexMount(...)
          (sh, { l with pc := 4, flag := true })]
  | 4 => if l.flag then [(sh, { l with pc := 5 })] else [(sh, { l with pc := 8 })]
  | 5 => [(trySend sh true, { l with pc := 6 })]                      -- select { case errs <- …: default: }
  | 6 => [({ sh with cancelled := true }, { l with pc := 7 })]        -- cancel()
  | 7 => [(sh, { l with pc := 0 })]                                   -- return
  | 8 => if sh.errs.isSome then [(sh, { l with pc := 9 })] else [(sh, { l with pc := 10 })]
  | 9 => [(sh, { l with pc := 0 })]                                   -- return
  | 10 => [(sh, { l with pc := 11 })]                                 -- for _, mount := range mounts
  | 11 => [(sh, { l with pc := 12 })]                                 -- logf
  | 12 => [(sh, { l with pc := 13, added := true })]                  -- AddReplicas
  | 13 => [(sh, { l with pc := 11 }), (sh, { l with pc := 14 })]      -- logf; next mount or loop end
  | 14 => [(sh, { l with pc := 0 })]                                  -- logf "index done"
  | _ => []

/-- `for coll := range collQ`: receive the next collection, or leave when closed and empty. -/
def pRecv (sh : Sh) (l : Loc) : List (Sh × Loc) :=
  if 0 < sh.q then [({ sh with q := sh.q - 1 }, { l with pc := 3 })]
  else if sh.closed then [(sh, { l with pc := 0 })]
  else []

/-- Collection processor (goroutine literal g1). -/
def pStep (sh : Sh) (l : Loc) : List (Sh × Loc) :=
  match l.pc with
  | 1 => [(sh, { l with pc := 2 })]
  | 2 => pRecv sh l
  | 3 => [({ sh with added := sh.added + 1 }, { l with pc := 4, flag := false }),   -- err := addCollection(coll)
          ({ sh with dropped := sh.dropped + 1 }, { l with pc := 4, flag := true })]
  | 4 => if l.flag || sh.errs.isSome then [(sh, { l with pc := 5 })] else [(sh, { l with pc := 9 })]
  | 5 => [(trySend sh l.flag, { l with pc := 6 })]                    -- select { case errs <- err: default: }
  | 6 => if 0 < sh.q then [({ sh with q := sh.q - 1, dropped := sh.dropped + 1 }, l)]   -- for range collQ {}
         else if sh.closed then [(sh, { l with pc := 7 })] else []
  | 7 => [({ sh with cancelled := true }, { l with pc := 8 })]        -- cancel()
  | 8 => [(sh, { l with pc := 0 })]                                   -- return
  | 9 => pRecv sh l                                                   -- bal.collScanned++; next iteration
  | _ => []

/-- Collection scanner (goroutine literal g2). Program counters 2, 6, 7 are "inside
`EachCollection`": it may call the progress function (7), deliver a collection to the callback
(3, 4, then 5 or 6) or return (8) — with an error if a request failed. -/
def sInside (sh : Sh) (l : Loc) : List (Sh × Loc) :=
  [(sh, { l with pc := 7 }), (sh, { l with pc := 3 }),
   (sh, { l with pc := 8, flag := false }), (sh, { l with pc := 8, flag := true })]

def sStep (sh : Sh) (l : Loc) : List (Sh × Loc) :=
  match l.pc with
  | 1 => [(sh, { l with pc := 2 })]
  | 2 => sInside sh l
  | 3 => if sh.q < sh.cap then                                        -- collQ <- coll
           [({ sh with q := sh.q + 1, delivered := sh.delivered + 1 }, { l with pc := 4 })] else []
  | 4 => if sh.errs.isSome then [(sh, { l with pc := 5 })] else [(sh, { l with pc := 6 })]
  | 5 => [(sh, { l with pc := 8, flag := true })]                     -- return fmt.Errorf("")
  | 6 => sInside sh l                                                 -- return nil
  | 7 => sInside sh l                                                 -- progress: logf
  | 8 => [({ sh with closed := true }, { l with pc := 9 })]           -- close(collQ)
  | 9 => if l.flag then [(sh, { l with pc := 10 })] else [(sh, { l with pc := 0 })]
  | 10 => [(trySend sh true, { l with pc := 11 })]
  | 11 => [({ sh with cancelled := true }, { l with pc := 0 })]       -- cancel()
  | _ => []

structure G where
  sh : Sh
  ws : List Loc
  p : Loc
  s : Loc
deriving Repr, DecidableEq

def initSh (cap : Nat) : Sh := ⟨none, 0, cap, false, false, 0, 0, 0⟩
def initLoc : Loc := ⟨1, false, false⟩
def init (nworkers cap : Nat) : G := ⟨initSh cap, List.replicate nworkers initLoc, initLoc, initLoc⟩

inductive Step : G → G → Prop
  | worker {g : G} (pre post : List Loc) (l : Loc) (sh' : Sh) (l' : Loc) :
      g.ws = pre ++ l :: post → (sh', l') ∈ wStep g.sh l →
      Step g { g with sh := sh', ws := pre ++ l' :: post }
  | proc {g : G} (sh' : Sh) (l' : Loc) : (sh', l') ∈ pStep g.sh g.p → Step g { g with sh := sh', p := l' }
  | scan {g : G} (sh' : Sh) (l' : Loc) : (sh', l') ∈ sStep g.sh g.s → Step g { g with sh := sh', s := l' }

inductive Reach (n cap : Nat) : G → Prop
  | start : Reach n cap (init n cap)
  | step {g g'} : Reach n cap g → Step g g' → Reach n cap g'

/-- every goroutine has ended: `wg.Wait()` returns -/
def Terminal (g : G) : Prop := (∀ l ∈ g.ws, l.pc = 0) ∧ g.p.pc = 0 ∧ g.s.pc = 0

def terminalB (g : G) : Bool := g.ws.all (fun l => l.pc == 0) && g.p.pc == 0 && g.s.pc == 0

/-- `if len(errs) > 0 { return <-errs }; return nil` — does GetCurrentState return a non-nil error? -/
def resultIsError (g : G) : Bool := g.sh.errs == some true

/-- some index fetch, `addCollection` or the collection scan failed -/
def Failed (g : G) : Prop := (∃ l ∈ g.ws, l.flag = true) ∨ g.p.flag = true ∨ g.s.flag = true

/-! ### Acceptor for observed executions

`paths` are the label sequences each goroutine reported (the statement about to execute; the
final 0 is the deferred exit point). `accepts` searches for an interleaving of the model in which
every goroutine follows its reported path and the final `errs` gives the reported result. -/

structure Run where
  sh : Sh
  ws : List (Loc × List Nat)    -- current location, remaining labels
  p : Loc × List Nat
  s : Loc × List Nat
deriving DecidableEq

def follow (step : Sh → Loc → List (Sh × Loc)) (sh : Sh) (x : Loc × List Nat) : List (Sh × (Loc × List Nat)) :=
  match x.2 with
  | [] => []
  | nxt :: rest => (step sh x.1).filterMap (fun r => if r.2.pc = nxt then some (r.1, (r.2, rest)) else none)

/-- the processor's drain loop `for range collQ {}` consumes queue entries without reaching a new label -/
def followP (sh : Sh) (x : Loc × List Nat) : List (Sh × (Loc × List Nat)) :=
  follow pStep sh x ++
    (if x.1.pc = 6 then (pStep sh x.1).filterMap (fun r => if r.2.pc = 6 then some (r.1, (r.2, x.2)) else none)
     else [])

/-- Statements that neither read nor write the shared state the other goroutines depend on
(`errs`, `collQ`): they commute with every step of the other goroutines, so the search takes them
eagerly instead of branching over their position in the interleaving. -/
def wLocal (pc : Nat) : Bool := pc != 5 && pc != 8 && pc != 0
def pLocal (pc : Nat) : Bool := pc == 1 || pc == 3 || pc == 7 || pc == 8
def sLocal (pc : Nat) : Bool := pc == 1 || pc == 2 || pc == 5 || pc == 6 || pc == 7 || pc == 9 || pc == 11

def succsW (r : Run) (i : Nat) : List Run :=
  match r.ws[i]? with
  | some w => (follow wStep r.sh w).map (fun x => { r with sh := x.1, ws := r.ws.set i x.2 })
  | none => []

def succsP (r : Run) : List Run := (followP r.sh r.p).map (fun x => { r with sh := x.1, p := x.2 })
def succsS (r : Run) : List Run := (follow sStep r.sh r.s).map (fun x => { r with sh := x.1, s := x.2 })

def succs (r : Run) : List Run :=
  -- an eager local step, if any goroutine has one
  let lw := (List.range r.ws.length).filterMap (fun i =>
    match r.ws[i]? with
    | some w => if wLocal w.1.pc && !w.2.isEmpty then some (succsW r i) else none
    | none => none)
  match lw with
  | l :: _ => l
  | [] =>
    if pLocal r.p.1.pc && !r.p.2.isEmpty then succsP r
    else if sLocal r.s.1.pc && !r.s.2.isEmpty then succsS r
    else succsP r ++ succsS r ++ (List.range r.ws.length).flatMap (succsW r)

def finished (r : Run) : Bool :=
  r.ws.all (fun w => w.2.isEmpty && w.1.pc == 0) && r.p.2.isEmpty && r.p.1.pc == 0 &&
    r.s.2.isEmpty && r.s.1.pc == 0

/-- position key of a search state (used to bucket the visited set) -/
def keyOf (r : Run) : Nat :=
  let k := r.ws.foldl (fun acc w => acc * 31 + w.2.length * 2 + (if w.1.flag then 1 else 0)) 7
  let k := k * 61 + r.p.2.length * 2 + (if r.p.1.flag then 1 else 0)
  let k := k * 67 + r.s.2.length * 2 + (if r.s.1.flag then 1 else 0)
  let k := k * 5 + (match r.sh.errs with | none => 0 | some false => 1 | some true => 2)
  (k * 17 + r.sh.q) % 8192

/-- depth-first search with a bucketed visited set; `fuel` bounds the number of expanded states -/
def search (res : Bool) : Nat → List Run → Array (List Run) → Option Bool
  | 0, _, _ => none
  | _, [], _ => some false
  | fuel + 1, r :: todo, seen =>
    let k := keyOf r
    let bucket := seen.getD k []
    if bucket.contains r then search res fuel todo seen
    else if finished r && ((r.sh.errs == some true) == res) && r.sh.errs != some false then some true
    else search res fuel (succs r ++ todo) (seen.setIfInBounds k (r :: bucket))

def startOf (path : List Nat) : Option (Loc × List Nat) :=
  match path with
  | 1 :: rest => some (initLoc, rest)
  | _ => none

/-- `some true` = accepted, `some false` = no interleaving of the model explains the observation,
`none` = search budget exhausted / malformed paths. `buckets` is the size of the visited table (it only
prunes: keys beyond the table are simply not remembered). -/
def acceptsWith (buckets : Nat) (cap : Nat) (wpaths : List (List Nat)) (ppath spath : List Nat) (res : Bool)
    (fuel : Nat) : Option Bool := do
  let ws ← wpaths.mapM startOf
  let p ← startOf ppath
  let s ← startOf spath
  search res fuel [⟨initSh cap, ws, p, s⟩] (Array.replicate buckets [])

/-- the acceptor the driver runs (`gcsacc`) -/
def accepts (cap : Nat) (wpaths : List (List Nat)) (ppath spath : List Nat) (res : Bool) (fuel : Nat) :
    Option Bool := acceptsWith 8192 cap wpaths ppath spath res fuel

end ArvVerif.C06.GCS
