/-
C09 — saved manifests reproduce the tree and reference only blocks that were stored.
MODEL, part 1 (sdk/go/arvados/fs_collection.go: marshalManifest, flush / commitBlock, the failure
path of pruneMemSegments, manifestEscape; contextgroup.go, throttle.go as far as they decide which
Keep writes happen and which error comes back).

Built on the C08 file layer (`C08.Seg`, `C08.FileNode`, `C08.flushGroups`, `C08.commitBlock`, …,
imported read-only) and on C10's text-level helpers (`C10.fsEscape`, `C10.natToDec`, `C10.joinWith`,
`C10.fsLoad`).

Keep is `{store, acked, script}`: every Keep write (`PutB`) consumes one entry of the script
(`ok` / `fail`; `skip` = the write was never attempted because the context group had already been
cancelled by a failing sibling — only possible inside a synchronous flush). After the script has
run out every write gets the default outcome. Only an `ok` write changes the store, and it is
recorded in `acked` (what a recording Keep service has seen and acknowledged).

A tree is the list of its directories in the order `marshalManifest` emits them (depth first,
names in byte order); a directory knows its path, its files in name order and how many
subdirectories it has.
-/
import ArvVerif.Model.C08_FS
import ArvVerif.Model.C10_Fs
namespace ArvVerif.C09

open ArvVerif.C08 (Seg FileNode Ptr Flush Store Ref)

/-! ## Keep with a failure script -/

inductive Outcome
  | ok | fail | skip
  deriving DecidableEq, Repr, Inhabited

structure Keep where
  store : Store
  /-- blocks whose PutB answered ok, oldest first -/
  acked : List Bytes
  script : List Outcome
  dflt : Outcome
  /-- PutB calls made / PutB calls that failed (bookkeeping for the driver) -/
  calls : Nat
  fails : Nat

/-- the outcome of the next Keep write -/
def Keep.next (k : Keep) : Outcome × Keep :=
  match k.script with
  | [] => (k.dflt, k)
  | o :: r => (o, { k with script := r })

/-- a successful `PutB(b)`: stored under its locator and recorded -/
def Keep.record (hash : Bytes → C08.Loc) (k : Keep) (b : Bytes) : Keep :=
  { k with store := k.store.put hash b, acked := k.acked ++ [b], calls := k.calls + 1 }

def Keep.failed (k : Keep) : Keep := { k with calls := k.calls + 1, fails := k.fails + 1 }

/-- `PutB(b)` from a background goroutine (no context to cancel: `skip` counts as a failure) -/
def Keep.putB (hash : Bytes → C08.Loc) (k : Keep) (b : Bytes) : Keep × Bool :=
  match k.next with
  | (Outcome.ok, k') => (k'.record hash b, true)
  | (_, k') => (k'.failed, false)

/-! ## filenode.Write with a Keep that can fail

`pruneMemSegments` starts one goroutine per full mem segment; each calls `PutB` (in segment order:
the writer takes the throttle before starting the next one) and, on failure, returns leaving the
mem segment in place with its (closed) flushing channel. C08's `pruneSegs` is the all-ok special
case; the loop around it is C08's, threaded through `Keep` instead of `Store`. -/

def pruneSegsK (hash : Bytes → C08.Loc) (max : Nat) : List Seg → Nat → Keep → List Seg × Keep
  | [], _, k => ([], k)
  | s :: rest, idx, k =>
    match s with
    | Seg.mem buf Flush.none =>
      if buf.length < max then
        let (r, k') := pruneSegsK hash max rest (idx + 1) k
        (s :: r, k')
      else
        let (k1, ok) := k.putB hash buf
        let (r, k') := pruneSegsK hash max rest (idx + 1) k1
        ((if ok then Seg.mem buf (Flush.pending idx buf.length) else Seg.mem buf Flush.stale) :: r, k')
    | _ =>
      let (r, k') := pruneSegsK hash max rest (idx + 1) k
      (s :: r, k')

structure WStateK where
  fn : FileNode
  ptr : Ptr
  k : Keep

/-- C08.overwrite with `pruneSegsK` -/
def overwriteK (hash : Bytes → C08.Loc) (max : Nat) (w : WStateK) (r : C08.Restr) : Option (WStateK × Nat) :=
  match r.segs[r.idx]? with
  | some (Seg.mem buf _) =>
    match C08.memWriteAt buf r.cando r.off with
    | none => none
    | some s' =>
      let segs := r.segs.set r.idx s'
      let off' := r.off + r.cando.length
      let pr := if off' ≥ max then pruneSegsK hash max segs 0 w.k else (segs, w.k)
      let idx' := if s'.len = off' then r.idx + 1 else r.idx
      let off'' := if s'.len = off' then 0 else off'
      let rep : Int := if r.bump then 1 else 0
      some (⟨{ segs := pr.1, size := r.size, repacked := w.fn.repacked + rep },
             { off := w.ptr.off + r.cando.length, segIdx := idx', segOff := off'', repacked := w.ptr.repacked + rep },
             pr.2⟩, r.cando.length)
  | _ => none

def writeStepK (hash : Bytes → C08.Loc) (max : Nat) (w : WStateK) (p : Bytes) : Option (WStateK × Nat) :=
  match C08.restructure max w.fn w.ptr p with
  | none => none
  | some r => overwriteK hash max w r

inductive WriteResK
  | done (w : WStateK) (n : Nat)
  | panic
  | hang

def writeLoopK (hash : Bytes → C08.Loc) (max : Nat) : Nat → WStateK → Bytes → Nat → WriteResK
  | _, w, [], n => WriteResK.done w n
  | 0, _, _ :: _, _ => WriteResK.hang
  | fuel + 1, w, b :: p, n =>
    match writeStepK hash max w (b :: p) with
    | none => WriteResK.panic
    | some (w', k) => writeLoopK hash max fuel w' ((b :: p).drop k) (n + k)

/-- `filenode.Write(p, startPtr)` -/
def writeK (hash : Bytes → C08.Loc) (max : Nat) (k : Keep) (fn : FileNode) (ptr : Ptr) (p : Bytes) : WriteResK :=
  let fn1 := if ptr.off > fn.size then C08.truncate max fn ptr.off else some fn
  match fn1 with
  | none => WriteResK.panic
  | some fn1 =>
    match C08.seek fn1 ptr with
    | none => WriteResK.panic
    | some ptr1 => writeLoopK hash max p.length ⟨fn1, ptr1, k⟩ p 0

/-! ## commitBlock / flush with a Keep that can fail -/

/-- the block `commitBlock` assembles for a group of refs -/
def blockOf (files : List FileNode) (refs : List Ref) : Bytes :=
  refs.flatMap (fun r => (C08.refBuf files r).getD [])

/-- `seg.flushing = done` with `done` closed and the segment still in memory: what a failed
`commitBlock` leaves behind -/
def markStale (files : List FileNode) (refs : List Ref) : List FileNode :=
  refs.foldl (fun fs r =>
    match C08.refBuf fs r with
    | some buf => C08.setSeg fs r (Seg.mem buf Flush.stale)
    | none => fs) files

/-- `commitBlock(refs)` under the next outcome of the script: on `ok` C08's replacement of the mem
segments by stored segments pointing into the new block; on `fail` the error is returned BEFORE any
segment is replaced; on `skip` (context already cancelled) nothing happens at all. The flag is
"no error". -/
def commitK (hash : Bytes → C08.Loc) (k : Keep) (files : List FileNode) (refs : List Ref) :
    Keep × List FileNode × Bool :=
  match k.next with
  | (Outcome.ok, k') =>
    let k'' := k'.record hash (blockOf files refs)
    (k'', (C08.commitBlock hash k'.store files refs).2, true)
  | (Outcome.fail, k') => (k'.failed, markStale files refs, false)
  | (Outcome.skip, k') => (k', files, false)

/-- the fold of `dirnode.flush` over its groups -/
def commitGroups (hash : Bytes → C08.Loc) : List (List Ref) → Keep × List FileNode × Bool → Keep × List FileNode × Bool
  | [], acc => acc
  | g :: rest, (k, files, ok) =>
    let r := commitK hash k files g
    commitGroups hash rest (r.1, r.2.1, ok && r.2.2)

/-- `dirnode.flush` on the files of one directory (name order). The groups are fixed by the state
at the start (they are disjoint); every group gets its own outcome. Result: Keep, files,
"every commitBlock returned nil". -/
def flushFilesK (hash : Bytes → C08.Loc) (max : Nat) (k : Keep) (files : List FileNode) (short : Bool) :
    Keep × List FileNode × Bool :=
  commitGroups hash (C08.flushGroups max short files) (k, files, true)

/-! ## The tree as marshalManifest walks it -/

structure Dir9 where
  /-- path components below the root (`[]` = the root) -/
  path : List Bytes
  /-- the files of this directory in name order -/
  files : List (Bytes × FileNode)
  /-- number of subdirectories -/
  nsub : Nat

abbrev Tree9 := List Dir9

def Dir9.isEmpty (d : Dir9) : Bool := d.files.isEmpty && d.nsub == 0

def Dir9.setFiles (d : Dir9) (fns : List FileNode) : Dir9 :=
  { d with files := (d.files.map (·.1)).zip fns }

/-- the synchronous flush `marshalManifest` does for one directory (`sync: true, shortBlocks: true`);
an empty directory returns before flushing -/
def flushDir9 (hash : Bytes → C08.Loc) (max : Nat) (k : Keep) (d : Dir9) : Keep × Dir9 × Bool :=
  if d.isEmpty then (k, d, true) else
  let r := flushFilesK hash max k (d.files.map (·.2)) true
  (r.1, d.setFiles r.2.1, r.2.2)

def flushTree9 (hash : Bytes → C08.Loc) (max : Nat) : Keep → Tree9 → Keep × Tree9 × Bool
  | k, [] => (k, [], true)
  | k, d :: rest =>
    let r := flushDir9 hash max k d
    let r' := flushTree9 hash max r.1 rest
    (r'.1, r.2.1 :: r'.2.1, r.2.2 && r'.2.2)

/-! ## One stream per directory -/

structure Part where
  name : Bytes
  off : Nat
  len : Nat
  deriving DecidableEq, Repr

/-- loop state of the stream builder: `blocks`, `streamLen`, `fileparts` (lists reversed) -/
structure Emit where
  blocksRev : List C10.Loc
  len : Nat
  partsRev : List Part
  deriving Repr

/-- `len(blocks) > 0 && blocks[len(blocks)-1] == seg.locator` -/
def sameLast (e : Emit) (loc : Bytes) : Bool :=
  match e.blocksRev with
  | b :: _ => b.text == loc
  | [] => false

/-- stream offset of the block the segment lives in: the last block again (`streamLen -= size`) or
a new block at the end -/
def emitBase (e : Emit) (loc : Bytes) (size : Nat) : Nat := if sameLast e loc then e.len - size else e.len

def emitBlocks (e : Emit) (loc : Bytes) (size : Nat) : List C10.Loc :=
  if sameLast e loc then e.blocksRev else ⟨loc, size⟩ :: e.blocksRev

/-- extend the previous file part if it has the same name and ends where the next one starts, else
append the next one -/
def addPart (parts : List Part) (next : Part) : List Part :=
  match parts with
  | p :: ps =>
    if p.name == next.name && p.off + p.len == next.off then { p with len := p.len + next.len } :: ps
    else next :: p :: ps
  | [] => [next]

/-- one stored segment: re-use the last block if it is the same locator, else append it; then add
the file part. `none` = panic("can't marshal segment type") for a mem segment. -/
def emitSeg (name : Bytes) (e : Emit) : Seg → Option Emit
  | Seg.mem .. => none
  | Seg.stored loc size off len =>
    some ⟨emitBlocks e loc size, emitBase e loc size + size,
          addPart e.partsRev ⟨name, emitBase e loc size + off, len⟩⟩

def emitSegs (name : Bytes) : Emit → List Seg → Option Emit
  | e, [] => some e
  | e, s :: rest =>
    match emitSeg name e s with
    | none => none
    | some e' => emitSegs name e' rest

/-- one file: a file without segments gets the token `0:0:name` -/
def emitFile (e : Emit) (f : Bytes × FileNode) : Option Emit :=
  if f.2.segs.isEmpty then some { e with partsRev := ⟨f.1, 0, 0⟩ :: e.partsRev }
  else emitSegs f.1 e f.2.segs

def emitFiles : Emit → List (Bytes × FileNode) → Option Emit
  | e, [] => some e
  | e, f :: rest =>
    match emitFile e f with
    | none => none
    | some e' => emitFiles e' rest

/-! ## Text -/

def emptyLoc : Bytes := C10.str "d41d8cd98f00b204e9800998ecf8427e+0"
/-- the file token of the empty-directory marker: an empty file named `\056` -/
def markerTok : Bytes := C10.str "0:0:\\056"

/-- "." or "./a/b" -/
def prefixOf (path : List Bytes) : Bytes := C10.joinWith C10.bSlash ([C10.bDot] :: path)

/-- `fmt.Sprintf("%d:%d:%s", offset, length, manifestEscape(name))` -/
def tokText (p : Part) : Bytes :=
  C10.natToDec p.off ++ C10.bColon :: (C10.natToDec p.len ++ C10.bColon :: C10.fsEscape p.name)

/-- the stream line of a directory with files (nothing when there is no file token) -/
def lineOf (path : List Bytes) (blocks : List C10.Loc) (parts : List Part) : Bytes :=
  if parts.isEmpty then [] else
  let bl := if blocks.isEmpty then [emptyLoc] else blocks.map (·.text)
  C10.joinWith C10.bSpace (C10.fsEscape (prefixOf path) :: (bl ++ parts.map tokText)) ++ [C10.bNL]

def markerLine (path : List Bytes) : Bytes :=
  C10.joinWith C10.bSpace [C10.fsEscape (prefixOf path), emptyLoc, markerTok] ++ [C10.bNL]

/-- the text `marshalManifest` produces for one directory itself (without its subdirectories);
`none` = panic (a mem segment after a successful synchronous flush) -/
def dirText (d : Dir9) : Option Bytes :=
  if d.isEmpty then some (if d.path.isEmpty then [] else markerLine d.path)
  else match emitFiles ⟨[], 0, []⟩ d.files with
    | none => none
    | some e => some (lineOf d.path e.blocksRev.reverse e.partsRev.reverse)

def treeText : Tree9 → Option Bytes
  | [] => some []
  | d :: rest =>
    match dirText d, treeText rest with
    | some a, some b => some (a ++ b)
    | _, _ => none

/-! ## MarshalManifest -/

inductive MRes
  | ok (text : Bytes)
  | err      -- a Keep write failed (or was cancelled): the error is returned
  | panic
  deriving Repr, DecidableEq

/-- `collectionFileSystem.MarshalManifest(".")`: every directory flushes its own files
synchronously (`shortBlocks`), any failing `commitBlock` makes the whole call return its error;
otherwise the text is the concatenation of the directories' streams. -/
def marshal9 (hash : Bytes → C08.Loc) (max : Nat) (k : Keep) (t : Tree9) : Keep × Tree9 × MRes :=
  let r := flushTree9 hash max k t
  if r.2.2 then
    match treeText r.2.1 with
    | some txt => (r.1, r.2.1, MRes.ok txt)
    | none => (r.1, r.2.1, MRes.panic)
  else (r.1, r.2.1, MRes.err)

/-! ## What a tree stands for -/

/-- content of every file: (directory path, name) ↦ bytes -/
def absTree (st : Store) (t : Tree9) : List ((List Bytes × Bytes) × Bytes) :=
  t.flatMap fun d => d.files.map fun f => ((d.path, f.1), C08.abs st f.2)

def dirPaths (t : Tree9) : List (List Bytes) := t.map (·.path)

def treeSize (t : Tree9) : Nat := ((t.flatMap fun d => d.files.map fun f => f.2.size)).sum

end ArvVerif.C09
