/-
C10 — model of the Python range mapper and normalizer (sdk/python/arvados/_ranges.py after fix
9f993b5: `first_block`, `locators_and_ranges`; sdk/python/arvados/_normalize_stream.py: `escape`,
`normalize_stream`). Python integers are unbounded, so there is no wrap-around here.
-/
import ArvVerif.Model.C10_Fs
namespace ArvVerif.C10

/-- `_ranges.Range(locator, range_start, range_size, segment_offset = 0)` -/
structure PyRange where
  loc : Bytes
  start : Nat
  size : Nat
deriving DecidableEq, Repr

/-- `_ranges.LocatorAndRange(locator, block_size, segment_offset, segment_size)` -/
structure PyLR where
  loc : Bytes
  blockSize : Nat
  off : Int
  len : Int
deriving DecidableEq, Repr

/-- the `while` loop of `first_block`; `FB.notFound` = `None`, `FB.indexPanic` = IndexError -/
def pyFbLoop (goRight : Nat → Nat → Nat → Bool) (rs : List PyRange) (start : Nat) : Nat → Nat → Nat → Nat → FB
  | 0, _, _, _ => .outOfFuel
  | fuel + 1, lo, hi, i =>
    match rs[i]? with
    | some r =>
      let bs := r.start
      let be := r.start + r.size
      if bs ≤ start ∧ start < be then .found i
      else if lo = i then .notFound
      else if goRight bs be start then pyFbLoop goRight rs start fuel i hi ((hi + i) / 2)
      else pyFbLoop goRight rs start fuel lo i ((i + lo) / 2)
    | none => .indexPanic

/-- `first_block(data_locators, range_start)`: `hi = len(data_locators)`, `i = (hi + lo) // 2` -/
def pyFirstBlockWith (goRight : Nat → Nat → Nat → Bool) (rs : List PyRange) (start : Nat) : FB :=
  pyFbLoop goRight rs start (rs.length + 1) 0 rs.length (rs.length / 2)

def pyFirstBlock : List PyRange → Nat → FB := pyFirstBlockWith goRightNew
def pyFirstBlockOld : List PyRange → Nat → FB := pyFirstBlockWith goRightOld

/-- the `while i < len(data_locators)` loop of `locators_and_ranges` over `data_locators[i:]` -/
def pyLrLoop (start size : Nat) : List PyRange → List PyLR
  | [] => []
  | dl :: rest =>
    let bs := dl.start
    let be := dl.start + dl.size
    let e := start + size
    if e ≤ bs then []
    else if start ≥ bs ∧ e ≤ be then ⟨dl.loc, dl.size, (start : Int) - bs, size⟩ :: pyLrLoop start size rest
    else if start ≥ bs ∧ e > be then ⟨dl.loc, dl.size, (start : Int) - bs, (be : Int) - start⟩ :: pyLrLoop start size rest
    else if start < bs ∧ e > be then ⟨dl.loc, dl.size, 0, dl.size⟩ :: pyLrLoop start size rest
    else ⟨dl.loc, dl.size, 0, (e : Int) - bs⟩ :: pyLrLoop start size rest

/-- `locators_and_ranges(data_locators, range_start, range_size)`; `Res.panic` = IndexError -/
def pyLocatorsAndRanges (fb : List PyRange → Nat → FB) (rs : List PyRange) (start size : Nat) : Res (List PyLR) :=
  if size = 0 then .ok []
  else match fb rs start with
    | .found i => .ok (pyLrLoop start size (rs.drop i))
    | .notFound => .ok []
    | _ => .panic

/-- the Range list the SDK builds for a stream's blocks -/
def pyRangesFrom : Nat → List Loc → List PyRange
  | _, [] => []
  | acc, b :: rest => ⟨b.text, acc, b.size⟩ :: pyRangesFrom (acc + b.size) rest

/-- `_normalize_stream.escape`: backslash → `\134`, then `[:\000-\040]` → `\ooo` -/
def pyEscape : Bytes → Bytes := escapeWith fsEscapePred

/-- first pass of `normalize_stream`: each locator *string* once -/
def pyNormBlocks : List PyLR → List (Bytes × Nat) → List Bytes → Nat → List (Bytes × Nat) × List Bytes
  | [], tbl, toks, _ => (tbl, toks)
  | s :: rest, tbl, toks, off =>
    if tbl.any (·.1 = s.loc) then pyNormBlocks rest tbl toks off
    else pyNormBlocks rest (tbl ++ [(s.loc, off)]) (toks ++ [s.loc]) (off + s.blockSize)

def pyNormSpans (tbl : List (Bytes × Nat)) (fout : Bytes) : List PyLR → Option (Int × Int) → List Bytes
  | [], none => []
  | [], some (a, b) => [fileTokText a (b - a) fout]
  | s :: rest, cur =>
    let so : Int := (tblLookup tbl s.loc : Nat) + s.off
    match cur with
    | none => pyNormSpans tbl fout rest (some (so, so + s.len))
    | some (a, b) =>
      if so = b then pyNormSpans tbl fout rest (some (a, b + s.len))
      else fileTokText a (b - a) fout :: pyNormSpans tbl fout rest (some (so, so + s.len))

/-- `normalize_stream(stream_name, stream)` → tokens -/
def pyNormalizeStream (name : Bytes) (files : List (Bytes × List PyLR)) : List Bytes :=
  let sorted := sortBytes (files.map (·.1))
  let segsOf (fn : Bytes) : List PyLR := match files.find? (·.1 = fn) with | some e => e.2 | none => []
  let (tbl, btoks) := pyNormBlocks (sorted.flatMap segsOf) [] [] 0
  let btoks := if btoks.isEmpty then [emptyBlockLocator] else btoks
  let ftoks := sorted.flatMap fun fn =>
    let segs := segsOf fn
    pyNormSpans tbl (pyEscape fn) segs none ++ (if segs.isEmpty then [fileTokText 0 0 (pyEscape fn)] else [])
  pyEscape name :: btoks ++ ftoks

/-- what the harness driver assembles for `p.seg`: stream name ↦ file name ↦ segments
(insertion order), all file tokens mapped with `locators_and_ranges` -/
abbrev PyMap := List (Bytes × List (Bytes × List PyLR))

def pyAddFile (m : PyMap) (sn fn : Bytes) (segs : List PyLR) : PyMap :=
  let addF (fs : List (Bytes × List PyLR)) : List (Bytes × List PyLR) :=
    if fs.any (·.1 = fn) then fs.map fun e => if e.1 = fn then (fn, e.2 ++ segs) else e else fs ++ [(fn, segs)]
  if m.any (·.1 = sn) then m.map fun e => if e.1 = sn then (sn, addF e.2) else e else m ++ [(sn, addF [])]

def pySegStream (fb : List PyRange → Nat → FB) (s : Stream) : List FTok → PyMap → Res PyMap
  | [], m => .ok m
  | f :: rest, m =>
    (pyLocatorsAndRanges fb (pyRangesFrom 0 s.blocks) f.pos f.len).bind fun segs =>
      -- the file is filed under the directory part of its combined path (harness convention)
      let key := splitPath (pathOf s.name f.name)
      pySegStream fb s rest (pyAddFile m key.1 key.2 segs)

def pySegManifest (fb : List PyRange → Nat → FB) : Manifest → PyMap → Res PyMap
  | [], m => .ok m
  | s :: rest, m => (pySegStream fb s s.files m).bind fun m' => pySegManifest fb rest m'

def pyNormalizedText (m : PyMap) : Bytes :=
  (sortBytes (m.map (·.1))).flatMap fun sn =>
    let files := match m.find? (·.1 = sn) with | some e => e.2 | none => []
    joinWith bSpace (pyNormalizeStream sn files) ++ [bNL]

end ArvVerif.C10
