/-
C19 model: salting of user tokens before they are sent to a remote cluster.

  sdk/go/auth/salt.go                   SaltToken
  sdk/go/auth/auth.go                   LoadTokensFromHTTPRequest / LoadTokensFromHTTPRequestBody
  lib/controller/federation/conn.go     saltedTokenProvider
  lib/controller/federation.go          Handler.saltAuthToken (+ validateAPItoken's lookup), as FIXED by
                                        the `fix:` commits 2f26f62 (content-type literal), a42002c (form
                                        body always searched/stripped), b690c13+699c6fa (media type with
                                        parameters), f99a29f (token cookie not forwarded)
  services/keepstore/proxy_remote.go    remoteProxy.remoteClient / the token part of remoteProxy.Get

Strings are `List Char`. Go strings are byte strings; a byte `b` is represented by `Char.ofNat b`
(Latin-1 embedding), so `length` is Go's `len`, `'/'`, `' '` and the classes `[0-9a-z]` are the
ASCII ones, and every operation used here (split on '/', prefix, equality, concatenation, byte-wise
lexicographic order) commutes with the embedding. The theorems hold for all `List Char`.

The keyed hash is a parameter `mac : key → message → digest bytes` of every definition; the driver
instantiates it with an executable HMAC-SHA1.

HTTP requests are value-level (DESIGN.md section 9): the query string and a form body are given as
the item list Go's `url.ParseQuery` yields (`bad` = a segment it rejects and skips), the
Authorization header either as raw text or as a well-formed Basic credential, the token cookie as
its decoded value. Encoding/decoding (percent escapes, base64) is done by the Go driver with the
standard library and is part of the trusted base, not of the model.
-/
import ArvVerif.Base.Bytes
namespace ArvVerif.C19

abbrev Str := List Char

/-! ## SaltToken (sdk/go/auth/salt.go) -/

/-- `fmt.Sprintf("%x", digest)` -/
def hexStr (bs : List UInt8) : Str := bs.flatMap hexOfByte

/-- `strings.Split(s, "/")`: never empty; `""` gives `[""]`. -/
def splitSlash : Str → List Str
  | [] => [[]]
  | c :: cs =>
    match splitSlash cs with
    | [] => [[c]]
    | p :: ps => if c = '/' then [] :: p :: ps else (c :: p) :: ps

def sV2 : Str := "v2".toList
def sV2Slash : Str := "v2/".toList
def sSlash : Str := "/".toList

/-- the length a secret must have to be taken for a salt -/
def saltLen : Nat := 40

def isLowerAlnum (c : Char) : Bool := ('0' ≤ c && c ≤ '9') || ('a' ≤ c && c ≤ 'z')

/-- `reObsoleteToken = ^[0-9a-z]{41,}$` (Go's `$` without the `m` flag is end of text) -/
def isObsolete (t : Str) : Bool := decide (41 ≤ t.length) && t.all isLowerAlnum

inductive SaltErr where
  | obsolete   -- ErrObsoleteToken
  | format     -- ErrTokenFormat
  | salted     -- ErrSalted
deriving Repr, DecidableEq

def notV2 (token : Str) : Except SaltErr Str :=
  if isObsolete token then .error .obsolete else .error .format

/-- `"v2/" + uuid + "/" + hex(hmac(secret, remote))` -/
def saltedForm (mac : Str → Str → List UInt8) (uuid secret remote : Str) : Str :=
  sV2Slash ++ uuid ++ sSlash ++ hexStr (mac secret remote)

/-- `auth.SaltToken(token, remote)`. The key of the MAC is the secret, the message the remote id. -/
def saltToken (mac : Str → Str → List UInt8) (token remote : Str) : Except SaltErr Str :=
  match splitSlash token with
  | p0 :: uuid :: secret :: _ =>
    if p0 ≠ sV2 then notV2 token
    else if secret.length ≠ saltLen then .ok (saltedForm mac uuid secret remote)
    else if remote.isPrefixOf uuid then .ok token
    else .error .salted
  | _ => notV2 token

/-! ## saltedTokenProvider (lib/controller/federation/conn.go) -/

/-- Outcome of `local.APIClientAuthorizationCurrent` for a legacy token. -/
inductive Lookup where
  | error (status : Nat)               -- an error; `errStatus` gives its HTTP status (500 if it has none)
  | found (uuid apiToken : Str)        -- the api_client_authorization record
deriving Repr, DecidableEq

inductive ProvErr where
  | noCreds                            -- no credentials in the context
  | backend                            -- local lookup failed with a status other than 401
  | salt (e : SaltErr)                 -- salting the resolved v2 form failed
deriving Repr, DecidableEq

def tokenV2 (uuid apiToken : Str) : Str := sV2Slash ++ uuid ++ sSlash ++ apiToken

/-- one iteration of the provider's loop -/
def provOne (mac : Str → Str → List UInt8) (remote : Str) (lookup : Str → Lookup) (t : Str) :
    Except ProvErr Str :=
  match saltToken mac t remote with
  | .ok s => .ok s
  | .error .salted => .ok t
  | .error .format => .ok t
  | .error .obsolete =>
    match lookup t with
    | .error st =>
      if st = 401 then .ok t               -- unknown here: pass through unmodified
      else .error .backend                 -- every other failure (403 scoped token, 5xx, …): give up
    | .found u a =>
      if remote.isPrefixOf u then .ok t
      else match saltToken mac (tokenV2 u a) remote with
        | .ok s => .ok s
        | .error e => .error (.salt e)

/-- the provider's loop: tokens in order, stop at the first error -/
def provAll (mac : Str → Str → List UInt8) (remote : Str) (lookup : Str → Lookup) :
    List Str → Except ProvErr (List Str)
  | [] => .ok []
  | t :: ts =>
    match provOne mac remote lookup t with
    | .error e => .error e
    | .ok o =>
      match provAll mac remote lookup ts with
      | .error e => .error e
      | .ok os => .ok (o :: os)

/-- the provider: `none` = no credentials in the request context -/
def provider (mac : Str → Str → List UInt8) (remote : Str) (lookup : Str → Lookup) :
    Option (List Str) → Except ProvErr (List Str)
  | none => .error .noCreds
  | some ts => provAll mac remote lookup ts

/-- Several providers (one per remote cluster) asked one after the other on behalf of ONE incoming
request, i.e. with the same credentials object in the request context: every provider sees the
caller's original tokens — a provider does not modify the credentials it reads. -/
def provSeq (mac : Str → Str → List UInt8) (lookup : Str → Lookup) (creds : Option (List Str))
    (remotes : List Str) : List (Except ProvErr (List Str)) :=
  remotes.map (fun R => provider mac R lookup creds)

/-- What `rpc.Conn.requestAndDecode` does with the provider's answer: the first token becomes the
Authorization header, the others the `reader_tokens` parameter. -/
def sBearer : Str := "Bearer ".toList
def rpcAuthorization (tokens : List Str) : Str :=
  match tokens with
  | [] => sBearer ++ ['-']
  | t :: _ => sBearer ++ t

/-- `params["reader_tokens"] = tokens[1:]` (only set when there is more than one token) -/
def rpcReaderTokens (tokens : List Str) : List Str := tokens.drop 1

/-! ## keepstore remoteClient (services/keepstore/proxy_remote.go) -/

/-- the token the per-request copy of the remote keep client carries; an error means no client -/
def keepRemoteToken (mac : Str → Str → List UInt8) (token remote : Str) : Except SaltErr Str :=
  saltToken mac token remote

def sOAuth2sp : Str := "OAuth2 ".toList

/-- `remoteProxy.Get` for a locator with one `+R<remote>-…` hint: HTTP status when salting fails
(no request is made), or the Authorization header of every request sent to the remote. -/
inductive KeepGet where
  | refused (status : Nat)
  | requests (authorization : Str)
deriving Repr, DecidableEq

def keepGet (mac : Str → Str → List UInt8) (token remote : Str) : KeepGet :=
  match keepRemoteToken mac token remote with
  | .ok t => .requests (sOAuth2sp ++ t)
  | .error .obsolete => .refused 400
  | .error _ => .refused 500

/-- `remoteProxy.Get` for a locator with several `+R<remote>-…` hints, in locator order: every hint
builds a client for its remote (an error ends the request), the request goes out through the client
of the last hint. `last` is the token of the client built so far. -/
def keepGetHintsAux (mac : Str → Str → List UInt8) (token : Str) : List Str → Option Str → KeepGet
  | [], none => .refused 400                       -- no remote hint: "bad request"
  | [], some t => .requests (sOAuth2sp ++ t)
  | r :: rs, _ =>
    match keepRemoteToken mac token r with
    | .ok t => keepGetHintsAux mac token rs (some t)
    | .error .obsolete => .refused 400
    | .error _ => .refused 500

def keepGetHints (mac : Str → Str → List UInt8) (token : Str) (remotes : List Str) : KeepGet :=
  keepGetHintsAux mac token remotes none

/-- A sequence of `remoteClient` calls on one keepstore process, (remote, token) per step: each
answer depends on its own step only — `remoteClient` keeps no memory of earlier tokens or remotes
(the per-remote client cache holds no token). -/
def keepSeq (mac : Str → Str → List UInt8) (steps : List (Str × Str)) : List (Except SaltErr Str) :=
  steps.map (fun st => keepRemoteToken mac st.2 st.1)

/-- the same for a sequence of `Get` requests, (hints, token) per step -/
def keepGetSeq (mac : Str → Str → List UInt8) (steps : List (List Str × Str)) : List KeepGet :=
  steps.map (fun st => keepGetHints mac st.2 st.1)

/-! ## Legacy proxy path: Handler.saltAuthToken (lib/controller/federation.go) -/

/-- one segment of a query string / form body as `url.ParseQuery` sees it -/
inductive QItem where
  | good (k v : Str)
  | bad                 -- rejected (invalid escape / semicolon): skipped, error remembered
deriving Repr, DecidableEq

def goods : List QItem → List (Str × Str)
  | [] => []
  | .good k v :: r => (k, v) :: goods r
  | .bad :: r => goods r

def hasBad (q : List QItem) : Bool := q.any (fun i => i == .bad)

inductive AuthHdr where
  | absent
  | plain (v : Str)             -- header text that is not a well-formed Basic credential
  | basic (user pass : Str)     -- "Basic " ++ base64 (user ++ ":" ++ pass)
deriving Repr, DecidableEq

inductive CookieHdr where
  | absent
  | token (t : Str)             -- arvados_api_token=<base64url t>
  | other                       -- cookies without a decodable arvados_api_token
deriving Repr, DecidableEq

inductive Body where
  | form (items : List QItem)   -- bytes that parse to these items (also the empty body)
  | raw                         -- bytes the model does not interpret
deriving Repr, DecidableEq

structure Req where
  postLike : Bool               -- method is POST, PUT or PATCH (matters to `loaderBodyTokens` only)
  auth : AuthHdr
  query : List QItem
  cookie : CookieHdr
  ctype : Option Str            -- Content-Type header
  body : Body
deriving Repr, DecidableEq

def sOAuth2 : Str := "OAuth2".toList
def sBearerWord : Str := "Bearer".toList
def apiTokenKey : Str := "api_token".toList
/-- the media type of a form body -/
def formCT : Str := "application/x-www-form-urlencoded".toList

/-- ASCII white space (`strings.TrimSpace` on an ASCII string) -/
def isSpace (c : Char) : Bool :=
  c == ' ' || c == '\t' || c == '\n' || c == '\r' || c == Char.ofNat 11 || c == Char.ofNat 12

def trimSpace (s : Str) : Str := ((s.dropWhile isSpace).reverse.dropWhile isSpace).reverse

def lowerAscii (c : Char) : Char := if 'A' ≤ c ∧ c ≤ 'Z' then Char.ofNat (c.toNat + 32) else c

/-- The media type of a Content-Type header value as `saltAuthToken` (and the receiving side)
determine it: the text before the first ';' or ',', trimmed, lower-cased. (ASCII headers; see the
notes for non-ASCII bytes.) -/
def mediaTypeOf (ct : Str) : Str :=
  (trimSpace (ct.takeWhile (fun c => c != ';' && c != ','))).map lowerAscii

/-- does the Content-Type header declare a form body? (absent header: no) -/
def isFormType : Option Str → Bool
  | some ct => mediaTypeOf ct == formCT
  | none => false

/-- `strings.SplitN(s, " ", 2)` when it has two elements -/
def splitSpace2 : Str → Option (Str × Str)
  | [] => none
  | c :: cs =>
    if c = ' ' then some ([], cs)
    else match splitSpace2 cs with
      | some (a, b) => some (c :: a, b)
      | none => none

/-- tokens `LoadTokensFromHTTPRequest` takes from the Authorization header -/
def headerTokens : AuthHdr → List Str
  | .absent => []
  | .plain v =>
    match splitSpace2 v with
    | some (a, b) => if a = sOAuth2 ∨ a = sBearerWord then [b] else []
    | none => []
  | .basic _ pass => [pass]

def valuesOf (key : Str) (kvs : List (Str × Str)) : List Str :=
  kvs.filterMap (fun kv => if kv.1 = key then some kv.2 else none)

def queryTokens (q : List QItem) : List Str := valuesOf apiTokenKey (goods q)

def cookieTokens : CookieHdr → List Str
  | .token t => if t = [] then [] else [t]
  | _ => []

/-- `LoadTokensFromHTTPRequest`: header (OAuth2/Bearer, then Basic), query string, cookie -/
def requestTokens (r : Req) : List Str :=
  headerTokens r.auth ++ queryTokens r.query ++ cookieTokens r.cookie

/-- byte-wise lexicographic `<` (Go's string order) -/
def strLt : Str → Str → Bool
  | [], [] => false
  | [], _ :: _ => true
  | _ :: _, [] => false
  | a :: as, b :: bs => decide (a < b) || (a == b && strLt as bs)

/-- `url.Values.Encode` order: keys sorted, values of one key in their original order -/
def encodeOrder (kvs : List (Str × Str)) : List (Str × Str) :=
  kvs.mergeSort (fun a b => !(strLt b.1 a.1))

def dropKey (key : Str) (kvs : List (Str × Str)) : List (Str × Str) :=
  kvs.filter (fun kv => kv.1 ≠ key)

/-- the body branch of `saltAuthToken` -/
inductive BodyStage where
  | skipped                                          -- the body is not declared as a form
  | failed                                           -- url.ParseQuery error ⇒ saltAuthToken returns it
  | parsed (toks : List Str) (newBody : List (Str × Str))  -- body replaced by the re-encoded form
  | unmodelled
deriving Repr, DecidableEq

/-- the credential a form body contributes: its first `api_token` value unless that is empty -/
def firstToken (pf : List (Str × Str)) : List Str :=
  match valuesOf apiTokenKey pf with
  | v :: _ => if v = [] then [] else [v]
  | [] => []

/-- A body declared as a form is always parsed (whatever the method, whether or not a token was
found elsewhere) and replaced by its re-encoding without `api_token`. -/
def bodyStage (r : Req) : BodyStage :=
  if !isFormType r.ctype then .skipped
  else match r.body with
    | .raw => .unmodelled
    | .form items =>
      if hasBad items then .failed
      else .parsed (firstToken (goods items)) (encodeOrder (dropKey apiTokenKey (goods items)))

/-- `auth.LoadTokensFromHTTPRequestBody` (no longer used by `saltAuthToken`; still the body loader
of the API router): exact content-type comparison, `Request.ParseForm` semantics (body read only
for POST/PUT/PATCH, query string parsed as well). `none` = error. -/
def loaderBodyTokens (r : Req) : Option (List Str) :=
  if r.ctype ≠ some formCT then some []
  else match r.body with
    | .raw => none
    | .form items =>
      if hasBad r.query || (r.postLike && hasBad items) then none
      else some (firstToken (if r.postLike then goods items else []))

inductive LegacyErr where
  | salted      -- auth.ErrSalted
  | other       -- parse errors, errors from the second SaltToken
deriving Repr, DecidableEq

inductive TokOut where
  | ok (t : Str)
  | err (e : LegacyErr)
  | panic           -- index out of range in validateAPItoken
deriving Repr, DecidableEq

/-- `validateAPItoken` has found (or not) the secret part in the database; `db secret` is the answer
of `SELECT … WHERE api_token=$1 … LIMIT 1`: (authorization uuid, user uuid). -/
def resolveLocal (mac : Str → Str → List UInt8) (remote : Str) (db : Str → Option (Str × Str))
    (t uuid secret : Str) : TokOut :=
  match db secret with
  | none => .ok t                                  -- unknown here: pass through
  | some (aca, user) =>
    if uuid ≠ [] ∧ aca ≠ uuid then .ok t           -- secret found under another uuid: "not ok"
    else if remote.isPrefixOf user then .ok t      -- belongs to the remote: pass through
    else match saltToken mac (tokenV2 aca secret) remote with
      | .ok s => .ok s
      | .error .salted => .err .salted
      | .error _ => .err .other

/-- The token that goes into the rebuilt Authorization header. -/
def legacyToken (mac : Str → Str → List UInt8) (remote : Str) (db : Str → Option (Str × Str))
    (t : Str) : TokOut :=
  match saltToken mac t remote with
  | .ok s => .ok s
  | .error .salted => .err .salted
  | .error _ =>
    -- validateAPItoken(req, t)
    if sV2Slash.isPrefixOf t then
      match splitSlash t with
      | _ :: u :: s :: _ => resolveLocal mac remote db t u s
      | _ => .panic                                 -- sp[2]: index out of range
    else resolveLocal mac remote db t [] t

inductive AuthOut where
  | same
  | set (v : Str)
deriving Repr, DecidableEq

inductive ItemsOut where
  | same
  | re (items : List (Str × Str))
deriving Repr, DecidableEq

inductive CookieOut where
  | same            -- Cookie header untouched
  | stripped        -- every cookie named arvados_api_token removed, the others kept
deriving Repr, DecidableEq

/-- the rebuilt request; every header other than Authorization and Cookie is carried over unchanged -/
structure Fwd where
  auth : AuthOut
  query : ItemsOut
  body : ItemsOut
  cookie : CookieOut
deriving Repr, DecidableEq

inductive LegacyOut where
  | fwd (f : Fwd)
  | err (e : LegacyErr)
  | panic
  | unmodelled
deriving Repr, DecidableEq

/-- the query string of the rebuilt request: re-encoded without `api_token` if it had one -/
def queryOut (r : Req) : ItemsOut :=
  if (goods r.query).any (fun kv => kv.1 == apiTokenKey)
  then .re (encodeOrder (dropKey apiTokenKey (goods r.query)))
  else .same

/-- second half of `saltAuthToken`: `toks` are the credentials found, `bodyOut` what became of
the body -/
def finish (mac : Str → Str → List UInt8) (remote : Str) (db : Str → Option (Str × Str))
    (r : Req) (toks : List Str) (bodyOut : ItemsOut) : LegacyOut :=
  match toks with
  | [] => .fwd ⟨.same, .same, bodyOut, .same⟩          -- no token: headers and URL as they are
  | t :: _ =>
    match legacyToken mac remote db t with
    | .panic => .panic
    | .err e => .err e
    | .ok t' =>
      if hasBad r.query then .err .other               -- url.ParseQuery error
      else .fwd ⟨.set (sBearer ++ t'), queryOut r, bodyOut, .stripped⟩

def saltAuthToken (mac : Str → Str → List UInt8) (remote : Str) (db : Str → Option (Str × Str))
    (r : Req) : LegacyOut :=
  match bodyStage r with
  | .failed => .err .other
  | .unmodelled => .unmodelled
  | .skipped => finish mac remote db r (requestTokens r) .same
  | .parsed ts nb => finish mac remote db r (requestTokens r ++ ts) (.re nb)

/-! ## Forwarding layers of the legacy path: Handler.remoteClusterRequest and proxy.Do -/

def hXFF : Str := "X-Forwarded-For".toList
def hXFP : Str := "X-Forwarded-Proto".toList
def hVia : Str := "Via".toList
def hAuthorization : Str := "Authorization".toList
def hCookie : Str := "Cookie".toList
def hContentType : Str := "Content-Type".toList

/-- headers `proxy.Do` does not forward -/
def dropHeaders : List Str :=
  ["Connection", "Keep-Alive", "Proxy-Authenticate", "Proxy-Authorization", "TE", "Trailer", "Upgrade",
   "Accept-Encoding", "Content-Encoding", "Transfer-Encoding"].map String.toList

def viaSuffix : Str := " arvados-controller".toList

def hdrGet (name : Str) (h : List (Str × Str)) : Option Str := (h.find? (fun kv => kv.1 == name)).map (·.2)

/-- The request that reaches the HTTP client. `fwd` are the credential-bearing parts exactly as
`saltAuthToken` left them (Authorization, Cookie, query string, body — none of these header names
is in `dropHeaders`, and the URL is built from the rebuilt request's RawQuery); `others` are the
remaining request headers that are forwarded. -/
structure Wire where
  fwd : Fwd
  others : List (Str × Str)
  xff : Str              -- X-Forwarded-For
  xfp : Str              -- X-Forwarded-Proto
  via : List Str         -- Via values
deriving Repr, DecidableEq

/-- `proxy.Do` on the rebuilt request. `others` = incoming headers other than Authorization, Cookie,
Content-Type (canonical names, one value each); `scheme` = scheme of the incoming URL. The rebuilt
request has neither RemoteAddr nor Proto, so X-Forwarded-For ends in an empty element and the added
Via value has no protocol version. -/
def proxyDo (scheme : Str) (others : List (Str × Str)) (f : Fwd) : Wire :=
  { fwd := f
    others := others.filter (fun kv =>
      !dropHeaders.contains kv.1 && kv.1 != hXFF && kv.1 != hXFP && kv.1 != hVia)
    xff := match hdrGet hXFF others with
      | some v => if v = [] then [] else v ++ [',']
      | none => []
    xfp := match hdrGet hXFP others with
      | some v => if v = [] then scheme else v
      | none => scheme
    via := (match hdrGet hVia others with
      | some v => [v]
      | none => []) ++ [viaSuffix] }

inductive WireOut where
  | sent (w : Wire)
  | notFound             -- remote cluster not configured: HTTP 404, nothing is sent
  | err (e : LegacyErr)
  | panic
  | unmodelled
deriving Repr, DecidableEq

/-- `Handler.remoteClusterRequest` -/
def remoteClusterRequest (mac : Str → Str → List UInt8) (configured : Bool) (remote : Str)
    (db : Str → Option (Str × Str)) (scheme : Str) (r : Req) (others : List (Str × Str)) : WireOut :=
  if !configured then .notFound
  else match saltAuthToken mac remote db r with
    | .fwd f => .sent (proxyDo scheme others f)
    | .err e => .err e
    | .panic => .panic
    | .unmodelled => .unmodelled

end ArvVerif.C19
