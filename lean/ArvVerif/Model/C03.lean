/-
C03 model: Keep client read path.

  sdk/go/keepclient/hashcheck.go      HashCheckingReader.{Read, WriteTo, Close}
  sdk/go/keepclient/keepclient.go     getOrHead (size hint vs Content-Length, retry rounds, 404 count)
  sdk/go/keepclient/block_cache.go    BlockCache.{Get, ReadAt, Sweep}
  sdk/go/arvados/fs_collection.go     storedSegment.ReadAt, filenode.{seek, Read}, loadManifest's
                                      stream-offset -> block-segment mapping (single stream, one file)

Everything is parametric in `hash : Bytes → D` and the digest `check` taken from the locator. A
response body is what the transport hands to the client: a finite sequence of `Read` results
(`chunks`), the way it ends (`fin`: clean EOF or a transport error), whether the end is reported
together with the last data (`together`), and whether `Close` fails. The running MD5 of Go's
`hash.Hash` is modelled as the concatenation `acc` of the bytes written so far (assumption:
`Write` chunk by chunk then `Sum` = hash of the concatenation).

The probe order of the service roots is an input (C12 owns the rendezvous order). Core Lean only.
-/
namespace ArvVerif.C03

abbrev Bytes := List UInt8

/-- Error classes that can come out of the read path. `eof` is `io.EOF`. `panic` stands for a
run-time panic of the fetch goroutine (before the fix F3a `make([]byte, size, bufsize)` panicked
for size > cap); `C03_fetch_never_panics` shows that no input produces it any more. -/
inductive Err where
  | eof | ueof | badChecksum | closeFail
  | notFound | failTemp | failPerm | proto | panic
deriving Repr, DecidableEq, Inhabited

/-- How the transport ends a body: clean EOF, or an error (net/http: unexpected EOF). -/
inductive Fin where
  | eof | ueof
deriving Repr, DecidableEq, Inhabited

structure Body where
  chunks : List Bytes
  fin : Fin := .eof
  together : Bool := false
  closeErr : Bool := false
deriving Repr, DecidableEq, Inhabited

def Body.content (b : Body) : Bytes := b.chunks.flatten

/-! ## hashcheck.go -/
section Reader
variable {D : Type} [DecidableEq D] (hash : Bytes → D) (check : D)

/-- What HashCheckingReader.Read turns the end of the underlying reader into (hashcheck.go:37-42):
`io.EOF` becomes BadChecksum when the running digest differs; other errors pass. -/
def endErr (fin : Fin) (acc : Bytes) : Err :=
  match fin with
  | .ueof => .ueof
  | .eof => if hash acc = check then .eof else .badChecksum

/-- One call of HashCheckingReader.Read with a buffer of `max` bytes:
(data, error, remaining chunks, bytes hashed so far). -/
def hcrRead (fin : Fin) (together : Bool) (max : Nat) :
    List Bytes → Bytes → Bytes × Option Err × List Bytes × Bytes
  | [], acc => ([], some (endErr hash check fin acc), [], acc)
  | c :: rest, acc =>
    if c.length ≤ max then
      if rest.isEmpty && together then (c, some (endErr hash check fin (acc ++ c)), [], acc ++ c)
      else (c, none, rest, acc ++ c)
    else (c.take max, none, c.drop max :: rest, acc ++ c.take max)

/-- ioutil.ReadAll over the HashCheckingReader: Read until an error; `.eof` is success. -/
def readAll (fin : Fin) (together : Bool) : List Bytes → Bytes → Bytes × Err
  | [], acc => ([], endErr hash check fin acc)
  | c :: rest, acc =>
    if rest.isEmpty && together then (c, endErr hash check fin (acc ++ c))
    else
      let r := readAll fin together rest (acc ++ c)
      (c ++ r.1, r.2)

/-- The loop of io.ReadAtLeast(rdr, buf, need) over HashCheckingReader.Read:
(data, error of the last Read if the loop ended on one, remaining chunks, hashed so far). -/
def readLoop (fin : Fin) (together : Bool) :
    List Bytes → Nat → Bytes → Bytes × Option Err × List Bytes × Bytes
  | [], need, acc =>
    if need = 0 then ([], none, [], acc) else ([], some (endErr hash check fin acc), [], acc)
  | c :: rest, need, acc =>
    if need = 0 then ([], none, c :: rest, acc)
    else if need < c.length then (c.take need, none, c.drop need :: rest, acc ++ c.take need)
    else if rest.isEmpty && together then
      (c, if c.length = need then none else some (endErr hash check fin (acc ++ c)), [], acc ++ c)
    else
      let r := readLoop fin together rest (need - c.length) (acc ++ c)
      (c ++ r.1, r.2.1, r.2.2.1, r.2.2.2)

/-- io.ReadAtLeast's final error: nil when enough was read, EOF after some data becomes
ErrUnexpectedEOF, everything else passes. -/
def fullErr (got want : Nat) (raw : Option Err) : Option Err :=
  if want ≤ got then none
  else match raw with
    | some .eof => if got > 0 then some .ueof else some .eof
    | e => e

/-- HashCheckingReader.Close (hashcheck.go:72-87): drain the rest into the hash, close the
underlying reader, compare. A copy error wins over a close error, both over the comparison. -/
def closeR (fin : Fin) (closeErr : Bool) (chunks : List Bytes) (acc : Bytes) : Option Err :=
  match fin with
  | .ueof => some .ueof
  | .eof =>
    if closeErr then some .closeFail
    else if hash (acc ++ chunks.flatten) = check then none else some .badChecksum

/-- HashCheckingReader.WriteTo (hashcheck.go:49-67): copy everything to dest and the hash, then
compare. Returns what was written and the error. -/
def writeTo (fin : Fin) (chunks : List Bytes) (acc : Bytes) : Bytes × Option Err :=
  (chunks.flatten,
    match fin with
    | .ueof => some .ueof
    | .eof => if hash (acc ++ chunks.flatten) = check then none else some .badChecksum)

/-- io.ReadFull(rdr, buf[:need]) followed by rdr.Close(): what BlockCache.Get's fetch goroutine
does with the reader (block_cache.go:89-95). Returns the bytes placed in the buffer and the
combined error (`err`, else `err2`). -/
def readFullClose (b : Body) (need : Nat) : Bytes × Option Err :=
  let r := readLoop hash check b.fin b.together b.chunks need []
  let e1 := fullErr r.1.length need r.2.1
  let e2 := closeR hash check b.fin b.closeErr r.2.2.1 r.2.2.2
  (r.1, match e1 with | some e => some e | none => e2)

end Reader

/-! ## keepclient.go getOrHead -/

/-- One scripted answer of a service to a GET/HEAD. `status` is a non-200 status. -/
inductive Resp where
  | connErr
  | status (code : Nat)
  | ok (clen : Option Nat) (body : Body)
deriving Repr, DecidableEq, Inhabited

/-- keepclient.go:258-260 -/
def retryable (code : Nat) : Bool := code == 408 || code == 429 || code ≥ 500

/-- Remove and return the next scripted answer of service `i`; a service whose script is used up
(or that does not exist) refuses the connection. -/
def popResp : List (List Resp) → Nat → Resp × List (List Resp)
  | [], _ => (.connErr, [])
  | [] :: rest, 0 => (.connErr, [] :: rest)
  | (r :: rs) :: rest, 0 => (r, rs :: rest)
  | s :: rest, i + 1 => let p := popResp rest i; (p.1, s :: p.2)

/-- Environment + bookkeeping threaded through getOrHead. -/
structure G where
  scripts : List (List Resp)
  log : List Nat := []
  n404 : Nat := 0
deriving Repr, Inhabited

inductive TryRes where
  | found (body : Body) (expect : Nat)
  | proto
  | exhausted (retry : List Nat)
deriving Repr, DecidableEq, Inhabited

/-- The 200 branch (keepclient.go:270-279): size hint vs Content-Length; `some n` = accepted with
expectLength n, `none` = the request fails at once. -/
def accept200 (hint clen : Option Nat) : Option Nat :=
  match hint, clen with
  | none, none => none
  | none, some c => some c
  | some h, none => some h
  | some h, some c => if h = c then some h else none

/-- One pass over `serversToTry` (keepclient.go:228-291). -/
def tryServers (hint : Option Nat) : List Nat → G → List Nat → TryRes × G
  | [], g, retry => (.exhausted retry, g)
  | s :: rest, g, retry =>
    let p := popResp g.scripts s
    let g := { g with scripts := p.2, log := g.log ++ [s] }
    match p.1 with
    | .connErr => tryServers hint rest g (retry ++ [s])
    | .status code =>
      if retryable code then tryServers hint rest g (retry ++ [s])
      else if code = 404 then tryServers hint rest { g with n404 := g.n404 + 1 } retry
      else tryServers hint rest g retry
    | .ok clen body =>
      match accept200 hint clen with
      | some expect => (.found body expect, g)
      | none => (.proto, g)

/-- The retry rounds (keepclient.go:224-293): `tries = 1 + kc.Retries`. -/
def rounds (hint : Option Nat) : Nat → List Nat → G → TryRes × G
  | 0, servers, g => (.exhausted servers, g)
  | t + 1, servers, g =>
    match tryServers hint servers g [] with
    | (.exhausted retry, g') => rounds hint t retry g'
    | r => r

/-! locator syntax -/

def blockSize : Nat := 64 * 1024 * 1024
def defaultMaxBlocks : Nat := 4
def emptyLocator : List Char := "d41d8cd98f00b204e9800998ecf8427e+0".toList

/-- parts[1] of strings.SplitN(locator, "+", 3), if there are at least two parts. -/
def hintField (loc : List Char) : Option (List Char) :=
  match loc.dropWhile (· ≠ '+') with
  | [] => none
  | _ :: rest => some (rest.takeWhile (· ≠ '+'))

def digitsVal? : List Char → Nat → Option Nat
  | [], acc => some acc
  | c :: cs, acc => if '0' ≤ c ∧ c ≤ '9' then digitsVal? cs (acc * 10 + (c.toNat - 48)) else none

/-- strconv.ParseInt(s, 10, bits) restricted to what matters: `some n` for a result n ≥ 0,
`none` for a syntax/range error or a negative result. -/
def parseNonNeg (bits : Nat) (s : List Char) : Option Nat :=
  match s with
  | [] => none
  | '-' :: ds =>
    if ds.isEmpty then none else
    match digitsVal? ds 0 with
    | some 0 => some 0
    | _ => none
  | ds =>
    match digitsVal? ds 0 with
    | some n => if n < 2 ^ (bits - 1) then some n else none
    | none => none

/-- expectLength ≥ 0 of getOrHead (ParseInt …, 10, 64). -/
def hint64 (loc : List Char) : Option Nat := (hintField loc).bind (parseNonNeg 64)
/-- bufsize of BlockCache.Get (ParseInt …, 10, 32; default BLOCKSIZE). -/
def bufSize (loc : List Char) : Nat := ((hintField loc).bind (parseNonNeg 32)).getD blockSize

inductive GetRes where
  | empty                                   -- the d41d…+0 shortcut: empty reader, size 0, no request
  | err (e : Err)
  | rdr (body : Body) (expect : Nat)
deriving Repr, DecidableEq, Inhabited

/-- getOrHead: `order` = getSortedRoots(locator), `tries` = 1 + Retries. -/
def getOrHead (loc : List Char) (tries : Nat) (order : List Nat) (g : G) : GetRes × G :=
  if emptyLocator.isPrefixOf loc then (.empty, g) else
  let g0 := { g with n404 := 0 }
  match rounds (hint64 loc) tries order g0 with
  | (.found body expect, g') => (.rdr body expect, g')
  | (.proto, g') => (.err .proto, g')
  | (.exhausted left, g') =>
    (.err (if g'.n404 = order.length then .notFound
           else if left.isEmpty then .failPerm else .failTemp), g')

/-! ## block_cache.go -/

structure Entry where
  data : Bytes
  err : Option Err
deriving Repr, DecidableEq, Inhabited

def zeros (n : Nat) : Bytes := List.replicate n 0

section Cache
variable {D : Type} [DecidableEq D] (hash : Bytes → D)

/-- What the fetch goroutine stores in the cache block from a successful `kc.Get` (block_cache.go:86-97). -/
def fetchBody (check : D) (bufsize : Nat) (body : Body) (expect : Nat) : Entry :=
  if bufsize < expect then { data := [], err := some .proto } else    -- "size … exceeds buffer size" (fix F3a)
  let r := readFullClose hash check body expect
  { data := r.1 ++ zeros (expect - r.1.length), err := r.2 }

/-- The whole fetch: kc.Get(locator) then read + close. `digest` maps the first 32 characters of
the locator to the digest type. -/
def fetch (digest : List Char → D) (loc : List Char) (tries : Nat) (order : List Nat) (g : G) : Entry × G :=
  match getOrHead loc tries order g with
  | (.empty, g') => ({ data := [], err := none }, g')
  | (.err e, g') => ({ data := [], err := some e }, g')
  | (.rdr body expect, g') => (fetchBody hash (digest (loc.take 32)) (bufSize loc) body expect, g')

end Cache

/-- BlockCache.ReadAt on the outcome of Get (block_cache.go:56-65). -/
def readAtEntry (e : Entry) (off len : Nat) : Bytes × Option Err :=
  match e.err with
  | some err => ([], some err)
  | none => if e.data.length < off then ([], some .ueof) else ((e.data.drop off).take len, none)

/-- One cached block of the sequential cache model: key, entry, last use (logical clock). -/
structure Slot where
  key : List Char
  entry : Entry
  lastUse : Nat
deriving Repr, Inhabited

/-- BlockCache.Sweep with distinct time stamps (block_cache.go:31-52): nothing when at most `max`
entries; otherwise everything not used after the (max+1)-th most recent use is deleted. -/
def sweep (maxBlocks : Nat) (slots : List Slot) : List Slot :=
  let max := if maxBlocks = 0 then defaultMaxBlocks else maxBlocks
  if slots.length ≤ max then slots else
  let lru := (slots.map (·.lastUse)).mergeSort (fun a b => decide (b ≤ a))
  match lru[max]? with
  | none => slots
  | some threshold => slots.filter (fun s => decide (threshold < s.lastUse))

/-! ## fs_collection.go -/

/-- storedSegment: block index, offset within the block, length. -/
structure Seg where
  blk : Nat
  offset : Nat
  length : Nat
deriving Repr, DecidableEq, Inhabited

/-- storedSegment.ReadAt (fs_collection.go:1337-1351) over a backend `ReadAt(len, off)`. -/
def segReadAt (backend : Nat → Nat → Bytes × Option Err) (se : Seg) (plen off : Nat) : Bytes × Option Err :=
  if se.length < off then ([], some .eof) else
  let maxlen := se.length - off
  if maxlen < plen then
    let r := backend maxlen (off + se.offset)
    (r.1, match r.2 with | none => some .eof | e => e)
  else backend plen (off + se.offset)

/-- loadManifest's inner loop for one file token (fs_collection.go:1107-1142): walk the blocks of
the stream (index, size) from `pos`. Returns (segments appended, new pos, remaining blocks). -/
def walkBlocks (offset length : Nat) : List (Nat × Nat) → Nat → List Seg → List Seg × Nat × List (Nat × Nat)
  | [], pos, acc => (acc, pos, [])
  | (i, sz) :: rest, pos, acc =>
    let next := pos + sz
    if next ≤ offset ∨ sz = 0 then walkBlocks offset length rest next acc
    else if offset + length ≤ pos then (acc, pos, (i, sz) :: rest)
    else
      let blkOff := if pos < offset then offset - pos else 0
      let blkLen0 := sz - blkOff
      let blkLen := if offset + length < pos + blkOff + blkLen0 then offset + length - pos - blkOff else blkLen0
      let acc := if blkLen > 0 then acc ++ [{ blk := i, offset := blkOff, length := blkLen }] else acc
      if offset + length < next then (acc, pos, (i, sz) :: rest)
      else walkBlocks offset length rest next acc

/-- All file tokens of one stream for one file. `none` = "invalid segment" (token beyond the stream). -/
def loadTokens (blocks : List (Nat × Nat)) : List (Nat × Nat) → Nat → List (Nat × Nat) → List Seg → Option (List Seg)
  | [], _, _, acc => some acc
  | (offset, length) :: toks, pos, remaining, acc =>
    let (pos, remaining) := if offset < pos then (0, blocks) else (pos, remaining)
    let r := walkBlocks offset length remaining pos acc
    if r.2.2.isEmpty ∧ r.2.1 < offset + length then none
    else loadTokens blocks toks r.2.1 r.2.2 r.1

/-- The same loop keeping the segments of every token apart, labelled with the token's file name
(several files share the blocks of one stream; `pos`/`segIdx` carry over from token to token). -/
def loadTokensN {ι : Type} (blocks : List (Nat × Nat)) :
    List (Nat × Nat × ι) → Nat → List (Nat × Nat) → List (ι × List Seg) → Option (List (ι × List Seg))
  | [], _, _, acc => some acc
  | (offset, length, name) :: toks, pos, remaining, acc =>
    let (pos, remaining) := if offset < pos then (0, blocks) else (pos, remaining)
    let r := walkBlocks offset length remaining pos []
    if r.2.2.isEmpty ∧ r.2.1 < offset + length then none
    else loadTokensN blocks toks r.2.1 r.2.2 (acc ++ [(name, r.1)])

/-- appendSegment on the file node with that path (created on first use) -/
def addToFile {ι : Type} [BEq ι] (files : List (ι × List Seg)) (path : ι) (segs : List Seg) : List (ι × List Seg) :=
  if files.any (fun f => f.1 == path) then
    files.map (fun f => if f.1 == path then (f.1, f.2 ++ segs) else f)
  else files ++ [(path, segs)]

/-- loadManifest over several streams: each stream has its own block list (index into the case's
blocks, size from the locator) and file tokens whose names are already joined with the stream's
directory. `none` = the manifest is rejected. -/
def loadManifestN {ι : Type} [BEq ι] :
    List (List (Nat × Nat) × List (Nat × Nat × ι)) → List (ι × List Seg) → Option (List (ι × List Seg))
  | [], files => some files
  | (blocks, toks) :: rest, files =>
    match loadTokensN blocks toks 0 blocks [] with
    | none => none
    | some perTok => loadManifestN rest (perTok.foldl (fun fs t => addToFile fs t.1 t.2) files)

/-- filenodePtr. `stale` = `repacked` differs from the filenode's (set by Seek). -/
structure Ptr where
  off : Nat := 0
  idx : Nat := 0
  segOff : Nat := 0
  stale : Bool := false
deriving Repr, DecidableEq, Inhabited

def fileSize (segs : List Seg) : Nat := (segs.map (·.length)).sum

/-- the recomputation loop of filenode.seek (fs_collection.go:305-317) -/
def locate (target : Nat) : List Seg → Nat → Nat → Nat × Nat
  | [], _, idx => (idx, 0)
  | s :: rest, off, idx =>
    if off < target then
      if target < off + s.length then (idx, target - off) else locate target rest (off + s.length) (idx + 1)
    else (idx, 0)

/-- filenode.seek. `none` = index out of range (cannot happen with an accurate pointer). -/
def seek (segs : List Seg) (p : Ptr) : Option Ptr :=
  if fileSize segs ≤ p.off then some { p with idx := segs.length, segOff := 0, stale := false }
  else if !p.stale then
    match segs[p.idx]? with
    | none => none
    | some s => if s.length ≤ p.segOff then some { p with idx := p.idx + 1, segOff := 0 } else some p
  else
    let r := locate p.off segs 0 0
    some { p with idx := r.1, segOff := r.2, stale := false }

/-- filenode.Read (fs_collection.go:361-385) over a per-segment reader. Returns data, error
(`none` = nil), new pointer. -/
def fileRead (segRead : Seg → Nat → Nat → Bytes × Option Err) (segs : List Seg) (p : Ptr) (plen : Nat) :
    Option (Bytes × Option Err × Ptr) :=
  match seek segs p with
  | none => none
  | some p =>
    match segs[p.idx]? with
    | none => some ([], some .eof, p)
    | some s =>
      let r := segRead s plen p.segOff
      let n := r.1.length
      if n = 0 then some (r.1, r.2, p) else
      let p := { p with off := p.off + n, segOff := p.segOff + n }
      if p.segOff = s.length then
        let p := { p with idx := p.idx + 1, segOff := 0 }
        let e := if p.idx < segs.length ∧ r.2 = some .eof then none else r.2
        some (r.1, e, p)
      else some (r.1, r.2, p)

/-- filehandle.Seek(off, io.SeekStart) -/
def fileSeek (p : Ptr) (off : Nat) : Ptr :=
  if off = p.off then p else { p with off := off, stale := true }

/-- `whence` of filehandle.Seek: io.SeekStart, io.SeekCurrent, io.SeekEnd -/
inductive Whence where
  | start | cur | fromEnd
deriving Repr, DecidableEq, Inhabited

/-- the offset filehandle.Seek computes (fs_filehandle.go:34-41) for a handle at `pos` of a file of `size` bytes -/
def seekTarget (size pos : Nat) (w : Whence) (off : Int) : Int :=
  match w with
  | .start => off
  | .cur => (pos : Int) + off
  | .fromEnd => (size : Int) + off

/-- filehandle.Seek(off, whence) (fs_filehandle.go:31-52): a negative target is ErrNegativeOffset (`none`)
and leaves the handle as it was; a target different from the current offset is stored and the pointer is
marked stale (`repacked = -1`), so that filenode.seek recomputes (segmentIdx, segmentOff) from the offset
on the next use — the cached pair is never adjusted incrementally, whatever the whence. Returns the new
pointer and the position reported to the caller. -/
def fileSeekW (size : Nat) (p : Ptr) (w : Whence) (off : Int) : Ptr × Option Nat :=
  let target := seekTarget size p.off w off
  if target < 0 then (p, none)
  else if target.toNat = p.off then (p, some p.off)
  else ({ p with off := target.toNat, stale := true }, some target.toNat)

end ArvVerif.C03
