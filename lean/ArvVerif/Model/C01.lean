/-
C01 model: keepstore never serves or accepts a block whose content mismatches its hash.

Code modelled (services/keepstore): handlers.go `handleGET`, `handlePUT`, `GetBlock`, `PutBlock`,
`CompareAndTouch`; collision.go `compareReaderWithBuf`, `collisionOrCorrupt`; unix_volume.go
`stat`, `Get`/`ReadBlock`, `Compare`, `Put`/`WriteBlock`, `Touch`; pipe_adapters.go `getWithPipe`;
volume.go `makeRRVolumeManager` (replication default, writables = mounts that are not read-only),
`AllReadable`, `AllWritable`, `NextWritable` — as sequential input/output behaviour.

The model is generic in the digest type `δ`, the content type `β`, the hash `hash : β → δ` and the
size `size : β → Nat` (`β = List UInt8`, `size = List.length` is the intended reading; the model
driver instantiates `β` with real byte strings and real MD5). A volume is whatever sits under the
block paths of a Directory volume: `files h` is the content of `<root>/<h[0:3]>/<h>`, if any —
intact, flipped, truncated, extended, another block, empty.
-/
namespace ArvVerif.C01

/-- keepstore.go `BlockSize` (tied to the source constant in Tie/C01.lean). -/
def blockSize : Nat := 67108864

/-- One Directory volume as seen through a `VolumeMount`. -/
structure Vol (δ β : Type) where
  /-- `ReadOnly` of the volume's configuration -/
  ro : Bool
  /-- `IsFull()`: the `full` symlink is fresh or the file system has < 64 MiB available -/
  full : Bool
  /-- configured `Replication` -/
  repl : Nat
  /-- content under the block path of each hash -/
  files : δ → Option β

section
variable {δ β : Type} [DecidableEq δ] [DecidableEq β]

/-- volume.go makeRRVolumeManager: `if repl < 1 { repl = 1 }`. -/
def effRepl (v : Vol δ β) : Nat := if v.repl < 1 then 1 else v.repl

/-- `files` with the block path of `h` replaced by `b` (rename of the temp file over it). -/
def update (files : δ → Option β) (h : δ) (b : β) : δ → Option β :=
  fun k => if k = h then some b else files k

/-! ### unix_volume.go -/

inductive StatResult where
  | notExist            -- os.Stat failed: translateError turns the *PathError into os.ErrNotExist
  | tooLong             -- size > BlockSize: TooLongError
  | ok (sz : Nat)
deriving DecidableEq, Repr

/-- `UnixVolume.stat` followed by `translateError`. -/
def volStat (size : β → Nat) (v : Vol δ β) (h : δ) : StatResult :=
  match v.files h with
  | none => .notExist
  | some b => if size b > blockSize then .tooLong else .ok (size b)

/-- What `vol.Get(ctx, hash, buf)` hands to GetBlock. -/
inductive ReadResult (β : Type) where
  | notFound            -- os.IsNotExist(err)
  | tooLong             -- any other error: logged, next volume
  | data (b : β)        -- err == nil, buf[:size] = b

/-- `UnixVolume.Get` = `getWithPipe` ∘ `ReadBlock`: stat, then the whole file is copied through the
pipe into the 64 MiB buffer. (`ReadBlock`'s short-read error is swallowed by `getWithPipe`; in a
sequential run the bytes read are the bytes stat saw, see `readFull` below.) -/
def volRead (size : β → Nat) (v : Vol δ β) (h : δ) : ReadResult β :=
  match v.files h with
  | none => .notFound
  | some b => if size b > blockSize then .tooLong else .data b

inductive CmpResult where
  | same                -- nil
  | notExist            -- os.IsNotExist(err)
  | tooLong             -- TooLongError from stat
  | collision           -- CollisionError
  | corrupt             -- DiskHashError
deriving DecidableEq, Repr

/-- `collisionOrCorrupt` once all data has been read: the stored content has the expected hash
(but differs from the data in hand) → collision, else corrupt. -/
def collisionOrCorrupt (hash : β → δ) (h : δ) (stored : β) : CmpResult :=
  if hash stored = h then .collision else .corrupt

/-- `UnixVolume.Compare`: stat, then `compareReaderWithBuf` (abstractly: equal content → nil,
otherwise `collisionOrCorrupt` of everything in the file; the chunk-level loop is
`compareReaderWithBuf` below and is proved equal to this). -/
def volCompare (hash : β → δ) (size : β → Nat) (v : Vol δ β) (h : δ) (body : β) : CmpResult :=
  match v.files h with
  | none => .notExist
  | some f =>
    if size f > blockSize then .tooLong
    else if f = body then .same
    else collisionOrCorrupt hash h f

/-- `UnixVolume.Touch` on an existing block file: refused on a read-only volume, otherwise the
mtime (not part of this model, see C04) is updated. -/
def volTouch (v : Vol δ β) : Bool := !v.ro

inductive WriteResult where
  | ok | readOnly | full
deriving DecidableEq, Repr

/-- `UnixVolume.Put` = `putWithPipe` ∘ `WriteBlock`: MethodDisabledError on a read-only volume,
FullError on a full one, otherwise temp file + rename over the block path (one step here; its
atomicity is C02's subject). -/
def volWrite (v : Vol δ β) (h : δ) (body : β) : WriteResult × Vol δ β :=
  if v.ro then (.readOnly, v)
  else if v.full then (.full, v)
  else (.ok, { v with files := update v.files h body })

/-! ### volume.go RRVolumeManager -/

/-- `AllReadable()`: every mount, in mount order. -/
def allReadable (vols : List (Vol δ β)) : List (Vol δ β) := vols

/-- `AllWritable()`: the mounts that are not read-only, in mount order. -/
def allWritable (vols : List (Vol δ β)) : List (Vol δ β) := vols.filter (fun v => !v.ro)

/-- the `k`-th writable mount -/
def nthWritable : List (Vol δ β) → Nat → Option (Vol δ β)
  | [], _ => none
  | v :: rest, k =>
    if v.ro then nthWritable rest k
    else match k with
      | 0 => some v
      | k + 1 => nthWritable rest k

/-- the mount list with the `k`-th writable mount replaced by `v'` -/
def setNthWritable (v' : Vol δ β) : List (Vol δ β) → Nat → List (Vol δ β)
  | [], _ => []
  | v :: rest, k =>
    if v.ro then v :: setNthWritable v' rest k
    else match k with
      | 0 => v' :: rest
      | k + 1 => v :: setNthWritable v' rest k

/-- `NextWritable()` with counter value `rr` before the call: nothing (and no increment) without
writable mounts, else the counter is incremented and indexes the writables modulo their number.
(The counter is a uint32 in Go; wrap-around after 2^32 PUTs is not modelled.) -/
def nextWritable (vols : List (Vol δ β)) (rr : Nat) : Option Nat × Nat :=
  let n := (allWritable vols).length
  if n = 0 then (none, rr) else (some ((rr + 1) % n), rr + 1)

/-! ### handlers.go GetBlock / handleGET -/

inductive GetErr where
  | notFound            -- NotFoundError 404
  | diskHash            -- DiskHashError 500
deriving DecidableEq, Repr

inductive GetResult (β : Type) where
  | ok (b : β)
  | err (e : GetErr)

/-- The loop of `GetBlock` over what the volumes return, `e` = `errorToCaller` so far. A read
error moves on to the next volume; data is re-hashed: on a mismatch `errorToCaller` becomes
DiskHashError and the loop *continues*; the first match is returned. -/
def getLoop (hash : β → δ) (h : δ) : List (ReadResult β) → GetErr → GetResult β
  | [], e => .err e
  | .notFound :: rest, e => getLoop hash h rest e
  | .tooLong :: rest, e => getLoop hash h rest e
  | .data b :: rest, _ => if hash b = h then .ok b else getLoop hash h rest .diskHash

/-- `GetBlock`. -/
def getBlock (hash : β → δ) (size : β → Nat) (vols : List (Vol δ β)) (h : δ) : GetResult β :=
  getLoop hash h ((allReadable vols).map (fun v => volRead size v h)) .notFound

/-- The response of `handleGET` (signing off, no `+R` hint): status, Content-Length header, body. -/
structure GetResp (β : Type) where
  status : Nat
  contentLength : Option Nat
  body : Option β

def getErrStatus : GetErr → Nat
  | .notFound => 404
  | .diskHash => 500

def handleGet (hash : β → δ) (size : β → Nat) (vols : List (Vol δ β)) (h : δ) : GetResp β :=
  match getBlock hash size vols h with
  | .ok b => { status := 200, contentLength := some (size b), body := some b }
  | .err e => { status := getErrStatus e, contentLength := none, body := none }

/-- HEAD is routed to the same handler; the HTTP server drops the body and keeps the headers. -/
def handleHead (hash : β → δ) (size : β → Nat) (vols : List (Vol δ β)) (h : δ) : GetResp β :=
  { handleGet hash size vols h with body := none }

/-! ### handlers.go CompareAndTouch / PutBlock / handlePUT -/

inductive CatResult where
  | touched (repl : Nat)   -- Compare and Touch both worked
  | collision              -- CollisionError: stop
  | miss                   -- bestErr (NotFoundError or a Touch error)
deriving DecidableEq, Repr

/-- `CompareAndTouch` over `AllWritable()` (given the whole mount list; read-only mounts are not
looked at). -/
def compareAndTouch (hash : β → δ) (size : β → Nat) (h : δ) (body : β) : List (Vol δ β) → CatResult
  | [] => .miss
  | v :: rest =>
    if v.ro then compareAndTouch hash size h body rest
    else match volCompare hash size v h body with
      | .collision => .collision
      | .same => if volTouch v then .touched (effRepl v) else compareAndTouch hash size h body rest
      | _ => compareAndTouch hash size h body rest

inductive PutLoopResult (δ β : Type) where
  | ok (repl : Nat) (vols : List (Vol δ β))
  | allFull
  | failed                 -- some Put failed with an error other than FullError

/-- The `for _, vol := range writables` loop of `PutBlock` (given the whole mount list): the first
writable mount whose `Put` succeeds ends the loop. -/
def putLoop (h : δ) (body : β) : List (Vol δ β) → PutLoopResult δ β
  | [] => .allFull
  | v :: rest =>
    if v.ro then
      match putLoop h body rest with
      | .ok r vs => .ok r (v :: vs)
      | .allFull => .allFull
      | .failed => .failed
    else match volWrite v h body with
      | (.ok, v') => .ok (effRepl v) (v' :: rest)
      | (.full, _) =>
        match putLoop h body rest with
        | .ok r vs => .ok r (v :: vs)
        | .allFull => .allFull
        | .failed => .failed
      | (.readOnly, _) =>
        match putLoop h body rest with
        | .ok r vs => .ok r (v :: vs)
        | _ => .failed

inductive PutOutcome where
  | ok (repl : Nat)
  | requestHash            -- RequestHashError 422
  | collision              -- CollisionError 500
  | full                   -- FullError 503
  | generic                -- GenericError 500
deriving DecidableEq, Repr

/-- The tail of `PutBlock`: `writables := AllWritable()`, FullError without any, else the loop.
`c` is the counter value after `NextWritable`. -/
def putViaLoop (h : δ) (body : β) (vols : List (Vol δ β)) (c : Nat) : PutOutcome × List (Vol δ β) × Nat :=
  if (allWritable vols).length = 0 then (.full, vols, c)
  else match putLoop h body vols with
    | .ok r vs => (.ok r, vs, c)
    | .allFull => (.full, vols, c)
    | .failed => (.generic, vols, c)

/-- `PutBlock` after `CompareAndTouch` found nothing to touch: `Put` on `NextWritable()`; if that
fails (or there is none), every writable mount in order. -/
def putNew (h : δ) (body : β) (vols : List (Vol δ β)) (rr : Nat) : PutOutcome × List (Vol δ β) × Nat :=
  match nextWritable vols rr with
  | (none, c) => putViaLoop h body vols c
  | (some k, c) =>
    match nthWritable vols k with
    | none => putViaLoop h body vols c
    | some v =>
      match volWrite v h body with
      | (.ok, v') => (.ok (effRepl v), setNthWritable v' vols k, c)
      | _ => putViaLoop h body vols c

/-- `PutBlock` on mount list `vols` with round-robin counter `rr`: outcome, new mount list, new
counter. The MD5 of the body is compared with the requested hash before any volume is touched. -/
def putBlock (hash : β → δ) (size : β → Nat) (vols : List (Vol δ β)) (rr : Nat) (h : δ) (body : β) :
    PutOutcome × List (Vol δ β) × Nat :=
  if hash body ≠ h then (.requestHash, vols, rr)
  else match compareAndTouch hash size h body vols with
    | .touched r => (.ok r, vols, rr)
    | .collision => (.collision, vols, rr)
    | .miss => putNew h body vols rr

def putStatus : PutOutcome → Nat
  | .ok _ => 200
  | .requestHash => 422
  | .collision => 500
  | .full => 503
  | .generic => 500

/-- The response of `handlePUT`: status and the `X-Keep-Replicas-Stored` header. -/
structure PutResp where
  status : Nat
  replicas : Option Nat
deriving DecidableEq, Repr

/-- `handlePUT` (`clKnown` = the request carries a Content-Length): 411 without a length, 413 above
BlockSize, 503 without writable mounts — all before the body is looked at — then `PutBlock`. -/
def handlePut (hash : β → δ) (size : β → Nat) (vols : List (Vol δ β)) (rr : Nat) (h : δ) (body : β)
    (clKnown : Bool) : PutResp × List (Vol δ β) × Nat :=
  if !clKnown then ({ status := 411, replicas := none }, vols, rr)
  else if size body > blockSize then ({ status := 413, replicas := none }, vols, rr)
  else if (allWritable vols).length = 0 then ({ status := 503, replicas := none }, vols, rr)
  else
    let r := putBlock hash size vols rr h body
    match r.1 with
    | .ok n => ({ status := 200, replicas := some n }, r.2.1, r.2.2)
    | o => ({ status := putStatus o, replicas := none }, r.2.1, r.2.2)

/-! ### The environment of a request: buffer pool, client disconnect, short body

`handleGET`/`handlePUT` first wait for a buffer (`getBufferWithContext`: 503 if the client goes away
first), `GetBlock` looks at `ctx.Done()` after every volume read, `handlePUT` answers 500 if the body
is shorter than its Content-Length, `CompareAndTouch`/`PutBlock` look at `ctx.Err()` after every
volume operation (ErrClientDisconnect, 503). Where a disconnect is noticed is decided by the
environment; the model takes it as an input and the theorems hold for every value of it. -/

/-- Environment of a GET/HEAD. -/
structure GetEnv where
  /-- a buffer was obtained before the client went away -/
  bufOk : Bool
  /-- the client is found gone at the `ctx.Done()` check after the k-th volume read (0-based) -/
  goneAfter : Option Nat

/-- the undisturbed environment -/
def GetEnv.calm : GetEnv := { bufOk := true, goneAfter := none }

inductive GetResultE (β : Type) where
  | ok (b : β)
  | err (e : GetErr)
  | disconnected           -- ErrClientDisconnect 503

/-- `GetBlock`'s loop with the `ctx.Done()` check after each `vol.Get`. -/
def getLoopEnv (hash : β → δ) (h : δ) : List (ReadResult β) → GetErr → Option Nat → GetResultE β
  | [], e, _ => .err e
  | r :: rest, e, gone =>
    if gone = some 0 then .disconnected
    else
      let gone' := gone.map (fun k => k - 1)
      match r with
      | .notFound => getLoopEnv hash h rest e gone'
      | .tooLong => getLoopEnv hash h rest e gone'
      | .data b => if hash b = h then .ok b else getLoopEnv hash h rest .diskHash gone'

/-- `handleGET` in environment `env`. -/
def handleGetEnv (hash : β → δ) (size : β → Nat) (env : GetEnv) (vols : List (Vol δ β)) (h : δ) : GetResp β :=
  if !env.bufOk then { status := 503, contentLength := none, body := none }
  else match getLoopEnv hash h ((allReadable vols).map (fun v => volRead size v h)) .notFound env.goneAfter with
    | .ok b => { status := 200, contentLength := some (size b), body := some b }
    | .err e => { status := getErrStatus e, contentLength := none, body := none }
    | .disconnected => { status := 503, contentLength := none, body := none }

/-- Where a PUT finds its client gone. -/
inductive PutGone where
  | never
  /-- in or right after `CompareAndTouch`, before any `Put`: 503, nothing written -/
  | beforeWrite
  /-- during the `Put`: `putWithPipe` returns `ctx.Err()` without waiting for `WriteBlock`, which may
  (`landed`) or may not still replace the file; 503 either way -/
  | duringWrite (landed : Bool)
deriving DecidableEq, Repr

/-- Environment of a PUT. -/
structure PutEnv where
  bufOk : Bool
  /-- `io.ReadFull(req.Body, buf)` delivered Content-Length bytes -/
  bodyOk : Bool
  gone : PutGone

def PutEnv.calm : PutEnv := { bufOk := true, bodyOk := true, gone := .never }

/-- `handlePUT` in environment `env`: the early exits of `handlePut`, then 503 without a buffer,
500 on a short body, then `PutBlock` with the disconnect checks. A disconnect noticed while the
digest matches and nothing was touched yet gives 503; one noticed during the write gives 503 with
the write landed or not. A mismatching body is refused with 422 before `ctx` is looked at. -/
def handlePutEnv (hash : β → δ) (size : β → Nat) (env : PutEnv) (vols : List (Vol δ β)) (rr : Nat) (h : δ)
    (body : β) (clKnown : Bool) : PutResp × List (Vol δ β) × Nat :=
  if !clKnown then ({ status := 411, replicas := none }, vols, rr)
  else if size body > blockSize then ({ status := 413, replicas := none }, vols, rr)
  else if (allWritable vols).length = 0 then ({ status := 503, replicas := none }, vols, rr)
  else if !env.bufOk then ({ status := 503, replicas := none }, vols, rr)
  else if !env.bodyOk then ({ status := 500, replicas := none }, vols, rr)
  else match env.gone with
    | .never => handlePut hash size vols rr h body clKnown
    | .beforeWrite =>
      if hash body ≠ h then ({ status := 422, replicas := none }, vols, rr)
      else ({ status := 503, replicas := none }, vols, rr)
    | .duringWrite landed =>
      if hash body ≠ h then ({ status := 422, replicas := none }, vols, rr)
      else match compareAndTouch hash size h body vols with
        | .touched r => ({ status := 200, replicas := some r }, vols, rr)
        | .collision => ({ status := 500, replicas := none }, vols, rr)
        | .miss =>
          let r := putNew h body vols rr
          ({ status := 503, replicas := none }, if landed then r.2.1 else vols, r.2.2)

end

/-! ### Byte level: the read loop of collision.go and the bounded read of pipe_adapters.go -/

abbrev Bytes := List UInt8

section
variable {δ : Type} [DecidableEq δ]

/-- `collisionOrCorrupt(expectMD5, buf1, buf2, rdr)`: digest of `buf1 ++ buf2 ++` everything still
readable from `rdr` (given as the list of chunks its `Read` calls return). -/
def collisionOrCorruptBytes (hash : Bytes → δ) (h : δ) (buf1 buf2 : Bytes) (rest : List Bytes) : CmpResult :=
  if hash (buf1 ++ buf2 ++ rest.flatten) = h then .collision else .corrupt

/-- The loop of `compareReaderWithBuf(ctx, rdr, expect, hash)`: `cmp` is the part of `expect` not
yet matched, the reader is the list of chunks its successive `Read`s return (of any sizes — the
buffer is `min(1<<20, len(expect))` bytes and the pipe/file may return less), `[]` = EOF. -/
def compareReaderWithBuf (hash : Bytes → δ) (h : δ) (expect : Bytes) : Bytes → List Bytes → CmpResult
  | cmp, [] =>
    if cmp.length ≠ 0 then
      collisionOrCorruptBytes hash h (expect.take (expect.length - cmp.length)) [] []
    else .same
  | cmp, c :: rest =>
    if c.length > cmp.length ∨ cmp.take c.length ≠ c then
      collisionOrCorruptBytes hash h (expect.take (expect.length - cmp.length)) c rest
    else compareReaderWithBuf hash h expect (cmp.drop c.length) rest

/-- `io.ReadFull(piper, buf)` in `getWithPipe` with the EOF / ErrUnexpectedEOF outcome mapped to
success: at most `bufLen` bytes of whatever `ReadBlock` wrote into the pipe. -/
def readFull (bufLen : Nat) (stream : Bytes) : Bytes := stream.take bufLen

/-- how `br.ReadBlock(ctx, loc, pipew)` ends after writing its bytes into the pipe -/
inductive PipeEnd where
  | ok                   -- nil: pipe closed with EOF
  | unexpectedEOF        -- io.ErrUnexpectedEOF (ReadBlock's short-read verdict)
  | notExist             -- os.ErrNotExist
  | other                -- any other error
deriving DecidableEq, Repr

inductive PipeErr where
  | none | notExist | other
deriving DecidableEq, Repr

/-- `getWithPipe(ctx, loc, buf, br)` (ctx not done): `io.ReadFull(piper, buf)` takes `len(buf)` bytes
of what the block reader writes; if the writer ends first, its error is returned — except that EOF
and ErrUnexpectedEOF count as success. -/
def getWithPipeBytes (bufLen : Nat) (written : Bytes) (wend : PipeEnd) : Bytes × PipeErr :=
  if bufLen ≤ written.length then (readFull bufLen written, .none)
  else match wend with
    | .ok => (written, .none)
    | .unexpectedEOF => (written, .none)
    | .notExist => (written, .notExist)
    | .other => (written, .other)

end

end ArvVerif.C01
