/-
C13 — the heap model of memSegment with the RUNTIME's capacity choice as a parameter.

Model/C13_Cow.lean gives the copy made by `WriteAt` on a shared buffer,
`me.buf = append([]byte(nil), me.buf...)`, capacity = length. The Go runtime rounds the capacity of
that allocation up to a size class, and a later `Truncate` within the capacity then stays in place
where C13_Cow allocates. Both are fine for copy-on-write, but they differ observably (allocation
identity, `cap`), so for the differential run against the real memSegment (driver op `cow`) the
capacity of that one allocation is a parameter `acap : len ↦ cap` here; everything else is C13_Cow's
`step`. The copy-on-write theorem is proved for EVERY `acap` (Proofs/C13_CowRt.lean), the driver
instantiates it with Go's size-class table.
-/
import ArvVerif.Model.C13_Cow
namespace ArvVerif.C13.Cow

def stepRt (acap : Nat → Nat) (st : State) : Op → Option State
  | Op.writeAt i p off =>
    match st.segs[i]? with
    | none => none
    | some sg =>
      if off + p.length ≤ sg.len ∧ sg.flushing ≠ none then
        let cap' := if acap sg.len < sg.len then sg.len else acap sg.len
        let newbuf := copyAt (bufOf st sg) off p ++ zeros (cap' - sg.len)
        some { st with heap := st.heap ++ [newbuf],
                       segs := st.segs.set i { ptr := st.heap.length, len := sg.len, cap := cap', flushing := none } }
      else step st (Op.writeAt i p off)
  | op => step st op

def runRt (acap : Nat → Nat) : State → List Op → Option State
  | st, [] => some st
  | st, op :: ops =>
    match stepRt acap st op with
    | none => none
    | some st' => runRt acap st' ops

/-- the state the driver starts from: one empty memSegment (`&memSegment{}`: nil buffer) -/
def initRt : State := ⟨[[]], [⟨0, 0, 0, none⟩], []⟩

end ArvVerif.C13.Cow
