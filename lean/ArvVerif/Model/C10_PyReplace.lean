/-
C10 — model of `replace_range` (sdk/python/arvados/_ranges.py:144-235), the third function of the Python range
mapper: it overwrites the range `[new_range_start, new_range_start+new_range_size)` of a file's segment list
with a new segment, in place. The Python list surgery (`data_locators[i] = …`, `insert`, `del`, `i -= 1`) is
modelled functionally on the part of the list from index `i` on; the part before `i` is never touched.
Ranges here carry `segment_offset` (a file's segments start inside their blocks); `locators_and_ranges` with
`segment_offset` is `pyLrLoopO` (the stream-level model `pyLrLoop` of Model/C10_Py.lean is the case 0).
-/
import ArvVerif.Model.C10_Py
namespace ArvVerif.C10

/-- `_ranges.Range(locator, range_start, range_size, segment_offset)` -/
structure PyR where
  loc : Bytes
  start : Nat
  size : Nat
  off : Nat
deriving DecidableEq, Repr

def PyR.toRange (r : PyR) : PyRange := ⟨r.loc, r.start, r.size⟩

/-- the `while i < len(data_locators)` loop of `replace_range` on `data_locators[i:]`; `new` is
`Range(new_locator, new_range_start, new_range_size, new_segment_offset)`, `ne = new_range_end` -/
def rrLoop (ns ne : Nat) (new : PyR) : List PyR → List PyR
  | [] => []
  | dl :: tail =>
    let oss := dl.start
    let ose := dl.start + dl.size
    if ne ≤ oss then dl :: tail                                       -- break
    else if oss ≤ ns ∧ ne ≤ ose then                                  -- starts and ends in this segment: up to 3 pieces
      (if ns - oss > 0 then [⟨dl.loc, oss, ns - oss, dl.off⟩, new] else [new]) ++
        (if ose - ne > 0 then [⟨dl.loc, ne, ose - ne, dl.off + (ns - oss) + (ne - ns)⟩] else []) ++ tail
    else if oss ≤ ns ∧ ne > ose then                                  -- starts in this segment: 2 pieces, go on
      ⟨dl.loc, oss, ns - oss, dl.off⟩ :: new :: rrLoop ns ne new tail
    else if ns < oss ∧ ne ≥ ose then rrLoop ns ne new tail            -- covered entirely: delete
    else ⟨dl.loc, ne, ose - ne, dl.off + (ne - oss)⟩ :: tail          -- ends in this segment: shrink from the left

/-- `replace_range(data_locators, new_range_start, new_range_size, new_locator, new_segment_offset)`:
the list after the call; `Res.panic` = IndexError out of `first_block` (unreachable on a non-empty list) -/
def pyReplaceRange (rs : List PyR) (ns nsize : Nat) (nl : Bytes) (no : Nat) : Res (List PyR) :=
  let new : PyR := ⟨nl, ns, nsize, no⟩
  if nsize = 0 then .ok rs else
  match rs.getLast? with
  | none => .ok [new]
  | some last =>
    if last.start + last.size = ns then
      if last.loc = nl ∧ last.off + last.size = no then .ok (rs.dropLast ++ [⟨last.loc, last.start, last.size + nsize, last.off⟩])
      else .ok (rs ++ [new])
    else
      match pyFirstBlock (rs.map PyR.toRange) ns with
      | .found i => .ok (rs.take i ++ rrLoop ns (ns + nsize) new (rs.drop i))
      | .notFound => .ok rs
      | _ => .panic

/-- the loop of `locators_and_ranges` with `segment_offset` (file-level segment lists) -/
def pyLrLoopO (start size : Nat) : List PyR → List PyLR
  | [] => []
  | dl :: rest =>
    let bs := dl.start
    let be := dl.start + dl.size
    let e := start + size
    if e ≤ bs then []
    else if start ≥ bs ∧ e ≤ be then ⟨dl.loc, dl.size, (dl.off : Int) + ((start : Int) - bs), size⟩ :: pyLrLoopO start size rest
    else if start ≥ bs ∧ e > be then ⟨dl.loc, dl.size, (dl.off : Int) + ((start : Int) - bs), (be : Int) - start⟩ :: pyLrLoopO start size rest
    else if start < bs ∧ e > be then ⟨dl.loc, dl.size, dl.off, dl.size⟩ :: pyLrLoopO start size rest
    else ⟨dl.loc, dl.size, dl.off, (e : Int) - bs⟩ :: pyLrLoopO start size rest

def pyLocatorsAndRangesO (rs : List PyR) (start size : Nat) : Res (List PyLR) :=
  if size = 0 then .ok []
  else match pyFirstBlock (rs.map PyR.toRange) start with
    | .found i => .ok (pyLrLoopO start size (rs.drop i))
    | .notFound => .ok []
    | _ => .panic

/-- where the byte at file position `p` lives: (locator, offset inside the block) of the first range holding `p` -/
def pyrAt : List PyR → Nat → Option (Bytes × Nat)
  | [], _ => none
  | r :: rest, p => if r.start ≤ p ∧ p < r.start + r.size then some (r.loc, r.off + (p - r.start)) else pyrAt rest p

end ArvVerif.C10
