/-
C06(c) model: services/keep-balance/balance.go `Balancer.Run` as its ordered guard list.

`runSkeleton` is the control skeleton of `Run` as the fact extractor prints it (kind
`skeleton_in_func`; Tie/C06 proves the regenerated fact equal to this literal).  `stepsOf` turns a
skeleton into the list of calls made at the function's own level, each with
  * `canFail`  — the call's result is assigned to `err`,
  * `guarded`  — the next statement is `if err != nil { … return }`,
  * `conds`    — the enclosing `if`/`for` conditions (innermost first; `!c` = else branch).
`exec` runs such a list under an oracle saying which calls fail; the abort theorems are proved for
every list satisfying the decidable predicate `wellGuarded`, and `wellGuarded runSteps` is decided.

Also: `getCurrentStateFails` (the errs-channel protocol of `GetCurrentState`: the result is non-nil
iff the discovery document, any index worker, the collection scan or the collection processor
failed) and `checkSanityLate`.
-/
namespace ArvVerif.C06

abbrev Str := List Char

structure Step where
  name : Str
  canFail : Bool
  guarded : Bool
  conds : List Str
deriving Repr, DecidableEq

/-- Skeleton of `Run` at the pinned commit (documentation and non-vacuity witness; the tie works on the
regenerated fact directly). -/
def runSkeleton : List String :=
  ["defer",
   "call bal.time(\"sweep\", \"wall clock time to run one full sweep\")",
   "call bal.time",
   "defer",
   "if bal.LostBlocksFile != \"\" {",
   "call os.OpenFile => lbFile,err",
   "if err != nil {",
   "return",
   "}",
   "defer",
   "call lbFile.Close",
   "call syscall.Flock => err",
   "call lbFile.Fd",
   "if err != nil {",
   "return",
   "}",
   "defer",
   "func {",
   "if lbFile != nil {",
   "call os.Remove",
   "}",
   "}",
   "} else {",
   "}",
   "call bal.DiscoverKeepServices => err",
   "if err != nil {",
   "return",
   "}",
   "for {",
   "call srv.discoverMounts => err",
   "if err != nil {",
   "return",
   "}",
   "}",
   "call bal.cleanupMounts",
   "call bal.CheckSanityEarly => err",
   "if err != nil {",
   "return",
   "}",
   "call bal.rendezvousState => rs",
   "if runOptions.CommitTrash && rs != runOptions.SafeRendezvousState {",
   "if runOptions.SafeRendezvousState != \"\" {",
   "call bal.logf",
   "}",
   "call bal.logf",
   "call bal.ClearTrashLists => err",
   "if err != nil {",
   "return",
   "}",
   "}",
   "call bal.GetCurrentState => err",
   "if err != nil {",
   "return",
   "}",
   "call bal.ComputeChangeSets",
   "call bal.PrintStatistics",
   "call bal.CheckSanityLate => err",
   "if err != nil {",
   "return",
   "}",
   "if lbFile != nil {",
   "call lbFile.Sync => err",
   "if err != nil {",
   "return",
   "}",
   "call os.Rename => err",
   "if err != nil {",
   "return",
   "}",
   "}",
   "if runOptions.CommitPulls {",
   "call bal.CommitPulls => err",
   "if err != nil {",
   "return",
   "}",
   "}",
   "if runOptions.CommitTrash {",
   "call bal.CommitTrash => err",
   "}",
   "return"]

/-! ### Skeleton → guard list -/

def stripPrefix (p : List Char) (s : List Char) : Option (List Char) :=
  match p, s with
  | [], s => some s
  | _ :: _, [] => none
  | a :: p, b :: s => if a = b then stripPrefix p s else none

/-- split at the first occurrence of `" => "` -/
def splitArrow : List Char → List Char → (List Char × Option (List Char))
  | [], acc => (acc.reverse, none)
  | c :: rest, acc =>
    match stripPrefix [' ', '=', '>', ' '] (c :: rest) with
    | some lhs => (acc.reverse, some lhs)
    | none => splitArrow rest (c :: acc)

def endsWithBrace (t : List Char) : Bool := t.getLast? == some '{'

/-- split at commas -/
def splitComma : List Char → List Char → List (List Char)
  | [], acc => [acc.reverse]
  | c :: rest, acc => if c = ',' then acc.reverse :: splitComma rest [] else splitComma rest (c :: acc)

/-- `err` is among the comma-separated left-hand sides -/
def lhsHasErr (lhs : List Char) : Bool := (splitComma lhs []).any (· == ['e', 'r', 'r'])

inductive TokKind
  | call (name : Str) (assignsErr : Bool)
  | ifOpen (cond : Str)
  | forOpen
  | funcOpen
  | otherOpen
  | elseOpen
  | close
  | ret
  | other
deriving Repr, DecidableEq

def classify (tok : String) : TokKind :=
  let cs := tok.toList
  match stripPrefix ['c', 'a', 'l', 'l', ' '] cs with
  | some r =>
    let (n, lhs) := splitArrow r []
    .call n (match lhs with | some l => lhsHasErr l | none => false)
  | none =>
    if cs = ['}'] then .close
    else if cs = ['}', ' ', 'e', 'l', 's', 'e', ' ', '{'] then .elseOpen
    else if cs = ['r', 'e', 't', 'u', 'r', 'n'] then .ret
    else if cs = ['f', 'o', 'r', ' ', '{'] then .forOpen
    else if cs = ['f', 'u', 'n', 'c', ' ', '{'] then .funcOpen
    else match stripPrefix ['i', 'f', ' '] cs with
      | some r => if endsWithBrace r then .ifOpen (r.dropLast.dropLast) else .other
      | none => if endsWithBrace cs then .otherOpen else .other

def errNotNil : Str := ['e', 'r', 'r', ' ', '!', '=', ' ', 'n', 'i', 'l']

/-- The statement after a call is `if err != nil {` whose body is (calls, then) `return`.
Plain calls directly after the call token are its own argument calls. -/
def guardFollows : List TokKind → Bool
  | .call _ false :: rest => guardFollows rest
  | .ifOpen c :: rest => if c = errNotNil then retFollows rest else false
  | _ => false
where
  retFollows : List TokKind → Bool
    | .call _ _ :: rest => retFollows rest
    | .ret :: _ => true
    | _ => false

/-- Walk the skeleton. `stack` holds one entry per open brace: `some c` for a condition frame,
`none` for a function-literal frame (calls inside function literals are not steps of `Run`). -/
def stepsGo : List TokKind → List (Option Str) → List Step → List Step
  | [], _, acc => acc.reverse
  | t :: rest, stack, acc =>
    match t with
    | .call n e =>
      if stack.any (· == none) then stepsGo rest stack acc
      else stepsGo rest stack (⟨n, e, e && guardFollows rest, stack.filterMap id⟩ :: acc)
    | .ifOpen c => stepsGo rest (some c :: stack) acc
    | .forOpen => stepsGo rest (some "for".toList :: stack) acc
    | .otherOpen => stepsGo rest (some "block".toList :: stack) acc
    | .funcOpen => stepsGo rest (none :: stack) acc
    | .elseOpen =>
      match stack with
      | some c :: st => stepsGo rest (some ('!' :: c) :: st) acc
      | st => stepsGo rest st acc
    | .close => stepsGo rest stack.tail acc
    | _ => stepsGo rest stack acc

def stepsOf (skel : List String) : List Step := stepsGo (skel.map classify) [] []

/-- The guard list of `Run` (= `stepsOf runSkeleton`, checked in Props/C06). -/
def runSteps : List Step :=
  [⟨"bal.time(\"sweep\", \"wall clock time to run one full sweep\")".toList, false, false, []⟩,
   ⟨"bal.time".toList, false, false, []⟩,
   ⟨"os.OpenFile".toList, true, true, ["bal.LostBlocksFile != \"\"".toList]⟩,
   ⟨"lbFile.Close".toList, false, false, ["bal.LostBlocksFile != \"\"".toList]⟩,
   ⟨"syscall.Flock".toList, true, true, ["bal.LostBlocksFile != \"\"".toList]⟩,
   ⟨"lbFile.Fd".toList, false, false, ["bal.LostBlocksFile != \"\"".toList]⟩,
   ⟨"bal.DiscoverKeepServices".toList, true, true, []⟩,
   ⟨"srv.discoverMounts".toList, true, true, ["for".toList]⟩,
   ⟨"bal.cleanupMounts".toList, false, false, []⟩,
   ⟨"bal.CheckSanityEarly".toList, true, true, []⟩,
   ⟨"bal.rendezvousState".toList, false, false, []⟩,
   ⟨"bal.logf".toList, false, false, ["runOptions.SafeRendezvousState != \"\"".toList,
      "runOptions.CommitTrash && rs != runOptions.SafeRendezvousState".toList]⟩,
   ⟨"bal.logf".toList, false, false, ["runOptions.CommitTrash && rs != runOptions.SafeRendezvousState".toList]⟩,
   ⟨"bal.ClearTrashLists".toList, true, true, ["runOptions.CommitTrash && rs != runOptions.SafeRendezvousState".toList]⟩,
   ⟨"bal.GetCurrentState".toList, true, true, []⟩,
   ⟨"bal.ComputeChangeSets".toList, false, false, []⟩,
   ⟨"bal.PrintStatistics".toList, false, false, []⟩,
   ⟨"bal.CheckSanityLate".toList, true, true, []⟩,
   ⟨"lbFile.Sync".toList, true, true, ["lbFile != nil".toList]⟩,
   ⟨"os.Rename".toList, true, true, ["lbFile != nil".toList]⟩,
   ⟨"bal.CommitPulls".toList, true, true, ["runOptions.CommitPulls".toList]⟩,
   ⟨"bal.CommitTrash".toList, true, false, ["runOptions.CommitTrash".toList]⟩]

/-! ### Executing a guard list -/

def isCommit (name : Str) : Bool := name == "bal.CommitPulls".toList || name == "bal.CommitTrash".toList

/-- Result of executing a guard list: the calls made, in order, each with "did it fail", and the
value of `err` at the return. -/
structure Exec where
  calls : List (Str × Bool)
  err : Bool
deriving Repr, DecidableEq

/-- `runs i` = the i-th step's enclosing conditions hold (it is reached unless the function has
returned); `fails i` = the i-th step's call returns an error. -/
def exec (runs fails : Nat → Bool) : List Step → Nat → Bool → Exec
  | [], _, err => ⟨[], err⟩
  | st :: rest, i, err =>
    if !runs i then exec runs fails rest (i + 1) err
    else
      let failed := st.canFail && fails i
      let err' := if st.canFail then failed else err
      if failed && st.guarded then ⟨[(st.name, true)], true⟩
      else
        let r := exec runs fails rest (i + 1) err'
        ⟨(st.name, failed) :: r.calls, r.err⟩

/-- No call that can fail is left unguarded while a commit call can still follow, and a call that
can fail and is unguarded is the last call that can fail (so its error is what `Run` returns). -/
def wellGuarded : List Step → Bool
  | [] => true
  | st :: rest =>
    (!st.canFail || st.guarded || rest.all (fun r => !isCommit r.name && !r.canFail)) && wellGuarded rest

/-- position of the first step with this name -/
def stepIndex (steps : List Step) (name : Str) : Option Nat :=
  (steps.map (·.name)).idxOf? name

/-! ### Options → which conditions hold (used by the executable driver) -/

structure RunOpts where
  lostBlocks : Bool      -- bal.LostBlocksFile != ""
  clearTrash : Bool      -- runOptions.CommitTrash && rs != runOptions.SafeRendezvousState
  safeNonEmpty : Bool    -- runOptions.SafeRendezvousState != ""
  commitPulls : Bool
  commitTrash : Bool

/-- `none` = a condition this model does not know (the driver answers `bad-op`). -/
def condHolds (o : RunOpts) (c : Str) : Option Bool :=
  if c = "for".toList then some true
  else if c = "bal.LostBlocksFile != \"\"".toList then some o.lostBlocks
  else if c = "lbFile != nil".toList then some o.lostBlocks
  else if c = "runOptions.CommitTrash && rs != runOptions.SafeRendezvousState".toList then some o.clearTrash
  else if c = "runOptions.SafeRendezvousState != \"\"".toList then some o.safeNonEmpty
  else if c = "runOptions.CommitPulls".toList then some o.commitPulls
  else if c = "runOptions.CommitTrash".toList then some o.commitTrash
  else none

def stepRuns (o : RunOpts) (st : Step) : Option Bool :=
  st.conds.foldl (fun acc c => match acc, condHolds o c with
    | some a, some b => some (a && b)
    | _, _ => none) (some true)

/-! ### GetCurrentState and CheckSanityLate -/

/-- `GetCurrentState` returns a non-nil error iff fetching the discovery document fails or any of
its workers (one index fetch per distinct device, the collection scan, the collection processor)
put an error on the `errs` channel. -/
def getCurrentStateFails (ddFails : Bool) (indexFails : List Bool) (scanFails procFails : Bool) : Bool :=
  ddFails || indexFails.any id || scanFails || procFails

/-- `CheckSanityLate` returns an error? -/
def checkSanityLateFails (deferredErrors : Bool) (collScanned : Nat) (anyDesired : Bool)
    (defaultReplication : Int) : Bool :=
  deferredErrors || collScanned == 0 || !anyDesired || decide (defaultReplication < 1)

end ArvVerif.C06
