/-
C02 model: a keepstore Directory volume as a finite map  path → (bytes, mtime)  and the filesystem
micro-steps of services/keepstore/unix_volume.go (`WriteBlock`, `Touch`, `Trash`, `Untrash`,
`EmptyTrash`), the name filters of `IndexTo` / `EmptyTrash` / `Untrash`, `putWithPipe`'s contract
towards the writer (pipe_adapters.go) and the order "PutBlock returned nil, then reply" of
`handlePUT` / `PutBlock` (handlers.go).

An operation is an ordered list of events `Ev`; an event is one filesystem call (with its effect on
the map when it succeeds, `Step.nop` when it fails or has no effect on the map) and, when the
instrumented copy of unix_volume.go has a `verifPoint` in front of that call, the point's position
in the function's call skeleton.  A *crash* (process death) is truncation of the event list at any
prefix: `run fs (evs.take k)`.  Nothing but the map survives a crash.

Not modelled (trusted): power loss / missing fsync, NFS semantics, atomicity of rename(2) itself,
concurrent operations on the same volume (C04 deals with races).
-/
import ArvVerif.Base.Bytes
namespace ArvVerif.C02

abbrev Name := List Char

structure Path where
  dir : Name
  name : Name
deriving DecidableEq, Repr

structure File where
  data : Bytes
  mtime : Nat
deriving DecidableEq, Repr

/-- The volume: existing block directories and the files in them (association list; `set` and
`erase` keep at most one entry per path). -/
structure FS where
  dirs : List Name
  files : List (Path × File)
deriving Repr

def FS.empty : FS := ⟨[], []⟩

def lookupP (p : Path) : List (Path × File) → Option File
  | [] => none
  | (q, f) :: rest => if q = p then some f else lookupP p rest

def FS.get (fs : FS) (p : Path) : Option File := lookupP p fs.files

def FS.erase (fs : FS) (p : Path) : FS :=
  { fs with files := fs.files.filter (fun e => !decide (e.1 = p)) }

def FS.set (fs : FS) (p : Path) (f : File) : FS :=
  { fs with files := (p, f) :: fs.files.filter (fun e => !decide (e.1 = p)) }

/-! ### Names -/

def isHex (c : Char) : Bool := ('0' ≤ c && c ≤ '9') || ('a' ≤ c && c ≤ 'f')
def isDigit (c : Char) : Bool := '0' ≤ c && c ≤ '9'

/-- `blockFileRe = ^[0-9a-f]{32}$` — the only names `IndexTo` lists; the router only accepts such
hashes, and `blockPath` puts them at `<hash[0:3]>/<hash>`. -/
def isBlockName (n : Name) : Bool := n.length == 32 && n.all isHex

/-- `blockDirRe = ^[0-9a-f]+$` — directories `IndexTo` and `EmptyTrash` descend into. -/
def isBlockDir (d : Name) : Bool := !d.isEmpty && d.all isHex

def trashInfix : Name := ['.', 't', 'r', 'a', 's', 'h', '.']

/-- What `Untrash(loc)` accepts for `loc = n.take 32`: `strings.HasPrefix(name, loc + ".trash.")`. -/
def isTrashLike (n : Name) : Bool :=
  isBlockName (n.take 32) && (n.drop 32).take 7 == trashInfix

/-- `unixTrashLocRegexp = /([0-9a-f]{32})\.trash\.(\d+)$` applied to a path whose last component
is `n` (the pattern contains no further `/`, so the match is the whole last component). -/
def isTrashName (n : Name) : Bool :=
  isTrashLike n && !(n.drop 39).isEmpty && (n.drop 39).all isDigit

def blockDir (h : Name) : Name := h.take 3
def blockPath (h : Name) : Path := ⟨blockDir h, h⟩

/-- `ioutil.TempFile(bdir, "tmp"+loc)`: prefix plus a random decimal suffix. -/
def tmpPrefix : Name := ['t', 'm', 'p']
def tmpName (h sfx : Name) : Name := tmpPrefix ++ h ++ sfx
def tmpPath (h sfx : Name) : Path := ⟨blockDir h, tmpName h sfx⟩

def natDigits (n : Nat) : Name := (toString n).toList
def trashName (h : Name) (deadline : Nat) : Name := h ++ trashInfix ++ natDigits deadline
def trashPath (h : Name) (deadline : Nat) : Path := ⟨blockDir h, trashName h deadline⟩

def digitsVal (ds : Name) : Nat := ds.foldl (fun acc c => acc * 10 + (c.toNat - '0'.toNat)) 0

/-! ### Micro-steps -/

inductive Step where
  | nop                                  -- a call with no effect on the map (or a failed call)
  | mkdirAll (d : Name)
  | createTemp (p : Path) (t : Nat)      -- O_EXCL create of an empty file
  | append (p : Path) (chunk : Bytes)    -- write(2) at the end of an open file
  | chtimes (p : Path) (t : Nat)
  | rename (src dst : Path)
  | remove (p : Path)
deriving Repr

def Step.apply (fs : FS) : Step → FS
  | .nop => fs
  | .mkdirAll d => if d ∈ fs.dirs then fs else { fs with dirs := d :: fs.dirs }
  | .createTemp p t => fs.set p ⟨[], t⟩
  | .append p c =>
    match fs.get p with
    | some f => fs.set p ⟨f.data ++ c, f.mtime⟩
    | none => fs
  | .chtimes p t =>
    match fs.get p with
    | some f => fs.set p ⟨f.data, t⟩
    | none => fs
  | .rename src dst =>
    match fs.get src with
    | some f => (fs.erase src).set dst f
    | none => fs
  | .remove p => fs.erase p

inductive Fn where
  | writeBlock | touch | trash | untrash | emptyTrash | getFunc | stat
deriving DecidableEq, Repr

/-- The FS-call skeletons (rendered callees in source order) of the five functions, as numbered by
the instrumenter; `Tie/C02.lean` equates them with the regenerated source facts. -/
def skeleton : Fn → List String
  | .writeBlock => ["os.MkdirAll", "v.os.TempFile", "io.Copy", "tmpfile.Close", "v.os.Remove",
                    "tmpfile.Close", "v.os.Remove", "os.Chtimes", "v.os.Remove", "v.os.OpenFile",
                    "v.lockfile", "v.os.Remove", "v.unlockfile", "v.os.Rename", "v.os.Remove"]
  | .touch => ["v.os.OpenFile", "v.lockfile", "v.unlockfile", "os.Chtimes"]
  | .trash => ["v.os.OpenFile", "v.lockfile", "v.unlockfile", "v.os.Stat", "v.os.Remove", "v.os.Rename"]
  | .untrash => ["ioutil.ReadDir", "v.os.Rename", "os.Chtimes"]
  | .emptyTrash => ["v.os.Remove"]
  | .getFunc => ["v.os.Open", "ioutil.NopCloser"]
  | .stat => ["v.os.Stat"]

def Fn.goName : Fn → String
  | .writeBlock => "WriteBlock" | .touch => "Touch" | .trash => "Trash"
  | .untrash => "Untrash" | .emptyTrash => "EmptyTrash"
  | .getFunc => "getFunc" | .stat => "stat"

structure Point where
  fn : Fn
  idx : Nat
deriving DecidableEq, Repr

/-- The id the instrumenter gives the point: `<Func>:<callee>:<k>`. -/
def Point.id (p : Point) : String :=
  p.fn.goName ++ ":" ++ (skeleton p.fn).getD p.idx "?" ++ ":" ++ toString p.idx

structure Ev where
  pt : Option Point
  eff : Step
deriving Repr

def run (fs : FS) (evs : List Ev) : FS := evs.foldl (fun s e => e.eff.apply s) fs

/-! ### WriteBlock -/

inductive ReaderEnd where
  | eof | err
deriving DecidableEq, Repr

/-- First failing system call of a `WriteBlock` run (`write i n`: the write of chunk `i` stores only
its first `n` bytes and then fails). -/
inductive WBFail where
  | none | mkdir | createTemp | write (i n : Nat) | close | chtimes | lockOld | rename
deriving DecidableEq, Repr

structure WBIn where
  h : Name
  sfx : Name
  chunks : List Bytes      -- what the reader handed over, in `Read`-sized pieces
  rend : ReaderEnd         -- how the reader ended after these chunks
  fail : WBFail
  now : Nat
  existing : Bool          -- a file exists at the block path when WriteBlock opens it to take its flock
deriving Repr

def wbPt (i : Nat) : Option Point := some ⟨.writeBlock, i⟩

def appends (p : Path) (cs : List Bytes) : List Ev := cs.map (fun c => ⟨none, .append p c⟩)

/-- mkdirAll, createTemp, the io.Copy point -/
def wbPre (w : WBIn) : List Ev :=
  [⟨wbPt 0, .mkdirAll (blockDir w.h)⟩, ⟨wbPt 1, .createTemp (tmpPath w.h w.sfx) w.now⟩, ⟨wbPt 2, .nop⟩]

/-- close, chtimes, then (fix 7e105eb) open the file that is about to be replaced and, if there is
one, take its flock (released by the deferred unlock or by process death); none of these changes
the map. -/
def wbTail (w : WBIn) : List Ev :=
  [⟨wbPt 5, .nop⟩, ⟨wbPt 7, .chtimes (tmpPath w.h w.sfx) w.now⟩, ⟨wbPt 9, .nop⟩] ++
    (if w.existing then [⟨wbPt 10, .nop⟩, ⟨wbPt 12, .nop⟩] else [])

/-- The events of one `WriteBlock` call and whether it returned nil. -/
def writeBlockEvs (w : WBIn) : List Ev × Bool :=
  let tmp := tmpPath w.h w.sfx
  let copied := wbPre w ++ appends tmp w.chunks
  match w.fail, w.rend with
  | .mkdir, _ => ([⟨wbPt 0, .nop⟩], false)
  | .createTemp, _ => ([⟨wbPt 0, .mkdirAll (blockDir w.h)⟩, ⟨wbPt 1, .nop⟩], false)
  | .write i n, _ =>
    (wbPre w ++ appends tmp (w.chunks.take i) ++
      [⟨none, .append tmp ((w.chunks.getD i []).take n)⟩, ⟨wbPt 3, .nop⟩, ⟨wbPt 4, .remove tmp⟩], false)
  | .close, .eof => (copied ++ [⟨wbPt 5, .nop⟩, ⟨wbPt 6, .remove tmp⟩], false)
  | .chtimes, .eof => (copied ++ [⟨wbPt 5, .nop⟩, ⟨wbPt 7, .nop⟩, ⟨wbPt 8, .remove tmp⟩], false)
  | .lockOld, .eof =>
    (copied ++ [⟨wbPt 5, .nop⟩, ⟨wbPt 7, .chtimes tmp w.now⟩, ⟨wbPt 9, .nop⟩, ⟨wbPt 10, .nop⟩, ⟨wbPt 11, .remove tmp⟩], false)
  | .rename, .eof => (copied ++ wbTail w ++ [⟨wbPt 13, .nop⟩, ⟨wbPt 14, .remove tmp⟩], false)
  | .none, .eof => (copied ++ wbTail w ++ [⟨wbPt 13, .rename tmp (blockPath w.h)⟩], true)
  | _, .err => (copied ++ [⟨wbPt 3, .nop⟩, ⟨wbPt 4, .remove tmp⟩], false)

/-! ### Touch, Trash, Untrash, EmptyTrash -/

structure Cfg where
  now : Nat          -- wall clock of the process
  ttl : Nat          -- Collections.BlobSigningTTL
  lifetime : Nat     -- Collections.BlobTrashLifetime (0: delete at once)
deriving Repr

inductive Res where
  | ok | notFound | error
deriving DecidableEq, Repr

def tPt (i : Nat) : Option Point := some ⟨.touch, i⟩
def trPt (i : Nat) : Option Point := some ⟨.trash, i⟩
def unPt (i : Nat) : Option Point := some ⟨.untrash, i⟩

/-- `Touch(h)`; `fail = some j`: call number `j` (0 open, 1 flock, 3 chtimes) fails. -/
def touchEvs (fs : FS) (h : Name) (now : Nat) (fail : Option Nat) : List Ev × Res :=
  match fs.get (blockPath h) with
  | none => ([⟨tPt 0, .nop⟩], .notFound)
  | some _ =>
    match fail with
    | some 0 => ([⟨tPt 0, .nop⟩], .error)
    | some 1 => ([⟨tPt 0, .nop⟩, ⟨tPt 1, .nop⟩], .error)
    | some _ => ([⟨tPt 0, .nop⟩, ⟨tPt 1, .nop⟩, ⟨tPt 2, .nop⟩, ⟨tPt 3, .nop⟩], .error)
    | none => ([⟨tPt 0, .nop⟩, ⟨tPt 1, .nop⟩, ⟨tPt 2, .nop⟩, ⟨tPt 3, .chtimes (blockPath h) now⟩], .ok)

/-- `Trash(h)`: a block younger than the signature TTL is left alone (and success is reported);
otherwise it is removed (lifetime 0) or renamed to `<h>.trash.<now+lifetime>`. -/
def trashEvs (fs : FS) (cfg : Cfg) (h : Name) : List Ev × Res :=
  match fs.get (blockPath h) with
  | none => ([⟨trPt 0, .nop⟩], .notFound)
  | some f =>
    let pre : List Ev := [⟨trPt 0, .nop⟩, ⟨trPt 1, .nop⟩, ⟨trPt 2, .nop⟩, ⟨trPt 3, .nop⟩]
    if cfg.now < f.mtime + cfg.ttl then (pre, .ok)
    else if cfg.lifetime = 0 then (pre ++ [⟨trPt 4, .remove (blockPath h)⟩], .ok)
    else (pre ++ [⟨trPt 5, .rename (blockPath h) (trashPath h (cfg.now + cfg.lifetime))⟩], .ok)

/-- strict lexicographic order on names by character code (Go's string order on ASCII) -/
def nameLt : Name → Name → Bool
  | [], [] => false
  | [], _ :: _ => true
  | _ :: _, [] => false
  | a :: as, b :: bs => if a.toNat < b.toNat then true else if b.toNat < a.toNat then false else nameLt as bs

def insertName (n : Name) : List Name → List Name
  | [] => [n]
  | m :: rest => if nameLt m n then m :: insertName n rest else n :: m :: rest

def sortNames (ns : List Name) : List Name := ns.foldr insertName []

/-- names in directory `d`, in `ioutil.ReadDir` (sorted) order -/
def dirNames (fs : FS) (d : Name) : List Name :=
  sortNames ((fs.files.filter (fun e => e.1.dir = d)).map (fun e => e.1.name))

/-- `Untrash(h)`: the first directory entry (sorted) whose name starts with `<h>.trash.` is renamed
onto the block path and (fix f7a86a4) given a current timestamp. -/
def untrashEvs (fs : FS) (h : Name) (now : Nat) : List Ev × Res :=
  match (dirNames fs (blockDir h)).find? (fun n => (h ++ trashInfix).isPrefixOf n) with
  | none => ([⟨unPt 0, .nop⟩], .notFound)
  | some n => ([⟨unPt 0, .nop⟩, ⟨unPt 1, .rename ⟨blockDir h, n⟩ (blockPath h)⟩,
               ⟨unPt 2, .chtimes (blockPath h) now⟩], .ok)

def pathLt (p q : Path) : Bool := nameLt p.dir q.dir || (p.dir = q.dir && nameLt p.name q.name)

def insertPath (p : Path) : List Path → List Path
  | [] => [p]
  | q :: rest => if pathLt q p then q :: insertPath p rest else p :: q :: rest

/-- `EmptyTrash`: walk the block directories in lexical order; remove every file whose name matches
the trash regexp and whose deadline has passed (`ParseInt` overflow skips the file). -/
def emptyTrashVictims (fs : FS) (now : Nat) : List Path :=
  ((fs.files.map (·.1)).filter (fun p =>
      isBlockDir p.dir && isTrashName p.name &&
      decide (digitsVal (p.name.drop 39) < 2 ^ 63) && decide (digitsVal (p.name.drop 39) ≤ now))).foldr insertPath []

def emptyTrashEvs (fs : FS) (now : Nat) : List Ev :=
  (emptyTrashVictims fs now).map (fun p => ⟨some ⟨.emptyTrash, 0⟩, .remove p⟩)

/-! ### What a (fresh) server shows -/

inductive GetRes where
  | ok (body : Bytes)
  | notFound          -- 404
  | diskHashError     -- 500 "Hash mismatch in stored data"
deriving DecidableEq, Repr

/-- `GetBlock` on a single Directory volume: open `<h[0:3]>/<h>`, verify the checksum. -/
def getBlock (hash : Bytes → Name) (fs : FS) (h : Name) : GetRes :=
  match fs.get (blockPath h) with
  | none => .notFound
  | some f => if hash f.data = h then .ok f.data else .diskHashError

/-- `IndexTo ""`: every entry with a 32-hex name in a hex-named directory: (name, size, mtime). -/
def index (fs : FS) : List (Name × Nat × Nat) :=
  (fs.files.filter (fun e => isBlockDir e.1.dir && isBlockName e.1.name)).map
    (fun e => (e.1.name, e.2.data.length, e.2.mtime))

/-! ### putWithPipe -/

/-- What the `WriteBlock` goroutine has seen of its reader. -/
inductive Writer where
  | reading | sawEOF | sawErr | returned (ok : Bool)
deriving DecidableEq, Repr

/-- State of one `putWithPipe(ctx, loc, buf, bw)` call. `mainErr = some e`: the first `select` has
chosen, with `err = e` (`e = false` is `err == nil`). `closed = some withErr`: the goroutine
`pipew.CloseWithError(err)` has run. -/
structure Pipe where
  body : Bytes
  got : List Bytes            -- chunks the writer's `Read` calls have returned so far
  copyDone : Bool             -- `io.Copy(pipew, bytes.NewReader(buf))` returned nil
  ctxDone : Bool
  mainErr : Option Bool
  closed : Option Bool
  writer : Writer
deriving Repr

def Pipe.init (body : Bytes) : Pipe := ⟨body, [], false, false, none, none, .reading⟩

/-- Interleavings of the goroutines of `putWithPipe`, the writer and the context. -/
inductive PStep : Pipe → Pipe → Prop where
  /-- the writer reads a non-empty piece of what the copy goroutine is writing into the pipe -/
  | read (s : Pipe) (c : Bytes) : s.writer = .reading → s.closed = none → c ≠ [] →
      (s.got.flatten ++ c) <+: s.body → PStep s { s with got := s.got ++ [c] }
  /-- `io.Copy(pipew, …)` returns nil: every byte has been consumed from the pipe by the writer
  (before the first select has chosen, the writer is the pipe's only reader) -/
  | copyFinish (s : Pipe) : s.mainErr = none → s.got.flatten = s.body → PStep s { s with copyDone := true }
  | cancel (s : Pipe) : PStep s { s with ctxDone := true }
  | selectCopy (s : Pipe) : s.mainErr = none → s.copyDone = true → PStep s { s with mainErr := some false }
  | selectCtx (s : Pipe) : s.mainErr = none → s.ctxDone = true → PStep s { s with mainErr := some true }
  /-- `putErr` is ready only when `WriteBlock` has returned (before having seen the reader end) -/
  | selectPut (s : Pipe) (ok : Bool) : s.mainErr = none → s.writer = .returned ok →
      PStep s { s with mainErr := some (!ok) }
  | close (s : Pipe) (e : Bool) : s.mainErr = some e → s.closed = none → PStep s { s with closed := some e }
  | seeEOF (s : Pipe) : s.writer = .reading → s.closed = some false → PStep s { s with writer := .sawEOF }
  | seeErr (s : Pipe) : s.writer = .reading → s.closed = some true → PStep s { s with writer := .sawErr }
  /-- the writer gives up on its own (a failing system call) -/
  | giveUp (s : Pipe) : s.writer = .reading → PStep s { s with writer := .returned false }

inductive PReach (body : Bytes) : Pipe → Prop where
  | init : PReach body (Pipe.init body)
  | step {s t : Pipe} : PReach body s → PStep s t → PReach body t

/-- The reader outcome is consistent with the request body: what was handed over is a prefix of
the body, and EOF comes only after the whole body. -/
def WBValid (body : Bytes) (chunks : List Bytes) (rend : ReaderEnd) : Prop :=
  chunks.flatten <+: body ∧ (rend = .eof → chunks.flatten = body)

/-! ### PutBlock / handlePUT on one Directory volume -/

inductive Resp where
  | ok200
  | badRequest      -- the router does not route a hash that is not 32 hex digits
  | hashMismatch    -- 422 RequestHashError
  | collision       -- 500 CollisionError
  | disconnect      -- 503 ErrClientDisconnect
  | full            -- 503 FullError: every writable volume refused with FullError
  | fail            -- 500 GenericError
deriving DecidableEq, Repr

/-- Run `WriteBlock` attempts in order (PutBlock: NextWritable, then every writable volume) until
one returns nil. -/
def attemptsEvs : List WBIn → List Ev × Bool
  | [] => ([], false)
  | w :: rest =>
    let r := writeBlockEvs w
    if r.2 then (r.1, true)
    else let r' := attemptsEvs rest; (r.1 ++ r'.1, r'.2)

structure PutIn where
  h : Name
  body : Bytes
  now : Nat
  touchFail : Option Nat      -- CompareAndTouch's Touch fails at this call
  attempts : List WBIn        -- WriteBlock attempts (reader outcomes decided by putWithPipe)
  cancelled : Bool            -- the request context ended before putWithPipe returned
  compareCancelled : Bool     -- the request context ended while `Compare` was running
  volumeFull : Bool           -- `IsFull()`: every `WriteBlock` returns FullError before its first step
deriving Repr

/-- The `WriteBlock` attempts that do anything: none on a full volume. -/
def PutIn.effAttempts (p : PutIn) : List WBIn := if p.volumeFull then [] else p.attempts

/-- `UnixVolume.Compare` (through `stat` and `getFunc`): stat the block path, and if it exists open
and read it. No effect on the volume, whatever the outcome (match, mismatch, read error, context
cancelled). -/
def compareEvs (fs : FS) (h : Name) : List Ev :=
  match fs.get (blockPath h) with
  | none => [⟨some ⟨.stat, 0⟩, .nop⟩]
  | some _ => [⟨some ⟨.stat, 0⟩, .nop⟩, ⟨some ⟨.getFunc, 0⟩, .nop⟩, ⟨some ⟨.getFunc, 1⟩, .nop⟩]

/-- `PutBlock` after `Compare` returned without the context having ended: identical copy ⇒ Touch;
same hash, other bytes ⇒ collision; corrupt or absent ⇒ write (a full volume refuses every
write with FullError before its first step: no event, and never a 200). -/
def putCore (hash : Bytes → Name) (fs : FS) (p : PutIn) : List Ev × Resp :=
  let write (pre : List Ev) : List Ev × Resp :=
    let r := attemptsEvs p.effAttempts
    (pre ++ r.1, if p.cancelled then .disconnect else if r.2 then .ok200
                 else if p.volumeFull then .full else .fail)
  match fs.get (blockPath p.h) with
  | none => write []
  | some f =>
    if f.data = p.body then
      let t := touchEvs fs p.h p.now p.touchFail
      if t.2 = .ok then (t.1, .ok200) else write t.1
    else if hash f.data = p.h then ([], .collision)
    else write []

/-- `handlePUT`: events performed on the volume and the reply, which is written only after
`PutBlock` returned (handlers.go:262-283). When the context ends during `Compare`,
`CompareAndTouch` returns `ctx.Err()` and `PutBlock` answers ErrClientDisconnect without touching
or writing anything. -/
def handlePut (hash : Bytes → Name) (fs : FS) (p : PutIn) : List Ev × Resp :=
  if !isBlockName p.h then ([], .badRequest)
  else if hash p.body ≠ p.h then ([], .hashMismatch)
  else if p.compareCancelled then (compareEvs fs p.h, .disconnect)
  else ((compareEvs fs p.h) ++ (putCore hash fs p).1, (putCore hash fs p).2)

/-! ### Two operations at the same time -/

/-- Events of two concurrently running operations merged according to a schedule (`true`: the
first operation's next event runs). A schedule that ends early is a crash at that moment. -/
def interleave : List Bool → List Ev → List Ev → List Ev
  | [], _, _ => []
  | true :: s, a :: as, bs => a :: interleave s as bs
  | true :: s, [], bs => interleave s [] bs
  | false :: s, as, b :: bs => b :: interleave s as bs
  | false :: s, as, [] => interleave s as []

/-! ### Histories with crashes -/

/-- The hash whose block a file of this name is (32-hex name: what GET/index show) or can become
(`<32 hex>.trash.…`: what `Untrash` renames onto the block path). Temp files have no owner. -/
def owner (n : Name) : Option Name :=
  if isBlockName n then some n else if isTrashLike n then some (n.take 32) else none

/-- Every visible block, and every trashed copy that could become visible again, holds bytes
that hash to its name. -/
def Intact (hash : Bytes → Name) (fs : FS) : Prop :=
  ∀ e ∈ fs.files, ∀ h, owner e.1.name = some h → hash e.2.data = h

/-- One operation of a keepstore process on the volume, or one step of the environment. -/
inductive Op where
  | put (p : PutIn)
  | writeBlock (w : WBIn)
  | touch (h : Name) (now : Nat) (fail : Option Nat)
  | trash (cfg : Cfg) (h : Name)
  | untrash (h : Name) (now : Nat)
  | emptyTrash (now : Nat)
  | env (s : Step)
deriving Repr

/-- What the environment may do behind keepstore's back without breaking the premise: change
timestamps, remove files, create/extend files that are not block or trash names, rename a file to
a name with the same owner (or to an unowned name). -/
def envOk : Step → Prop
  | .nop => True
  | .mkdirAll _ => True
  | .chtimes _ _ => True
  | .remove _ => True
  | .createTemp p _ => owner p.name = none
  | .append p _ => owner p.name = none
  | .rename a b => owner b.name = none ∨ owner b.name = owner a.name

/-- The hash-verified request body is what the writer gets (`WBValid`, from putWithPipe), and the
router only passes 32-hex hashes. -/
def Op.valid (hash : Bytes → Name) : Op → Prop
  | .put p => ∀ w ∈ p.attempts, w.h = p.h ∧ (w.rend = .eof → w.chunks.flatten = p.body)
  | .writeBlock w => isBlockName w.h = true ∧ (w.rend = .eof → hash w.chunks.flatten = w.h)
  | .env s => envOk s
  | _ => True

def Op.evs (hash : Bytes → Name) (fs : FS) : Op → List Ev
  | .put p => (handlePut hash fs p).1
  | .writeBlock w => (writeBlockEvs w).1
  | .touch h now fail => if isBlockName h then (touchEvs fs h now fail).1 else []
  | .trash cfg h => if isBlockName h then (trashEvs fs cfg h).1 else []
  | .untrash h now => if isBlockName h then (untrashEvs fs h now).1 else []
  | .emptyTrash now => emptyTrashEvs fs now
  | .env s => [⟨none, s⟩]

/-- States reachable from `fs0` by any sequence of operations, each cut off after any number `k`
of its micro-steps (a crash; `k ≥ length` = the operation completed). -/
inductive Reach (hash : Bytes → Name) (fs0 : FS) : FS → Prop where
  | init : Reach hash fs0 fs0
  | step {fs : FS} (op : Op) (k : Nat) : Reach hash fs0 fs → op.valid hash →
      Reach hash fs0 (run fs ((op.evs hash fs).take k))

end ArvVerif.C02
