/-
C14 model, layer L2: the pool operations as one datatype, and the pools reachable by them.

Every constructor of `PoolOp` is one critical section of lib/dispatchcloud/worker/pool.go /
worker.go as modelled in Model/C14_Pool.lean (same names). `Pool.apply` runs one operation,
`Pool.Reachable` are the pools obtained from the empty pool (`NewPool`: `wp.workers = {}`,
`wp.exited = {}`) by any sequence of operations with any arguments. Workers come into
existence only through `sync`/`getInstancesAndSync` (`updateWorker` adds a worker only when
`wp.workers[id]` is unset), which is why worker ids stay distinct (`Pool.WF`; proved in
Proofs/C14_WF.lean).
-/
import ArvVerif.Model.C14_Pool
namespace ArvVerif.C14

inductive PoolOp where
  /-- `StartContainer(it, u)` picking candidate `wid` (no effect when it returns false) -/
  | start (it : IType) (u : Uuid) (wid : Nat)
  /-- the completion closure of `startContainer` on worker `wid` -/
  | startDone (wid : Nat) (u : Uuid) (now : Nat)
  /-- `onKilled(u)` → `closeRunner(u)` on worker `wid` -/
  | closeRunner (wid : Nat) (u : Uuid) (now : Nat)
  /-- final critical section of `probeAndUpdate` on worker `wid` -/
  | probeApply (wid : Nat) (pr : Probe) (now : Nat)
  /-- `wkr.shutdown()` -/
  | shutdown (wid : Nat) (now : Nat)
  /-- `SetIdleBehavior` / `onUnkillable` -/
  | setIdle (wid : Nat) (b : IdleB) (idleTimedOut allGivenUp : Bool) (now : Nat)
  /-- `ForgetContainer(u)` -/
  | forget (u : Uuid)
  /-- `Pool.sync(threshold, instances)` -/
  | sync (threshold : Nat) (listed : List Pool.Listed) (retry : Nat → Bool) (now : Nat)
  /-- `getInstancesAndSync` -/
  | listAndSync (r : Pool.ListResult) (retry : Nat → Bool) (th now : Nat)

namespace Pool

def apply (p : Pool) : PoolOp → Pool
  | .start it u wid => (p.startContainer it u wid).getD p
  | .startDone wid u now => p.startDone wid u now
  | .closeRunner wid u now => p.closeRunner wid u now
  | .probeApply wid pr now => p.probeApply wid pr now
  | .shutdown wid now => p.shutdownWorker wid now
  | .setIdle wid b t g now => p.setIdleBehavior wid b t g now
  | .forget u => p.forget u
  | .sync th ls retry now => p.sync th ls retry now
  | .listAndSync r retry th now => p.getInstancesAndSync r retry th now

/-- What `Running()` hands to a scheduler pass: every key with its time value (`none` = zero). -/
def snapshot (p : Pool) : RunSnap :=
  p.runningKeys.filterMap (fun u => (p.runningView u).map (fun v => (u, v)))

/-- the pool of a freshly started dispatcher -/
def empty : Pool := ⟨[], []⟩

/-- Pools reachable from the empty pool by pool operations. -/
inductive Reachable : Pool → Prop where
  | init : Reachable empty
  | step {p : Pool} (op : PoolOp) : Reachable p → Reachable (p.apply op)

end Pool
end ArvVerif.C14
