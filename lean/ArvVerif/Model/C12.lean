/-
C12 model: rendezvous probe order (sdk/go/keepclient/root_sorter.go, keepclient.go getSortedRoots,
support.go putReplicas' use of the sorter, services/keep-balance/balance.go srvRendezvous).

The Go code sorts with `sort.Sort` (unstable) over a slice filled in map-iteration order, so the
model of "what the sorter returns" is a *relation*: any permutation of the services sorted by
descending weight (`IsProbeOrder`). `probeOrder` (merge sort) is one executable inhabitant.
Weights are compared as 32-character lowercase hex strings in Go; the model compares their numeric
values, which is the same order for equal-length lowercase hex (the driver checks real MD5).
-/
namespace ArvVerif.C12

/-- The part of a service UUID that enters the weight: the last 15 characters of a 27-character
UUID (`uuid[12:]`), otherwise the whole string. (root_sorter.go getWeight) -/
def uuidSuffix (uuid : List Char) : List Char :=
  if uuid.length = 27 then uuid.drop 12 else uuid

/-- The weight of a service for a block: `md5(hash ++ suffix)`, for an arbitrary `md5`. -/
def weight (md5 : List Char → Nat) (hash uuid : List Char) : Nat :=
  md5 (hash ++ uuidSuffix uuid)

variable {α : Type}

/-- descending by weight -/
def geW (w : α → Nat) (a b : α) : Bool := decide (w b ≤ w a)

/-- What Go's unstable `sort.Sort(rs)` guarantees about `GetSortedRoots`: a permutation of the
service set, sorted by descending weight. -/
structure IsProbeOrder (w : α → Nat) (svcs out : List α) : Prop where
  perm : out.Perm svcs
  sorted : out.Pairwise (fun a b => w b ≤ w a)

/-- Executable probe order. -/
def probeOrder (w : α → Nat) (svcs : List α) : List α := svcs.mergeSort (geW w)

/-- A locator hint as `getSortedRoots` classifies it. -/
inductive Hint where
  | proxy (cluster : List Char)      -- "K@" ++ 5 chars
  | gateway (uuid : List Char)       -- "K@" ++ 27 chars
  | other
deriving Repr, DecidableEq

/-- Classification of one `+`-separated field (keepclient.go:470-489). -/
def classifyHint (h : List Char) : Hint :=
  if h.length < 7 ∨ h.take 2 ≠ ['K', '@'] then .other
  else if h.length = 7 then .proxy (h.drop 2)
  else if h.length = 29 then .gateway (h.drop 2)
  else .other

def proxyURL (cluster : List Char) : List Char :=
  "https://keep.".toList ++ cluster ++ ".arvadosapi.com".toList

/-- Roots contributed by the hints, in locator order. `gw` is the gateway map lookup. -/
def hintRoots (gw : List Char → Option (List Char)) : List (List Char) → List (List Char)
  | [] => []
  | h :: rest =>
    match classifyHint h with
    | .proxy c => proxyURL c :: hintRoots gw rest
    | .gateway u =>
      match gw u with
      | some r => r :: hintRoots gw rest
      | none => hintRoots gw rest
    | .other => hintRoots gw rest

/-- `getSortedRoots`: usable hints first, then the rendezvous order of the local roots
(given here as any list `order`). -/
def sortedRoots (gw : List Char → Option (List Char)) (fields : List (List Char))
    (order : List (List Char)) : List (List Char) :=
  hintRoots gw fields ++ order

end ArvVerif.C12
