/-
C12 model: rendezvous probe order (sdk/go/keepclient/root_sorter.go, keepclient.go getSortedRoots,
support.go putReplicas' use of the sorter, services/keep-balance/balance.go srvRendezvous).

The Go code sorts with `sort.Sort` (unstable) over a slice filled in map-iteration order, so the
model of "what the sorter returns" is a *relation*: any permutation of the services sorted by
descending weight (`IsProbeOrder`). `probeOrder` (merge sort) is one executable inhabitant.
Weights are compared as 32-character lowercase hex strings in Go; the model compares their numeric
values, which is the same order for equal-length lowercase hex (the driver checks real MD5).
-/
namespace ArvVerif.C12

/-- The part of a service UUID that enters the weight: the last 15 characters of a 27-character
UUID (`uuid[12:]`), otherwise the whole string. (root_sorter.go getWeight) -/
def uuidSuffix (uuid : List Char) : List Char :=
  if uuid.length = 27 then uuid.drop 12 else uuid

/-- The weight of a service for a block: `md5(hash ++ suffix)`, for an arbitrary `md5`. -/
def weight (md5 : List Char → Nat) (hash uuid : List Char) : Nat :=
  md5 (hash ++ uuidSuffix uuid)

variable {α : Type}

/-- descending by weight -/
def geW (w : α → Nat) (a b : α) : Bool := decide (w b ≤ w a)

/-- What Go's unstable `sort.Sort(rs)` guarantees about `GetSortedRoots`: a permutation of the
service set, sorted by descending weight. -/
structure IsProbeOrder (w : α → Nat) (svcs out : List α) : Prop where
  perm : out.Perm svcs
  sorted : out.Pairwise (fun a b => w b ≤ w a)

/-- Executable probe order. -/
def probeOrder (w : α → Nat) (svcs : List α) : List α := svcs.mergeSort (geW w)

/-- A locator hint as `getSortedRoots` classifies it. -/
inductive Hint where
  | proxy (cluster : List Char)      -- "K@" ++ 5 chars
  | gateway (uuid : List Char)       -- "K@" ++ 27 chars
  | other
deriving Repr, DecidableEq

/-- Classification of one `+`-separated field (keepclient.go:470-489). -/
def classifyHint (h : List Char) : Hint :=
  if h.length < 7 ∨ h.take 2 ≠ ['K', '@'] then .other
  else if h.length = 7 then .proxy (h.drop 2)
  else if h.length = 29 then .gateway (h.drop 2)
  else .other

def proxyURL (cluster : List Char) : List Char :=
  "https://keep.".toList ++ cluster ++ ".arvadosapi.com".toList

/-- Roots contributed by the hints, in locator order. `gw` is the gateway map lookup. -/
def hintRoots (gw : List Char → Option (List Char)) : List (List Char) → List (List Char)
  | [] => []
  | h :: rest =>
    match classifyHint h with
    | .proxy c => proxyURL c :: hintRoots gw rest
    | .gateway u =>
      match gw u with
      | some r => r :: hintRoots gw rest
      | none => hintRoots gw rest
    | .other => hintRoots gw rest

/-- `getSortedRoots`: usable hints first, then the rendezvous order of the local roots
(given here as any list `order`). -/
def sortedRoots (gw : List Char → Option (List Char)) (fields : List (List Char))
    (order : List (List Char)) : List (List Char) :=
  hintRoots gw fields ++ order

/-! ### keep-balance: many blocks balanced at the same time (balance.go ComputeChangeSets)

`ComputeChangeSets` hands the blocks to GOMAXPROCS worker goroutines which all call `balanceBlock`
on the same `Balancer` and the same `*KeepService` objects. `balanceBlock` computes the block's
ranking into `srvRendezvous`, a map allocated by that call, and later sorts the slots by it. The
model splits a call into these two steps and lets any schedule interleave the steps of different
blocks; the ranking is a field of the task (local to the call), not of the shared state. -/

/-- keep-balance wants the replicas of a block on the first `d` servers of its ranking (one slot
per server, equal storage class, no read-only mounts: the regime the driver observes). -/
def wantedServers (d : Nat) (ranking : List α) : List α := ranking.take d

/-- One `balanceBlock` call in flight. -/
structure Task (β α : Type) where
  blk : β
  rank : Option (List α) := none      -- srvRendezvous, once computed
  wanted : Option (List α) := none    -- where the call decided to keep/pull replicas

inductive SweepStep where
  | rank (i : Nat)    -- the worker holding task i computes its ranking (balance.go:618-623)
  | place (i : Nat)   -- the worker holding task i sorts the slots by its ranking and places
deriving Repr, DecidableEq

def updAt {γ : Type} (f : γ → γ) : Nat → List γ → List γ
  | _, [] => []
  | 0, t :: ts => f t :: ts
  | i + 1, t :: ts => t :: updAt f i ts

variable {β : Type}

def rankTask (w : β → α → Nat) (svcs : List α) (t : Task β α) : Task β α :=
  { t with rank := some (probeOrder (w t.blk) svcs) }

def placeTask (d : Nat) (t : Task β α) : Task β α :=
  match t.rank with
  | some r => { t with wanted := some (wantedServers d r) }
  | none => t

def sweepStep (w : β → α → Nat) (svcs : List α) (d : Nat) (ts : List (Task β α)) :
    SweepStep → List (Task β α)
  | .rank i => updAt (rankTask w svcs) i ts
  | .place i => updAt (placeTask d) i ts

/-- Any interleaving of the workers' steps. -/
def sweepRun (w : β → α → Nat) (svcs : List α) (d : Nat) (blks : List β) (sched : List SweepStep) :
    List (Task β α) :=
  sched.foldl (sweepStep w svcs d) (blks.map (fun b => { blk := b }))

/-- The variant in which the ranking lives in state shared by all calls (e.g. a field of the
long-lived `KeepService` objects): `rank` overwrites it, `place` reads whatever is there. Used only
to show that the locality of the ranking is what `C12_sweep_any_schedule` rests on. -/
def sharedStep (w : β → α → Nat) (svcs : List α) (d : Nat) (st : Option (List α) × List (Task β α)) :
    SweepStep → Option (List α) × List (Task β α)
  | .rank i => (match st.2[i]? with
                | some t => some (probeOrder (w t.blk) svcs)
                | none => st.1, st.2)
  | .place i => (st.1, updAt (fun t => match st.1 with
                                        | some r => { t with wanted := some (wantedServers d r) }
                                        | none => t) i st.2)

def sharedRun (w : β → α → Nat) (svcs : List α) (d : Nat) (blks : List β) (sched : List SweepStep) :
    List (Task β α) :=
  (sched.foldl (sharedStep w svcs d) (none, blks.map (fun b => { blk := b }))).2

end ArvVerif.C12
