/-
C12 model, Python SDK side (sdk/python/arvados/keep.py): `KeepClient._service_weight`,
`weighted_service_roots`, the service lists `build_services_list` derives from a discovery answer,
and `KeepLocator.__init__` as far as it decides which `+` fields are hints and which locators are
rejected. Python's `sorted(..., reverse=True, key=weight)` is a stable sort, so unlike Go's
`sort.Sort` the Python order is a function of the input list: `probeOrder` (stable merge sort) over
the services in discovery order is exactly what Python returns, also when weights tie.
-/
import ArvVerif.Model.C12
namespace ArvVerif.C12

/-- `service_uuid[-15:]`: the last 15 characters, of a uuid of ANY length. -/
def pyUuidSuffix (uuid : List Char) : List Char := uuid.drop (uuid.length - 15)

/-- keep.py `_service_weight`: md5(data_hash + service_uuid[-15:]) -/
def pyWeight (md5 : List Char → Nat) (hash uuid : List Char) : Nat :=
  md5 (hash ++ pyUuidSuffix uuid)

/-- One item of the discovery answer, as far as `build_services_list` looks at it. -/
structure PySvc where
  uuid : List Char
  gateway : Bool     -- service_type starts with "gateway:"
  readOnly : Bool
deriving Repr, DecidableEq

/-- `self._keep_services`: every listed service that is not a gateway, in answer order. -/
def pyKeepServices (items : List PySvc) : List PySvc := items.filter (fun s => !s.gateway)

/-- `self._writable_services`: the keep services that are not read-only. -/
def pyWritableServices (items : List PySvc) : List PySvc :=
  (pyKeepServices items).filter (fun s => !s.readOnly)

/-- `sorted(use_services, reverse=True, key=weight)`: stable, heaviest first. -/
def pyOrder (w : List Char → Nat) (svcs : List PySvc) : List PySvc :=
  probeOrder (fun s => w s.uuid) svcs

def pyProxyURL (cluster : List Char) : List Char :=
  "https://keep.".toList ++ cluster ++ ".arvadosapi.com/".toList

/-- The hint loop of `weighted_service_roots`, statement by statement. -/
def pyHintRoots (gw : List Char → Option (List Char)) : List (List Char) → List (List Char)
  | [] => []
  | h :: rest =>
    if h.take 2 = ['K', '@'] then
      if h.length = 7 then pyProxyURL (h.drop 2) :: pyHintRoots gw rest
      else if h.length = 29 then
        match gw (h.drop 2) with
        | some r => r :: pyHintRoots gw rest
        | none => pyHintRoots gw rest
      else pyHintRoots gw rest
    else pyHintRoots gw rest

/-- What a hint designates, independent of how a client renders it as a URL. -/
inductive Target where
  | cluster (id : List Char)      -- the keepproxy of a remote cluster
  | root (r : List Char)          -- a known gateway service
deriving Repr, DecidableEq

def hintTargets (gw : List Char → Option (List Char)) : List (List Char) → List Target
  | [] => []
  | h :: rest =>
    match classifyHint h with
    | .proxy c => .cluster c :: hintTargets gw rest
    | .gateway u =>
      match gw u with
      | some r => .root r :: hintTargets gw rest
      | none => hintTargets gw rest
    | .other => hintTargets gw rest

def renderGo : Target → List Char
  | .cluster c => proxyURL c
  | .root r => r

def renderPy : Target → List Char
  | .cluster c => pyProxyURL c
  | .root r => r

/-! #### `KeepLocator.__init__` -/

def isHexChar (c : Char) : Bool :=
  ('0' ≤ c && c ≤ '9') || ('a' ≤ c && c ≤ 'f') || ('A' ≤ c && c ≤ 'F')

/-- `arvados.util.is_hex(s, lo, hi)` (HEX_RE = `^[0-9a-fA-F]+$`) -/
def pyIsHex (s : List Char) (lo hi : Nat) : Bool :=
  decide (lo ≤ s.length) && decide (s.length ≤ hi) && !s.isEmpty && s.all isHexChar

def isDigitChar (c : Char) : Bool := '0' ≤ c && c ≤ '9'

/-- digits, single underscores allowed between digits -/
def pyDigits : List Char → Bool
  | [] => false
  | [c] => isDigitChar c
  | c :: '_' :: rest => isDigitChar c && pyDigits rest
  | c :: rest => isDigitChar c && pyDigits rest

/-- `int(s)` succeeds (ASCII input without white space: optional sign, digits with `_` separators). -/
def pyIntOk (s : List Char) : Bool :=
  match s with
  | '-' :: rest => pyDigits rest
  | _ => pyDigits s

def isHintChar (c : Char) : Bool :=
  ('A' ≤ c && c ≤ 'Z') || ('a' ≤ c && c ≤ 'z') || ('0' ≤ c && c ≤ '9') || c == '@' || c == '_' || c == '-'

/-- HINT_RE = `^[A-Z][A-Za-z0-9@_-]+$` -/
def pyHintOk : List Char → Bool
  | c :: rest => ('A' ≤ c && c ≤ 'Z') && !rest.isEmpty && rest.all isHintChar
  | [] => false

/-- `parse_permission_hint`: `A<40 hex>@<1-8 hex>` -/
def pyPermOk (h : List Char) : Bool :=
  let body := h.drop 1
  let sig := body.takeWhile (· != '@')
  let rest := body.dropWhile (· != '@')
  match rest with
  | '@' :: exp => pyIsHex sig 40 40 && pyIsHex exp 1 8
  | _ => false

/-- The fields after the size: all must look like hints, `A…` ones must be well-formed signatures;
the others are kept as `locator.hints`. -/
def pyHints : List (List Char) → Option (List (List Char))
  | [] => some []
  | h :: rest =>
    if !pyHintOk h then none
    else if h.head? = some 'A' then
      if pyPermOk h then pyHints rest else none
    else (pyHints rest).map (h :: ·)

/-- `KeepLocator(locator_str)` on the `+`-separated fields: `none` = ValueError. -/
def pyParseFields : List (List Char) → Option (List Char × List (List Char))
  | [] => none
  | md5 :: rest =>
    if !pyIsHex md5 32 32 then none
    else match rest with
      | [] => some (md5, [])
      | size :: hs => if pyIntOk size then (pyHints hs).map (fun x => (md5, x)) else none

end ArvVerif.C12
