/-
C08 — collection filesystem, FILE LAYER (sdk/go/arvados/fs_collection.go, fs_filehandle.go).

This file is imported by C09 (manifests), C13 (concurrency) and C17 (crunch-run output); keep it
stable.  Everything is executable core Lean.

Concrete layer (mirrors the Go code, statement by statement where it matters):
  `Seg`       memSegment / storedSegment            `Seg.len`, `Seg.slice`, `memTruncate`, `memWriteAt`
  `FileNode`  filenode {segments, fileinfo.size, repacked}
  `Ptr`       filenodePtr {off, segmentIdx, segmentOff, repacked}
  `seek`      filenode.seek                          (`none` = Go index-out-of-range panic)
  `readAt`    filenode.Read (one segment per call)
  `truncate`  filenode.truncate
  `writeStep` one iteration of the loop in filenode.Write, `writeLoop` the loop (with fuel; running
              out of fuel = the real loop would spin for ever), `write` = filenode.Write
  `prune`     filenode.pruneMemSegments (marks full mem segments as being flushed, PutB of the
              buffer snapshot), `settle` = what the background goroutines do once the writer has
              released the lock, `commit` = dirnode.commitBlock (replace mem segments by stored ones)
Spec layer: a file is a byte list; `specWrite`, `specRead`, `specTruncate`.
Abstraction: `abs store fn` = concatenation of the segments' bytes.

Go panics (index out of range, failed type assertion, "overflowed segment") are explicit `panic`
outcomes, never defaulted; the theorems show they do not occur from well-formed states.
-/
import ArvVerif.Base.Bytes
namespace ArvVerif.C08

/-- A Keep locator, as the bytes of its text. The model never looks inside it. -/
abbrev Loc := Bytes

/-- Keep as a content store: locator ↦ block. -/
abbrev Store := Loc → Option Bytes

/-- `PutB`: the block becomes readable under its locator (`hash` = md5hex ++ "+" ++ size in the
driver; an arbitrary function in the theorems). -/
def Store.put (hash : Bytes → Loc) (st : Store) (b : Bytes) : Store :=
  fun l => if l = hash b then some b else st l

def zeros (n : Nat) : Bytes := List.replicate n 0

/-- State of `memSegment.flushing`: nil; a channel owned by a background goroutine started by
pruneMemSegments that will, once the file lock is free, replace `segments[idx]` by a stored segment
if that is still this segment with a buffer of `len` bytes; or a channel that is already closed
(the goroutine gave up) but was never reset to nil. -/
inductive Flush
  | none
  | pending (idx len : Nat)
  | stale
  deriving DecidableEq, Repr, Inhabited

inductive Seg
  | mem (buf : Bytes) (fl : Flush)
  | stored (loc : Loc) (size off len : Nat)
  deriving Repr, Inhabited

namespace Seg

def len : Seg → Nat
  | mem buf _ => buf.length
  | stored _ _ _ l => l

def isMem : Seg → Bool
  | mem _ _ => true
  | stored .. => false

/-- The bytes a segment stands for. A stored segment whose block is missing stands for nothing;
well-formedness (`SegWF`) excludes that, and `readAt` reports it as an I/O error. -/
def bytes (st : Store) : Seg → Bytes
  | mem buf _ => buf
  | stored loc _ off l =>
    match st loc with
    | some b => (b.drop off).take l
    | Option.none => []

/-- `Slice(off, length)`; `length = none` is Go's `-1` ("to the end"). Callers only slice inside
the segment. (`memSegment.Slice` copies into a fresh buffer, so the flushing state is nil.) -/
def slice (s : Seg) (n : Nat) (length : Option Nat) : Seg :=
  match s with
  | mem buf _ =>
    match length with
    | some l => mem (((buf.drop n).take l) ++ zeros (l - (buf.length - n))) Flush.none
    | Option.none => mem (buf.drop n) Flush.none
  | stored loc size off l =>
    let l' := l - n
    match length with
    | some sz => stored loc size (off + n) (if l' > sz then sz else l')
    | Option.none => stored loc size (off + n) l'

end Seg

/-- `memSegment.Truncate(n)`: keep the first `n` bytes, zero-fill when growing. The flushing state
is reset exactly when a new buffer is allocated while a flush channel is set. -/
def memTruncate (buf : Bytes) (fl : Flush) (n : Nat) : Seg :=
  Seg.mem (buf.take n ++ zeros (n - buf.length))
    (if fl ≠ Flush.none ∧ n > buf.length then Flush.none else fl)

/-- `memSegment.WriteAt(p, off)`; `none` = panic("overflowed segment"). Copy-on-write: a buffer
shared with a flush goroutine is copied first and the flushing state reset. -/
def memWriteAt (buf : Bytes) (p : Bytes) (off : Nat) : Option Seg :=
  if off + p.length > buf.length then none
  else some (Seg.mem (buf.take off ++ p ++ buf.drop (off + p.length)) Flush.none)

structure FileNode where
  segs : List Seg
  size : Nat
  repacked : Int
  deriving Repr, Inhabited

structure Ptr where
  off : Nat
  segIdx : Nat
  segOff : Nat
  repacked : Int
  deriving Repr, Inhabited, DecidableEq

def FileNode.empty : FileNode := ⟨[], 0, 0⟩
def Ptr.zero : Ptr := ⟨0, 0, 0, 0⟩

/-- Content of a segment list / a file. -/
def absSegs (st : Store) (segs : List Seg) : Bytes := segs.flatMap (Seg.bytes st)
def abs (st : Store) (fn : FileNode) : Bytes := absSegs st fn.segs

def sumLen (segs : List Seg) : Nat := (segs.map Seg.len).sum

/-- The recomputing loop of `seek`: find (segmentIdx, segmentOff) for an offset that is `r` bytes
past the start of `segs`; `none` = index out of range. -/
def locate : List Seg → Nat → Nat → Option (Nat × Nat)
  | _, 0, idx => some (idx, 0)
  | [], _ + 1, _ => none
  | s :: rest, r + 1, idx =>
    if s.len > r + 1 then some (idx, r + 1) else locate rest (r + 1 - s.len) (idx + 1)

/-- `filenode.seek` (offsets are never negative here: `filehandle.Seek` rejects them). -/
def seek (fn : FileNode) (p : Ptr) : Option Ptr :=
  if p.off ≥ fn.size then
    some { p with segIdx := fn.segs.length, segOff := 0, repacked := fn.repacked }
  else if p.repacked = fn.repacked then
    match fn.segs[p.segIdx]? with
    | none => none
    | some s =>
      if p.segOff ≥ s.len then some { p with segIdx := p.segIdx + 1, segOff := 0 } else some p
  else
    match locate fn.segs p.off 0 with
    | none => none
    | some (i, o) => some { p with segIdx := i, segOff := o, repacked := fn.repacked }

/-! ### Read -/

inductive IOErr
  | ok | eof | io
  deriving DecidableEq, Repr, Inhabited

/-- `segment.ReadAt(p, off)` with `len(p) = want`. -/
def Seg.readAt (st : Store) (s : Seg) (want off : Nat) : Bytes × IOErr :=
  match s with
  | Seg.mem buf _ =>
    if off > buf.length then ([], IOErr.eof)
    else
      let d := (buf.drop off).take want
      (d, if d.length < want then IOErr.eof else IOErr.ok)
  | Seg.stored loc _ boff l =>
    if off > l then ([], IOErr.eof)
    else
      let maxlen := l - off
      let k := if want > maxlen then maxlen else want
      match st loc with
      | none => ([], IOErr.io)
      | some b =>
        if off + boff > b.length then ([], IOErr.io)
        else
          let d := (b.drop (off + boff)).take k
          (d, if want > maxlen then IOErr.eof else IOErr.ok)

structure ReadRes where
  data : Bytes
  ptr : Ptr
  err : IOErr
  deriving Repr

/-- `filenode.Read(p, startPtr)` with `len(p) = want`; `none` = panic. -/
def readAt (st : Store) (fn : FileNode) (p : Ptr) (want : Nat) : Option ReadRes :=
  match seek fn p with
  | none => none
  | some ptr =>
    match fn.segs[ptr.segIdx]? with
    | none => if ptr.segIdx ≥ fn.segs.length then some ⟨[], ptr, IOErr.eof⟩ else none
    | some s =>
      let (d, err) := s.readAt st want ptr.segOff
      if d.length > 0 then
        let segOff := ptr.segOff + d.length
        if segOff = s.len then
          let idx := ptr.segIdx + 1
          some ⟨d, { ptr with off := ptr.off + d.length, segIdx := idx, segOff := 0 },
                if idx < fn.segs.length ∧ err = IOErr.eof then IOErr.ok else err⟩
        else some ⟨d, { ptr with off := ptr.off + d.length, segOff := segOff }, err⟩
      else some ⟨d, ptr, err⟩

/-! ### truncate -/

/-- The growing loop of `truncate`: zero-extend, at most `max` bytes per mem segment. Fuel is the
number of iterations allowed; `none` = the real loop would not terminate (only if `max = 0`). -/
def growLoop (max : Nat) : Nat → List Seg → Nat → Nat → Option (List Seg × Nat)
  | fuel, segs, size, target =>
    if size ≥ target then some (segs, size) else
    match fuel with
    | 0 => none
    | fuel + 1 =>
      let want := target - size
      match segs.getLast? with
      | some (Seg.mem buf fl) =>
        if buf.length ≥ max then
          let grow := if max < want then max else want
          growLoop max fuel (segs ++ [memTruncate [] Flush.none grow]) (size + grow) target
        else
          let grow := if max - buf.length < want then max - buf.length else want
          growLoop max fuel (segs.dropLast ++ [memTruncate buf fl (buf.length + grow)]) (size + grow) target
      | _ =>
        let grow := if max < want then max else want
        growLoop max fuel (segs ++ [memTruncate [] Flush.none grow]) (size + grow) target

/-- `filenode.truncate(size)`; `none` = panic / non-termination. -/
def truncate (max : Nat) (fn : FileNode) (size : Nat) : Option FileNode :=
  if size = fn.size then some fn
  else if size < fn.size then
    let fn1 := { fn with repacked := fn.repacked + 1 }
    match seek fn1 ⟨size, 0, 0, 0⟩ with
    | none => none
    | some ptr =>
      if ptr.segOff = 0 then
        some { fn1 with segs := fn1.segs.take ptr.segIdx, size := size }
      else
        match fn1.segs[ptr.segIdx]? with
        | none => none
        | some (Seg.mem buf fl) =>
          some { fn1 with segs := fn1.segs.take ptr.segIdx ++ [memTruncate buf fl ptr.segOff], size := size }
        | some s =>
          some { fn1 with segs := fn1.segs.take ptr.segIdx ++ [s.slice 0 (some ptr.segOff)], size := size }
  else
    match growLoop max (size - fn.size) fn.segs fn.size size with
    | none => none
    | some (segs, sz) => some { segs := segs, size := sz, repacked := fn.repacked + 1 }

/-! ### Write -/

/-- `pruneMemSegments`: every full (`≥ max`) mem segment that has no flush channel gets one; its
buffer snapshot is sent to Keep (PutB is modelled at the time the goroutine is started — the
snapshot is immutable because of copy-on-write). -/
def pruneSegs (hash : Bytes → Loc) (max : Nat) : List Seg → Nat → Store → List Seg × Store
  | [], _, st => ([], st)
  | s :: rest, idx, st =>
    match s with
    | Seg.mem buf Flush.none =>
      if buf.length < max then
        let (r, st') := pruneSegs hash max rest (idx + 1) st
        (s :: r, st')
      else
        let (r, st') := pruneSegs hash max rest (idx + 1) (st.put hash buf)
        (Seg.mem buf (Flush.pending idx buf.length) :: r, st')
    | _ =>
      let (r, st') := pruneSegs hash max rest (idx + 1) st
      (s :: r, st')

/-- What the pruneMemSegments goroutines do after the writer released the file lock: a segment that
is still at its index with an unchanged buffer is replaced by a stored segment; otherwise the
goroutine returns and leaves its (closed) channel behind. -/
def settleSegs (hash : Bytes → Loc) : List Seg → Nat → List Seg
  | [], _ => []
  | s :: rest, i =>
    (match s with
     | Seg.mem buf (Flush.pending idx l) =>
       if idx = i ∧ l = buf.length then Seg.stored (hash buf) buf.length 0 buf.length
       else Seg.mem buf Flush.stale
     | s => s) :: settleSegs hash rest (i + 1)

def settle (hash : Bytes → Loc) (fn : FileNode) : FileNode :=
  { fn with segs := settleSegs hash fn.segs 0 }

structure WState where
  fn : FileNode
  ptr : Ptr
  st : Store

/-- Result of one loop iteration: new state and the number of bytes consumed (`len(cando)`). -/
abbrev StepRes := Option (WState × Nat)

/-- `prev >= 0 && segments[prev].Len() < maxBlockSize && segments[prev] is a *memSegment`:
the buffer and flushing state of the appendable previous segment. -/
def prevApp (max : Nat) (segs : List Seg) (cur : Nat) : Option (Bytes × Flush) :=
  if cur = 0 then none else
  match segs[cur - 1]? with
  | some (Seg.mem buf fl) => if buf.length < max then some (buf, fl) else none
  | _ => none

/-- Outcome of the "rearrange/grow fn.segments (and shrink cando if needed)" part of an iteration:
afterwards `cando` can be copied to `segs[idx]` (a mem segment) at offset `off`. -/
structure Restr where
  segs : List Seg
  size : Nat
  idx : Nat
  off : Nat
  cando : Bytes
  bump : Bool

/-- What happens to the segment under the pointer when `cando` is going to be written into the
previous / a fresh mem segment instead: at EOF the file grows; a segment no longer than `cando` is
dropped (and `cando` cut to its length); a longer one loses its first `len(cando)` bytes.
Returns (cando, new size, the segments after the written one). -/
def curFate (fn : FileNode) (cur : Nat) (curSeg : Option Seg) (cando : Bytes) : Bytes × Nat × List Seg :=
  match curSeg with
  | none => (cando, fn.size + cando.length, [])
  | some s =>
    if s.len ≤ cando.length then (cando.take s.len, fn.size, fn.segs.drop (cur + 1))
    else (cando, fn.size, s.slice cando.length none :: fn.segs.drop (cur + 1))

/-- "Split a non-writable block": the pointer is strictly inside stored segment `s`. Either the
rest of `s` is overwritten completely (two pieces) or a piece of `s` survives on the right (three
pieces). `none` = panic (slice bounds). -/
def restrSplit (fn : FileNode) (cur so : Nat) (s : Seg) (cando : Bytes) : Option Restr :=
  if so > s.len then none else
  let mx := s.len - so
  if mx ≤ cando.length then
    let cando := cando.take mx
    some ⟨fn.segs.take cur ++ [s.slice 0 (some so), memTruncate [] Flush.none cando.length]
            ++ fn.segs.drop (cur + 1), fn.size, cur + 1, 0, cando, true⟩
  else
    some ⟨fn.segs.take cur ++ [s.slice 0 (some so), memTruncate [] Flush.none cando.length,
            s.slice (so + cando.length) none] ++ fn.segs.drop (cur + 1),
          fn.size, cur + 1, 0, cando, true⟩

/-- The pointer is at the start of a non-writable segment or at EOF: grow the previous mem segment
if it has room, otherwise insert a fresh mem segment; `curFate` says what happens to `cur`.
(`if cur < len(fn.segments)` after the `append` is always true in the code, so `repacked` is bumped
in every case, also when a new last segment is appended.) -/
def restrShift (max : Nat) (fn : FileNode) (cur : Nat) (curSeg : Option Seg) (cando : Bytes) : Restr :=
  match prevApp max fn.segs cur with
  | some (buf, fl) =>
    let f := curFate fn cur curSeg (cando.take (max - buf.length))
    ⟨fn.segs.take (cur - 1) ++ [memTruncate buf fl (buf.length + f.1.length)] ++ f.2.2,
     f.2.1, cur - 1, buf.length, f.1, true⟩
  | none =>
    let f := curFate fn cur curSeg cando
    ⟨fn.segs.take cur ++ [memTruncate [] Flush.none f.1.length] ++ f.2.2, f.2.1, cur, 0, f.1, true⟩

/-- The case analysis of one iteration of `filenode.Write` for remaining data `p`. The slice
shuffles (`append`/`copy`) are written as `take ++ new ++ drop`. `none` = panic. -/
def restructure (max : Nat) (fn : FileNode) (ptr : Ptr) (p : Bytes) : Option Restr :=
  let cando := p.take max
  let cur := ptr.segIdx
  if cur > fn.segs.length then none else
  match fn.segs[cur]? with
  | some (Seg.mem buf _) =>
    -- curWritable: shrink cando to what fits
    if ptr.segOff > buf.length then none else
    some ⟨fn.segs, fn.size, cur, ptr.segOff, cando.take (buf.length - ptr.segOff), false⟩
  | curSeg =>
    if ptr.segOff > 0 then
      match curSeg with
      | none => none
      | some s => restrSplit fn cur ptr.segOff s cando
    else some (restrShift max fn cur curSeg cando)

/-- The tail of an iteration: `WriteAt(cando)`, advance the pointer, prune when the segment offset
reached `max`, normalise the pointer at a segment end. -/
def overwrite (hash : Bytes → Loc) (max : Nat) (w : WState) (r : Restr) : StepRes :=
  match r.segs[r.idx]? with
  | some (Seg.mem buf _) =>
    match memWriteAt buf r.cando r.off with
    | none => none
    | some s' =>
      let segs := r.segs.set r.idx s'
      let off' := r.off + r.cando.length
      let pr := if off' ≥ max then pruneSegs hash max segs 0 w.st else (segs, w.st)
      let idx' := if s'.len = off' then r.idx + 1 else r.idx
      let off'' := if s'.len = off' then 0 else off'
      let rep : Int := if r.bump then 1 else 0
      some (⟨{ segs := pr.1, size := r.size, repacked := w.fn.repacked + rep },
             { off := w.ptr.off + r.cando.length, segIdx := idx', segOff := off'', repacked := w.ptr.repacked + rep },
             pr.2⟩, r.cando.length)
  | _ => none

/-- One iteration of the loop in `filenode.Write` for remaining data `p` (non-empty). -/
def writeStep (hash : Bytes → Loc) (max : Nat) (w : WState) (p : Bytes) : StepRes :=
  match restructure max w.fn w.ptr p with
  | none => none
  | some r => overwrite hash max w r

inductive WriteRes
  | done (w : WState) (n : Nat)
  | panic
  | hang

/-- The loop `for len(p) > 0`. `fuel` bounds the number of iterations; `hang` means the fuel ran
out (C08_write_terminates: never from a well-formed state with fuel `p.length`). -/
def writeLoop (hash : Bytes → Loc) (max : Nat) : Nat → WState → Bytes → Nat → WriteRes
  | _, w, [], n => WriteRes.done w n
  | 0, _, _ :: _, _ => WriteRes.hang
  | fuel + 1, w, b :: p, n =>
    match writeStep hash max w (b :: p) with
    | none => WriteRes.panic
    | some (w', k) => writeLoop hash max fuel w' ((b :: p).drop k) (n + k)

/-- `filenode.Write(p, startPtr)`. -/
def write (hash : Bytes → Loc) (max : Nat) (st : Store) (fn : FileNode) (ptr : Ptr) (p : Bytes) : WriteRes :=
  let fn1 := if ptr.off > fn.size then truncate max fn ptr.off else some fn
  match fn1 with
  | none => WriteRes.panic
  | some fn1 =>
    match seek fn1 ptr with
    | none => WriteRes.panic
    | some ptr1 => writeLoop hash max p.length ⟨fn1, ptr1, st⟩ p 0

/-- `filehandle.Write`'s O_APPEND repositioning. -/
def appendPtr (fn : FileNode) : Ptr := ⟨fn.size, fn.segs.length, 0, fn.repacked⟩

/-- `filehandle.Seek` on the pointer: a changed offset invalidates segmentIdx/segmentOff. -/
def Ptr.seekTo (p : Ptr) (off : Nat) : Ptr :=
  if off ≠ p.off then { p with off := off, repacked := -1 } else p

/-! ### flush / commitBlock

`dirnode.flush(names, opts)` walks the files of ONE directory in name order and hands groups of mem
segments to `commitBlock`: a segment longer than `max/2` alone, smaller ones packed together up to
`max` bytes (the last, incomplete group only when `shortBlocks`). `commitBlock` writes the
concatenated buffers as one block and replaces each mem segment by a stored segment pointing into
it. A ref is (index of the file in the list, segment index). -/

abbrev Ref := Nat × Nat

/-- The groups of refs `flush` passes to `commitBlock`, in order. -/
def flushGroups (max : Nat) (short : Bool) (files : List FileNode) : List (List Ref) :=
  let step := fun (acc : List (List Ref) × List Ref × Nat) (r : Ref × Seg) =>
    let (groups, pending, plen) := acc
    match r.2 with
    | Seg.stored .. => acc
    | Seg.mem buf _ =>
      if buf.length > max / 2 then (groups ++ [[r.1]], pending, plen)
      else if plen + buf.length > max then (groups ++ [pending], [r.1], buf.length)
      else (groups, pending ++ [r.1], plen + buf.length)
  let all : List (Ref × Seg) :=
    (files.zipIdx).flatMap (fun (fn, fi) => (fn.segs.zipIdx).map (fun (s, si) => ((fi, si), s)))
  let (groups, pending, _) := all.foldl step ([], [], 0)
  (if short then groups ++ [pending] else groups).filter (fun g => !g.isEmpty)

def segAt (files : List FileNode) (r : Ref) : Option Seg :=
  match files[r.1]? with
  | some fn => fn.segs[r.2]?
  | none => none

/-- the buffer a ref points at, if it is a mem segment -/
def refBuf (files : List FileNode) (r : Ref) : Option Bytes :=
  match segAt files r with
  | some (Seg.mem buf _) => some buf
  | _ => none

def setSeg (files : List FileNode) (r : Ref) (s : Seg) : List FileNode :=
  match files[r.1]? with
  | some fn => files.set r.1 { fn with segs := fn.segs.set r.2 s }
  | none => files

/-- `commitBlock(refs)`: one PutB of the concatenation of the ref'd buffers (taken when the block
is assembled, under the lock), then every ref'd mem segment becomes a stored segment
`(loc, blocksize, offset within block, len)`. Refs that are not mem segments (cannot happen:
`flush` only collects mem segments) are skipped. -/
def commitBlock (hash : Bytes → Loc) (st : Store) (files : List FileNode) (refs : List Ref) :
    Store × List FileNode :=
  let block : Bytes := refs.flatMap (fun r => (refBuf files r).getD [])
  let loc := hash block
  let go := fun (acc : List FileNode × Nat) (r : Ref) =>
    match refBuf files r with
    | some buf => (setSeg acc.1 r (Seg.stored loc block.length acc.2 buf.length), acc.2 + buf.length)
    | none => acc
  (st.put hash block, (refs.foldl go (files, 0)).1)

/-- `dirnode.flush` for the files of one directory (already in name order). -/
def flushFiles (hash : Bytes → Loc) (max : Nat) (st : Store) (files : List FileNode) (short : Bool) :
    Store × List FileNode :=
  (flushGroups max short files).foldl (fun (acc : Store × List FileNode) g => commitBlock hash acc.1 acc.2 g)
    (st, files)

/-! ### Spec layer: a file is a byte list -/

/-- pwrite: zero-fill the gap when writing beyond EOF. -/
def specWrite (f : Bytes) (off : Nat) (p : Bytes) : Bytes :=
  (f ++ zeros (off - f.length)).take off ++ p ++ f.drop (off + p.length)

/-- pread of up to `want` bytes. -/
def specRead (f : Bytes) (off want : Nat) : Bytes := (f.drop off).take want

def specTruncate (f : Bytes) (size : Nat) : Bytes := f.take size ++ zeros (size - f.length)

/-! ### Well-formedness -/

/-- A stored segment lies inside its block and the block is in Keep with the advertised size; a
mem segment is no longer than `max`; a pending flush was started when the buffer was at least as
long as now, and if the length still matches, the snapshot (= the current buffer) is in Keep. -/
def SegWF (max : Nat) (hash : Bytes → Loc) (st : Store) : Seg → Prop
  | Seg.mem buf fl =>
    0 < buf.length ∧ buf.length ≤ max ∧
    (∀ i l, fl = Flush.pending i l → buf.length ≤ l ∧ (l = buf.length → st (hash buf) = some buf))
  | Seg.stored loc size off l =>
    0 < l ∧ off + l ≤ size ∧ ∃ b, st loc = some b ∧ b.length = size

structure WF (max : Nat) (hash : Bytes → Loc) (st : Store) (fn : FileNode) : Prop where
  size_eq : fn.size = sumLen fn.segs
  segs : ∀ s ∈ fn.segs, SegWF max hash st s

/-- `(idx, off)` is where byte offset `o` of the segment list lives (`off ≤` the segment length:
a pointer may have "fallen off the end of a segment"). -/
def Located (segs : List Seg) (o idx off : Nat) : Prop :=
  ∃ s, segs[idx]? = some s ∧ off ≤ s.len ∧ sumLen (segs.take idx) + off = o

/-- The invariant every handle's pointer satisfies: if its `repacked` stamp is current, its
segment coordinates are right (or it is at/after EOF, where `seek` ignores them); and stamps never
run ahead of the file's. -/
def PtrOK (fn : FileNode) (p : Ptr) : Prop :=
  p.repacked ≤ fn.repacked ∧
  (p.repacked = fn.repacked → p.off ≥ fn.size ∨ Located fn.segs p.off p.segIdx p.segOff)

end ArvVerif.C08
