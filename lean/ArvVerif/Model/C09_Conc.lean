/-
C09 — MODEL, part 5: the goroutine protocol of one synchronous `dirnode.flush`
(sdk/go/arvados/contextgroup.go, throttle.go, and the channel/throttle protocol of
`dirnode.commitBlock` in fs_collection.go).

Parts 1–4 describe a save by an *outcome script*: every block group gets `ok`, `fail` or `skip`, and
the theorems hold for every script. This part models where such a script comes from: `n` block-group
tasks started by `cg.Go`, each running `commitBlock(sync)` micro-step by micro-step under an
arbitrary scheduler, sharing

* the **throttle** (`chan struct{}` of capacity `cap`; `Acquire` = send, blocks while full;
  `Release` = receive) with `bg` background writers (goroutines of `pruneMemSegments` / asynchronous
  `commitBlock`s started earlier, which hold a slot until their PutB has returned and release it
  BEFORE they take any file lock);
* the **contextGroup** (`cg.err`, the cancellable context, the WaitGroup): `Go` does not start `f`
  once `cg.err` is set; the wrapper records the FIRST error and cancels; `Wait` waits for the
  WaitGroup first;
* per task the **`done` channel** that `commitBlock` installs in `seg.flushing` of its segments
  before `Acquire` and that the inner goroutine closes by `defer` (after `errs` is closed, so
  `commitBlock` may have returned a moment earlier).

Program of one task (each constructor of `PC` is a point between two micro-steps):

  idle ──Go──▶ spawned | dropped           (dropped: `if cg.err != nil { return }` in Go)
  spawned ──ctx.Err()──▶ waiting | returned skip    (waiting: `seg.flushing = done` set, in Acquire)
  waiting ──Acquire (needs a free slot)──▶ writing ──PutB answers b──▶ answered b
  answered b ──Release──▶ released b ──(replace segments | errs <- err); close(errs)──▶ returned o
  returned o ──wrapper: cg.err/cancel, wg.Done──▶ finished o        close(done) at any time after `returned`

Keep answers by arrival: the k-th PutB to arrive gets the k-th entry of `script` (as the recording
stub of the correspondence driver does). `extCancel` = the parent context is cancelled (a sibling
directory's flush failed), possible at any time.
-/
import ArvVerif.Model.C09
namespace ArvVerif.C09.Conc

open ArvVerif.C09 (Outcome)

inductive PC
  | idle | dropped | spawned | waiting | writing
  | answered (ok : Bool)
  | released (ok : Bool)
  /-- `commitBlock` has returned `o`; `closed` = its `done` channel is closed (a `skip` never made one) -/
  | returned (o : Outcome) (closed : Bool)
  /-- the `cg.Go` wrapper has recorded the result and called `wg.Done` -/
  | finished (o : Outcome) (closed : Bool)
  deriving DecidableEq, Repr, Inhabited

structure CS where
  pcs : List PC
  /-- `len(throttle.c)` -/
  inUse : Nat
  /-- slots held by background writers that do not belong to this flush -/
  bg : Nat
  /-- `cg.err`: the task whose error was recorded -/
  cgErr : Option Nat
  /-- `cg.ctx.Err() != nil` -/
  cancelled : Bool
  /-- ghost: the parent context was cancelled -/
  ext : Bool
  script : List Bool
  dflt : Bool
  /-- ghost: PutB arrivals (task, answer), newest first -/
  log : List (Nat × Bool)
  deriving Repr, DecidableEq

inductive Act
  | spawn (i : Nat) | check (i : Nat) | acquire (i : Nat) | putb (i : Nat) | release (i : Nat)
  | ret (i : Nat) | closeDone (i : Nat) | finish (i : Nat)
  | bgRelease | extCancel
  deriving DecidableEq, Repr

def CS.setPc (s : CS) (i : Nat) (p : PC) : CS := { s with pcs := s.pcs.set i p }

def outcomeOf (b : Bool) : Outcome := if b then Outcome.ok else Outcome.fail

/-- one micro-step; `none` = not enabled (the goroutine is blocked or elsewhere) -/
def step (cap : Nat) (s : CS) : Act → Option CS
  | .spawn i =>
    match s.pcs[i]? with
    | some .idle => some (s.setPc i (if s.cgErr.isSome then .dropped else .spawned))
    | _ => none
  | .check i =>
    match s.pcs[i]? with
    | some .spawned => some (s.setPc i (if s.cancelled then .returned .skip true else .waiting))
    | _ => none
  | .acquire i =>
    match s.pcs[i]? with
    | some .waiting => if s.inUse < cap then some { s.setPc i .writing with inUse := s.inUse + 1 } else none
    | _ => none
  | .putb i =>
    match s.pcs[i]? with
    | some .writing =>
      let b := s.script.headD s.dflt
      some { s.setPc i (.answered b) with script := s.script.tail, log := (i, b) :: s.log }
    | _ => none
  | .release i =>
    match s.pcs[i]? with
    | some (.answered b) => some { s.setPc i (.released b) with inUse := s.inUse - 1 }
    | _ => none
  | .ret i =>
    match s.pcs[i]? with
    | some (.released b) => some (s.setPc i (.returned (outcomeOf b) false))
    | _ => none
  | .closeDone i =>
    match s.pcs[i]? with
    | some (.returned o false) => some (s.setPc i (.returned o true))
    | some (.finished o false) => some (s.setPc i (.finished o true))
    | _ => none
  | .finish i =>
    match s.pcs[i]? with
    | some (.returned o c) =>
      if o ≠ Outcome.ok ∧ s.cgErr = none then
        some { s.setPc i (.finished o c) with cgErr := some i, cancelled := true }
      else some (s.setPc i (.finished o c))
    | _ => none
  | .bgRelease => if 0 < s.bg then some { s with bg := s.bg - 1, inUse := s.inUse - 1 } else none
  | .extCancel => if s.cancelled then none else some { s with cancelled := true, ext := true }

/-- the flush loop has not called `goCommit` yet; `bg` background writers hold a slot -/
def init (n bg : Nat) (script : List Bool) (dflt : Bool) : CS :=
  ⟨List.replicate n .idle, bg, bg, none, false, false, script, dflt, []⟩

inductive Reach (cap : Nat) : CS → CS → Prop
  | refl (s : CS) : Reach cap s s
  | tail {s t u : CS} (a : Act) : Reach cap s t → step cap t a = some u → Reach cap s u

/-- run a schedule; an action that is not enabled is skipped (the scheduler picked a blocked goroutine) -/
def runSched (cap : Nat) : CS → List Act → CS
  | s, [] => s
  | s, a :: rest => runSched cap ((step cap s a).getD s) rest

/-! ## Observables -/

/-- the task holds a throttle slot -/
def PC.holding : PC → Bool
  | .writing | .answered _ => true
  | _ => false

/-- `seg.flushing` of the task's segments is an OPEN channel -/
def PC.chanOpen : PC → Bool
  | .waiting | .writing | .answered _ | .released _ => true
  | .returned _ c | .finished _ c => !c
  | _ => false

/-- the WaitGroup no longer counts the task -/
def PC.done : PC → Bool
  | .dropped | .finished _ _ => true
  | _ => false

/-- nothing left to do for the task: not counted and its channel closed -/
def PC.quiet : PC → Bool
  | .dropped | .finished _ true => true
  | _ => false

def PC.out : PC → Outcome
  | .finished o _ | .returned o _ => o
  | _ => Outcome.skip

def sumF (f : PC → Nat) (l : List PC) : Nat := (l.map f).sum

def nHold (l : List PC) : Nat := sumF (fun p => if p.holding then 1 else 0) l

inductive WaitRes
  | nil | taskErr (i : Nat) | ctxErr
  deriving DecidableEq, Repr

/-- `cg.Wait()`: enabled when the WaitGroup is at zero (`cg.wg.Wait()` comes first); then `cg.err`, else `ctx.Err()` -/
def wait (s : CS) : Option WaitRes :=
  if s.pcs.all PC.done then
    some (match s.cgErr with
      | some i => .taskErr i
      | none => if s.cancelled then .ctxErr else .nil)
  else none

/-- the outcome script this run amounts to, in group order -/
def outs (s : CS) : List Outcome := s.pcs.map PC.out

/-- progress measure: every micro-step lowers it -/
def PC.rank : PC → Nat
  | .idle => 9 | .spawned => 8 | .waiting => 7 | .writing => 6 | .answered _ => 5 | .released _ => 4
  | .returned _ c => if c then 2 else 3
  | .finished _ c => if c then 0 else 1
  | .dropped => 0

def mu (s : CS) : Nat := sumF PC.rank s.pcs + s.bg + (bif s.cancelled then 0 else 1)

end ArvVerif.C09.Conc
