/-
C19 model, keepstore part: the whole remote GET path of one keepstore process.

  services/keepstore/handlers.go       GetAPIToken (authRe)
  services/keepstore/proxy_remote.go   remoteProxy.Get (locator hints), remoteProxy.remoteClient
                                       (client cache per remote id, client construction, salting)
  sdk/go/arvadosclient                 CallRaw's `Authorization: OAuth2 <ApiToken>` (the two requests
                                       keepclient.MakeKeepClient sends to the remote's API endpoint)
  sdk/go/keepclient                    getOrHead (`Authorization: OAuth2 <ApiToken>`, empty-block short
                                       cut), getSortedRoots (`+K@` service hints)

A locator is the list of its '+'-separated parts (`strings.Split(path[1:], "+")`, never empty: the
first part is the hash). The remote clusters' services answer 404 to every block request; service
discovery succeeds (a failing API endpoint makes MakeKeepClient wait for a minute — not modelled).
The `X-Keep-Signature: local` variant (`remoteResponseCacher`) only wraps the response writer and is
not modelled.
-/
import ArvVerif.Model.C19
namespace ArvVerif.C19

/-! ## GetAPIToken -/

/-- `\s` of Go's regexp: `[\t\n\f\r ]` -/
def isReSpace (c : Char) : Bool :=
  c == ' ' || c == '\t' || c == '\n' || c == '\r' || c == Char.ofNat 12

/-- submatch 2 of `authRe = ^(OAuth2|Bearer)\s+(.*)` (`.` does not match a newline); `none` = no match -/
def keepAuthToken (v : Str) : Option Str :=
  if sOAuth2.isPrefixOf v || sBearerWord.isPrefixOf v then
    match v.drop 6 with
    | c :: rest =>
      if isReSpace c then some (((c :: rest).dropWhile isReSpace).takeWhile (fun x => x != '\n'))
      else none
    | [] => none
  else none

/-- `GetAPIToken`: only the FIRST Authorization header value is looked at; no header, no match and
an empty token all give `""` (which `Get` answers with 401) -/
def getAPIToken : List Str → Str
  | [] => []
  | v :: _ =>
    match keepAuthToken v with
    | some t => t
    | none => []

/-! ## locator hints -/

/-- `len(part) > 7 && part[0] == 'R' && part[6] == '-'` -/
def isRemoteHint (p : Str) : Bool :=
  decide (7 < p.length) && p.head? == some 'R' && p[6]? == some '-'

/-- `part[1:6]` -/
def hintRemote (p : Str) : Str := (p.drop 1).take 5

/-- `"A" + part[7:]`: the remote cluster's signature becomes a local signature hint for the remote -/
def hintRewrite (p : Str) : Str := 'A' :: p.drop 7

def sKAt : Str := "K@".toList

/-- `+K@abcde` (exactly 7 characters): keepclient tries `https://keep.abcde.arvadosapi.com` first -/
def isProxyHint (p : Str) : Bool := p.length == 7 && p.take 2 == sKAt

/-- the clusters named by `+K@xxxxx` hints of a locator, in locator order (`getSortedRoots`; a
29-character `+K@<uuid>` hint selects one of the remote's own services and adds no new destination) -/
def proxyHints (parts : List Str) : List Str :=
  parts.filterMap (fun p => if isProxyHint p then some (p.drop 2) else none)

def joinPlus : List Str → Str
  | [] => []
  | [p] => p
  | p :: q :: r => p ++ '+' :: joinPlus (q :: r)

/-- `getOrHead` answers a locator with this prefix itself (empty block), without any request -/
def emptyBlockPrefix : Str := "d41d8cd98f00b204e9800998ecf8427e+0".toList

/-! ## what leaves the process -/

inductive KeepDest where
  | svc (remote : Str)        -- a keep service from the service list of remote cluster `remote`
  | ext (cluster : Str)       -- https://keep.<cluster>.arvadosapi.com (named by the locator)
deriving Repr, DecidableEq

inductive KeepEvent where
  | discovery (remote auth : Str)     -- GET discovery document at the remote's API endpoint
  | services (remote auth : Str)      -- GET keep_services/accessible at the remote's API endpoint
  | block (dest : KeepDest) (locator auth : Str)
deriving Repr, DecidableEq

/-- the token of the `arvados.Client` a remote's keep client is built from -/
def placeholderToken : Str := "xxx".toList

/-- `remoteClient`, first half: the cached client for the remote, or a new one — building it sends
two requests to the remote's API endpoint with the placeholder token (`arvadosclient.CallRaw`) -/
def keepClientFor (cached : List Str) (remote : Str) : List Str × List KeepEvent :=
  if cached.contains remote then (cached, [])
  else (remote :: cached,
        [.discovery remote (sOAuth2sp ++ placeholderToken), .services remote (sOAuth2sp ++ placeholderToken)])

inductive HintOut where
  | refused (status : Nat)
  | done (client : Option (Str × Str)) (parts : List Str)   -- (remote, salted token) of the last hint
deriving Repr, DecidableEq

def consOpt : Option Str → List Str → List Str
  | some p, l => p :: l
  | none, l => l

/-- combine one loop iteration with the rest of the loop: events `evs0` first, the part `part`
(if the iteration keeps one) in front of the parts the rest keeps; a refusal ends the request -/
def hintThen (evs0 : List KeepEvent) (part : Option Str) (res : List Str × List KeepEvent × HintOut) :
    List Str × List KeepEvent × HintOut :=
  (res.1, evs0 ++ res.2.1,
   match res.2.2 with
   | .refused st => .refused st
   | .done cl parts => .done cl (consOpt part parts))

/-- the loop of `Get` over the parts after the hash. `cfg` = ids in `cluster.RemoteClusters`,
`cached` = remotes that have a keep client, `cl` = client chosen so far. -/
def keepHints (mac : Str → Str → List UInt8) (cfg : List Str) (token : Str) :
    List Str → List Str → Option (Str × Str) → List Str × List KeepEvent × HintOut
  | [], cached, cl => (cached, [], .done cl [])
  | p :: ps, cached, cl =>
    if p.head? == some 'A' then hintThen [] none (keepHints mac cfg token ps cached cl)   -- local hint: dropped
    else if isRemoteHint p then
      if !cfg.contains (hintRemote p) then (cached, [], .refused 400)      -- remote not configured
      else
        match saltToken mac token (hintRemote p) with
        | .error .obsolete => ((keepClientFor cached (hintRemote p)).1, (keepClientFor cached (hintRemote p)).2, .refused 400)
        | .error _ => ((keepClientFor cached (hintRemote p)).1, (keepClientFor cached (hintRemote p)).2, .refused 500)
        | .ok t =>
          hintThen (keepClientFor cached (hintRemote p)).2 (some (hintRewrite p))
            (keepHints mac cfg token ps (keepClientFor cached (hintRemote p)).1 (some (hintRemote p, t)))
    else hintThen [] (some p) (keepHints mac cfg token ps cached cl)

structure KeepStep where
  status : Nat
  events : List KeepEvent
deriving Repr, DecidableEq

/-- `remoteProxy.Get` on a process whose client cache is `cached`: new cache, answer status, and
everything sent to other clusters, in order -/
def keepProxyGet (mac : Str → Str → List UInt8) (cfg cached : List Str) (auths : List Str)
    (hash : Str) (hints : List Str) : List Str × KeepStep :=
  let token := getAPIToken auths
  if token = [] then (cached, ⟨401, []⟩)
  else match keepHints mac cfg token hints cached none with
    | (c, evs, .refused st) => (c, ⟨st, evs⟩)
    | (c, evs, .done none _) => (c, ⟨400, evs⟩)                            -- no remote hint
    | (c, evs, .done (some (r, t)) ps) =>
      let loc := joinPlus (hash :: ps)
      if emptyBlockPrefix.isPrefixOf loc then (c, ⟨200, evs⟩)
      else (c, ⟨404, evs ++ (proxyHints (hash :: ps)).map (fun x => .block (.ext x) loc (sOAuth2sp ++ t))
                        ++ [.block (.svc r) loc (sOAuth2sp ++ t)]⟩)

/-- a request of the sequence: Authorization header values, hash, hints -/
structure KeepReq where
  auths : List Str
  hash : Str
  hints : List Str
deriving Repr, DecidableEq

/-- a keepstore process serving a sequence of remote GET requests, starting with client cache `cached` -/
def keepProc (mac : Str → Str → List UInt8) (cfg : List Str) : List Str → List KeepReq → List KeepStep
  | _, [] => []
  | cached, q :: qs =>
    let r := keepProxyGet mac cfg cached q.auths q.hash q.hints
    r.2 :: keepProc mac cfg r.1 qs

/-- the client cache after the sequence -/
def keepProcCache (mac : Str → Str → List UInt8) (cfg : List Str) : List Str → List KeepReq → List Str
  | cached, [] => cached
  | cached, q :: qs => keepProcCache mac cfg (keepProxyGet mac cfg cached q.auths q.hash q.hints).1 qs

end ArvVerif.C19
