/-
C04: the trash list on its way from `PUT /trash` to `TrashItem` — work_queue.go (WorkQueue manager
goroutine), trash_worker.go (RunTrashWorker) and the part of handlers.go that feeds them.

  PUT /trash            → trashq.ReplaceQueue(list): the manager's `case p := <-newList` sets `todo = p`
                          (the previous list is ABANDONED; items already handed to a worker are not affected)
  RunTrashWorker (1 or BlobTrashConcurrency goroutines)
      item := <-NextItem → manager's `case nextChan <- nextVal`: `todo.Remove(todo.Front())`, InProgress++
      TrashItem(item)    → the history-layer op `.trashItem hash mtime mount`, executed at the CURRENT time:
                           the TTL test on the requested mtime and the comparison with the stored mtime happen
                           now, not when the list was submitted
      DoneItem <- {}     → InProgress--

Granularity: one event = one request handled by the router, one queue replacement, one hand-over of the
front item to a worker, or one worker running `TrashItem` on the item it holds (the finer interleaving of
that `Trash` with a concurrent PUT/TOUCH is `Model/C04_Race.lean`). Any number of workers: `busy` is the
list of items handed out and not yet executed; `exec k` lets the worker holding `busy[k]` run.
-/
import ArvVerif.Model.C04
namespace ArvVerif.C04.Queue
open ArvVerif.C04

/-- TrashRequest: locator, block_mtime, mount_uuid -/
structure Item where
  hash : Hash
  mtime : Time
  mount : Option Nat
deriving DecidableEq, Repr

def Item.op (x : Item) : Op := .trashItem x.hash x.mtime x.mount

/-- state of the WorkQueue manager: `todo` (its list.List) and the items in progress
(`status.InProgress = busy.length`, `status.Queued = todo.length`) -/
structure QSt where
  todo : List Item
  busy : List Item

inductive Ev
  | req (op : Op)               -- a request handled by the router
  | putTrash (l : List Item)    -- PUT /trash → ReplaceQueue(l)
  | take                        -- a worker receives the front item from NextItem
  | exec (k : Nat)              -- the worker holding busy[k] runs TrashItem and reports DoneItem
deriving Repr

def qstep (q : QSt) : Ev → QSt
  | .req _ => q
  | .putTrash l => { q with todo := l }
  | .take => match q.todo with
    | x :: r => { todo := r, busy := q.busy ++ [x] }
    | [] => q                                       -- nextChan is nil: nothing to send
  | .exec k => { q with busy := q.busy.eraseIdx k }

/-- the history-layer op an event executes, if any -/
def evOp (q : QSt) : Ev → Option Op
  | .req op => some op
  | .exec k => (q.busy[k]?).map Item.op
  | _ => none

/-- one event of the server: router + queue manager + workers -/
def sstep (c : Cfg) (s : St) (q : QSt) (e : Ev) : St × QSt :=
  match evOp q e with
  | some op => ((step c s op).1, qstep q e)
  | none => (s, qstep q e)

def srun (c : Cfg) : St → QSt → List Ev → St × QSt
  | s, q, [] => (s, q)
  | s, q, e :: es => let r := sstep c s q e; srun c r.1 r.2 es

/-- the request history an event sequence amounts to -/
def opsOf : QSt → List Ev → List Op
  | _, [] => []
  | q, e :: es =>
    match evOp q e with
    | some op => op :: opsOf (qstep q e) es
    | none => opsOf (qstep q e) es

/-- the trash-list items executed by an event sequence, in order -/
def executed : QSt → List Ev → List Item
  | _, [] => []
  | q, e :: es =>
    match e with
    | .exec k => (match q.busy[k]? with
        | some x => x :: executed (qstep q e) es
        | none => executed (qstep q e) es)
    | _ => executed (qstep q e) es

def noReplace : List Ev → Prop
  | [] => True
  | .putTrash _ :: _ => False
  | _ :: es => noReplace es

end ArvVerif.C04.Queue
