/-
C04, interleaving layer: a small-step model of two keepstore goroutines working on ONE block path
`p = <root>/<h[:3]>/<h>` of one Directory volume:

  P : a TOUCH request (UnixVolume.Touch) or a PUT request (handlePUT → PutBlock →
      CompareAndTouch [Compare = stat + getFunc(lock, open, read), Touch] → on any failure
      NextWritable().Put = WriteBlock, which since fix 7e105eb opens the file it is about to
      replace and takes its flock before the rename)
  T : a DELETE request (handleDELETE → UnixVolume.Trash), one trash-list item
      (TrashItem = Mtime, then Trash), or one untrash request (UnixVolume.Untrash: ReadDir, Rename of
      the trashed copy `x` onto the block path, Chtimes; it takes neither lock)

One micro-step = the code between two consecutive `verifPoint`s of the instrumented
unix_volume.go (one filesystem / lock call each); its `label` is the point's "<Func>:<callee>".
Filesystem: at most three inodes exist for `p`: `a` (the copy present before the race), `b` (the temp
file WriteBlock creates and renames to `p`) and, when T is an untrash, `x` (an old intact copy in the trash). flock(2) is a per-inode mutex; the optional
`Serialize` volume mutex is `mutex`. Time does not advance during the race: an inode is either
`fresh` (mtime younger than BlobSigningTTL) or not; Touch/WriteBlock stamp "now", which is fresh
(BlobSigningTTL > 0).
-/
namespace ArvVerif.C04.Race

inductive Pre | absent | good | corrupt deriving DecidableEq, Repr
inductive POp | touch | put deriving DecidableEq, Repr
inductive TOp | del | ti | untrash deriving DecidableEq, Repr

structure Cfg where
  serialize : Bool
  life0 : Bool      -- BlobTrashLifetime == 0: Trash removes instead of renaming
  pre : Pre
  ageOld : Bool     -- the pre-existing copy's mtime is at least BlobSigningTTL in the past
  pop : POp
  top : TOp
deriving DecidableEq, Repr

inductive Ino | a | b | x deriving DecidableEq, Repr
inductive Loc | none | blk | tmp | trash | gone deriving DecidableEq, Repr
inductive Thr | p | t deriving DecidableEq, Repr

inductive PPC
  | cStat | cLock | cOpen | cRead
  | tOpen | tLock | tFlock | tChtimes
  | wMkdir | wTemp | wLock | wCopy | wClose | wChtimes | wOpenOld | wFlockOld | wRename
  | done
deriving DecidableEq, Repr

inductive TPC | iMtime | dLock | dOpen | dFlock | dStat | dRemove | dRename | uReadDir | uRename | uChtimes | done
deriving DecidableEq, Repr

inductive PRes | none | okTouch | okWrite | notFound deriving DecidableEq, Repr
inductive TRes | none | skipped | notFound | kept | trashed | failed | restored deriving DecidableEq, Repr

structure St where
  cfg : Cfg
  pcP : PPC
  pcT : TPC
  locA : Loc
  locB : Loc
  locX : Loc
  aTouched : Bool
  xTouched : Bool
  fdP : Option Ino
  fdT : Option Ino
  flockA : Option Thr
  flockB : Option Thr
  flockX : Option Thr
  mutex : Option Thr
  waitP : Bool
  waitT : Bool
  resP : PRes
  resT : TRes
deriving DecidableEq, Repr

/-- the inode currently linked at the block path -/
def St.blk (s : St) : Option Ino :=
  if s.locB = .blk then some .b else if s.locX = .blk then some .x else if s.locA = .blk then some .a else none

def St.fresh (s : St) : Ino → Bool
  | .a => !s.cfg.ageOld || s.aTouched
  | .b => true
  | .x => s.xTouched       -- the trashed copy is old until someone stamps it

def St.good (s : St) : Ino → Bool
  | .a => s.cfg.pre = .good
  | .b => true
  | .x => true            -- the trashed copy of this model is intact (a corrupt one: Props, C04_put_readable_*)

def St.flock (s : St) : Ino → Option Thr
  | .a => s.flockA
  | .b => s.flockB
  | .x => s.flockX

def St.setFlock (s : St) (i : Ino) (v : Option Thr) : St :=
  match i with
  | .a => { s with flockA := v }
  | .b => { s with flockB := v }
  | .x => { s with flockX := v }

def St.setLoc (s : St) (i : Ino) (l : Loc) : St :=
  match i with
  | .a => { s with locA := l }
  | .b => { s with locB := l }
  | .x => { s with locX := l }

/-- a rename onto the block path unlinks whatever was there -/
def St.unlinkBlk (s : St) : St :=
  match s.blk with
  | some i => s.setLoc i .gone
  | none => s

/-- utimes(now) on inode i -/
def St.stamp (s : St) : Ino → St
  | .a => { s with aTouched := true }
  | .b => s
  | .x => { s with xTouched := true }

def init (c : Cfg) : St :=
  { cfg := c
    pcP := match c.pop with | .touch => .tOpen | .put => .cStat
    pcT := match c.top with
      | .del => .dLock
      -- TrashItem returns before any filesystem call when the request's mtime is younger than the TTL
      | .ti => if c.pre ≠ .absent ∧ !c.ageOld then .done else .iMtime
      | .untrash => .uReadDir
    locA := if c.pre = .absent then .none else .blk
    locX := if c.top = .untrash then .trash else .none
    xTouched := false
    locB := .none
    aTouched := false
    fdP := none, fdT := none, flockA := none, flockB := none, flockX := none, mutex := none
    waitP := false, waitT := false
    resP := .none
    resT := match c.top with
      | .del => .none
      | .ti => if c.pre ≠ .absent ∧ !c.ageOld then .skipped else .none
      | .untrash => .none }

/-- can thread `x` take the Serialize mutex now? (always, when Serialize is off) -/
def St.mutexFree (s : St) : Bool := !s.cfg.serialize || s.mutex.isNone

def St.takeMutex (s : St) (x : Thr) : St := if s.cfg.serialize then { s with mutex := some x } else s
def St.dropMutex (s : St) : St := { s with mutex := none }

/-- release every flock held by thread x -/
def St.dropFlocks (s : St) (x : Thr) : St :=
  { s with flockA := if s.flockA = some x then none else s.flockA
           flockB := if s.flockB = some x then none else s.flockB
           flockX := if s.flockX = some x then none else s.flockX }

def St.blockP (s : St) : St := { s with waitP := true }
def St.blockT (s : St) : St := { s with waitT := true }

/-- after a failed compare / touch the PUT handler writes a new copy; a TOUCH request fails -/
def St.pFail (s : St) : St :=
  match s.cfg.pop with
  | .touch => { s with pcP := .done, resP := .notFound }
  | .put => { s with pcP := .wMkdir }

/-- one micro-step of P (a stutter when P is finished or its lock is taken) -/
def stepP (s0 : St) : St :=
  let s := { s0 with waitP := false }
  match s.pcP with
  | .cStat =>                                   -- UnixVolume.stat(path)
    if s.blk.isSome then { s with pcP := .cLock } else { s with pcP := .wMkdir }
  | .cLock =>                                   -- getFunc: v.lock
    if s.mutexFree then { s.takeMutex .p with pcP := .cOpen } else s.blockP
  | .cOpen =>                                   -- getFunc: v.os.Open(path)
    match s.blk with
    | some i => { s with pcP := .cRead, fdP := some i }
    | none => { s.dropMutex with pcP := .wMkdir }
  | .cRead =>                                   -- compareReaderWithBuf on the open file
    match s.fdP with
    | some i =>
      if s.good i then { s.dropMutex with pcP := .tOpen, fdP := none }
      else { s.dropMutex with pcP := .wMkdir, fdP := none }
    | none => { s.dropMutex with pcP := .wMkdir }
  | .tOpen =>                                   -- Touch: v.os.OpenFile(p)
    match s.blk with
    | some i => { s with pcP := .tLock, fdP := some i }
    | none => s.pFail
  | .tLock =>                                   -- Touch: v.lock
    if s.mutexFree then { s.takeMutex .p with pcP := .tFlock } else s.blockP
  | .tFlock =>                                  -- Touch: v.lockfile(f)
    match s.fdP with
    | some i => if (s.flock i).isNone then { s.setFlock i (some .p) with pcP := .tChtimes } else s.blockP
    | none => { s with pcP := .tChtimes }
  | .tChtimes =>                                -- Touch: os.Chtimes(p) BY PATH, then unlockfile, unlock, Close
    let r := ((s.dropFlocks .p).dropMutex)
    match s.blk with
    | some i =>
      { r.stamp i with pcP := .done, fdP := none, resP := .okTouch }
    | none => { r with fdP := none }.pFail
  | .wMkdir => { s with pcP := .wTemp }         -- WriteBlock: os.MkdirAll
  | .wTemp => { s with pcP := .wLock, locB := .tmp }   -- v.os.TempFile
  | .wLock =>                                   -- WriteBlock: v.lock
    if s.mutexFree then { s.takeMutex .p with pcP := .wCopy } else s.blockP
  | .wCopy => { s with pcP := .wClose }         -- io.Copy
  | .wClose => { s with pcP := .wChtimes }      -- tmpfile.Close
  | .wChtimes => { s with pcP := .wOpenOld }    -- os.Chtimes(tmp)
  | .wOpenOld =>                                -- v.os.OpenFile(bpath): the file about to be replaced, if any (fix 7e105eb)
    match s.blk with
    | some i => { s with pcP := .wFlockOld, fdP := some i }
    | none => { s with pcP := .wRename }
  | .wFlockOld =>                               -- v.lockfile(oldf): the flock Touch and Trash use
    match s.fdP with
    | some i => if (s.flock i).isNone then { s.setFlock i (some .p) with pcP := .wRename } else s.blockP
    | none => { s with pcP := .wRename }
  | .wRename =>                                 -- v.os.Rename(tmp, p): replaces whatever is linked at p
    let s1 := s.unlinkBlk
    { (s1.dropFlocks .p).dropMutex with pcP := .done, locB := .blk, fdP := none, resP := .okWrite }
  | .done => s0

/-- Trash's return: unlockfile, Close, unlock -/
def St.tReturn (s : St) (r : TRes) : St :=
  { (s.dropFlocks .t).dropMutex with pcT := .done, fdT := none, resT := r }

def stepT (s0 : St) : St :=
  let s := { s0 with waitT := false }
  match s.pcT with
  | .iMtime =>                                  -- TrashItem: volume.Mtime(loc) and the mtime match
    match s.blk with
    | some .a => if s.aTouched then { s with pcT := .done, resT := .skipped } else { s with pcT := .dLock }
    | _ => { s with pcT := .done, resT := .skipped }
  | .dLock =>                                   -- Trash: v.lock
    if s.mutexFree then { s.takeMutex .t with pcT := .dOpen } else s.blockT
  | .dOpen =>                                   -- Trash: v.os.OpenFile(p)
    match s.blk with
    | some i => { s with pcT := .dFlock, fdT := some i }
    | none => s.tReturn .notFound
  | .dFlock =>                                  -- Trash: v.lockfile(f)
    match s.fdT with
    | some i => if (s.flock i).isNone then { s.setFlock i (some .t) with pcT := .dStat } else s.blockT
    | none => { s with pcT := .dStat }
  | .dStat =>                                   -- Trash: v.os.Stat(p) BY PATH and the TTL comparison
    match s.blk with
    | some i =>
      if s.fresh i then s.tReturn .kept
      else if s.cfg.life0 then { s with pcT := .dRemove } else { s with pcT := .dRename }
    | none => s.tReturn .failed
  | .dRemove =>                                 -- Trash: v.os.Remove(p)
    match s.blk with
    | some i => (s.setLoc i .gone).tReturn .trashed
    | none => s.tReturn .failed
  | .dRename =>                                 -- Trash: v.os.Rename(p, p.trash.<deadline>)
    match s.blk with
    | some i => (s.setLoc i .trash).tReturn .trashed
    | none => s.tReturn .failed
  /- T = one untrash request (handleUntrash → UnixVolume.Untrash): no Serialize lock, no flock -/
  | .uReadDir =>                                -- ioutil.ReadDir(blockDir): is there a <h>.trash.* name?
    if s.locX = .trash then { s with pcT := .uRename } else { s with pcT := .done, resT := .notFound }
  | .uRename =>                                 -- v.os.Rename(<h>.trash.<d>, p): replaces whatever is linked at p
    { s.unlinkBlk with locX := .blk, pcT := .uChtimes }
  | .uChtimes =>                                -- os.Chtimes(p, now) BY PATH (fix f7a86a4)
    match s.blk with
    | some i => { s.stamp i with pcT := .done, resT := .restored }
    | none => { s with pcT := .done, resT := .restored }
  | .done => s0

/-- scheduler letter: `true` = P, `false` = T -/
def step (x : Bool) (s : St) : St := if x then stepP s else stepT s

/-- the pure interleaving semantics: the scheduler is an arbitrary list of turns; a turn given to a
finished or lock-waiting thread is a stutter -/
def run : List Bool → St → St
  | [], s => s
  | x :: xs, s => run xs (step x s)

/-! ### The executable runner used by the correspondence check

The real goroutine, once released into `flock`/`Lock`, completes that call as soon as the holder
lets go — without another turn from the controller. `runE` mirrors this ("eager wake") and records
the trace the Go controller records. `Proofs/C04_Race.lean` shows every `runE` result is a `run`
result of a longer schedule, so the theorems about `run` cover it. -/

def labelP : PPC → String
  | .cStat => "stat:v.os.Stat" | .cLock => "getFunc:v.lock" | .cOpen => "getFunc:v.os.Open"
  | .cRead => "getFunc:ioutil.NopCloser"
  | .tOpen => "Touch:v.os.OpenFile" | .tLock => "Touch:v.lock" | .tFlock => "Touch:v.lockfile"
  | .tChtimes => "Touch:os.Chtimes"
  | .wMkdir => "WriteBlock:os.MkdirAll" | .wTemp => "WriteBlock:v.os.TempFile" | .wLock => "WriteBlock:v.lock"
  | .wCopy => "WriteBlock:io.Copy" | .wClose => "WriteBlock:tmpfile.Close" | .wChtimes => "WriteBlock:os.Chtimes"
  | .wOpenOld => "WriteBlock:v.os.OpenFile" | .wFlockOld => "WriteBlock:v.lockfile"
  | .wRename => "WriteBlock:v.os.Rename" | .done => "-"

def labelT : TPC → String
  | .iMtime => "Mtime:v.os.Stat" | .dLock => "Trash:v.lock" | .dOpen => "Trash:v.os.OpenFile"
  | .dFlock => "Trash:v.lockfile" | .dStat => "Trash:v.os.Stat" | .dRemove => "Trash:v.os.Remove"
  | .dRename => "Trash:v.os.Rename"
  | .uReadDir => "Untrash:ioutil.ReadDir" | .uRename => "Untrash:v.os.Rename" | .uChtimes => "Untrash:os.Chtimes"
  | .done => "-"

def St.wait (s : St) (x : Bool) : Bool := if x then s.waitP else s.waitT
def St.finished (s : St) (x : Bool) : Bool := if x then s.pcP = .done else s.pcT = .done

/-- one controller turn: stutter for a finished / waiting thread; otherwise one step of x, then the
other thread completes its pending lock acquisition if that is now possible -/
def stepE (x : Bool) (s : St) : St × List String :=
  if s.finished x || s.wait x then (s, []) else
  let name := if x then "P:" ++ labelP s.pcP else "T:" ++ labelT s.pcT
  let s1 := step x s
  let ev := if s1.wait x then name ++ "!" else name
  if s1.wait (!x) then
    let s2 := step (!x) s1
    if s2.wait (!x) then (s1, [ev]) else (s2, [ev, (if x then "T~" else "P~")])
  else (s1, [ev])

def runE : List Bool → St → List String → St × List String
  | [], s, tr => (s, tr)
  | x :: xs, s, tr => let (s', ev) := stepE x s; runE xs s' (tr ++ ev)

end ArvVerif.C04.Race
