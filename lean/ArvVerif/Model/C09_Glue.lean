/-
C09 — MODEL, part 3: the executable check of the glue between the two layers the model driver runs.

`loadManifest` is modelled by C10 (`C10.fsLoad`, a flat image: directories, files with segments);
the operation histories run on C08's directory/handle layer (`fsOfTree` builds it from the flat
image); `marshalManifest` walks the directory list `treeOf` extracts from that layer. The theorem
`C09_load_marshal_preserves` speaks about every directory list that holds exactly the loaded files
(`Represents`, names distinct and proper). `glueOK` decides exactly those hypotheses; the model driver
evaluates it on the list it is about to marshal after every load (a `load=glue` result can never agree
with the implementation), so in every executed case the hypotheses are established by computation
(`glueOK_sound`, `C09_load_marshal_checked`).
-/
import ArvVerif.Model.C09_FS
namespace ArvVerif.C09

open ArvVerif.C08 (Seg FileNode)
open ArvVerif.C10 (bSlash bDot)

/-- the segment is the stored segment the loader made (size as the locator states it) -/
def segMatch (size : Bytes → Nat) : Seg → C10.Seg → Bool
  | Seg.stored loc sz off len, c => loc == c.loc && sz == size c.loc && off == c.off && len == c.len
  | Seg.mem _ _, _ => false

def segsMatch (size : Bytes → Nat) : List Seg → List C10.Seg → Bool
  | [], [] => true
  | s :: ss, c :: cs => segMatch size s c && segsMatch size ss cs
  | _, _ => false

/-- every file of the list is a loaded file with the loader's segments; every loaded file is in the list -/
def representsB (size : Bytes → Nat) (tr : C10.FsTree) (t : Tree9) : Bool :=
  t.all (fun d => d.files.all (fun f => tr.files.any (fun e => e.1 == d.path ++ [f.1] && segsMatch size f.2.segs e.2))) &&
  tr.files.all (fun e => t.any (fun d => d.files.any (fun f => e.1 == d.path ++ [f.1])))

def nameOKb (n : Bytes) : Bool := n != [] && n != [bDot] && n != [bDot, bDot] && !n.contains bSlash

/-- all hypotheses `C09_load_marshal_preserves` puts on the directory list -/
def glueOK (size : Bytes → Nat) (tr : C10.FsTree) (t : Tree9) : Bool :=
  representsB size tr t && decide (dirPaths t).Nodup && t.all (fun d => decide (d.files.map (·.1)).Nodup) &&
  t.all (fun d => d.path.all nameOKb)

/-- `Collection.FileSystem()` with the glue check: `none` = loadManifest returned an error,
`some none` = the directory list the model would marshal does not hold exactly the loaded files -/
def loadFSChecked (k : Keep) (txt : Bytes) : Option (Option FS9) :=
  (C10.fsLoad txt).map fun tr =>
    let s := fsOfTree k tr
    if glueOK sizeOfLoc tr (treeOf s) then some s else none

/-! ## the structural hypotheses on the list of ANY save, decided on the list the driver marshals -/

/-- every listed directory's parent is listed; a directory that counts sub-directories has one listed -/
def closedB (t : Tree9) : Bool :=
  t.all (fun d => d.path.isEmpty || (dirPaths t).contains d.path.dropLast) &&
  t.all (fun d => d.nsub == 0 || t.any (fun c => !c.path.isEmpty && c.path.dropLast == d.path))

/-- no file has the path of a directory -/
def noClashB (t : Tree9) : Bool :=
  t.all (fun d => d.files.all (fun f => !(dirPaths t).contains (d.path ++ [f.1])))

/-- closed, clash-free, distinct directory paths, distinct proper names -/
def shapeOK (t : Tree9) : Bool :=
  closedB t && noClashB t && decide (dirPaths t).Nodup && t.all (fun d => decide (d.files.map (·.1)).Nodup) &&
  t.all (fun d => d.path.all nameOKb) && t.all (fun d => d.files.all (fun f => nameOKb f.1))

end ArvVerif.C09
