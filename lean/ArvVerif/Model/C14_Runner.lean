/-
C14 model: `remoteRunner` (lib/dispatchcloud/worker/runner.go) — the start command and the
Kill/Close state machine — and the two worker callbacks it drives (`worker.onKilled`,
`worker.onUnkillable`).

A runner is three flags: `stopping` (Kill has been called), `givenup` (the SIGTERM deadline
`timeoutTERM` has passed), `closed` (`Close()` has been called: the runner has left the worker's
maps through `closeRunner`, or its worker was dropped from the pool).

* `Start()` runs `crunch-run --detach` and *returns nothing*: whether the command reported an
  error says nothing about whether the process exists (the SSH connection may be lost after the
  process has been detached), so the completion closure of `worker.startContainer`
  (`Worker.startDone`) takes no result — the container stays in `running` until a probe or a
  successful kill says that the process is gone.
* `Kill()` starts at most one background loop per runner. Every `timeoutSignal` the loop does one
  `tick`: it ends when the runner is closed; when `timeoutTERM` has passed it sets `givenup`,
  calls `onUnkillable` and ends; otherwise it runs `crunch-run --kill 15 uuid` and, if (and only
  if) that command reports success, calls `onKilled` — and goes on ticking (the next tick sees the
  runner closed).
* `onKilled(u)` = `closeRunner(u)` under the pool lock; `onUnkillable(u)` = nothing on a held
  worker, `setIdleBehavior(Drain)` otherwise. Neither touches another container's runner, and the
  loop never calls `Close()` itself.

The kill loop therefore acts on the pool only through `Worker.closeRunner` (L3: `Step.killed`,
whose guard is the truthful-kill assumption) and `Worker.setIdleBehavior` (L3: `Step.setIdle`).
-/
import ArvVerif.Model.C14_Pool
namespace ArvVerif.C14

/-- `remoteRunner` as far as stopping is concerned -/
structure Runner where
  stopping : Bool := false
  givenup : Bool := false
  closed : Bool := false
deriving DecidableEq, Repr, Inhabited

namespace Runner

/-- `rr.Kill(reason)`: the runner afterwards, and whether a kill loop was started (`go func`). -/
def kill (r : Runner) : Runner × Bool :=
  if r.stopping then (r, false) else ({ r with stopping := true }, true)

/-- `rr.Close()` (must not be called twice: `close` of a closed channel panics) -/
def close (r : Runner) : Option Runner :=
  if r.closed then none else some { r with closed := true }

end Runner

/-- What one tick of the kill loop does. -/
inductive TickAct where
  | stop        -- `case rr.isClosed(): return`
  | giveUp      -- `case time.Now().After(termDeadline)`: `givenup = true; onUnkillable(uuid); return`
  | signal      -- `default: rr.kill(SIGTERM)`
deriving DecidableEq, Repr, Inhabited

/-- The `switch` of the kill loop: `closed` is tested first, then the deadline. -/
def Runner.tickAct (r : Runner) (pastDeadline : Bool) : TickAct :=
  if r.closed then .stop else if pastDeadline then .giveUp else .signal

namespace Worker

/-- `wkr.onKilled(uuid)`: `closeRunner(uuid)` under the lock (worker, and whether
`wp.exited[uuid] = now` was recorded). -/
def onKilled (w : Worker) (u : Uuid) (now : Nat) : Worker × Bool := w.closeRunner u now

/-- `wkr.onUnkillable(uuid)`: a held worker is left alone, any other is drained
(`setIdleBehavior(Drain)` → `shutdownIfIdle`; the idle timeout plays no part for a draining
worker, `allGivenUp` ⇔ every runner of the worker has `givenup` set). -/
def onUnkillable (w : Worker) (allGivenUp : Bool) (now : Nat) : Worker :=
  if w.idleB == .hold then w else w.setIdleBehavior .drain false allGivenUp now

/-- One tick of the kill loop of container `u`'s runner `r` on worker `w`. `pastDeadline`
⇔ `time.Now().After(termDeadline)`; `killOk` ⇔ `crunch-run --kill` reported success (asked only
when a signal is sent). Result: the worker, the runner, whether the loop goes on, and whether
`wp.exited[u] = now` was recorded. -/
def killTick (w : Worker) (u : Uuid) (r : Runner) (pastDeadline killOk allGivenUp : Bool) (now : Nat) :
    Worker × Runner × Bool × Bool :=
  match r.tickAct pastDeadline with
  | .stop => (w, r, false, false)
  | .giveUp => (w.onUnkillable allGivenUp now, { r with givenup := true }, false, false)
  | .signal =>
    if killOk then
      let c := w.onKilled u now
      -- `closeRunner` closes the runner it finds under `running[u]` (this one, unless the worker's
      -- entry has been replaced meanwhile)
      (c.1, { r with closed := r.closed || c.2 }, true, c.2)
    else (w, r, true, false)

end Worker

namespace Pool

/-- `onKilled(u)` of a kill loop that belongs to worker `wid` (same as `closeRunner`) -/
def onKilled (p : Pool) (wid : Nat) (u : Uuid) (now : Nat) : Pool := p.closeRunner wid u now

/-- `onUnkillable` of a kill loop that belongs to worker `wid` -/
def onUnkillable (p : Pool) (wid : Nat) (allGivenUp : Bool) (now : Nat) : Pool :=
  match p.find wid with
  | some w => p.put (w.onUnkillable allGivenUp now)
  | none => p

/-- Workers whose runner `KillContainer(u)` may pick (it takes the first it meets in map order). -/
def killCandidates (p : Pool) (u : Uuid) : List Nat :=
  (p.workers.filter (fun w => w.running.contains u || w.starting.contains u)).map (·.id)

end Pool
end ArvVerif.C14
