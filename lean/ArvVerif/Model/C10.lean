/-
C10 — specification side: the published manifest format
(doc/architecture/manifest-format.html.textile.liquid) as a decidable predicate `ValidManifest`
on the manifest *text* and a reference interpreter `resolve`, written from the document:

  manifest ::= stream*        stream ::= stream-name (" " locator)+ (" " file-segment)+ "\n"
  positions refer to the logical concatenation of the stream's blocks; several file tokens with
  the same combined path `stream name + "/" + filename` concatenate in order of appearance.

Escapes: the document defines only `\040`. The specification uses the de-facto generalisation
`\ooo` (octal 000–377) that every writer in the tree emits, and puts any other use of a backslash
outside the grammar (the Go codecs read `\\` as a backslash, the Python SDK does not).

Everything here is core Lean and executable (it is linked into the model driver).
-/
import ArvVerif.Base.Bytes
namespace ArvVerif.C10

/-! ## byte helpers -/

def bSpace : UInt8 := 32
def bNL : UInt8 := 10
def bSlash : UInt8 := 47
def bColon : UInt8 := 58
def bPlus : UInt8 := 43
def bBackslash : UInt8 := 92
def bDot : UInt8 := 46

def str (s : String) : Bytes := s.toUTF8.toList

def isDigit (c : UInt8) : Bool := 48 ≤ c && c ≤ 57
def isOctDigit (c : UInt8) : Bool := 48 ≤ c && c ≤ 55
def isLowerHex (c : UInt8) : Bool := isDigit c || (97 ≤ c && c ≤ 102)
def isAnyHex (c : UInt8) : Bool := isLowerHex c || (65 ≤ c && c ≤ 70)
def isUpper (c : UInt8) : Bool := 65 ≤ c && c ≤ 90
def isLower (c : UInt8) : Bool := 97 ≤ c && c ≤ 122
/-- `[A-Za-z0-9@_-]` -/
def isHintChar (c : UInt8) : Bool := isUpper c || isLower c || isDigit c || c == 64 || c == 95 || c == 45

/-- Split on a single separator byte, Go `strings.Split` semantics (always at least one piece). -/
def splitOn (sep : UInt8) : Bytes → List Bytes
  | [] => [[]]
  | c :: rest =>
    if c == sep then [] :: splitOn sep rest
    else match splitOn sep rest with
      | [] => [[c]]            -- unreachable: splitOn never returns []
      | p :: ps => (c :: p) :: ps

/-- Join with a separator byte. -/
def joinWith (sep : UInt8) : List Bytes → Bytes
  | [] => []
  | [p] => p
  | p :: q :: ps => p ++ sep :: joinWith sep (q :: ps)

/-- decimal value of a digit string (no validation) -/
def natOfDigits (ds : Bytes) : Nat := ds.foldl (fun acc c => acc * 10 + (c.toNat - 48)) 0

/-- `[0-9]+` as a number -/
def parseNat? (ds : Bytes) : Option Nat :=
  if ds ≠ [] ∧ ds.all isDigit then some (natOfDigits ds) else none

def natToDec (n : Nat) : Bytes := (Nat.toDigits 10 n).map (fun c => UInt8.ofNat c.toNat)

/-- lexicographic byte order = Go string `<` -/
def bytesLt : Bytes → Bytes → Bool
  | [], [] => false
  | [], _ :: _ => true
  | _ :: _, [] => false
  | a :: as, b :: bs => a < b || (a == b && bytesLt as bs)

def insertSorted (x : Bytes) : List Bytes → List Bytes
  | [] => [x]
  | y :: ys => if bytesLt y x then y :: insertSorted x ys else x :: y :: ys

/-- `sort.Strings` on distinct keys (insertion sort; keys come out of a map, so they are distinct
and the result does not depend on the sorting algorithm). -/
def sortBytes (xs : List Bytes) : List Bytes := xs.foldr insertSorted []

/-! ## structured manifests -/

/-- a block locator as written in the manifest (with hints) and its size -/
structure Loc where
  text : Bytes
  size : Nat
deriving DecidableEq, Repr

/-- a file token: position and length in the stream, unescaped file name -/
structure FTok where
  pos : Nat
  len : Nat
  name : Bytes
deriving DecidableEq, Repr

structure Stream where
  name : Bytes          -- unescaped
  blocks : List Loc
  files : List FTok
deriving DecidableEq, Repr

abbrev Manifest := List Stream

/-- a piece of a file inside one block -/
structure Seg where
  loc : Bytes
  off : Nat
  len : Nat
deriving DecidableEq, Repr

def streamLen (bs : List Loc) : Nat := (bs.map (·.size)).sum

/-- combined path `stream name + "/" + filename` -/
def pathOf (sname fname : Bytes) : Bytes := sname ++ bSlash :: fname

/-! ## reference interpreter -/

/-- The pieces of the stream range `[pos, pos+len)` block by block, by a linear walk over the
logical concatenation of the blocks; `base` is the stream offset of the first block of the list.
Only non-empty pieces are listed. -/
def resolveTok : List Loc → Nat → Nat → Nat → List Seg
  | [], _, _, _ => []
  | b :: rest, base, pos, len =>
    let lo := max pos base
    let hi := min (pos + len) (base + b.size)
    if lo < hi then ⟨b.text, lo - base, hi - lo⟩ :: resolveTok rest (base + b.size) pos len
    else resolveTok rest (base + b.size) pos len

/-- segments of one stream for path `p`: its matching file tokens in order -/
def resolveStream (s : Stream) (p : Bytes) : List Seg :=
  s.files.flatMap fun f => if pathOf s.name f.name = p then resolveTok s.blocks 0 f.pos f.len else []

/-- `resolve m p`: the segments of path `p`, file tokens in the order they appear in the manifest -/
def resolve (m : Manifest) (p : Bytes) : List Seg := m.flatMap (resolveStream · p)

/-- all combined paths of the manifest, in order of first appearance -/
def pathsOf (m : Manifest) : List Bytes :=
  (m.flatMap fun s => s.files.map fun f => pathOf s.name f.name).eraseDups

/-- Normal form for comparing segment lists: zero-length segments dropped, a segment that continues
its predecessor in the same block merged into it. -/
def mergeSeg (s : Seg) : List Seg → List Seg
  | [] => [s]
  | t :: rest => if s.loc = t.loc ∧ s.off + s.len = t.off then ⟨s.loc, s.off, s.len + t.len⟩ :: rest else s :: t :: rest

def norm : List Seg → List Seg
  | [] => []
  | s :: rest => if s.len = 0 then norm rest else mergeSeg s (norm rest)

/-- bytes of a segment list, for block contents `blk` (locator text ↦ block bytes) -/
def segBytes (blk : Bytes → Bytes) (segs : List Seg) : Bytes :=
  segs.flatMap fun s => ((blk s.loc).drop s.off).take s.len

/-- the logical concatenation of a stream's blocks -/
def streamBytes (blk : Bytes → Bytes) (bs : List Loc) : Bytes := bs.flatMap fun b => blk b.text

/-- **content of a path** as the document words it: for every file token with that combined path, in
manifest order, the bytes `pos … pos+size` of the logical concatenation of its stream's blocks -/
def fileContent (blk : Bytes → Bytes) (m : Manifest) (p : Bytes) : Bytes :=
  m.flatMap fun s => s.files.flatMap fun f =>
    if pathOf s.name f.name = p then ((streamBytes blk s.blocks).drop f.pos).take f.len else []

/-! ## text level: the grammar -/

/-- `\ooo` → byte; `none` when the token holds a backslash that does not start such an escape -/
def specUnescape : Bytes → Option Bytes
  | [] => some []
  | c :: rest =>
    if c == bBackslash then
      match rest with
      | a :: b :: d :: rest' =>
        if 48 ≤ a && a ≤ 51 && isOctDigit b && isOctDigit d then
          (specUnescape rest').map (UInt8.ofNat ((a.toNat - 48) * 64 + (b.toNat - 48) * 8 + (d.toNat - 48)) :: ·)
        else none
      | _ => none
    else (specUnescape rest).map (c :: ·)

/-- hints: `(\+[A-Z][-A-Za-z0-9@_]*)*` up to the end; `afterPlus` = a hint has just been opened,
`inHint` = at least its type letter has been read -/
def hintsOk : Bytes → Bool → Bool → Bool
  | [], afterPlus, _ => !afterPlus
  | c :: rest, afterPlus, inHint =>
    if afterPlus then isUpper c && hintsOk rest false true
    else if c == bPlus then hintsOk rest true false
    else inHint && isHintChar c && hintsOk rest false true

/-- Generic locator recogniser `^[hex]{32}\+[0-9]+(\+[A-Z][A-Za-z0-9@_-]*)*$`; returns the size digits. -/
def locatorSizeDigits (hex : UInt8 → Bool) (t : Bytes) : Option Bytes :=
  let h := t.take 32
  let r := t.drop 32
  if h.length = 32 ∧ h.all hex then
    match r with
    | p :: r' =>
      if p == bPlus then
        let ds := r'.takeWhile isDigit
        let tl := r'.dropWhile isDigit
        if ds ≠ [] ∧ (tl = [] ∨ hintsOk tl false false) then some ds else none
      else none
    | [] => none
  else none

/-- the document's locator grammar (lowercase digest) -/
def specLocator (t : Bytes) : Option Loc :=
  (locatorSizeDigits isLowerHex t).map fun ds => ⟨t, natOfDigits ds⟩

/-- components of a name: none empty, none "." or ".." -/
def componentsOk (cs : List Bytes) : Bool := cs.all fun c => c ≠ [] ∧ c ≠ [bDot] ∧ c ≠ [bDot, bDot]

/-- stream-name ::= "." ("/" path-component)* -/
def specStreamNameOk (n : Bytes) : Bool :=
  match splitOn bSlash n with
  | first :: rest => first == [bDot] && componentsOk rest
  | [] => false

def specFileNameOk (n : Bytes) : Bool := componentsOk (splitOn bSlash n)

/-- file-segment ::= position ":" size ":" filename -/
def specFileTok (t : Bytes) : Option FTok :=
  let p := t.takeWhile isDigit
  match t.dropWhile isDigit with
  | c :: r =>
    if c == bColon ∧ p ≠ [] then
      let l := r.takeWhile isDigit
      match r.dropWhile isDigit with
      | c' :: nm =>
        if c' == bColon ∧ l ≠ [] ∧ nm ≠ [] then
          match specUnescape nm with
          | some name => if specFileNameOk name then some ⟨natOfDigits p, natOfDigits l, name⟩ else none
          | none => none
        else none
      | [] => none
    else none
  | [] => none

/-- raw token bytes: no delimiter, whitespace or control code -/
def tokenBytesOk (t : Bytes) : Bool := t ≠ [] && t.all fun c => 33 ≤ c && c != 127

/-- `List.mapM` for `Option`, written out for structural induction -/
def mapOpt {α β : Type} (f : α → Option β) : List α → Option (List β)
  | [] => some []
  | a :: as =>
    match f a, mapOpt f as with
    | some b, some bs => some (b :: bs)
    | _, _ => none

def specLocators : List Bytes → List Loc × List Bytes
  | [] => ([], [])
  | t :: rest =>
    match specLocator t with
    | some l => let (ls, r) := specLocators rest; (l :: ls, r)
    | none => ([], t :: rest)

def specLine (line : Bytes) : Option Stream :=
  let toks := splitOn bSpace line
  if toks.all tokenBytesOk then
    match toks with
    | nm :: rest =>
      match specUnescape nm with
      | some name =>
        if specStreamNameOk name then
          let (blocks, ftoks) := specLocators rest
          match mapOpt specFileTok ftoks with
          | some files =>
            if blocks ≠ [] ∧ files ≠ [] ∧ files.all (fun f => f.pos + f.len ≤ streamLen blocks)
            then some ⟨name, blocks, files⟩ else none
          | none => none
        else none
      | none => none
    | [] => none
  else none

/-- The specification's parser: `some m` exactly for the texts inside the grammar. -/
def parseSpec (txt : Bytes) : Option Manifest :=
  if txt = [] then some [] else
  let lines := splitOn bNL txt
  if lines.getLast? = some [] then mapOpt specLine lines.dropLast else none

/-- valid under the published grammar -/
def ValidManifest (txt : Bytes) : Prop := (parseSpec txt).isSome = true

instance (txt : Bytes) : Decidable (ValidManifest txt) := by unfold ValidManifest; infer_instance

/-- `a` is a proper directory prefix of `b` (as '/'-separated paths) -/
def isDirPrefix (a b : Bytes) : Bool := (a ++ [bSlash]).isPrefixOf b

/-- No path is both a file and a directory (the grammar is silent; a filesystem cannot hold both). -/
def TreeConsistent (m : Manifest) : Prop :=
  ∀ a ∈ pathsOf m, ∀ b ∈ pathsOf m, isDirPrefix a b = false

instance (m : Manifest) : Decidable (TreeConsistent m) := by unfold TreeConsistent; infer_instance

/-- the 32 digest characters of a locator, lower-cased (the key Go's `blockdigest` uses) -/
def digestKey (loc : Bytes) : Bytes := (loc.take 32).map fun c => if 65 ≤ c && c ≤ 70 then c + 32 else c

/-- hash+size: the locator without hints -/
def stripLoc (t : Bytes) : Bytes :=
  match locatorSizeDigits isLowerHex t with
  | some ds => t.take 33 ++ ds
  | none => t

/-- one line with every locator reduced to hash+size -/
def stripLine (line : Bytes) : Bytes :=
  match splitOn bSpace line with
  | nm :: rest => joinWith bSpace (nm :: rest.map stripLoc)
  | [] => []

/-- The manifest text with every locator reduced to hash+size (what the portable data hash covers). -/
def stripHints (txt : Bytes) : Bytes := joinWith bNL ((splitOn bNL txt).map stripLine)

end ArvVerif.C10
