/-
C16 model, part C: lib/dispatchcloud/container/queue.go — the cache between the controller and
runQueue. It is what turns ChooseInstanceType's result (or error) into the `InstanceType` of a
queue entry, and what `sch.queue.Entries()` shows to runQueue.

* `Cache.current` is `cq.current` (uuid ↦ state, priority, chosen type); `Cache.dontupdate` is
  `cq.dontupdate` (`none` = nil map: no network update in progress).
* `beginUpdate` / `applyPoll` are the two halves of `Update()` around `poll()`; `localResp` is
  `updateWithResp` (the effect of a successful Lock / Unlock / Cancel response on the cache).
* `addEnt` calls the type chooser; on an error a Queued or Locked container is *not* added (a
  cancel task is started for it instead), any other container is added with the zero-valued type
  (`ty = none`), exactly as the Go code does.
* The poll result `next` is an input (what the controller said); the correspondence driver
  produces it from a small in-memory controller (`Ctl`, below), which is test scaffolding mirrored in
  the Go driver, not a model of the real API server.
-/
import ArvVerif.Model.C16
import ArvVerif.Model.C16_RunQueue
namespace ArvVerif.C16.Q

inductive QState where
  | queued | locked | running | complete | cancelled
deriving Repr, DecidableEq

/-- a cache entry; `ty = none` is the zero-valued `arvados.InstanceType{}`; `addedSt` is a ghost
fields: the state the container was in, and the constraints it had, when `addEnt` inserted it -/
structure CEnt where
  st : QState
  prio : Int
  ty : Option Nat
  addedSt : QState
  addedNeed : Nat
deriving Repr, DecidableEq

/-- one record of a poll response / of a Lock-Unlock-Cancel response; `need` stands for the
immutable constraint fields the type chooser looks at -/
structure Rec where
  uuid : Nat
  st : QState
  prio : Int
  need : Nat
deriving Repr, DecidableEq

structure Cache where
  current : List (Nat × CEnt)          -- keyed by uuid, at most one entry per uuid
  dontupdate : Option (List Nat)
deriving Repr

def lookup (c : List (Nat × CEnt)) (u : Nat) : Option CEnt := (c.find? (fun p => p.1 == u)).map (·.2)

def setEnt (c : List (Nat × CEnt)) (u : Nat) (e : CEnt) : List (Nat × CEnt) :=
  if c.any (fun p => p.1 == u) then c.map (fun p => if p.1 == u then (u, e) else p) else c ++ [(u, e)]

def inDont (d : Option (List Nat)) (u : Nat) : Bool :=
  match d with
  | none => false
  | some l => l.contains u

/-- `Update()` before `poll()`: `cq.dontupdate = map[string]struct{}{}` -/
def beginUpdate (c : Cache) : Cache := { c with dontupdate := some [] }

/-- `updateWithResp`: remember the uuid while a network update is in progress; copy state and
priority into the entry if there is one -/
def localResp (c : Cache) (u : Nat) (st : QState) (prio : Int) : Cache :=
  let d := c.dontupdate.map (fun l => if l.contains u then l else u :: l)
  match lookup c.current u with
  | none => { c with dontupdate := d }
  | some e => { current := setEnt c.current u { e with st := st, prio := prio }, dontupdate := d }

/-- `addEnt`: the new `current` and whether a cancel task was started -/
def addEnt (choose : Nat → Option Nat) (cur : List (Nat × CEnt)) (r : Rec) : List (Nat × CEnt) × Bool :=
  match choose r.need with
  | some t => (setEnt cur r.uuid { st := r.st, prio := r.prio, ty := some t, addedSt := r.st, addedNeed := r.need }, false)
  | none =>
    if r.st = .queued ∨ r.st = .locked then (cur, true)
    else (setEnt cur r.uuid { st := r.st, prio := r.prio, ty := none, addedSt := r.st, addedNeed := r.need }, false)

/-- first loop of the second half of `Update()`: apply the polled records -/
def applyRecs (choose : Nat → Option Nat) (d : Option (List Nat)) :
    List Rec → List (Nat × CEnt) → List Nat → List (Nat × CEnt) × List Nat
  | [], cur, tasks => (cur, tasks)
  | r :: rest, cur, tasks =>
    if inDont d r.uuid then applyRecs choose d rest cur tasks
    else match lookup cur r.uuid with
      | none =>
        let a := addEnt choose cur r
        applyRecs choose d rest a.1 (if a.2 then tasks ++ [r.uuid] else tasks)
      | some e => applyRecs choose d rest (setEnt cur r.uuid { e with st := r.st, prio := r.prio }) tasks

/-- second loop: expunge entries that are not in the poll response (unless locally updated) -/
def expunge (d : Option (List Nat)) (next : List Rec) (cur : List (Nat × CEnt)) : List (Nat × CEnt) :=
  cur.filter (fun p => inDont d p.1 || next.any (fun r => r.uuid == p.1))

/-- `Update()` after `poll()` returned `next`: the new cache and the uuids for which a cancel task
(lock if Queued, set runtime_status.error, cancel) was started -/
def applyPoll (choose : Nat → Option Nat) (c : Cache) (next : List Rec) : Cache × List Nat :=
  let a := applyRecs choose c.dontupdate next c.current []
  ({ current := expunge c.dontupdate next a.1, dontupdate := none }, a.2)

/-- the calls that change the cache -/
inductive QOp where
  | begin                                   -- Update() starts
  | resp (u : Nat) (st : QState) (prio : Int)   -- a Lock / Unlock / Cancel response arrives
  | poll (next : List Rec)                  -- poll() has returned `next`; Update() applies it

def runOp (choose : Nat → Option Nat) (c : Cache) : QOp → Cache
  | .begin => beginUpdate c
  | .resp u st prio => localResp c u st prio
  | .poll next => (applyPoll choose c next).1

def runOps (choose : Nat → Option Nat) (ops : List QOp) (c : Cache) : Cache := ops.foldl (runOp choose) c

def emptyCache : Cache := { current := [], dontupdate := none }

/-! ### the in-memory controller of the correspondence driver (test scaffolding) -/

structure CRec where
  uuid : Nat
  st : QState
  prio : Int
  need : Nat
  mine : Bool        -- locked_by_uuid = this dispatcher
  err : Bool         -- runtime_status.error is set
deriving Repr, DecidableEq

abbrev Ctl := List CRec

def cget (ctl : Ctl) (u : Nat) : Option CRec := ctl.find? (fun r => r.uuid == u)
def cset (ctl : Ctl) (r : CRec) : Ctl := ctl.map (fun x => if x.uuid == r.uuid then r else x)

def toRec (r : CRec) : Rec := { uuid := r.uuid, st := r.st, prio := r.prio, need := r.need }

/-- POST lock: only a Queued container -/
def ctlLock (ctl : Ctl) (u : Nat) : Option (Ctl × CRec) :=
  match cget ctl u with
  | some r => if r.st = .queued then
      let r' := { r with st := .locked, mine := true }; some (cset ctl r', r') else none
  | none => none

/-- POST unlock: only a container Locked by this dispatcher -/
def ctlUnlock (ctl : Ctl) (u : Nat) : Option (Ctl × CRec) :=
  match cget ctl u with
  | some r => if r.st = .locked ∧ r.mine = true then
      let r' := { r with st := .queued, mine := false }; some (cset ctl r', r') else none
  | none => none

/-- PUT state=Cancelled: Queued, or Locked/Running by this dispatcher -/
def ctlCancel (ctl : Ctl) (u : Nat) : Option (Ctl × CRec) :=
  match cget ctl u with
  | some r => if r.st = .queued ∨ ((r.st = .locked ∨ r.st = .running) ∧ r.mine = true) then
      let r' := { r with st := .cancelled, mine := false }; some (cset ctl r', r') else none
  | none => none

/-- PUT runtime_status.error: Locked/Running by this dispatcher, unless a fault is injected -/
def ctlSetError (ctl : Ctl) (faults : List Nat) (u : Nat) : Option Ctl × List Nat :=
  if faults.contains u then (none, faults.erase u)
  else match cget ctl u with
    | some r => if (r.st = .locked ∨ r.st = .running) ∧ r.mine = true then (some (cset ctl { r with err := true }), faults)
                else (none, faults)
    | none => (none, faults)

/-- a record of a list response. `sizing` says whether the request's `Select:` names the sizing
attributes (runtime_constraints, mounts, container_image, scheduling_parameters); a record of a
response that did not select them carries the zero-valued constraint vector (`need = 0`), which is
what `addEnt` would then hand to the type chooser -/
def project (sizing : Bool) (r : CRec) : Rec :=
  { uuid := r.uuid, st := r.st, prio := r.prio, need := if sizing then r.need else 0 }

/-- the three list requests of one poll ("locked by me", "Queued with priority > 0", "entries of the
cache the first two did not return"), answered from the controller snapshot `snap`, each with its
own `Select:`; the "missing" request is for the non-final entries of the cache as it is when the
first two responses have arrived -/
def pollResultSel (selMine selAvail selMissing : Bool) (snap : Ctl) (cur : List (Nat × CEnt)) : List Rec :=
  let mine := snap.filter (fun r => r.mine)
  let avail := snap.filter (fun r => r.st == .queued && decide (0 < r.prio))
  let avail1 := avail.filter (fun r => !mine.any (fun m => m.uuid == r.uuid))
  let have1 := mine ++ avail1
  let missing := snap.filter (fun r => !have1.any (fun m => m.uuid == r.uuid) &&
    cur.any (fun p => p.1 == r.uuid && p.2.st != .cancelled && p.2.st != .complete))
  mine.map (project selMine) ++ avail1.map (project selAvail) ++ missing.map (project selMissing)

/-- `poll()` as it is: all three requests use `selectParam`, which names the sizing attributes
(tie facts `tie_queuePollSelect`) -/
def pollResult (snap : Ctl) (cur : List (Nat × CEnt)) : List Rec := pollResultSel true true true snap cur

end ArvVerif.C16.Q
