/-
C06(a) model: services/keep-balance/collection.go `EachCollection` — the paging loop with its four
modes (first page; `>= T ∧ uuid ≠ last` with the overlap-skip rule; `= T ∧ uuid > cursor`; `> T`),
the initial and final count requests, and the collections list endpoint it talks to.

* A collection is `(uuid, time)`; uuids and timestamps are natural numbers (the driver renders a
  uuid as a fixed-width string, so string order = numeric order, and time 0 as Go's zero
  `time.Time`, the "null modified_at" that makes the loop give up with its BUG error).
* The database seen by request number `k` is `env k` (request 0 is the initial count, the page
  requests follow, the last request is the final count).  The environment is an arbitrary function
  of `k`; what a theorem needs from it (`Env`) is stated there.
* `serve` is the list endpoint: filter, order by (modified_at, uuid), first `limit` rows.
* `fail k` = request `k` is answered with an error; `cbFail = some n` = the callback returns an
  error on its n-th invocation (0-based).
-/
namespace ArvVerif.C06

structure Coll where
  uuid : Nat
  time : Nat
deriving DecidableEq, Repr

abbrev Key := Nat × Nat
def Coll.key (c : Coll) : Key := (c.time, c.uuid)

/-- lexicographic `<` on (modified_at, uuid) -/
def klt (a b : Key) : Prop := a.1 < b.1 ∨ (a.1 = b.1 ∧ a.2 < b.2)

instance (a b : Key) : Decidable (klt a b) := by unfold klt; infer_instance

/-- `ORDER BY modified_at, uuid` as a Boolean `≤` for `mergeSort` -/
def kleB (a b : Coll) : Bool := decide (a.time < b.time ∨ (a.time = b.time ∧ a.uuid ≤ b.uuid))

/-- The filter sets `EachCollection` sends with a page request. -/
inductive Filt
  | all                 -- first page: no filters
  | ge (t u : Nat)      -- [["modified_at",">=",t],["uuid","!=",u]]
  | eq (t u : Nat)      -- [["modified_at","=",t],["uuid",">",u]]
  | gt (t : Nat)        -- [["modified_at",">",t]]
deriving Repr, DecidableEq

def Filt.ok : Filt → Coll → Prop
  | .all, _ => True
  | .ge t u, c => t ≤ c.time ∧ c.uuid ≠ u
  | .eq t u, c => c.time = t ∧ u < c.uuid
  | .gt t, c => t < c.time

instance (f : Filt) (c : Coll) : Decidable (f.ok c) := by
  cases f <;> unfold Filt.ok <;> infer_instance

/-- What the scanner did, in order (newest first in `St.log`). -/
inductive Ev
  | reqCount0              -- initial count request (limit 0, count exact, no filters)
  | reqPage (f : Filt)     -- page request
  | reqCheck (t : Nat)     -- final count request, filter modified_at <= t
  | cb (u : Nat)           -- callback invoked with collection u
deriving Repr, DecidableEq

def Ev.cbOf : Ev → Option Nat
  | .cb u => some u
  | _ => none

/-- Scanner state: the local variables of the loop. `seen` lists the uuids passed to the callback
(newest first); `callCount = seen.length`. `last = none` is Go's zero `arvados.Collection`. -/
structure St where
  last : Option Key
  ftime : Nat          -- filterTime (0 = zero time)
  exact : Bool         -- gettingExactTimestamp
  filt : Filt          -- params.Filters
  seen : List Nat
  log : List Ev

def init : St := { last := none, ftime := 0, exact := false, filt := .all, seen := [], log := [] }

/-- `last.ModifiedAt == coll.ModifiedAt && last.UUID >= coll.UUID` -/
def skip (last : Option Key) (c : Coll) : Bool :=
  match last with
  | some (t, u) => decide (t = c.time ∧ c.uuid ≤ u)
  | none => false

def processItem (s : St) (c : Coll) : St :=
  if skip s.last c then s
  else { s with seen := c.uuid :: s.seen, last := some c.key, log := .cb c.uuid :: s.log }

/-- the `for _, coll := range page.Items` loop when no callback fails -/
def processPage (s : St) (pg : List Coll) : St := pg.foldl processItem s

inductive Res
  | done (s : St)      -- `break`
  | bug (s : St)       -- "BUG: Last collection on the page has no modified_at timestamp"
  | cbErr (s : St)     -- the callback returned an error
  | cont (s : St)      -- next iteration

/-- State at the moment the failing callback (invocation `n`) returned: every earlier callback of the
page and the failing one have been invoked, nothing after it. -/
def cutAt (n : Nat) (s' : St) : St :=
  let d := s'.seen.length - (n + 1)
  { s' with seen := s'.seen.drop d, log := s'.log.drop d }

/-- The `if … break / else if …` chain after the page's items were processed without a callback
error (`pgEmpty` = `len(page.Items) == 0`). -/
def advance (s' : St) (pgEmpty : Bool) : Res :=
  if pgEmpty && !s'.exact then .done s'
  else match s'.last with
    | none => .bug s'
    | some (lt, lu) =>
      if lt = 0 then .bug s'
      else if !pgEmpty && lt = s'.ftime then .cont { s' with exact := true, filt := .eq s'.ftime lu }
      else if s'.exact then .cont { s' with exact := false, filt := .gt s'.ftime }
      else .cont { s' with ftime := lt, filt := .ge lt lu }

/-- One loop iteration after the response `pg` arrived. If the callback's failing invocation `n`
falls into this page (`n < callCount` after the page), the loop returns at that point. -/
def next (cbFail : Option Nat) (s : St) (pg : List Coll) : Res :=
  let s' := processPage s pg
  match cbFail with
  | some n => if n < s'.seen.length then .cbErr (cutAt n s') else advance s' pg.isEmpty
  | none => advance s' pg.isEmpty

/-- insertion sort (structural recursion, so that the kernel can evaluate the examples in Props) -/
def insertBy (le : Coll → Coll → Bool) (a : Coll) : List Coll → List Coll
  | [] => [a]
  | b :: l => if le a b then a :: b :: l else b :: insertBy le a l

def isort (le : Coll → Coll → Bool) : List Coll → List Coll
  | [] => []
  | a :: l => insertBy le a (isort le l)

/-- The collections list endpoint: `filters`, `order=modified_at, uuid`, `limit`. -/
def serve (db : List Coll) (f : Filt) (limit : Nat) : List Coll :=
  (isort kleB (db.filter (fun c => decide (f.ok c)))).take limit

/-- `items_available` for `count=exact` with filter `modified_at <= t` -/
def countLE (db : List Coll) (t : Nat) : Nat := (db.filter (fun c => decide (c.time ≤ t))).length

inductive Outcome
  | ok | errRequest | errCallback | errBug | errCount | outOfFuel
deriving Repr, DecidableEq

/-- Result of a scan: outcome, final state, number of requests issued. -/
structure Result where
  out : Outcome
  st : St
  nreq : Nat

def pushLog (s : St) (e : Ev) : St := { s with log := e :: s.log }

/-- After the loop: the final count request and the `callCount < checkCount` test. -/
def finalCheck (env : Nat → List Coll) (fail : Nat → Bool) (k : Nat) (s : St) : Result :=
  let s := pushLog s (.reqCheck s.ftime)
  if fail k then ⟨.errRequest, s, k + 1⟩
  else if s.seen.length < countLE (env k) s.ftime then ⟨.errCount, s, k + 1⟩
  else ⟨.ok, s, k + 1⟩

/-- The `for { … }` loop; `k` is the number of the next request. -/
def pageLoop (limit : Nat) (env : Nat → List Coll) (fail : Nat → Bool) (cbFail : Option Nat) :
    Nat → Nat → St → Result
  | 0, k, s => ⟨.outOfFuel, s, k⟩
  | fuel + 1, k, s =>
    let s1 := pushLog s (.reqPage s.filt)
    if fail k then ⟨.errRequest, s1, k + 1⟩
    else match next cbFail s1 (serve (env k) s1.filt limit) with
      | .done s' => finalCheck env fail (k + 1) s'
      | .bug s' => ⟨.errBug, s', k + 1⟩
      | .cbErr s' => ⟨.errCallback, s', k + 1⟩
      | .cont s' => pageLoop limit env fail cbFail fuel (k + 1) s'

/-- `limit := pageSize; if limit <= 0 { limit = 1<<31 - 1 }` -/
def effLimit (pageSize : Int) : Nat := if pageSize ≤ 0 then 2 ^ 31 - 1 else pageSize.toNat

/-- `EachCollection`: initial count, page loop, final count. `limit` is the effective page length
(the requested limit, or less if the server caps it; always ≥ 1 for a real server). -/
def scan (limit : Nat) (env : Nat → List Coll) (fail : Nat → Bool) (cbFail : Option Nat) (fuel : Nat) :
    Result :=
  let s0 := pushLog init .reqCount0
  if fail 0 then ⟨.errRequest, s0, 1⟩ else pageLoop limit env fail cbFail fuel 1 s0

/-- Number of loop iterations that always suffices once the table has stopped changing. -/
def fuelBound (db : List Coll) : Nat := 3 * db.length + 3

/-! ### Environment operations used by the executable driver (scripted table) -/

inductive Op
  | modify (u t : Nat)   -- set modified_at of u (no-op if u is absent)
  | add (u t : Nat)      -- insert u (replacing any row with the same uuid)
  | del (u : Nat)
deriving Repr

def applyOp (db : List Coll) : Op → List Coll
  | .modify u t => db.map (fun c => if c.uuid = u then { c with time := t } else c)
  | .add u t => db.filter (fun c => c.uuid ≠ u) ++ [⟨u, t⟩]
  | .del u => db.filter (fun c => c.uuid ≠ u)

def applyOps (db : List Coll) (ops : List Op) : List Coll := ops.foldl applyOp db

/-- Table seen by request `k` under a finite schedule: `sched[k]` is applied just before request `k`
is served; after the schedule the table no longer changes. -/
def envOf (db : List Coll) : List (List Op) → Nat → List Coll
  | [], _ => db
  | ops :: _, 0 => applyOps db ops
  | ops :: rest, k + 1 => envOf (applyOps db ops) rest k

/-- largest table of a schedule (for the driver's fuel) -/
def maxRows (db : List Coll) : List (List Op) → Nat
  | [] => db.length
  | ops :: rest => max db.length (maxRows (applyOps db ops) rest)

end ArvVerif.C06
