/-
C16 model, part B: lib/dispatchcloud/scheduler/run_queue.go, `(*Scheduler).runQueue`.

One pass over the queue snapshot:

* `sorted` is the snapshot sorted by descending priority with Go's unstable `sort.Slice` over a
  slice filled in map order: the model takes *any* priority-sorted permutation (`IsSorted`) as
  input and the theorems quantify over all of them.
* The worker pool is an arbitrary state machine `Pool σ` (every answer of AtQuota / Create /
  KillContainer / StartContainer may depend on everything that happened before); the theorems hold
  for every pool.  `running` (membership in the `pool.Running()` snapshot) is a flag of the entry;
  `unalloc` is the copy of `pool.Unallocated()` that runQueue decrements locally.
* The observable result is the ordered trace of calls made on the pool and the queue.
  `go sch.lockContainer(uuid)` is recorded as `lockgo` at the point where the goroutine is spawned.
* The final `for it, n := range unalloc` runs in map order: the order `keys` of the map keys is an
  input as well.
-/
namespace ArvVerif.C16.RQ

inductive CState where
  | queued | locked | other
deriving Repr, DecidableEq

/-- one queue entry: container uuid, priority, state, chosen instance type, and whether the uuid
is in the `pool.Running()` snapshot -/
structure Ent where
  uuid : Nat
  prio : Int
  st : CState
  ty : Nat
  running : Bool
deriving Repr, DecidableEq

/-- calls observed on the pool / queue, in order -/
inductive Ev where
  | kill (forStart : Bool) (uuid : Nat) (r : Bool)   -- KillContainer(uuid, "about to lock"/"about to start") = r
  | lockgo (uuid : Nat)                              -- go sch.lockContainer(uuid)
  | unlock (uuid : Nat)                              -- queue.Unlock(uuid)
  | create (uuid : Nat) (ty : Nat) (r : Bool)        -- pool.Create(ty) = r, made on behalf of uuid
  | start (ty : Nat) (uuid : Nat) (r : Bool)         -- pool.StartContainer(ty, uuid) = r
  | shutdown (ty : Nat)                              -- pool.Shutdown(ty)
deriving Repr, DecidableEq

/-- an arbitrary worker pool -/
structure Pool (σ : Type) where
  atQuota : σ → Bool × σ
  create : Nat → σ → Bool × σ
  kill : Bool → Nat → σ → Bool × σ
  start : Nat → Nat → σ → Bool × σ

/-- loop state: the pool, runQueue's local copy of `unalloc`, and the `dontstart` latch -/
structure RQ (σ : Type) where
  pool : σ
  unalloc : Nat → Int
  dont : Nat → Bool

variable {σ : Type}

def dec (f : Nat → Int) (t : Nat) : Nat → Int := fun x => if x = t then f x - 1 else f x

def setTrue (f : Nat → Bool) (t : Nat) : Nat → Bool := fun x => if x = t then true else f x

/-- lines 86–98: the `dontstart` latch, KillContainer("about to start"), StartContainer.
Returns the new state and the calls made. -/
def tryStart (P : Pool σ) (e : Ent) (s : RQ σ) : RQ σ × List Ev :=
  if s.dont e.ty = true then (s, [])
  else
    let k := P.kill true e.uuid s.pool
    if k.1 = true then ({ s with pool := k.2 }, [.kill true e.uuid true])
    else
      let r := P.start e.ty e.uuid k.2
      if r.1 = true then
        ({ s with pool := r.2 }, [.kill true e.uuid false, .start e.ty e.uuid true])
      else
        ({ s with pool := r.2, dont := setTrue s.dont e.ty },
         [.kill true e.uuid false, .start e.ty e.uuid false])

/-- `case arvados.ContainerStateLocked` (lines 61–98); the Bool is `break tryrun` -/
def stepLocked (P : Pool σ) (e : Ent) (s : RQ σ) : RQ σ × List Ev × Bool :=
  if s.unalloc e.ty > 0 then
    let r := tryStart P e { s with unalloc := dec s.unalloc e.ty }
    (r.1, r.2, false)
  else
    let q := P.atQuota s.pool
    if q.1 = true then ({ s with pool := q.2 }, [.unlock e.uuid], true)
    else
      let c := P.create e.ty q.2
      if c.1 = true then
        let r := tryStart P e { s with pool := c.2 }
        (r.1, .create e.uuid e.ty true :: r.2, false)
      else ({ s with pool := c.2 }, [.create e.uuid e.ty false], false)

/-- `case arvados.ContainerStateQueued` (lines 49–60) -/
def stepQueued (P : Pool σ) (e : Ent) (s : RQ σ) : RQ σ × List Ev × Bool :=
  let q := if s.unalloc e.ty < 1 then P.atQuota s.pool else (false, s.pool)
  if q.1 = true then ({ s with pool := q.2 }, [], true)
  else
    let k := P.kill false e.uuid q.2
    if k.1 = true then ({ s with pool := k.2 }, [.kill false e.uuid true], false)
    else ({ s with pool := k.2, unalloc := dec s.unalloc e.ty },
          [.kill false e.uuid false, .lockgo e.uuid], false)

/-- body of the `tryrun` loop for one entry -/
def stepEnt (P : Pool σ) (e : Ent) (s : RQ σ) : RQ σ × List Ev × Bool :=
  if e.running = true ∨ e.prio < 1 then (s, [], false)
  else match e.st with
    | .queued => stepQueued P e s
    | .locked => stepLocked P e s
    | .other => (s, [], false)

/-- the `tryrun` loop; returns the final state, the calls made, and `overquota`
(= `sorted[i:]` at the break, empty if the loop ran to the end) -/
def loop (P : Pool σ) : List Ent → RQ σ → RQ σ × List Ev × List Ent
  | [], s => (s, [], [])
  | e :: rest, s =>
    let r := stepEnt P e s
    if r.2.2 = true then (r.1, r.2.1, e :: rest)
    else
      let q := loop P rest r.1
      (q.1, r.2.1 ++ q.2.1, q.2.2)

/-- lines 108–118: unlock every Locked entry of `overquota` -/
def unlockTail : List Ent → List Ev
  | [] => []
  | e :: rest => if e.st = .locked then .unlock e.uuid :: unlockTail rest else unlockTail rest

/-- lines 121–126: one Shutdown per instance type that still has unallocated workers -/
def shutdownIdle (unalloc : Nat → Int) : List Nat → List Ev
  | [] => []
  | t :: ks => if unalloc t < 1 then shutdownIdle unalloc ks else .shutdown t :: shutdownIdle unalloc ks

/-- everything after the loop (`if len(overquota) > 0 { ... }`) -/
def finish (keys : List Nat) (unalloc : Nat → Int) (tail : List Ent) : List Ev :=
  if tail = [] then [] else unlockTail tail ++ shutdownIdle unalloc keys

def initRQ (p0 : σ) (unalloc : Nat → Int) : RQ σ :=
  { pool := p0, unalloc := unalloc, dont := fun _ => false }

/-- the ordered trace of calls of one `runQueue` pass, for one outcome `sorted` of the priority sort
and one iteration order `keys` of the `unalloc` map -/
def runQueue (P : Pool σ) (p0 : σ) (unalloc : Nat → Int) (keys : List Nat) (sorted : List Ent) : List Ev :=
  let r := loop P sorted (initRQ p0 unalloc)
  r.2.1 ++ finish keys r.1.unalloc r.2.2

/-- what `sort.Slice(sorted, prio[i] > prio[j])` over the map-ordered snapshot guarantees -/
structure IsSorted (entries sorted : List Ent) : Prop where
  perm : sorted.Perm entries
  desc : sorted.Pairwise (fun a b => b.prio ≤ a.prio)

def geP (a b : Ent) : Bool := decide (b.prio ≤ a.prio)

/-- one executable inhabitant of `IsSorted` -/
def sortEnts (entries : List Ent) : List Ent := entries.mergeSort geP

/-! ### lockContainer (run_queue.go:131-159), run in the goroutine spawned at `lockgo`

`uuidLock(uuid, "lock")` fails when another operation on the uuid is in progress (`sch.uuidOp`);
then `queue.Get(uuid)` must still report state Queued (the cache may have changed since the pass
took its snapshot); only then `queue.Lock(uuid)` is called. -/

/-- does the goroutine for `u` call `queue.Lock(u)`?  `opInProgress` = `sch.uuidOp` at that time,
`curState` = the queue's cached state at that time (`none`: no longer in the queue). -/
def lockContainerCalls (opInProgress : Nat → Bool) (curState : Nat → Option CState) (u : Nat) : Bool :=
  !opInProgress u && decide (curState u = some .queued)

/-- the `queue.Lock` calls that result from a pass's trace -/
def lockCalls (opInProgress : Nat → Bool) (curState : Nat → Option CState) (tr : List Ev) : List Nat :=
  (tr.filterMap (fun e => match e with | .lockgo u => some u | _ => none)).filter
    (lockContainerCalls opInProgress curState)

/-! ### pools whose Create failures are monotone within a pass

The real `worker.Pool.Create` returns false when `time.Now()` is before `atQuotaUntil`, when
`throttleCreate` holds an error, or when `len(creating)` has reached
`maxConcurrentInstanceCreateOps` (which also sets `throttleCreate`). `creating` only shrinks when a
cloud Create call returns; the quota / throttle conditions only end when a timer expires. So,
unless one of these asynchronous events falls inside the pass, a Create that failed keeps failing
for the rest of the pass. `CreateMonotone P Dead` states this for an arbitrary pool: `Dead` is a
set of pool states in which Create fails, entered by every failed Create and left by no call. -/
structure CreateMonotone (P : Pool σ) (Dead : σ → Prop) : Prop where
  enter : ∀ t s, (P.create t s).1 = false → Dead (P.create t s).2
  fail : ∀ t s, Dead s → (P.create t s).1 = false
  keepQ : ∀ s, Dead s → Dead (P.atQuota s).2
  keepC : ∀ t s, Dead s → Dead (P.create t s).2
  keepK : ∀ b u s, Dead s → Dead (P.kill b u s).2
  keepS : ∀ t u s, Dead s → Dead (P.start t u s).2

/-! ### the concrete recording stub pool used by the correspondence driver
(mirrors harness/overlay/lib/dispatchcloud/scheduler/zz_verif_c16_test.go) -/

inductive StartMode where
  | byIdle | alwaysFail | alwaysOK | failFirst   -- failFirst: the first StartContainer on the type fails, later ones succeed
deriving Repr, DecidableEq

structure Stub where
  quota : Nat                 -- AtQuota() ⇔ number of successful creates ≥ quota
  canCreate : Nat             -- Create succeeds while fewer than canCreate creates have succeeded
  created : Nat
  idle : Nat → Nat
  starts : Nat → Nat          -- StartContainer calls so far, per type
  mode : Nat → StartMode
  lingering : Nat → Bool      -- KillContainer(uuid) = true

def stubPool : Pool Stub where
  atQuota := fun p => (decide (p.quota ≤ p.created), p)
  create := fun _ p => if p.created < p.canCreate then (true, { p with created := p.created + 1 }) else (false, p)
  kill := fun _ u p => (p.lingering u, p)
  start := fun t _ p0 =>
    let p := { p0 with starts := fun x => if x = t then p0.starts x + 1 else p0.starts x }
    match p.mode t with
    | .alwaysFail => (false, p)
    | .alwaysOK => (true, p)
    | .failFirst => (decide (p0.starts t ≠ 0), p)
    | .byIdle => if p.idle t = 0 then (false, p)
                 else (true, { p with idle := fun x => if x = t then p.idle x - 1 else p.idle x })

end ArvVerif.C16.RQ
