/-
C10 — model of the Go manifest package (sdk/go/manifest/manifest.go) as it is now (after the
`fix:` commits 584d30b firstBlock, d559316 EscapeName, 4f92334 / b1a09e4 / 2fef6b9 parseManifestStream): UnescapeName/EscapeName,
parseManifestStream, firstBlock (the binary search as written, `-1` and the index panic explicit),
sendFileSegmentIterByName (its two `panic`s are the outcome `Res.panic`), segment, normalizedText,
manifestTextForPath / Extract, and the helpers path.Clean / fixStreamName / splitPath.
uint64 / int arithmetic is modelled with explicit wrap-around where the code can overflow.
-/
import ArvVerif.Model.C10
namespace ArvVerif.C10

/-- outcome of a Go call that can return an error or panic -/
inductive Res (α : Type) where
  | ok (a : α)
  | err
  | panic
deriving Repr, DecidableEq

def Res.bind {α β : Type} : Res α → (α → Res β) → Res β
  | .ok a, f => f a
  | .err, _ => .err
  | .panic, _ => .panic

def two64 : Nat := 18446744073709551616
def two63 : Nat := 9223372036854775808
/-- reinterpret a uint64 as int64 (Go `int(x)` on a 64-bit platform) -/
def toI64 (x : Nat) : Int := if x % two64 < two63 then (x % two64 : Nat) else (x % two64 : Nat) - (two64 : Int)
/-- uint64 subtraction -/
def subU64 (a b : Nat) : Nat := (a + two64 - b % two64) % two64

/-! ## escapes -/

def octDigits (c : UInt8) : Bytes :=
  [UInt8.ofNat (48 + c.toNat / 64), UInt8.ofNat (48 + c.toNat / 8 % 8), UInt8.ofNat (48 + c.toNat % 8)]

/-- `fmt.Sprintf("\\%03o", c)` for the bytes selected by `p`, other bytes verbatim -/
def escapeWith (p : UInt8 → Bool) : Bytes → Bytes
  | [] => []
  | c :: rest => if p c then bBackslash :: octDigits c ++ escapeWith p rest else c :: escapeWith p rest

/-- `manifest.EscapeName` (fixed): `c <= 32 || c == '\\'` -/
def pkgEscapePred (c : UInt8) : Bool := c ≤ 32 || c == bBackslash
def pkgEscape : Bytes → Bytes := escapeWith pkgEscapePred

/-- the pre-fix `EscapeName` (`c <= 32` only), kept to document finding F6 -/
def pkgEscapeOld : Bytes → Bytes := escapeWith (fun c => c ≤ 32)

/-- `regexp.ReplaceAllStringFunc(s, unescape)` for `\\([0-9]{3}|\\)` resp. `\\([0-7]{3}|\\)`
(`dig` = the digit class of the regexp): leftmost match at each backslash, three digits preferred;
`strconv.ParseUint(ddd, 8, 8)` fails on 8/9 and on values above 255, then the sequence stays. -/
def goUnescapeAux (dig : UInt8 → Bool) : Nat → Bytes → Bytes
  | _, [] => []
  | skip + 1, _ :: rest => goUnescapeAux dig skip rest
  | 0, c :: rest =>
    if c == bBackslash then
      match rest.take 3 with
      | [a, b, d] =>
        if dig a && dig b && dig d then
          let v := (a.toNat - 48) * 64 + (b.toNat - 48) * 8 + (d.toNat - 48)
          if isOctDigit a && isOctDigit b && isOctDigit d && v < 256 then UInt8.ofNat v :: goUnescapeAux dig 3 rest
          else c :: a :: b :: d :: goUnescapeAux dig 3 rest
        else if a == bBackslash then bBackslash :: goUnescapeAux dig 1 rest
        else c :: goUnescapeAux dig 0 rest
      | a :: _ =>
        if a == bBackslash then bBackslash :: goUnescapeAux dig 1 rest else c :: goUnescapeAux dig 0 rest
      | [] => [c]
    else c :: goUnescapeAux dig 0 rest

/-- (the first argument of `goUnescapeAux` counts bytes of an already consumed match) -/
def goUnescape (dig : UInt8 → Bool) (s : Bytes) : Bytes := goUnescapeAux dig 0 s

/-- `manifest.UnescapeName` -/
def pkgUnescape : Bytes → Bytes := goUnescape isDigit

/-! ## strconv -/

/-- `strconv.ParseUint(s, 10, 64)` -/
def parseUint64 (s : Bytes) : Option Nat :=
  match parseNat? s with
  | some n => if n < two64 then some n else none
  | none => none

/-- `strconv.ParseInt(s, 10, bits)`: optional sign, digits, range check -/
def parseIntBits (bits : Nat) (s : Bytes) : Option Int :=
  match s with
  | c :: rest =>
    if c == 43 then (parseNat? rest).bind fun n => if n < 2 ^ (bits - 1) then some (n : Int) else none
    else if c == 45 then (parseNat? rest).bind fun n => if n ≤ 2 ^ (bits - 1) then some (-(n : Int)) else none
    else (parseNat? s).bind fun n => if n < 2 ^ (bits - 1) then some (n : Int) else none
  | [] => none

/-! ## path helpers -/

def cleanComps (rooted : Bool) : List Bytes → List Bytes → List Bytes
  | [], st => st.reverse
  | c :: cs, st =>
    if c = [] ∨ c = [bDot] then cleanComps rooted cs st
    else if c = [bDot, bDot] then
      match st with
      | top :: st' => if top = [bDot, bDot] then cleanComps rooted cs (c :: st) else cleanComps rooted cs st'
      | [] => if rooted then cleanComps rooted cs [] else cleanComps rooted cs [c]
    else cleanComps rooted cs (c :: st)

/-- Go `path.Clean` -/
def pathClean (p : Bytes) : Bytes :=
  if p = [] then [bDot] else
  let rooted := p.head? = some bSlash
  let cs := cleanComps rooted (splitOn bSlash p) []
  if rooted then bSlash :: joinWith bSlash cs
  else if cs = [] then [bDot] else joinWith bSlash cs

/-- `fixStreamName` -/
def fixStreamName (sn : Bytes) : Bytes :=
  let c := pathClean sn
  if c.head? = some bSlash then bDot :: c
  else if c ≠ [bDot] then bDot :: bSlash :: c
  else c

/-- index of the last '/' -/
def lastSlash (p : Bytes) : Option Nat :=
  let rec go : Bytes → Nat → Option Nat → Option Nat
    | [], _, acc => acc
    | c :: rest, i, acc => go rest (i + 1) (if c == bSlash then some i else acc)
  go p 0 none

/-- `splitPath` -/
def splitPath (p : Bytes) : Bytes × Bytes :=
  match lastSlash p with
  | some i => (p.take i, p.drop (i + 1))
  | none => (p, [])

/-! ## firstBlock -/

/-- outcome of the binary search -/
inductive FB where
  | found (i : Nat)
  | notFound          -- `return -1`
  | indexPanic        -- index out of range (empty offsets / no block)
  | outOfFuel         -- artefact of the fuel-indexed definition; proved unreachable
deriving Repr, DecidableEq

/-- "move right" test of the fixed code: `rangeStart >= blockEnd` -/
def goRightNew (_blockStart blockEnd start : Nat) : Bool := decide (blockEnd ≤ start)
/-- "move right" test before commit 584d30b: `rangeStart > blockStart` -/
def goRightOld (blockStart _blockEnd start : Nat) : Bool := decide (blockStart < start)

/-- the `for` loop of `firstBlock`, state (lo, hi, i), with the move-right test as a parameter -/
def fbLoop (goRight : Nat → Nat → Nat → Bool) (offs : List Nat) (start : Nat) : Nat → Nat → Nat → Nat → FB
  | 0, _, _, _ => .outOfFuel
  | fuel + 1, lo, hi, i =>
    match offs[i]?, offs[i + 1]? with
    | some bs, some be =>
      if bs ≤ start ∧ start < be then .found i
      else if lo = i then .notFound
      else if goRight bs be start then fbLoop goRight offs start fuel i hi ((hi + i) / 2)
      else fbLoop goRight offs start fuel lo i ((i + lo) / 2)
    | _, _ => .indexPanic

/-- `firstBlock(offsets, rangeStart)`; `hi := len(offsets) - 1`, `i := (hi + lo) / 2`. -/
def firstBlockWith (goRight : Nat → Nat → Nat → Bool) (offs : List Nat) (start : Nat) : FB :=
  if offs.length = 0 then .indexPanic
  else fbLoop goRight offs start (offs.length + 1) 0 (offs.length - 1) ((offs.length - 1) / 2)

def firstBlock : List Nat → Nat → FB := firstBlockWith goRightNew
def firstBlockOld : List Nat → Nat → FB := firstBlockWith goRightOld

/-! ## streams -/

/-- `manifest.FileSegment` (Len is a Go `int`: it can be negative after a uint64 wrap) -/
structure PSeg where
  loc : Bytes
  off : Int
  len : Int
deriving DecidableEq, Repr

/-- `ManifestStream` after `parseManifestStream`; `err` = `Err != nil`, the other fields hold what
was filled in before the error. Positions/lengths are uint64 values. -/
structure PStream where
  name : Bytes
  blocks : List Loc
  offs : List Nat
  files : List FTok
  err : Bool
deriving Repr

/-- `blockdigest.LocatorPattern` `^[0-9a-fA-F]{32}\+[0-9]+(\+[A-Z][A-Za-z0-9@_-]*)*$` -/
def goLocatorDigits (t : Bytes) : Option Bytes := locatorSizeDigits isAnyHex t
def isGoLocator (t : Bytes) : Bool := (goLocatorDigits t).isSome

/-- `strings.SplitN(tok, sep, 3)` -/
def splitN3 (sep : UInt8) (t : Bytes) : List Bytes :=
  match splitOn sep t with
  | a :: b :: c :: rest => [a, b, joinWith sep (c :: rest)]
  | l => l

/-- `parseFileStreamSegment` -/
def pkgFileTok (t : Bytes) : Option FTok :=
  match splitN3 bColon t with
  | [p, l, nm] =>
    match parseUint64 p, parseUint64 l with
    | some pos, some len => some ⟨pos, len, pkgUnescape nm⟩
    | _, _ => none
  | _ => none

/-- block offsets `[0, s0, s0+s1, ...]` in uint64 arithmetic -/
def offsetsFrom : Nat → List Loc → List Nat
  | acc, [] => [acc]
  | acc, b :: rest => acc :: offsetsFrom ((acc + b.size) % two64) rest

/-- the file-token loop of `parseManifestStream`: stops at the first bad token. After fix 4f92334
the range test is `SegPos > streamoffset || SegLen > streamoffset-SegPos` (no uint64 wrap); after
fixes b1a09e4, c203269 a token whose combined path `fixStreamName` would alter is an error, except the
zero-length `.` token (the collection filesystem's empty-directory marker). -/
def pkgFileToks (sname : Bytes) (total : Nat) : List Bytes → List FTok × Bool
  | [] => ([], false)
  | t :: rest =>
    match pkgFileTok t with
    | none => ([], true)
    | some f =>
      if f.pos > total ∨ f.len > total - f.pos then ([], true)
      else if ¬ (f.len = 0 ∧ f.name = [bDot]) ∧ fixStreamName (sname ++ bSlash :: f.name) ≠ sname ++ bSlash :: f.name then ([], true)
      else let (fs, e) := pkgFileToks sname total rest; (f :: fs, e)

/-- block sizes: `strconv.ParseInt(tokens[1], 10, 0)`; `none` on overflow -/
def pkgBlocks : List Bytes → Option (List Loc)
  | [] => some []
  | t :: rest =>
    match goLocatorDigits t with
    | some ds =>
      let n := natOfDigits ds
      if n < two63 then (pkgBlocks rest).map (⟨t, n⟩ :: ·) else none
    | none => none

/-- `parseManifestStream` -/
def pkgParseStream (line : Bytes) : PStream :=
  match splitOn bSpace line with
  | [] => ⟨[], [], [], [], true⟩
  | nm :: toks =>
    let name := pkgUnescape nm
    if name ≠ [bDot] ∧ ¬ ([bDot, bSlash].isPrefixOf name) then ⟨name, [], [], [], true⟩ else
    let btoks := toks.takeWhile isGoLocator
    let ftoks := toks.dropWhile isGoLocator
    if btoks = [] then ⟨name, [], [], [], true⟩ else
    match pkgBlocks btoks with
    | none => ⟨name, btoks.map (⟨·, 0⟩), [], [], true⟩
    | some blocks =>
      -- fix 2fef6b9: `streamoffset+uint64(bl.Size) < streamoffset` is an error (every size is below
      -- 2^63, so some prefix sum wraps exactly when the total reaches 2^64)
      if streamLen blocks ≥ two64 then ⟨name, blocks, [], [], true⟩ else
      let offs := offsetsFrom 0 blocks
      if ftoks = [] then ⟨name, blocks, offs, [], true⟩ else
      let (files, e) := pkgFileToks name (offs.getLastD 0) ftoks
      ⟨name, blocks, offs, files, e⟩

/-- `StreamIter`: every non-empty line -/
def pkgStreams (txt : Bytes) : List PStream :=
  ((splitOn bNL txt).filter (· ≠ [])).map pkgParseStream

def emptyBlockLocator : Bytes := str "d41d8cd98f00b204e9800998ecf8427e+0"

/-- the block loop of `sendFileSegmentIterByName` from block index `i` on: `spans` are the
remaining (locator, blockPos, blockEnd) triples; `wl` is `wantPos+wantLen` (uint64). -/
def sendLoop (wantPos wl : Nat) : List (Bytes × Nat × Nat) → Res (List PSeg)
  | [] => .ok []
  | (loc, bp, be) :: rest =>
    if be ≤ wantPos then .panic
    else if bp ≥ wl then .ok []
    else
      let len0 := toI64 (subU64 be bp)
      let off : Int := if bp < wantPos then toI64 (subU64 wantPos bp) else 0
      let len1 := if bp < wantPos then len0 - off else len0
      let len2 := if be > wl then toI64 (subU64 wl bp) - off else len1
      (sendLoop wantPos wl rest).bind fun more => .ok (⟨loc, off, len2⟩ :: more)

def spansOf (blocks : List Loc) (offs : List Nat) : List (Bytes × Nat × Nat) :=
  (blocks.zip (offs.zip offs.tail)).map fun (b, s, e) => (b.text, s, e)

/-- one file token of `sendFileSegmentIterByName` -/
def sendTok (fb : List Nat → Nat → FB) (s : PStream) (f : FTok) : Res (List PSeg) :=
  if f.len = 0 then .ok [⟨emptyBlockLocator, 0, 0⟩]
  else match fb s.offs f.pos with
    | .found i => sendLoop f.pos ((f.pos + f.len) % two64) ((spansOf s.blocks s.offs).drop i)
    | _ => .panic

/-- `sendFileSegmentIterByName(filepath, ch)`: everything sent, in order -/
def sendByName (fb : List Nat → Nat → FB) (s : PStream) (filepath : Bytes) : Res (List PSeg) :=
  let target := fixStreamName filepath
  let rec go : List FTok → Res (List PSeg)
    | [] => .ok []
    | f :: rest =>
      if s.name ++ bSlash :: f.name ≠ target then go rest
      else (sendTok fb s f).bind fun a => (go rest).bind fun b => .ok (a ++ b)
  go s.files

/-- `Manifest.FileSegmentIterByName` -/
def pkgIter (txt path : Bytes) : Res (List PSeg) :=
  let fp := fixStreamName path
  let rec go : List PStream → Res (List PSeg)
    | [] => .ok []
    | s :: rest =>
      if (s.name ++ [bSlash]).isPrefixOf fp then
        (sendByName firstBlock s fp).bind fun a => (go rest).bind fun b => .ok (a ++ b)
      else go rest
  go (pkgStreams txt)

/-! ## segment() -/

/-- `segmentedManifest`: (stream name, file name) ↦ segments, in insertion order -/
abbrev SegMap := List ((Bytes × Bytes) × List Seg)

def segLookup (m : SegMap) (k : Bytes × Bytes) : List Seg :=
  match m.find? (·.1 = k) with
  | some e => e.2
  | none => []

def segSet (m : SegMap) (k : Bytes × Bytes) (v : List Seg) : SegMap :=
  if m.any (·.1 = k) then m.map fun e => if e.1 = k then (k, v) else e else m ++ [(k, v)]

/-- `seg.Len > 0` filter of `segment()` -/
def keepPositive (ps : List PSeg) : List Seg :=
  ps.filterMap fun p => if p.len > 0 then some ⟨p.loc, p.off.toNat, p.len.toNat⟩ else none

/-- the per-stream loop of `segment()` -/
def segmentStream (fb : List Nat → Nat → FB) (s : PStream) : List FTok → List Bytes → SegMap → Res SegMap
  | [], _, m => .ok m
  | f :: rest, seen, m =>
    let sn := if s.name.getLast? = some bSlash then s.name.dropLast else s.name
    let path := sn ++ bSlash :: f.name
    let key := splitPath path
    if seen.contains path then segmentStream fb s rest seen m
    else (sendByName fb s path).bind fun segs =>
      segmentStream fb s rest (path :: seen) (segSet m key (segLookup m key ++ keepPositive segs))

def segmentStreams (fb : List Nat → Nat → FB) : List PStream → SegMap → Res SegMap
  | [], m => .ok m
  | s :: rest, m =>
    if s.err then .err
    else (segmentStream fb s s.files [] m).bind fun m' => segmentStreams fb rest m'

/-- `Manifest.segment()` -/
def pkgSegmentWith (fb : List Nat → Nat → FB) (txt : Bytes) : Res SegMap := segmentStreams fb (pkgStreams txt) []
def pkgSegment : Bytes → Res SegMap := pkgSegmentWith firstBlock

/-! ## normalizedText / manifestTextForPath / Extract -/

def fileTokText (pos len : Int) (name : Bytes) : Bytes :=
  let d (x : Int) : Bytes := if x < 0 then 45 :: natToDec x.natAbs else natToDec x.toNat
  d pos ++ bColon :: d len ++ bColon :: name

/-- size of a segment's locator as `ParseBlockLocator` reads it -/
def locSize (loc : Bytes) : Nat :=
  match goLocatorDigits loc with
  | some ds => natOfDigits ds
  | none => 0

/-- first pass of `normalizedText`: each digest once, with its stream offset -/
def normBlocks : List Seg → List (Bytes × Nat) → List Bytes → Nat → List (Bytes × Nat) × List Bytes × Nat
  | [], tbl, toks, off => (tbl, toks, off)
  | s :: rest, tbl, toks, off =>
    if tbl.any (·.1 = digestKey s.loc) then normBlocks rest tbl toks off
    else normBlocks rest (tbl ++ [(digestKey s.loc, off)]) (toks ++ [s.loc]) (off + locSize s.loc)

def tblLookup (tbl : List (Bytes × Nat)) (k : Bytes) : Nat :=
  match tbl.find? (·.1 = k) with
  | some e => e.2
  | none => 0

/-- second pass for one file: collapse adjacent segments into spans -/
def normSpans (tbl : List (Bytes × Nat)) (fout : Bytes) : List Seg → Option (Nat × Nat) → List Bytes
  | [], none => []
  | [], some (a, b) => [fileTokText a (b - a) fout]
  | s :: rest, cur =>
    let so := tblLookup tbl (digestKey s.loc) + s.off
    match cur with
    | none => normSpans tbl fout rest (some (so, so + s.len))
    | some (a, b) =>
      if so = b then normSpans tbl fout rest (some (a, b + s.len))
      else fileTokText a (b - a) fout :: normSpans tbl fout rest (some (so, so + s.len))

/-- `segmentedStream.normalizedText(name)`; `files` = the stream's (file name, segments) -/
def normalizedText (name : Bytes) (files : List (Bytes × List Seg)) : Bytes :=
  let sorted := sortBytes (files.map (·.1))
  let segsOf (fn : Bytes) : List Seg := match files.find? (·.1 = fn) with | some e => e.2 | none => []
  let (tbl, btoks, _) := normBlocks (sorted.flatMap segsOf) [] [] 0
  let btoks := if btoks = [] then [emptyBlockLocator] else btoks
  let ftoks := sorted.flatMap fun fn =>
    let segs := segsOf fn
    normSpans tbl (pkgEscape fn) segs none ++ (if segs.isEmpty then [fileTokText 0 0 (pkgEscape fn)] else [])
  joinWith bSpace (pkgEscape name :: btoks ++ ftoks) ++ [bNL]

def streamNames (m : SegMap) : List Bytes := (m.map (·.1.1)).eraseDups
def streamFiles (m : SegMap) (sn : Bytes) : List (Bytes × List Seg) :=
  (m.filter (·.1.1 = sn)).map fun e => (e.1.2, e.2)

/-- `segmentedManifest.manifestTextForPath(srcpath, relocate)` -/
def manifestTextForPath (m : SegMap) (srcpath relocate : Bytes) : Bytes :=
  let src := fixStreamName srcpath
  let suffix : Bytes := if relocate.getLast? = some bSlash then [bSlash] else []
  let rel := fixStreamName relocate ++ suffix
  let (sname, fname) := splitPath src
  match m.find? (·.1 = (sname, fname)) with
  | some e =>
    let (rs, rf) := splitPath rel
    let rf := if rf = [] then fname else rf
    normalizedText rs [(rf, e.2)]
  | none =>
    let pre := src ++ [bSlash]
    let rel' := if rel.getLast? = some bSlash then rel.dropLast else rel
    (sortBytes (streamNames m)).flatMap fun k =>
      if pre.isPrefixOf k ∨ k = src then normalizedText (rel' ++ k.drop src.length) (streamFiles m k) else []

/-- `Manifest.Extract(srcpath, relocate)` -/
def pkgExtractWith (fb : List Nat → Nat → FB) (txt src rel : Bytes) : Res Bytes :=
  (pkgSegmentWith fb txt).bind fun m => .ok (manifestTextForPath m src rel)
def pkgExtract : Bytes → Bytes → Bytes → Res Bytes := pkgExtractWith firstBlock

end ArvVerif.C10
