/-
C04, sequential / history layer: one keepstore server with Directory volumes, requests executed one
after the other (the interleaving of a PUT/TOUCH with a Trash is `Model/C04_Race.lean`).

Code modelled: services/keepstore
  unix_volume.go   Touch, Mtime, WriteBlock (effect), Trash, Untrash, EmptyTrash
  trash_worker.go  TrashItem
  handlers.go      handlePUT/PutBlock/CompareAndTouch, handleTOUCH, handleGET/GetBlock, handleDELETE,
                   handleUntrash
  volume.go        RRVolumeManager.{AllReadable, AllWritable, NextWritable, Lookup}
  keepstore.go     emptyTrash (sweeps the writable mounts)

Time is a `Nat` number of clock ticks; `Cfg.res` ticks make one second (trash deadlines are whole
seconds: `time.Now().Add(lifetime).Unix()`). A block file is (good?, mtime): `good` = its bytes hash
to its name. Hashes are abstract (`Nat`).
-/
namespace ArvVerif.C04

abbrev Hash := Nat
abbrev Time := Nat

structure File where
  good : Bool
  mtime : Time
deriving DecidableEq, Repr

structure TrashEnt where
  hash : Hash
  deadline : Nat          -- whole seconds: the <deadline> of <hash>.trash.<deadline>
  file : File
deriving DecidableEq, Repr

structure Vol where
  id : Nat                -- mount identity (position in the configured order)
  ro : Bool
  blocks : Hash → Option File
  trash : List TrashEnt
  /-- IsFull() answers true (a recent `<root>/full` marker, or too little free space): WriteBlock refuses
  with FullError; Touch, Trash, Untrash are unaffected -/
  full : Bool := false

structure Cfg where
  ttl : Nat               -- BlobSigningTTL, ticks
  life : Nat              -- BlobTrashLifetime, ticks
  blobTrash : Bool
  conc : Nat              -- BlobDeleteConcurrency
  res : Nat               -- ticks per second
  /-- ticks that pass between the per-volume calls inside ONE untrash request (handleUntrash visits the
  writable volumes one after the other and each restored file is stamped with its own time.Now()) -/
  spread : Nat := 0

structure St where
  vols : List Vol
  now : Time
  rr : Nat                -- RRVolumeManager.counter

/-! ### volume level (UnixVolume) -/

def Vol.setBlock (v : Vol) (h : Hash) (f : Option File) : Vol :=
  { v with blocks := fun h' => if h' = h then f else v.blocks h' }

/-- Touch: error (none) on a read-only volume or a missing file; otherwise mtime := now -/
def Vol.touch (v : Vol) (h : Hash) (now : Time) : Option Vol :=
  if v.ro then none else
  match v.blocks h with
  | none => none
  | some f => some (v.setBlock h (some { f with mtime := now }))

/-- WriteBlock's effect: a complete good copy with mtime now replaces whatever was at the path -/
def Vol.write (v : Vol) (h : Hash) (now : Time) : Vol :=
  v.setBlock h (some { good := true, mtime := now })

inductive TrashRes | disabled | notFound | kept | trashed
deriving DecidableEq, Repr

/-- `time.Since(mtime) < BlobSigningTTL` -/
def young (c : Cfg) (now mtime : Time) : Bool := decide (now < mtime + c.ttl)

def deadlineOf (c : Cfg) (now : Time) : Nat := (now + c.life) / c.res

/-- rename(p, p.trash.D) replaces an existing trash file of the same name -/
def trashInsert (es : List TrashEnt) (e : TrashEnt) : List TrashEnt :=
  e :: es.filter (fun x => !(x.hash = e.hash ∧ x.deadline = e.deadline))

/-- UnixVolume.Trash -/
def Vol.trashBlock (c : Cfg) (now : Time) (v : Vol) (h : Hash) : TrashRes × Vol :=
  if v.ro || !c.blobTrash then (.disabled, v) else
  match v.blocks h with
  | none => (.notFound, v)
  | some f =>
    if young c now f.mtime then (.kept, v)
    else if c.life = 0 then (.trashed, v.setBlock h none)
    else (.trashed, { v.setBlock h none with
                      trash := trashInsert v.trash { hash := h, deadline := deadlineOf c now, file := f } })

/-- the trash entry Untrash picks: first `<h>.trash.*` in directory (name) order = least deadline
(deadlines have equal digit counts) -/
def minEntry (h : Hash) : List TrashEnt → Option TrashEnt
  | [] => none
  | e :: es =>
    if e.hash = h then
      match minEntry h es with
      | some m => if m.deadline < e.deadline then some m else some e
      | none => some e
    else minEntry h es

/-- UnixVolume.Untrash: none = os.ErrNotExist; the restored file replaces whatever is at the block
path and gets a current timestamp (fix f7a86a4) -/
def Vol.untrash (v : Vol) (h : Hash) (now : Time) : Option Vol :=
  match minEntry h v.trash with
  | none => none
  | some e => some { v.setBlock h (some { e.file with mtime := now }) with
                     trash := v.trash.filter (fun x => !(x.hash = h ∧ x.deadline = e.deadline)) }

/-- UnixVolume.EmptyTrash: removes exactly the trash files whose deadline is not in the future -/
def Vol.emptyTrash (c : Cfg) (now : Time) (v : Vol) : Vol :=
  if c.conc < 1 then v else { v with trash := v.trash.filter (fun e => decide (e.deadline > now / c.res)) }

/-! ### server level -/

def writables (vs : List Vol) : List Vol := vs.filter (fun v => !v.ro)

def updVol (vs : List Vol) (id : Nat) (f : Vol → Vol) : List Vol :=
  vs.map (fun v => if v.id = id then f v else v)

inductive Op
  | put (h : Hash) (goodBody : Bool)
  | touch (h : Hash)
  | get (h : Hash)
  | delete (h : Hash)
  | trashItem (h : Hash) (reqMtime : Time) (mount : Option Nat)
  | untrash (h : Hash)
  | emptyTrash
  | tick (d : Nat)
  /- requests without the system token -/
  | unauth (kind : Nat)
deriving DecidableEq, Repr

inductive Res
  | code (n : Nat)
  | deleted (ok failed : Nat)     -- 200 {"copies_deleted":ok,"copies_failed":failed}
  | quiet                         -- no response to observe (trash list item, sweep, tick)
deriving DecidableEq, Repr

/-- CompareAndTouch: the first writable volume holding an intact copy gets touched -/
def compareAndTouch (now : Time) (h : Hash) : List Vol → Option Nat
  | [] => none
  | v :: vs =>
    match v.blocks h with
    | some f => if f.good then some v.id else compareAndTouch now h vs
    | none => compareAndTouch now h vs

def firstHolding (h : Hash) : List Vol → Option Nat
  | [] => none
  | v :: vs => if (v.blocks h).isSome then some v.id else firstHolding h vs

/-- GetBlock over AllReadable: 200 on the first intact copy; 500 if only corrupt copies; 404 -/
def getStatus (h : Hash) : List Vol → Nat → Nat
  | [], acc => acc
  | v :: vs, acc =>
    match v.blocks h with
    | some f => if f.good then 200 else getStatus h vs 500
    | none => getStatus h vs acc

/-- handleDELETE on one mount: Trash on every writable volume -/
def delVol (c : Cfg) (now : Time) (h : Hash) (v : Vol) : Vol :=
  if v.ro then v else (Vol.trashBlock c now v h).2

/-- Trash returned nil (trashed, or kept because younger than the TTL): counted in copies_deleted -/
def delHit (c : Cfg) (now : Time) (h : Hash) (v : Vol) : Bool :=
  !v.ro && (match (Vol.trashBlock c now v h).1 with | .kept | .trashed => true | _ => false)

/-- which mounts a trash-list item addresses -/
def tiSelected (mount : Option Nat) (v : Vol) : Bool :=
  !v.ro && (match mount with | none => true | some m => v.id = m)

def tiVol (c : Cfg) (now : Time) (h : Hash) (req : Time) (mount : Option Nat) (v : Vol) : Vol :=
  if tiSelected mount v then
    match v.blocks h with
    | some f => if f.mtime = req ∧ c.blobTrash then (Vol.trashBlock c now v h).2 else v
    | none => v
  else v

/-- handleUntrash on one mount -/
def untrashVol (h : Hash) (now : Time) (v : Vol) : Vol := if v.ro then v else (v.untrash h now).getD v

def untrashHit (h : Hash) (v : Vol) : Bool := !v.ro && (minEntry h v.trash).isSome

def sweepVol (c : Cfg) (now : Time) (v : Vol) : Vol := if v.ro then v else v.emptyTrash c now

/-- PutBlock's choice of the volume to write: NextWritable() if it is not full, otherwise the first
writable volume (in order) that is not full -/
def pickTarget (ws : List Vol) (w : Vol) : Option Vol :=
  if w.full then ws.find? (fun v => !v.full) else some w

def step (c : Cfg) (s : St) : Op → St × Res
  | .put h goodBody =>
    if (writables s.vols).isEmpty then (s, .code 503)       -- FullError, before the body is read
    else if !goodBody then (s, .code 422)                   -- RequestHashError
    else
      match compareAndTouch s.now h (writables s.vols) with
      | some id => ({ s with vols := updVol s.vols id (fun v => (v.touch h s.now).getD v) }, .code 200)
      | none =>
        let ws := writables s.vols
        let rr := s.rr + 1
        match ws[rr % ws.length]? with
        | some w =>
          match pickTarget ws w with
          | some w' => ({ s with rr := rr, vols := updVol s.vols w'.id (fun v => v.write h s.now) }, .code 200)
          | none => ({ s with rr := rr }, .code 503)            -- every writable volume is full: FullError
        | none => (s, .code 503)
  | .touch h =>
    match firstHolding h (writables s.vols) with
    | some id => ({ s with vols := updVol s.vols id (fun v => (v.touch h s.now).getD v) }, .code 200)
    | none => (s, .code 404)
  | .get h => (s, .code (getStatus h s.vols 404))
  | .delete h =>
    if !c.blobTrash then (s, .code 405) else
    let n := (s.vols.filter (delHit c s.now h)).length
    if n = 0 then (s, .code 404) else ({ s with vols := s.vols.map (delVol c s.now h) }, .deleted n 0)
  | .trashItem h req mount =>
    if young c s.now req then (s, .quiet)
    else ({ s with vols := s.vols.map (tiVol c s.now h req mount) }, .quiet)
  | .untrash h =>
    if (writables s.vols).isEmpty then (s, .code 404) else
    if (s.vols.filter (untrashHit h)).isEmpty then (s, .code 404)
    else ({ s with vols := s.vols.map (fun v => untrashVol h (s.now + c.spread * v.id) v),
                   now := s.now + c.spread * s.vols.length }, .code 200)
  | .emptyTrash =>
    ({ s with vols := s.vols.map (sweepVol c s.now) }, .quiet)
  | .tick d => ({ s with now := s.now + d }, .quiet)
  | .unauth kind => (s, .code (if kind = 0 then 403 else 401))

def run (c : Cfg) : St → List Op → St × List Res
  | s, [] => (s, [])
  | s, op :: ops =>
    let (s1, r) := step c s op
    let (s2, rs) := run c s1 ops
    (s2, r :: rs)

end ArvVerif.C04
