/-
C10 — model of the Go collection-filesystem loader `dirnode.loadManifest`
(sdk/go/arvados/fs_collection.go, after fixes c99b8a5: no zero-length stored segments, and
499e88b: a file token whose offset+length overflows int64 is an error), of
`createFileAndParents` on a flat tree, of manifestEscape/manifestUnescape, and of
`PortableDataHash` / `Collection.SizedDigests` (sdk/go/arvados/collection.go).
int64 overflow of `offset+length` is modelled (wrap-around), because the code can reach it.
-/
import ArvVerif.Model.C10_Go
namespace ArvVerif.C10

/-! ## escapes -/

/-- `manifestEscapedChar` = `[\000-\040:\s\\]` -/
def fsEscapePred (c : UInt8) : Bool := c ≤ 32 || c == bColon || c == bBackslash
/-- `manifestEscape` -/
def fsEscape : Bytes → Bytes := escapeWith fsEscapePred
/-- `manifestUnescape` (`manifestEscapeSeq` = `\\([0-7]{3}|\\)`) -/
def fsUnescape : Bytes → Bytes := goUnescape isOctDigit

/-! ## the tree -/

/-- flat image of the inode tree: directories and files by component path (root = []) -/
structure FsTree where
  dirs : List (List Bytes)
  files : List (List Bytes × List Seg)
deriving Repr

/-- result of `createFileAndParents` -/
inductive Created where
  | file (path : List Bytes)     -- existing or new filenode
  | marker                       -- `(nil, nil)`: basename "."
  | error
deriving Repr, DecidableEq

/-- the parent-walk of `createFileAndParents` over `names[:len-1]` -/
def walkParents : List Bytes → List Bytes → FsTree → Option (List Bytes × FsTree)
  | [], cur, t => some (cur, t)
  | n :: rest, cur, t =>
    if n = [] ∨ n = [bDot] then walkParents rest cur t
    else if n = [bDot, bDot] then
      if cur = [] then none else walkParents rest cur.dropLast t
    else
      let child := cur ++ [n]
      if t.files.any (·.1 = child) then none                       -- ErrFileExists
      else if t.dirs.contains child then walkParents rest child t
      else walkParents rest child { t with dirs := t.dirs ++ [child] }

/-- `createFileAndParents(path)` -/
def createFileAndParents (path : Bytes) (t : FsTree) : Created × FsTree :=
  let names := splitOn bSlash path
  let base := names.getLastD []
  match walkParents names.dropLast [] t with
  | none => (.error, t)
  | some (cur, t') =>
    if base = [bDot] then (.marker, t')
    else if base = [] ∨ base = [bDot, bDot] then (.error, t')      -- !permittedName
    else
      let child := cur ++ [base]
      if t'.dirs.contains child then (.error, t')                   -- ErrIsDirectory
      else if t'.files.any (·.1 = child) then (.file child, t')
      else (.file child, { t' with files := t'.files ++ [(child, [])] })

def appendSegs (t : FsTree) (p : List Bytes) (segs : List Seg) : FsTree :=
  { t with files := t.files.map fun e => if e.1 = p then (e.1, e.2 ++ segs) else e }

/-! ## the range loop -/

/-- The `for ; segIdx < len(segments); segIdx++` loop for one file token; `rest` is
`segments[segIdx:]`, `ol` is `offset+length` (int64, possibly wrapped). Returns the new
(segIdx, pos) and the stored segments appended. -/
def fsLoop (offset ol : Int) : List Loc → Nat → Int → List Seg → Nat × Int × List Seg
  | [], idx, pos, acc => (idx, pos, acc)
  | seg :: rest, idx, pos, acc =>
    let next := pos + seg.size
    if next ≤ offset ∨ seg.size = 0 then fsLoop offset ol rest (idx + 1) next acc
    else if pos ≥ ol then (idx, pos, acc)
    else
      let blkOff : Int := if pos < offset then offset - pos else 0
      let blkLen0 : Int := seg.size - blkOff
      let blkLen : Int := if pos + (blkOff + blkLen0) > ol then ol - pos - blkOff else blkLen0
      let acc' := if blkLen > 0 then acc ++ [⟨seg.text, blkOff.toNat, blkLen.toNat⟩] else acc
      if next > ol then (idx, pos, acc') else fsLoop offset ol rest (idx + 1) next acc'

/-- int64 addition -/
def addI64 (a b : Int) : Int := toI64 ((a + b + two64).toNat)

/-- per-line parser state of `loadManifest` -/
structure FsLine where
  dirname : Bytes
  segments : List Loc
  anyFile : Bool
  segIdx : Nat
  pos : Int
deriving Repr

/-- a locator token as `loadManifest` reads it: `SplitN(token, "+", 3)`, `ParseInt(toks[1], 10, 32)` -/
def fsLocator (t : Bytes) : Option Loc :=
  match splitN3 bPlus t with
  | _ :: sz :: _ =>
    match parseIntBits 32 sz with
    | some n => if n < 0 then none else some ⟨t, n.toNat⟩
    | none => none
  | _ => none

/-- one token (not the first) of a stream line -/
def fsToken (tok : Bytes) (st : FsLine) (t : FsTree) : Option (FsLine × FsTree) :=
  if ¬ tok.contains bColon then
    if st.anyFile then none else
    match fsLocator tok with
    | some l => some ({ st with segments := st.segments ++ [l] }, t)
    | none => none
  else if st.segments = [] then none
  else match splitN3 bColon tok with
    | [o, l, nm] =>
      match parseIntBits 64 o, parseIntBits 64 l with
      | some offset, some length =>
        if offset < 0 ∨ length < 0 ∨ addI64 offset length < offset then none else
        let st := { st with anyFile := true }
        match createFileAndParents (st.dirname ++ bSlash :: fsUnescape nm) t with
        | (.marker, t') => if length = 0 then some (st, t') else none
        | (.error, _) => none
        | (.file p, t') =>
          let (idx0, pos0) := if st.pos > offset then ((0 : Nat), (0 : Int)) else (st.segIdx, st.pos)
          let ol := addI64 offset length
          let (idx, pos, segs) := fsLoop offset ol (st.segments.drop idx0) idx0 pos0 []
          if idx = st.segments.length ∧ pos < ol then none
          else some ({ st with segIdx := idx, pos := pos }, appendSegs t' p segs)
      | _, _ => none
    | _ => none

def fsTokens : List Bytes → FsLine → FsTree → Option (FsLine × FsTree)
  | [], st, t => some (st, t)
  | tok :: rest, st, t =>
    match fsToken tok st t with
    | some (st', t') => fsTokens rest st' t'
    | none => none

def fsLine (line : Bytes) (t : FsTree) : Option FsTree :=
  match splitOn bSpace line with
  | [] => none
  | nm :: toks =>
    match fsTokens toks ⟨fsUnescape nm, [], false, 0, 0⟩ t with
    | some (st, t') => if ¬ st.anyFile ∨ st.segments = [] ∨ st.dirname = [] then none else some t'
    | none => none

def fsLines : List Bytes → FsTree → Option FsTree
  | [], t => some t
  | l :: rest, t =>
    match fsLine l t with
    | some t' => fsLines rest t'
    | none => none

/-- `dirnode.loadManifest(txt)` on an empty root: `none` = error (the filesystem is not created) -/
def fsLoad (txt : Bytes) : Option FsTree :=
  let lines := splitOn bNL txt
  if lines.getLast? ≠ some [] then none else fsLines lines.dropLast ⟨[], []⟩

/-- segments of a path given as bytes "./a/b" -/
def fsSegsOf (t : FsTree) (path : Bytes) : Option (List Seg) :=
  (t.files.find? fun e => joinWith bSlash ([bDot] :: e.1) = path).map (·.2)

/-! ## PortableDataHash / SizedDigests -/

/-- length of the match of `blkRe` = `^ [0-9a-f]{32}\+\d+` after the leading space -/
def blkPrefixLen (rest : Bytes) : Option Nat :=
  let h := rest.take 32
  if h.length = 32 ∧ h.all isLowerHex ∧ (rest.drop 32).head? = some bPlus then
    let ds := (rest.drop 33).takeWhile isDigit
    if ds ≠ [] then some (33 + ds.length) else none
  else none

inductive PMode where
  | copy
  | take (k : Nat)
  | drop

/-- the bytes `PortableDataHash` feeds to MD5: tokens `" ?[^ ]*"` in order, a token that matches
`blkRe` cut down to the match -/
def pdhScan : PMode → Bytes → Bytes
  | _, [] => []
  | .take (k + 1), c :: rest => c :: pdhScan (if k = 0 then .drop else .take k) rest
  | m, c :: rest =>
    if c == bSpace then
      match blkPrefixLen rest with
      | some n => c :: pdhScan (.take n) rest
      | none => c :: pdhScan .copy rest
    else match m with
      | .drop => pdhScan .drop rest
      | _ => c :: pdhScan .copy rest

def pdhInput (txt : Bytes) : Bytes := pdhScan .copy txt

/-- `PortableDataHash(mt)` for an arbitrary `md5hex` -/
def portableDataHash (md5hex : Bytes → Bytes) (txt : Bytes) : Bytes :=
  md5hex (pdhInput txt) ++ bPlus :: natToDec (pdhInput txt).length

/-- `bufio.ScanLines` -/
def scanLines (txt : Bytes) : List Bytes :=
  let ls := splitOn bNL txt
  let ls := if ls.getLast? = some [] then ls.dropLast else ls
  ls.map fun l => if l.getLast? = some 13 then l.dropLast else l

def sizedDigestsLine : List Bytes → List Bytes
  | [] => []
  | t :: rest =>
    match goLocatorDigits t with
    | some ds => (t.take 33 ++ ds) :: sizedDigestsLine rest
    | none => []

/-- `Collection.SizedDigests()` (ManifestText given, PortableDataHash of the empty collection);
`none` = error -/
def sizedDigests (txt : Bytes) : Option (List Bytes) :=
  (scanLines txt).foldl (fun acc line =>
    match acc with
    | none => none
    | some sds =>
      match splitOn bSpace line with
      | _ :: a :: b :: rest => some (sds ++ sizedDigestsLine (a :: b :: rest))
      | _ => none) (some [])

end ArvVerif.C10
