/-
C13 — concurrent use of a collection filesystem: ATOMIC-STEP MODEL
(sdk/go/arvados/fs_collection.go pruneMemSegments / commitBlock / memSegment, fs_base.go).

Builds on the C08 model (imported read-only). C08 runs every background flush to completion right
after the operation that started it (`settle`); here a background flush is split into

  * the HAND-OFF, part of the foreground step that starts it (under the file lock): the segment gets
    a `flushing` token, the buffer is handed to `PutB`;
  * the COMPLETION (`complete`), a separate atomic step (the goroutine tail, under the file lock)
    that may arrive at any later time, in any order, with success or failure.

State = C08's concrete filesystem + a token table + the list of background goroutines ("groups",
one per PutB). The `flushing` channel of a `memSegment` is represented inside C08's `Flush` field:

  Flush.none                 nil
  Flush.pending t (max+1)    the channel handed out with token `t` (`mark max t`); whether it is still
                             open is recorded in the group table (`tokOpen`)
  Flush.stale                a closed channel that belongs to no group (aborted commitBlock)
  Flush.pending i l, l ≤ max what C08's `pruneSegs` leaves behind inside a `Write` (captured index
                             `i`, captured length `l`); turned into a token by `tokenizeFrom` before
                             the foreground step ends, so it never occurs in a reachable state.

A token stands for the pair (done channel, segment object) of the Go code: pruneMemSegments has one
segment per channel; commitBlock shares one channel among the segments of a block but re-checks the
segment's identity as well, so each (channel, segment) pair gets its own token here and the two Go
guards `fn.segments[idx] == seg` and `seg.flushing == done` together are the single guard
"the segment at the captured index carries this token".
-/
import ArvVerif.Model.C08_FS
namespace ArvVerif.C13
open ArvVerif.C08

/-- the concrete filesystem of C08 -/
abbrev Conc := FS FileNode Ptr Store
/-- the plain filesystem of C08 -/
abbrev Plain := FS Bytes Nat Unit

/-- One buffer hand-off for one segment: the bytes given to `PutB` (`block`), where this segment's
bytes start in it, and — for pruneMemSegments — the captured `len(buf)` that must still match. -/
structure Tok where
  block : Bytes
  off : Nat
  plen : Option Nat
  deriving Repr, Inhabited

/-- One background goroutine (= one PutB call): the segments it will try to replace,
(file id, captured index, token), and whether it has finished (channel closed). -/
structure Group where
  refs : List (Nat × Nat × Nat)
  isOpen : Bool
  deriving Repr, Inhabited

structure St where
  fs : Conc
  toks : List Tok
  groups : List Group

def St.init : St := ⟨FS.init (fun _ => none), [], []⟩

/-- the `flushing` value that carries token `t` -/
def mark (max t : Nat) : Flush := Flush.pending t (max + 1)

/-- the goroutine owning token `t` has not finished (`flushing` channel not closed) -/
def tokOpen (groups : List Group) (t : Nat) : Bool :=
  groups.any (fun g => g.isOpen && g.refs.any (fun r => r.2.2 == t))

/-- `memSegment.flushingUnfinished` (without its side effect) -/
def isOpenMark (max : Nat) (groups : List Group) : Flush → Bool
  | Flush.pending t l => l == max + 1 && tokOpen groups t
  | _ => false

def segAt (fs : Conc) (f i : Nat) : Option Seg :=
  match fs.files[f]? with
  | some nf => nf.2.segs[i]?
  | none => none

/-- replace segment `i` of file `f` -/
def setSegAt (fs : Conc) (f i : Nat) (sg : Seg) : Conc :=
  match fs.files[f]? with
  | some nf => setFile fs f { nf.2 with segs := nf.2.segs.set i sg }
  | none => fs

/-! ### Write: C08's `filenode.Write` without `settle`; the flushes it started become groups -/

/-- Scan the segments of file `f` after a `Write` (`pos` = position of the head of the list): every
fresh pruneMemSegments mark becomes a token + a group (in segment order = the order in which the
driver numbers them). Returns the new segments, tokens, groups, and for each new group the position
of its segment (for the result line). -/
def tokenizeFrom (max f : Nat) : List Seg → Nat → Nat → List Seg × List Tok × List Group × List Nat
  | [], _, _ => ([], [], [], [])
  | sg :: rest, pos, n =>
    match sg with
    | Seg.mem buf (Flush.pending i l) =>
      if l = max + 1 then
        let r := tokenizeFrom max f rest (pos + 1) n
        (sg :: r.1, r.2.1, r.2.2.1, r.2.2.2)
      else if l = buf.length then
        let r := tokenizeFrom max f rest (pos + 1) (n + 1)
        (Seg.mem buf (mark max n) :: r.1, ⟨buf, 0, some l⟩ :: r.2.1, ⟨[(f, i, n)], true⟩ :: r.2.2.1, pos :: r.2.2.2)
      else
        -- cannot happen (a marked segment is not resized within the same Write)
        let r := tokenizeFrom max f rest (pos + 1) n
        (Seg.mem buf Flush.stale :: r.1, r.2.1, r.2.2.1, r.2.2.2)
    | _ =>
      let r := tokenizeFrom max f rest (pos + 1) n
      (sg :: r.1, r.2.1, r.2.2.1, r.2.2.2)

/-- `filehandle.Write` as one atomic step (the file lock is held throughout). Same case analysis as
the `Op.write` branch of C08's `step`. Third component: positions of the segments whose flush was
started. -/
def doWrite (hash : Bytes → Loc) (max : Nat) (s : St) (h : Nat) (data : Bytes) : St × Res × List (Nat × Nat) :=
  match getHandle s.fs h with
  | none => (s, Res.badOp, [])
  | some hd =>
    if !hd.wr then (s, Res.wrote 0 Err.rofile, []) else
    match hd.node with
    | Node.dir _ => ({ s with fs := setHandle s.fs h { hd with ptr := Ptr.zero } }, Res.wrote 0 Err.invalop, [])
    | Node.file f =>
      match s.fs.files[f]? with
      | none => (s, Res.wrote 0 Err.panic, [])
      | some nf =>
        let p := if hd.app then appendPtr nf.2 else hd.ptr
        match write hash max s.fs.world nf.2 p data with
        | WriteRes.done w n =>
          let r := tokenizeFrom max f w.fn.segs 0 s.toks.length
          let fs1 := setHandle (setFile { s.fs with world := w.st } f { w.fn with segs := r.1 }) h { hd with ptr := w.ptr }
          ({ fs := fs1, toks := s.toks ++ r.2.1, groups := s.groups ++ r.2.2.1 }, Res.wrote n Err.ok,
           r.2.2.2.map (fun pos => (f, pos)))
        | WriteRes.panic => (s, Res.wrote 0 Err.panic, [])
        | WriteRes.hang => (s, Res.wrote 0 Err.hang, [])

/-! ### `collectionFileSystem.Flush(path, shortBlocks)`: commitBlock in async mode -/

/-- the mem segments a commitBlock call was given: (file, index, buffer) -/
def members (fs : Conc) (refs : List (Nat × Nat)) : List (Nat × Nat × Bytes) :=
  refs.filterMap (fun r => match segAt fs r.1 r.2 with
    | some (Seg.mem b _) => some (r.1, r.2, b)
    | _ => none)

/-- position (in the member list) of the first segment whose flush is still unfinished -/
def abortIdx (max : Nat) (s : St) : List (Nat × Nat × Bytes) → Nat → Option Nat
  | [], _ => none
  | m :: rest, k =>
    match segAt s.fs m.1 m.2.1 with
    | some (Seg.mem _ fl) => if isOpenMark max s.groups fl then some k else abortIdx max s rest (k + 1)
    | _ => abortIdx max s rest (k + 1)

/-- set the `flushing` field of a mem segment that still holds buffer `b` -/
def setMark (fs : Conc) (f i : Nat) (b : Bytes) (fl : Flush) : Conc :=
  match segAt fs f i with
  | some (Seg.mem b' _) => if b' = b then setSegAt fs f i (Seg.mem b fl) else fs
  | _ => fs

/-- `seg.flushing = done` for every segment of the block: token `n + k` for the k-th member, whose
bytes start at `off` in the block. -/
def assign (max : Nat) (block : Bytes) : Conc → List (Nat × Nat × Bytes) → Nat → Nat →
    Conc × List Tok × List (Nat × Nat × Nat)
  | fs, [], _, _ => (fs, [], [])
  | fs, m :: rest, n, off =>
    let r := assign max block (setMark fs m.1 m.2.1 m.2.2 (mark max n)) rest (n + 1) (off + m.2.2.length)
    (r.1, ⟨block, off, none⟩ :: r.2.1, (m.1, m.2.1, n) :: r.2.2)

def staleMarks : Conc → List (Nat × Nat × Bytes) → Conc
  | fs, [] => fs
  | fs, m :: rest => staleMarks (setMark fs m.1 m.2.1 m.2.2 Flush.stale) rest

/-- One async `commitBlock(refs)`. If a segment's earlier flush is unfinished the call gives up:
the segments before it have already been given the (now closed) channel. Otherwise every segment
gets its token, the concatenated block goes to PutB (modelled as present in Keep from now on; nothing
refers to it until a successful completion), and a group is born. -/
def startGroup (hash : Bytes → Loc) (max : Nat) (s : St) (refs : List (Nat × Nat)) : St × Option Group :=
  let ms := members s.fs refs
  if ms.isEmpty then (s, none) else
  match abortIdx max s ms 0 with
  | some k => ({ s with fs := staleMarks s.fs (ms.take k) }, none)
  | none =>
    let block : Bytes := ms.flatMap (fun m => m.2.2)
    let r := assign max block s.fs ms s.toks.length 0
    let g : Group := ⟨r.2.2, true⟩
    ({ fs := { r.1 with world := r.1.world.put hash block }, toks := s.toks ++ r.2.1, groups := s.groups }, some g)

/-- `dirnode.flush` (async) on the files of directory `d`: the groups are C08's `flushGroups`. -/
def flushDirAsync (hash : Bytes → Loc) (max : Nat) (short : Bool) (acc : St × List Group) (d : Nat) : St × List Group :=
  let s := acc.1
  let pairs := (sortedFiles s.fs d).filterMap (fun e => (s.fs.files[e.2]?).map (fun nf => (e.2, nf.2)))
  let groups := flushGroups max short (pairs.map (·.2))
  groups.foldl (fun (a : St × List Group) g =>
    let refs := g.filterMap (fun r => (pairs[r.1]?).map (fun p => (p.1, r.2)))
    let r := startGroup hash max a.1 refs
    match r.2 with
    | some grp => (r.1, a.2 ++ [grp])
    | none => (r.1, a.2)) acc

/-- current position of the segment of file `f` that carries token `t` -/
def tokPos (max : Nat) (fs : Conc) (f t : Nat) : Option Nat :=
  match fs.files[f]? with
  | some nf => nf.2.segs.findIdx? (fun sg => match sg with
      | Seg.mem _ (Flush.pending t' l) => t' == t && l == max + 1
      | _ => false)
  | none => none

/-- smallest (file, position) of a group's segments: the driver numbers new groups in this order -/
def groupKey (max : Nat) (fs : Conc) (g : Group) : Nat × Nat :=
  g.refs.foldl (fun (best : Nat × Nat) r =>
    match tokPos max fs r.1 r.2.2 with
    | some p => if r.1 < best.1 ∨ (r.1 = best.1 ∧ p < best.2) then (r.1, p) else best
    | none => best) (1000000000, 0)

def insertGroup (max : Nat) (fs : Conc) (g : Group) : List Group → List Group
  | [] => [g]
  | h :: t =>
    let kg := groupKey max fs g
    let kh := groupKey max fs h
    if kg.1 < kh.1 ∨ (kg.1 = kh.1 ∧ kg.2 < kh.2) then g :: h :: t else h :: insertGroup max fs g t

/-- the result of `Flush`'s path lookup (no state change, identical in the plain model) -/
def flushRes {F P W : Type} (s : FS F P W) (path : String) : Res :=
  match walk s.ents s.dirs (Node.dir 0) (splitPath path) with
  | Except.error e => Res.err e
  | Except.ok (Node.file _) => Res.err Err.notdir
  | Except.ok (Node.dir _) => Res.err Err.ok

def flushDirs (s : Conc) (path : String) : List Nat :=
  match walk s.ents s.dirs (Node.dir 0) (splitPath path) with
  | Except.ok (Node.dir d) => if path == "" then subdirs s.ents s.dirs.length d else [d]
  | _ => []

/-- `collectionFileSystem.Flush` as one atomic step; returns the new groups (already appended). -/
def doFlushAsync (hash : Bytes → Loc) (max : Nat) (s : St) (path : String) (short : Bool) : St × Res × List Group :=
  let r := (flushDirs s.fs path).foldl (flushDirAsync hash max short) (s, [])
  let sorted := r.2.foldr (insertGroup max r.1.fs) []
  ({ r.1 with groups := r.1.groups ++ sorted }, flushRes s.fs path, sorted)

/-! ### Completion: the goroutine tail after PutB returned -/

/-- One segment reference of a finished PutB. `ok = false`: PutB failed, nothing is touched.
Otherwise the segment at the captured index is replaced iff it is a mem segment that still carries
the token (and, for pruneMemSegments, still has the captured length); the stored segment points at
the block handed off, at this segment's offset, with the segment's CURRENT length. -/
def completeRef (hash : Bytes → Loc) (max : Nat) (toks : List Tok) (ok : Bool) (fs : Conc) (r : Nat × Nat × Nat) : Conc :=
  if !ok then fs else
  match toks[r.2.2]?, segAt fs r.1 r.2.1 with
  | some tk, some (Seg.mem buf (Flush.pending t l)) =>
    if t = r.2.2 ∧ l = max + 1 ∧ (tk.plen = none ∨ tk.plen = some buf.length) then
      setSegAt fs r.1 r.2.1 (Seg.stored (hash tk.block) tk.block.length tk.off buf.length)
    else fs
  | _, _ => fs

def completeRefs (hash : Bytes → Loc) (max : Nat) (toks : List Tok) (ok : Bool) (fs : Conc) (refs : List (Nat × Nat × Nat)) : Conc :=
  refs.foldl (completeRef hash max toks ok) fs

/-- completion of group `g`; `false` if there is no such unfinished group (then nothing happens) -/
def complete (hash : Bytes → Loc) (max : Nat) (s : St) (g : Nat) (ok : Bool) : St × Bool :=
  match s.groups[g]? with
  | some grp =>
    if grp.isOpen then
      ({ s with fs := completeRefs hash max s.toks ok s.fs grp.refs,
                groups := s.groups.set g { grp with isOpen := false } }, true)
    else (s, false)
  | none => (s, false)

/-! ### Save: MarshalManifest / Sync -/

/-- every unfinished group completes, in ascending order, outcome of group g = bit (g mod 30) of
`mask` (the driver releases them like this before it calls MarshalManifest, whose waitPrune would
otherwise block) -/
def completeAll (hash : Bytes → Loc) (max : Nat) (mask : Nat) : Nat → St → Nat → St
  | 0, s, _ => s
  | fuel + 1, s, g =>
    if g ≥ s.groups.length then s
    else completeAll hash max mask fuel (complete hash max s g (mask.testBit (g % 30))).1 (g + 1)

/-- all files below directory `d`: (path, content) -/
def snapFrom {F P W : Type} (content : F → Bytes) (s : FS F P W) : Nat → Nat → String → List (String × Bytes)
  | 0, _, _ => []
  | fuel + 1, d, path =>
    (entriesOf s.ents d).flatMap (fun e =>
      match e.2 with
      | Node.file f =>
        (match s.files[f]? with
         | some nf => [(path ++ "/" ++ e.1, content nf.2)]
         | none => [])
      | Node.dir c => snapFrom content s fuel c (path ++ "/" ++ e.1))

def snapshot {F P W : Type} (content : F → Bytes) (s : FS F P W) : List (String × Bytes) :=
  snapFrom content s (s.dirs.length + 1) 0 "."

/-- some file reachable from the root has a mem segment (then MarshalManifest calls PutB) -/
def anyMem (fs : Conc) : Bool :=
  (subdirs fs.ents fs.dirs.length 0).any (fun d =>
    (sortedFiles fs d).any (fun e => match fs.files[e.2]? with
      | some nf => nf.2.segs.any Seg.isMem
      | none => false))

/-! ### Events -/

inductive Ev
  | fg (w : Nat) (op : Op)
  | flush (w : Nat) (path : String) (short : Bool)
  | complete (g : Nat) (ok : Bool)
  | save (w : Nat) (mask : Nat) (fail : Bool)
  deriving Repr

inductive Out
  | res (r : Res)
  | done (ran : Bool)
  | snap (files : List (String × Bytes))
  | failed
  deriving Repr

/-- operations that go through C08's `step` unchanged (`write` has its own step here, `flush`/`sync`
are the events `flush`/`save`) -/
def Op.plain : Op → Bool
  | Op.write _ _ => false
  | Op.flush _ _ => false
  | Op.sync => false
  | Op.hsync _ => false
  | _ => true

/-- One atomic step of the concurrent system. -/
def evStep (hash : Bytes → Loc) (max : Nat) (s : St) : Ev → St × Out
  | Ev.fg _ (Op.write h data) => let r := doWrite hash max s h data; (r.1, Out.res r.2.1)
  | Ev.fg _ op =>
    if Op.plain op then
      let r := step (concImpl hash max) s.fs op
      ({ s with fs := r.1 }, Out.res r.2)
    else (s, Out.res Res.badOp)
  | Ev.flush _ path short => let r := doFlushAsync hash max s path short; (r.1, Out.res r.2.1)
  | Ev.complete g ok => let r := complete hash max s g ok; (r.1, Out.done r.2)
  | Ev.save _ mask fail =>
    let s1 := completeAll hash max mask s.groups.length s 0
    if fail && anyMem s1.fs then (s1, Out.failed)
    else
      let fs2 := (doSync (concImpl hash max) s1.fs).1
      ({ s1 with fs := fs2 }, Out.snap (snapshot (abs fs2.world) fs2))

/-- The sequential specification: the plain filesystem; background work is invisible. -/
def specStep (s : Plain) : Ev → Plain × Out
  | Ev.fg _ op => if Op.plain op || (match op with | Op.write _ _ => true | _ => false) then
      let r := step specImpl s op; (r.1, Out.res r.2) else (s, Out.res Res.badOp)
  | Ev.flush _ path _ => (s, Out.res (flushRes s path))
  | Ev.complete _ _ => (s, Out.done true)
  | Ev.save _ _ _ => (s, Out.snap (snapshot id s))

def run13 (hash : Bytes → Loc) (max : Nat) : St → List Ev → St × List Out
  | s, [] => (s, [])
  | s, e :: es =>
    let r := evStep hash max s e
    let r2 := run13 hash max r.1 es
    (r2.1, r.2 :: r2.2)

def runSpec : Plain → List Ev → Plain × List Out
  | s, [] => (s, [])
  | s, e :: es =>
    let r := specStep s e
    let r2 := runSpec r.1 es
    (r2.1, r.2 :: r2.2)

end ArvVerif.C13
