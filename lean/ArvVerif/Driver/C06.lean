/-
Model driver for C06. Line protocol (fields separated by one space; "-" = empty):

  page <pageSize> <cap> <pop> <sched> <fail> <cbfail>
      pop    u:t,u:t,…            initial table (uuid and modified_at as naturals; t = 0 is "null")
      sched  k:op,op;k:op;…       ops applied just before request k is served
             op = m<u>:<t> (modify) | a<u>:<t> (add) | d<u> (delete)
      cap    server-side cap on the page length (0 = none);  fail = request number(s) answered with an
             error (`k[kind]` or a fault sequence `k[kind]+k[kind]+…`);  cbfail = callback invocation (0-based) that returns an error
      → the request/callback trace joined by '|', then '=' and the outcome
  pagecut <pageSize> <pop> <k>   request k of a scan over a static table answered with its body cut to n
      bytes, for every n < len → ok=<cuts after which the scan returned nil> (the model: none, "ok=-")
  idx  <status> <hexbody>     KeepService.index      → ok <digesthex:mtime,…> | err <class>
  gidx <status> <hexbody>     KeepClient.GetIndex    → ok <hex> | err <class>
  idxcut <hexbody> / gidxcut <hexbody>               → result class for every prefix length 0..len
  idxabort <hexbody> / gidxabort <hexbody>           → "e" for every prefix length (connection dropped
                                                        after the cut: a read error, always an error)
  prod <hexwritten:ok;…>      handleIndex (GET /index; prodm: GET /mounts/{uuid}/blocks, one volume)
                                                     → hex of the response body
  run <lost><clear><safe><pulls><trash> <nsvc> <ncoll> <pagesize> <kind>  (five 0/1 flags; the scenario
      fields only matter to the implementation side) → for "none" and every step of Run that can
      fail: name=err/commit calls made after the failing call ("x" if the step is not reached)
  gcs <nsvc> <ncoll> <pagesize> <bufs> <idxfail> <badcoll> <pagefail> <other> <hold> <pause>
      one run of the real GetCurrentState under a controlled interleaving; the model side of the
      comparison is `gcsacc` below, applied by the plugin to the implementation's output → "gcs"
  gcsacc <cap> <wpath;…> <ppath> <spath> <res>   → accept | reject | budget
  selftest                    → ok iff stepsOf runSkeleton = runSteps and wellGuarded runSteps
-/
import ArvVerif.Base.Bytes
import ArvVerif.Base.Loop
import ArvVerif.Model.C06
import ArvVerif.Model.C06_Index
import ArvVerif.Model.C06_Run
import ArvVerif.Model.C06_GCS
open ArvVerif ArvVerif.C06

def splitL (sep : String) (s : String) : List String := if s == "-" then [] else s.splitOn sep

def nat? (s : String) : Option Nat := if s.isEmpty then none else s.toNat?

def parsePop (s : String) : Option (List Coll) :=
  (splitL "," s).mapM (fun x => match x.splitOn ":" with
    | [u, t] => do pure ⟨← nat? u, ← nat? t⟩
    | _ => none)

def parseOp (x : String) : Option Op :=
  match x.toList with
  | 'm' :: r => match (String.ofList r).splitOn ":" with
    | [u, t] => do pure (.modify (← nat? u) (← nat? t))
    | _ => none
  | 'a' :: r => match (String.ofList r).splitOn ":" with
    | [u, t] => do pure (.add (← nat? u) (← nat? t))
    | _ => none
  | 'd' :: r => do pure (.del (← nat? (String.ofList r)))
  | _ => none

/-- sparse `k:ops;…` (k strictly increasing) → dense list indexed by request number -/
def parseSched (s : String) : Option (List (List Op)) := do
  let items ← (splitL ";" s).mapM (fun x => match x.splitOn ":" with
    | k :: rest => do
      let ops ← (":".intercalate rest |>.splitOn ",").mapM parseOp
      pure (← nat? k, ops)
    | _ => none)
  let rec build : List (Nat × List Op) → Nat → List (List Op) → Option (List (List Op))
    | [], _, acc => some acc.reverse
    | (k, ops) :: rest, i, acc =>
      if k < i then none
      else build rest (k + 1) (ops :: (List.replicate (k - i) [] ++ acc))
  build items 0 []

def optNat (s : String) : Option (Option Nat) := if s == "-" then some none else (nat? s).map some

/-- `<k>` (500), `<k>n` (transport error), `<k>j` (truncated JSON), `<k>e|b|h|l` (status 200, body cut at
byte 0 / 1 / half / last), `<k>c<n>` (cut to n bytes): the kind is irrelevant to the model -/
def oneFail (s : String) : Option Nat :=
  let cs := s.toList
  let ds := cs.takeWhile Char.isDigit
  let rest := cs.dropWhile Char.isDigit
  let cutN := match rest with
    | 'c' :: r => !r.isEmpty && r.all Char.isDigit
    | _ => false
  if rest == [] || (rest.length == 1 && "njebhl".toList.contains (rest.headD ' ')) || cutN then
    nat? (String.ofList ds)
  else none

/-- `-`, one failure, or a fault sequence `<k>[kind]+<k>[kind]+…` (distinct request numbers) -/
def optFail (s : String) : Option (List Nat) :=
  if s == "-" then some [] else do
    let ks ← (s.splitOn "+").mapM oneFail
    if ks.eraseDups.length == ks.length then pure ks else none

def showFilt : Filt → String
  | .all => "-"
  | .ge t u => s!"modified_at>={t},uuid!={u}"
  | .eq t u => s!"modified_at={t},uuid>{u}"
  | .gt t => s!"modified_at>{t}"

def showEv (limit : Nat) : Ev → String
  | .reqCount0 => "q:exact:0::-:to"
  | .reqPage f => s!"q:none:{limit}:modified_at,uuid:{showFilt f}:to"
  | .reqCheck t => s!"q:exact:0::modified_at<={t}:to"
  | .cb u => s!"c:{u}"

def showOutcome : Outcome → String
  | .ok => "ok"
  | .errRequest => "err-request"
  | .errCallback => "err-callback"
  | .errBug => "err-bug"
  | .errCount => "err-count"
  | .outOfFuel => "out-of-fuel"

def uuidsDistinct (db : List Coll) : Bool := (db.map (·.uuid)).eraseDups.length == db.length

def doPage (ps cap pop sched fail cbfail : String) : String :=
  match ps.toInt?, nat? cap, parsePop pop, parseSched sched, optFail fail, optNat cbfail with
  | some pageSize, some cap, some db0, some sch, some fl, some cbf =>
    if !uuidsDistinct db0 then "bad-op" else
    let limit := effLimit pageSize
    let eff := if cap = 0 then limit else min limit cap
    let env := envOf db0 sch
    let failF := fun k => fl.contains k
    -- the table stops changing after the schedule, so this fuel always suffices
    -- (C06_paging_progress); more tables than that cannot be seen by the loop
    let fuel := sch.length + 3 * (maxRows db0 sch + sch.length) + 8
    let r := scan eff env failF cbf fuel
    "|".intercalate (r.st.log.reverse.map (showEv limit)) ++ "=" ++ showOutcome r.out
  | _, _, _, _, _, _ => "bad-op"

def bytesOf (hex : String) : Option (List Nat) :=
  if hex == "-" then some [] else (bytesOfHex? hex).map (fun b => b.toList.map (·.toNat))

def hexOfNats (bs : List Nat) : String :=
  if bs.isEmpty then "-" else hexOfBytes (bs.map (fun n => UInt8.ofNat n))

def showErr : IdxErr → String
  | .http => "http"
  | .nonTerminalBlank => "nonterminal-blank"
  | .fields => "fields"
  | .mtime => "mtime"
  | .scan => "scan"
  | .noEOF => "no-eof"
  | .incomplete => "incomplete"

def showEntries (es : List Entry) : String :=
  if es.isEmpty then "-" else ",".intercalate (es.map (fun e => s!"{hexOfNats e.digest}:{e.mtime}"))

def showIdx : Except IdxErr (List Entry) → String
  | .ok es => "ok " ++ showEntries es
  | .error e => "err " ++ showErr e

def showGidx : Except IdxErr (List Nat) → String
  | .ok b => "ok " ++ hexOfNats b
  | .error e => "err " ++ showErr e

def cuts (body : List Nat) : List (List Nat) := (List.range (body.length + 1)).map (fun i => body.take i)

def parseVols (s : String) : Option (List VolOut) :=
  (splitL ";" s).mapM (fun x => match x.splitOn ":" with
    | [h, "1"] => do pure ⟨← bytesOf h, true⟩
    | [h, "0"] => do pure ⟨← bytesOf h, false⟩
    | _ => none)

def flag? (c : Char) : Option Bool := if c == '1' then some true else if c == '0' then some false else none

/-- names of the steps whose failure the `run` table reports -/
def reportSteps : List Str := (runSteps.filter (·.canFail)).map (·.name) |>.eraseDups

def runRow (o : RunOpts) (failing : Option Str) : Option String := do
  let runsL ← runSteps.mapM (stepRuns o)
  let runs := fun i => runsL.getD i false
  let idx := runSteps.zipIdx
  let fails := fun i => match failing with
    | some n => idx.any (fun (st, j) => j == i && st.name == n)
    | none => false
  let reached := match failing with
    | some n => idx.any (fun (st, j) => st.name == n && runs j)
    | none => true
  if !reached then pure "x" else
  let r := exec runs fails runSteps 0 false
  -- commit calls made after the first failing call
  let rec after : List (Str × Bool) → Bool → List Str
    | [], _ => []
    | (n, f) :: rest, seenFail =>
      (if seenFail && isCommit n then [n] else []) ++ after rest (seenFail || f)
  let cs := match failing with
    | some _ => after r.calls false
    | none => (r.calls.filter (fun (c : Str × Bool) => isCommit c.1)).map (fun (c : Str × Bool) => c.1)
  pure s!"{if r.err then 1 else 0}/{if cs.isEmpty then "-" else "+".intercalate (cs.map String.ofList)}"

def doRun (flags : String) : String :=
  match flags.toList.mapM flag? with
  | some [l, c, s, p, t] =>
    let o : RunOpts := ⟨l, c, s, p, t⟩
    let rows := (none :: reportSteps.map some).mapM (fun f => do
      let r ← runRow o f
      pure s!"{match f with | some n => String.ofList n | none => "none"}={r}")
    match rows with
    | some rs => ",".intercalate rs
    | none => "bad-op"
  | _ => "bad-op"

def parsePath (s : String) : Option (List Nat) := (splitL "." s).mapM nat?

/-- `gcsacc <cap> <wpath;wpath;…> <ppath> <spath> <res>`: is the observed execution of GetCurrentState
(per-goroutine label paths, result) an execution of the small-step model? -/
def doGcsAcc (cap ws p s res : String) : String :=
  match nat? cap, (splitL ";" ws).mapM parsePath, parsePath p, parsePath s, nat? res with
  | some cap, some ws, some p, some s, some res =>
    match GCS.accepts cap ws p s (res != 0) 200000 with
    | some true => "accept"
    | some false => "reject"
    | none => "budget"
  | _, _, _, _, _ => "bad-op"

def step (line : String) : String :=
  match fields line with
  | ["page", ps, cap, pop, sched, fail, cbfail] => doPage ps cap pop sched fail cbfail
  | ["pagecut", ps, pop, k] =>
    -- every proper prefix of a page response is a failed request: the scan never returns nil
    match ps.toInt?, parsePop pop, nat? k with
    | some _, some db, some _ => if uuidsDistinct db then "ok=-" else "bad-op"
    | _, _, _ => "bad-op"
  | ["idx", st, hex] =>
    match nat? st, bytesOf hex with
    | some st, some b => if st != 200 then "err http" else showIdx (ksIndex b)
    | _, _ => "bad-op"
  | ["gidx", st, hex] =>
    match nat? st, bytesOf hex with
    | some st, some b => if st != 200 then "err http" else showGidx (getIndex b)
    | _, _ => "bad-op"
  | ["idxcut", hex] =>
    match bytesOf hex with
    | some b => ",".intercalate ((cuts b).map (fun p => match ksIndex p with
        | .ok es => s!"o{es.length}"
        | .error e => "e:" ++ showErr e))
    | none => "bad-op"
  | ["gidxcut", hex] =>
    match bytesOf hex with
    | some b => ",".intercalate ((cuts b).map (fun p => match getIndex p with
        | .ok r => s!"o{r.length}"
        | .error e => "e:" ++ showErr e))
    | none => "bad-op"
  | ["idxabort", hex] | ["gidxabort", hex] =>
    -- the connection is dropped after the cut: both readers see a read error, whatever arrived
    match bytesOf hex with
    | some b => ",".intercalate ((cuts b).map (fun _ => "e"))
    | none => "bad-op"
  | ["prod", vols] =>
    match parseVols vols with
    | some vs => hexOfNats (handleIndex vs)
    | none => "bad-op"
  | ["prodm", vols] =>
    match parseVols vols with
    | some [v] => hexOfNats (handleIndex [v])
    | _ => "bad-op"
  | ["run", flags, _nsvc, _ncoll, _ps, _kind] => doRun flags
  | ["gcsacc", cap, ws, p, s, res] => doGcsAcc cap ws p s res
  | "gcs" :: _ => "gcs"
  | ["selftest"] => if stepsOf runSkeleton == runSteps && wellGuarded runSteps then "ok" else "mismatch"
  | _ => "bad-op"

def main : IO Unit := lineLoop step
