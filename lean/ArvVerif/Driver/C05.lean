/-
Model driver for C05. Line protocol (grammar in harness/overlay/services/keep-balance/zz_verif_c05_test.go):
  bb <hash32> <minMtime> <services> <replicas> <desired>
  cs <minMtime> <order> <services> <blocks>
  gs <flags> <M> <defrepl> <pagesize> <secs> <services> <blocks> <colls>   (zz_verif_c05_run_test.go)
Output:
  classes=<bal.classes> mounts=<si.mi:ro:repl | si.mi:x>,... # <outcome> # <outcome> ...
one outcome per distinct result over all choices the unstable sort may make among slots that
compare equal (`lost=.. T=.. P=.. bs=.. cs=..`, same text as the Go driver prints).
The driver computes what the model takes as parameters: rendezvous ranks of the services (C12's
weight, real MD5), rendezvousLess on device ids (real MD5), class codes in name order.
-/
import ArvVerif.Base.MD5
import ArvVerif.Base.Loop
import ArvVerif.Model.C12
import ArvVerif.Model.C05
import ArvVerif.Model.C05_Enum
import ArvVerif.Model.C05_BlockState
import ArvVerif.Model.C05_Run
open ArvVerif ArvVerif.C05

namespace C05Driver

def md5Nat (cs : List Char) : Nat :=
  (MD5.sum (String.ofList cs).toUTF8).toList.foldl (fun acc b => acc * 256 + b.toNat) 0

def isLowerAlnum (c : Char) : Bool := ('a' ≤ c && c ≤ 'z') || ('0' ≤ c && c ≤ '9')
def isHexLower (c : Char) : Bool := ('a' ≤ c && c ≤ 'f') || ('0' ≤ c && c ≤ '9')
def isDevChar (c : Char) : Bool := isLowerAlnum c || ('A' ≤ c && c ≤ 'Z') || c == '_' || c == '.'

def digitsToNat (cs : List Char) : Nat := cs.foldl (fun a c => a * 10 + (c.toNat - 48)) 0

/-- `^-?[0-9]{1,18}$` -/
def parseInt? (s : String) : Option Int :=
  let cs := s.toList
  let (neg, ds) := match cs with | '-' :: r => (true, r) | _ => (false, cs)
  if ds.isEmpty || ds.length > 18 || !ds.all Char.isDigit then none
  else some (if neg then - (Int.ofNat (digitsToNat ds)) else Int.ofNat (digitsToNat ds))

/-- `^[0-9]{1,6}$` -/
def parseNat? (s : String) : Option Nat :=
  let ds := s.toList
  if ds.isEmpty || ds.length > 6 || !ds.all Char.isDigit then none else some (digitsToNat ds)

def parseFlag? (s : String) : Option Bool :=
  if s == "0" then some false else if s == "1" then some true else none

/-- `^[a-z0-9_]+!?$` → the name without the `!` -/
def parseClass? (s : String) (allowBang : Bool) : Option String :=
  let cs := s.toList
  let body := if cs.getLast? == some '!' then cs.dropLast else cs
  if cs.getLast? == some '!' && !allowBang then none
  else if body.isEmpty || !body.all (fun c => isLowerAlnum c || c == '_') then none
  else some (String.ofList body)

structure PMount where
  dev : String
  ro : Bool
  repl : Int
  classes : List String
  deriving Inhabited

structure PService where
  uuid : String
  ro : Bool
  mounts : List PMount
  deriving Inhabited

def parseMount? (s : String) : Option PMount :=
  match s.splitOn "," with
  | [d, ro, repl, cls] => do
    let dev ← if d == "-" then some "" else if !d.isEmpty && d.toList.all isDevChar then some d else none
    let ro ← parseFlag? ro
    let repl ← parseInt? repl
    let classes ← if cls == "-" then some [] else (cls.splitOn "+").mapM (parseClass? · true)
    if classes.eraseDups.length != classes.length then none
    some { dev, ro, repl, classes }
  | _ => none

def parseService? (s : String) : Option PService :=
  match s.splitOn "/" with
  | [uuid, ro, ms] => do
    if uuid.isEmpty || !uuid.toList.all (fun c => isLowerAlnum c || c == '-') then none
    let ro ← parseFlag? ro
    let mounts ← if ms == "-" then some [] else (ms.splitOn "|").mapM parseMount?
    some { uuid, ro, mounts }
  | _ => none

def parseReplica? (svcs : Array PService) (s : String) : Option (Nat × Nat × Int) :=
  match s.splitOn "@" with
  | [ix, mt] =>
    match ix.splitOn "." with
    | [a, b] => do
      let si ← parseNat? a
      let mi ← parseNat? b
      let mt ← parseInt? mt
      let sv ← svcs[si]?
      if mi ≥ sv.mounts.length then none
      some (si, mi, mt)
    | _ => none
  | _ => none

def parseDesired? (s : String) : Option (String × Nat) :=
  match s.splitOn "=" with
  | [k, v] => do
    let k ← parseClass? k false
    let v ← parseNat? v
    some (k, v)
  | _ => none

def padNat (w n : Nat) : String :=
  let ds := toString n
  String.ofList (List.replicate (w - ds.length) '0') ++ ds

def mountUUID (si mi : Nat) : String := "zzzzz-nyw5e-s" ++ padNat 5 si ++ "m" ++ padNat 8 mi
def srvURL (si : Nat) : String := "http://keep" ++ toString si ++ ".example:25107"

/-! ### canonical form of the state carried between class iterations (order-free) -/

def canonState (b : BState) : BState :=
  { slots := (b.slots.toArray.qsort (fun a c => a.mnt.id < c.mnt.id)).toList,
    utd := (b.utd.toArray.qsort (· < ·)).toList.eraseDups,
    underrep := b.underrep }

def dedupStates (bs : List BState) : List BState := bs.eraseDups

structure Ctx where
  hash : String
  env : Env
  classNames : Array String
  classes : List Class          -- bal.classes
  mountPos : Array (Nat × Nat)  -- mount id → (service index, mount index)
  reps : List Replica

def showBBS (b : BBS) : String :=
  s!"{b.needed},{b.unneeded},{b.pulling},{if b.unachievable then 1 else 0}"

def dash (l : List String) (sep : String) : String := if l.isEmpty then "-" else sep.intercalate l

def outcome (cx : Ctx) (short : Bool) (b : BState) : String :=
  let slots := finalWant b
  let changes := slots.map (fun s => (s, change cx.env cx.reps s))
  let lost := lostFlag cx.env cx.reps changes
  let uuidOf := fun (id : Nat) => let p := cx.mountPos[id]!; (mountUUID p.1 p.2).toList
  let urlOf := fun (si : Nat) => (srvURL si).toList
  let blkid := (cx.hash ++ "+123").toList
  let nsvc := cx.mountPos.foldl (fun m p => max m (p.1 + 1)) 0
  let perSvc := fun (si : Nat) =>
    (changes.filter (fun p => p.1.mnt.srv == si)).toArray.qsort (fun a c => a.1.mnt.id < c.1.mnt.id) |>.toList
  let ts := (List.range nsvc).filterMap fun si =>
    let js := (perSvc si).filterMap fun p =>
      match p.2 with
      | .trash t => some (trashReq blkid uuidOf p.1 t).json
      | _ => none
    if js.isEmpty then none else some (toString si ++ ":[" ++ ",".intercalate js ++ "]")
  let ps := (List.range nsvc).filterMap fun si =>
    let js := (perSvc si).filterMap fun p =>
      match p.2 with
      | .pull (some src) => some (pullReq blkid uuidOf urlOf p.1 src).json
      | .pull none => some "pull-without-source"
      | _ => none
    if js.isEmpty then none else some (toString si ++ ":[" ++ ",".intercalate js ++ "]")
  let have_ := cx.reps.length
  let bs := computeBlockState slots none have_ 0
  let cs := cx.classes.map fun c =>
    cx.classNames[c]! ++ ":" ++ showBBS (computeBlockState slots (some c) have_ (cx.env.desired c))
  if short then s!"lost={if lost then 1 else 0} T={dash ts ";"} P={dash ps ";"}"
  else s!"lost={if lost then 1 else 0} T={dash ts ";"} P={dash ps ";"} bs={showBBS bs} cs={dash cs ";"}"

/-- all final states reachable through the class loop -/
def explore (cx : Ctx) (b0 : BState) : Option (List BState) :=
  let active := cx.classes.filter (fun c => cx.env.desired c != 0)
  let rec go : List Class → List BState → Option (List BState)
    | [], bs => some bs
    | c :: cs, bs => do
      let next ← bs.mapM fun b => do
        let sorts ← allSorted (less cx.env c) b.slots
        pure (sorts.map fun s => classIter cx.env c s b)
      let flat := next.flatten
      if flat.length > 20000 then none
      if cs.isEmpty then some flat else go cs (dedupStates (flat.map canonState))
  go active [b0]

/-- one block against a layout: (prefix, outcomes) or an error token -/
def runBlock (hash : String) (minM : Int) (svcs : List PService) (reps : List (Nat × Nat × Int))
    (des : List (String × Nat)) (short : Bool) : Except String (String × List String) := do
  let svcA := svcs.toArray
  -- class codes in name order
  let names := ("default" :: svcs.flatMap (fun s => s.mounts.flatMap (·.classes)) ++ des.map (·.1)).eraseDups
  let classNames := names.toArray.qsort (· < ·)
  let codeOf := fun (n : String) => (classNames.findIdx? (· == n)).getD 0
  let dflt := codeOf "default"
  -- device codes: "" ↦ 0
  let devNames := ("" :: (svcs.flatMap (fun s => s.mounts.map (·.dev))).filter (· != "")).eraseDups.toArray
  let devOf := fun (d : String) => (devNames.findIdx? (· == d)).getD 0
  -- mount ids
  let mountPos := (svcs.zipIdx.flatMap fun (s, si) => s.mounts.zipIdx.map fun (_, mi) => (si, mi)).toArray
  let idOf := fun (si mi : Nat) => (mountPos.findIdx? (· == (si, mi))).getD 0
  let raw : List RawService := svcs.zipIdx.map fun (s, si) =>
    { id := si, ro := s.ro,
      mounts := s.mounts.zipIdx.map fun (m, mi) =>
        { id := idOf si mi, dev := devOf m.dev, ro := m.ro, repl := m.repl, classes := m.classes.map codeOf } }
  -- rendezvous ranks (C12)
  let w := fun (si : Nat) => C12.weight md5Nat hash.toList (svcA[si]!.uuid).toList
  let ws := (List.range svcs.length).map w
  if ws.eraseDups.length != ws.length then throw "rank-tie"
  let order := C12.probeOrder w (List.range svcs.length)
  let rankA := (List.range svcs.length).map (fun si => (order.findIdx? (· == si)).getD 0) |>.toArray
  let devW := devNames.map (fun d => md5Nat (hash ++ d).toList)
  let env : Env :=
    { rank := fun si => rankA[si]?.getD 0,
      devLess := fun a b => devW[a]?.getD 0 < devW[b]?.getD 0,
      minMtime := minM,
      desiredMap := des.map fun p => (codeOf p.1, p.2) }
  let cl := cleanupMounts raw
  let classes := classesOf dflt cl
  let mounts := effMounts dflt cl
  let mreps : List Replica := reps.map fun (si, mi, mt) => { mnt := idOf si mi, srv := si, mtime := mt }
  let cx : Ctx := { hash, env, classNames, classes, mountPos, reps := mreps }
  let ms := mountPos.toList.zipIdx.map fun ((si, mi), id) =>
    match mounts.find? (·.id == id) with
    | some m => s!"{si}.{mi}:{if m.ro then 1 else 0}:{m.repl}"
    | none => s!"{si}.{mi}:x"
  let pre := s!"classes={",".intercalate (classes.map (classNames[·]!))} mounts={dash ms ","}"
  match explore cx (initState env classes mounts mreps) with
  | none => throw "too-many-ties"
  | some finals => pure (pre, (finals.map (outcome cx short)).eraseDups)

structure PColl where
  pdh : Nat
  n : Nat
  classes : List String

def parseColl? (s : String) : Option PColl :=
  match s.splitOn "*" with
  | [a, b, c] => do
    let pdh ← parseNat? a
    let n ← parseNat? b
    let classes ← if c == "-" then some [] else (c.splitOn "+").mapM (parseClass? · false)
    some { pdh, n, classes }
  | _ => none

def parseBlock? (svcA : Array PService) (s : String) : Option (String × List (Nat × Nat × Int) × List PColl) :=
  match s.splitOn ":" with
  | [h, r, c] => do
    if h.length != 32 || !h.toList.all isHexLower then none
    let reps ← if r == "-" then some [] else (r.splitOn ",").mapM (parseReplica? svcA)
    let colls ← if c == "-" then some [] else (c.splitOn "&").mapM parseColl?
    some (h, reps, colls)
  | _ => none

def parseServices? (svcS : String) : Option (List PService) := do
  let svcs ← if svcS == "-" then some [] else (svcS.splitOn ";").mapM parseService?
  if (svcs.map (·.uuid)).eraseDups.length != svcs.length then none
  some svcs

/-! ### op gs: one sweep of Balancer.Run (Model/C05_Run.lean) -/

/-- `^[0-9]{7,10}$` -/
def parseNat10? (s : String) : Option Nat :=
  let ds := s.toList
  if ds.length < 7 || ds.length > 10 || !ds.all Char.isDigit then none else some (digitsToNat ds)

/-- `^-?[0-9]{1,6}$`, not within [0, 3600) -/
def parseOff? (s : String) : Option Int := do
  let cs := s.toList
  let ds := match cs with | '-' :: r => r | _ => cs
  if ds.length > 6 then none
  let v ← parseInt? s
  if 0 ≤ v && v < 3600 then none
  some v

structure PGColl where
  pdh : Nat
  repl : Option Nat
  classes : List String
  blocks : List Nat

def parseGColl? (nblk : Nat) (s : String) : Option PGColl :=
  match s.splitOn "*" with
  | [a, b, c, d] => do
    let pdh ← parseNat? a
    let repl ← if b == "d" then some none else (parseNat? b).map some
    let classes ← if c == "-" then some [] else (c.splitOn "+").mapM (parseClass? · false)
    let blocks ← if d == "-" then some [] else (d.splitOn "+").mapM parseNat?
    if blocks.any (· ≥ nblk) then none
    some { pdh, repl, classes, blocks }
  | _ => none

def parseGRep? (svcA : Array PService) (x : String) : Option (Nat × Nat × Int) :=
  match x.splitOn "@" with
  | [ix, o] => do
    let off ← parseOff? o
    let (si, mi, _) ← parseReplica? svcA (ix ++ "@0")
    some (si, mi, off)
  | _ => none

def parseGBlock? (svcA : Array PService) (s : String) : Option (String × List (Nat × Nat × Int)) :=
  match s.splitOn ":" with
  | [h, r] => do
    if h.length != 32 || !h.toList.all isHexLower then none
    let reps ← if r == "-" then some [] else (r.splitOn ",").mapM (parseGRep? svcA)
    some (h, reps)
  | _ => none

/-- a timestamp as the Go driver prints it: seconds relative to M when it is a whole number of
seconds, else the raw number -/
def showMt (m : Int) (t : Int) : String :=
  if t % 1000000000 == 0 && t / 1000000000 - m > -100000000 && t / 1000000000 - m < 100000000
  then toString (t / 1000000000 - m) else "\"r" ++ toString t ++ "\""

def runGS (flags : String) (m : Nat) (defRepl : Nat) (secs : List Bool) (svcs : List PService)
    (blocks : List (String × List (Nat × Nat × Int))) (colls : List PGColl) : Option String := do
  let fl := flags.toList
  let cfg : RunCfg := { commitPulls := fl[0]! == '1', commitTrash := fl[1]! == '1', safeState := fl[2]! == '1',
                        defRepl := defRepl, minMtime := (Int.ofNat m) * nsPerSecond, selClasses := selClassesNow }
  let svcA := svcs.toArray
  -- the world: a device is one store; a mount's index lists what the case gives for any view of its device
  let mountPos := (svcs.zipIdx.flatMap fun (s, si) => s.mounts.zipIdx.map fun (_, mi) => (si, mi)).toArray
  let idOf := fun (si mi : Nat) => (mountPos.findIdx? (· == (si, mi))).getD 0
  let devOfPos := fun (si mi : Nat) => (svcA[si]!.mounts[mi]!).dev
  let sameStore := fun (a b : Nat × Nat) => a == b || (devOfPos a.1 a.2 != "" && devOfPos a.1 a.2 == devOfPos b.1 b.2)
  let idx : Nat → List IdxEntry := fun id =>
    let pos := mountPos[id]!
    blocks.zipIdx.flatMap fun ((_, reps), bi) =>
      reps.filterMap fun (si, mi, off) =>
        if sameStore (si, mi) pos then
          let t : Int := Int.ofNat m + off
          some { blk := bi, raw := if secs[pos.1]! then t else t * nsPerSecond }
        else none
  -- the cleaned-up layout (class codes are irrelevant here)
  let raw : List RawService := svcs.zipIdx.map fun (s, si) =>
    { id := si, ro := s.ro,
      mounts := s.mounts.zipIdx.map fun (mt, mi) =>
        { id := idOf si mi, dev := if mt.dev == "" then 0 else 1 + (mountPos.toList.findIdx fun p => devOfPos p.1 p.2 == mt.dev),
          ro := mt.ro, repl := mt.repl, classes := [] } }
  let kept := effMounts 0 (cleanupMounts raw)
  -- class codes for the gathering model
  let names := ("default" :: colls.flatMap (·.classes)).eraseDups.toArray
  let codeOf := fun (n : String) => (names.findIdx? (· == n)).getD 0
  let mcolls : List Coll := colls.map fun c => { pdh := c.pdh, repl := c.repl, classes := c.classes.map codeOf, blocks := c.blocks }
  let states : List (Option BlockSt) := blocks.zipIdx.map fun (_, bi) =>
    let ops := blockOps cfg.selClasses cfg.defRepl idx id kept mcolls bi
    if ops.isEmpty then none else some (gather (codeOf "default") ops)
  let err := sanityLate cfg colls.length (states.filterMap id)
  let sent := fun (commit : Bool) => match sentList commit err [()] with
    | some _ => if svcs.isEmpty then "none" else "same"
    | none => "none"
  let tail := s!"sent=T:{sent cfg.commitTrash},P:{sent cfg.commitPulls} clear={clearCount cfg svcs.length}"
  match err with
  | some .zeroCollections => some ("err received-zero # " ++ tail)
  | some .zeroDesired => some ("err zero-blocks # " ++ tail)
  | some .defaultRepl => some ("err Default-replication # " ++ tail)
  | none =>
    let results : List (Except String (String × List String)) := (blocks.zip states).map fun ((h, _), st) =>
      match st with
      | none => Except.ok ("", ["absent"])
      | some bs =>
        let des := bs.desired.map fun (c, n) => (names[c]!, n)
        let greps := bs.replicas.map fun r => (mountPos[r.mnt]!.1, mountPos[r.mnt]!.2, r.mtime)
        let refs := ((lostRefs bs).map (fun p => "pdh" ++ toString p)).toArray.qsort (· < ·) |>.toList
        match runBlock h cfg.minMtime svcs greps des true with
        | Except.error e => Except.error e
        | Except.ok (pre, outs) => Except.ok (pre, outs.map fun o =>
            let o := (bs.replicas.map (·.mtime)).eraseDups.foldl (fun (o : String) t =>
              o.replace ("\"block_mtime\":" ++ toString t ++ ",") ("\"block_mtime\":" ++ showMt (Int.ofNat m) t ++ ",")) o
            o ++ " refs=" ++ (if o.startsWith "lost=1" then dash refs "," else "-"))
    match results.find? (fun r => match r with | Except.error _ => true | Except.ok _ => false) with
    | some (Except.error e) => some e
    | _ =>
      let oks := results.filterMap fun r => match r with | Except.ok x => some x | Except.error _ => none
      match runBlock "00000000000000000000000000000000" cfg.minMtime svcs [] [] true with
      | .error e => some e
      | .ok (pre, _) => some (pre ++ " # " ++ " ~ ".intercalate (oks.map fun (_, outs) => " | ".intercalate outs) ++
          " # " ++ tail ++ " minmtime=ok")

def step (line : String) : String :=
  match fields line with
  | ["bb", hash, minS, svcS, repS, desS] =>
    let r : Option String := do
      if hash.length != 32 || !hash.toList.all isHexLower then none
      let minM ← parseInt? minS
      let svcs ← parseServices? svcS
      let svcA := svcs.toArray
      let reps ← if repS == "-" then some [] else (repS.splitOn ",").mapM (parseReplica? svcA)
      let des ← if desS == "-" then some [] else (desS.splitOn ",").mapM parseDesired?
      if (des.map (·.1)).eraseDups.length != des.length then none
      match runBlock hash minM svcs reps des false with
      | .error e => some e
      | .ok (pre, outs) => some (pre ++ " # " ++ " # ".intercalate outs)
    r.getD "bad-op"
  | ["cs", minS, order, svcS, blkS] =>
    let r : Option String := do
      let minM ← parseInt? minS
      if order != "ri" && order != "ir" then none
      if blkS.isEmpty then none
      let svcs ← parseServices? svcS
      let svcA := svcs.toArray
      let blocks ← (blkS.splitOn "~").mapM (parseBlock? svcA)
      if (blocks.map (·.1)).eraseDups.length != blocks.length then none
      -- class codes for the gathering model (block_state.go)
      let names := ("default" :: blocks.flatMap (fun b => b.2.2.flatMap (·.classes))).eraseDups.toArray
      let codeOf := fun (n : String) => (names.findIdx? (· == n)).getD 0
      let results : List (Except String (String × List String)) := blocks.map fun ((h, reps, colls) : String × List (Nat × Nat × Int) × List PColl) =>
        if reps.isEmpty && colls.isEmpty then Except.ok ("", ["absent"]) else
        let repOps : List BlockOp := reps.map fun (si, mi, mt) => .rep { mnt := si * 1000 + mi, srv := si, mtime := mt }
        let collOps : List BlockOp := colls.map fun c => .coll (some c.pdh) (c.classes.map codeOf) c.n
        let bs := gather (codeOf "default") (if order == "ri" then repOps ++ collOps else collOps ++ repOps)
        let des := bs.desired.map fun (c, n) => (names[c]!, n)
        let greps := bs.replicas.map fun r => (r.srv, r.mnt % 1000, r.mtime)
        let refs := ((lostRefs bs).map (fun p => "pdh" ++ toString p)).toArray.qsort (· < ·) |>.toList
        match runBlock h minM svcs greps des true with
        | Except.error e => Except.error e
        | Except.ok (pre, outs) => Except.ok (pre, outs.map fun o => o ++ " refs=" ++ (if o.startsWith "lost=1" then dash refs "," else "-"))
      match results.find? (fun r => match r with | Except.error _ => true | Except.ok _ => false) with
      | some (Except.error e) => some e
      | _ =>
        let oks := results.filterMap fun r => match r with | Except.ok x => some x | Except.error _ => none
        -- the prefix depends on the layout only; take it from a block-independent run
        match runBlock "00000000000000000000000000000000" minM svcs [] [] true with
        | .error e => some e
        | .ok (pre, _) => some (pre ++ " # " ++ " ~ ".intercalate (oks.map fun (_, outs) => " | ".intercalate outs))
    r.getD "bad-op"
  | ["gs", flags, mS, drS, psS, secS, svcS, blkS, collS] =>
    let r : Option String := do
      if flags.length != 3 || !flags.toList.all (fun c => c == '0' || c == '1') then none
      let m ← parseNat10? mS
      if m < 1000000 || m > 4000000000 then none
      let defRepl ← parseNat? drS
      let pageSize ← parseNat? psS
      if defRepl > 9 || pageSize > 9 then none
      if blkS.isEmpty then none
      let svcs ← parseServices? svcS
      let secs ← if secS == "-" then (if svcs.isEmpty then some [] else none)
        else if secS.length != svcs.length || !secS.toList.all (fun c => c == '0' || c == '1') then none
        else some (secS.toList.map (· == '1'))
      let svcA := svcs.toArray
      let blocks ← (blkS.splitOn "~").mapM (parseGBlock? svcA)
      if (blocks.map (·.1)).eraseDups.length != blocks.length then none
      let colls ← if collS == "-" then some [] else (collS.splitOn "&").mapM (parseGColl? blocks.length)
      runGS flags m defRepl secs svcs blocks colls
    r.getD "bad-op"
  | _ => "bad-op"

end C05Driver

def main : IO Unit := lineLoop C05Driver.step
