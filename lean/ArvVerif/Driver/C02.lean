/-
Model driver for C02. One case = one history on a fresh Directory volume:

  hist <op>;<op>;...

  (also: `points <id>,<id>,…` — the instrumenter's points.json; answers points-ok iff it is the
  model's skeleton)
  seed:<B>:intact|corrupt|longer|shorter|trash     environment: plant a copy of body B
  pool:<S>:<A>:<B>:<ja>             upload of S cut short, then PUT A held mid-copy while PUT B runs (see the Go driver)
  tick                              environment: all timestamps old, all trash deadlines expired, full marker stale
  full                              environment: the volume is marked full (<root>/full -> now)
  put:<B>:<mode>                    PUT through the router          mode = run | k<i> | c<i> | m<j>x<chunk> | f<i>[k<j>]
                                    (m: context cancelled when WriteBlock has read j chunks of <chunk> bytes from the pipe)
  wb:<B>:<chunk>:<rd>:<limit>:<mode>  WriteBlock with a scripted reader; rd = eof | e<j> | x<j>
  put2:<B>:<n>:<ja>:<jb>:cancel|finish|kill   two overlapping PUTs of the same block (see the Go driver)
  touch:<B>:<mode>  del:<B>:<lt>:<mode>  untrash:<B>:<mode>  empty:<mode>      mode = run | k<i>

  mv <B>:<v0>,<v1>,…:<mode>         one PUT on a server with several Directory volumes (mounts in this order; a fresh
                                    process, so NextWritable = writables[1 % len]); v = pre-state of the block on that
                                    volume (- absent, i intact, c other bytes, l block + extra bytes) followed by flags
                                    R (ReadOnly), F (marked full), X (every WriteBlock on it fails at Chtimes: its temp
                                    file is unlinked just before the call); mode = run | k<i> | c<i>. Points are
                                    printed as <mount>/<id>.

B = <size>.<seed>. After every process op: `<result>,<points reached> ; get:… idx=… ls=…`, ops joined
by " | ". Where the code is nondeterministic (cancellation of a PUT of the empty block before the
copy started, last op only) the alternatives are joined by " || ".
-/
import ArvVerif.Base.MD5
import ArvVerif.Base.Loop
import ArvVerif.Model.C02
import ArvVerif.Model.C02_MV
open ArvVerif ArvVerif.C02

namespace C02D

def nowT : Nat := 1000
def ttlT : Nat := 10
def futT : Nat := 4000000000

def md5Name (bs : Bytes) : Name := (MD5.hex (ByteArray.mk bs.toArray)).toList

def mkBody (size seed : Nat) : Bytes :=
  (List.range size).map (fun i => UInt8.ofNat ((seed * 31 + i * 7 + (i >>> 8) * 13) % 256))

def corruptOf (body : Bytes) : Bytes := "CORRUPT".toUTF8.toList ++ body.take (body.length / 2)

structure Body where
  spec : String
  data : Bytes
  h : Name

def parseBody (s : String) : Option Body :=
  match s.splitOn "." with
  | [a, b] =>
    match a.toNat?, b.toNat? with
    | some size, some seed =>
      if size > 4194304 then none else
      let d := mkBody size seed
      some ⟨s, d, md5Name d⟩
    | _, _ => none
  | _ => none

inductive Mode where
  | run | kill (i : Nat) | cancel (i : Nat)
  | mid (j chunk : Nat)     -- cancel when WriteBlock asks for more after j chunks of `chunk` bytes
  | fault (i : Nat) (k : Option Nat)  -- temp file unlinked before the Chtimes / Rename at point i

def parseMode (s : String) : Option Mode :=
  if s == "run" then some .run
  else if s.startsWith "k" then (s.drop 1).toNat?.map .kill
  else if s.startsWith "c" then (s.drop 1).toNat?.map .cancel
  else if s.startsWith "f" then
    match (s.drop 1).toString.splitOn "k" with
    | [a] => a.toNat?.map (fun i => .fault i none)
    | [a, b] =>
      match a.toNat?, b.toNat? with
      | some i, some k => some (.fault i (some k))
      | _, _ => none
    | _ => none
  else if s.startsWith "m" then
    match (s.drop 1).toString.splitOn "x" with
    | [a, b] =>
      match a.toNat?, b.toNat? with
      | some j, some c => if c == 0 then none else some (.mid j c)
      | _, _ => none
    | _ => none
  else none

structure St where
  fs : FS := FS.empty
  ticks : Nat := 0
  sfx : Nat := 0
  bodies : List Body := []
  full : Bool := false      -- <root>/full marker younger than an hour: IsFull()
  serialize : Bool := false -- DriverParameters.Serialize: v.lock(ctx) can give up when ctx is done

def St.note (st : St) (b : Body) : St :=
  if st.bodies.any (fun x => x.spec == b.spec) then st else { st with bodies := st.bodies ++ [b] }

/-- hash with a shortcut for the bodies of this history (md5 of a large list is slow) -/
def hashOf (st : St) (d : Bytes) : Name :=
  match st.bodies.find? (fun b => b.data.length == d.length && b.data == d) with
  | some b => b.h
  | none => md5Name d

/-- number of events to execute when the process is killed on reaching its `i`-th point
(`none`: fewer points than that, the op completes), and the points reached -/
def killPrefix (evs : List Ev) (i : Nat) : Option Nat × List String :=
  let rec go (es : List Ev) (pos seen : Nat) (acc : List String) : Option Nat × List String :=
    match es with
    | [] => (none, acc.reverse)
    | e :: rest =>
      match e.pt with
      | some p => if seen == i then (some pos, (p.id :: acc).reverse) else go rest (pos + 1) (seen + 1) (p.id :: acc)
      | none => go rest (pos + 1) seen acc
  go evs 0 0 []

def allPoints (evs : List Ev) : List String := evs.filterMap (fun e => e.pt.map Point.id)

def showPts (ps : List String) : String := if ps.isEmpty then "-" else ",".intercalate ps

def splitChunks (n : Nat) (b : Bytes) : List Bytes :=
  if n == 0 then [] else
  let rec go (fuel : Nat) (b : Bytes) (acc : List Bytes) : List Bytes :=
    match fuel with
    | 0 => acc.reverse
    | fuel + 1 => if b.isEmpty then acc.reverse else go fuel (b.drop n) (b.take n :: acc)
  go (b.length + 1) b []

def sortStrings (xs : List String) : List String := (xs.toArray.qsort (· < ·)).toList

def canonName (n : Name) : String :=
  if n.take 3 == "tmp".toList && n.length ≥ 35 then String.ofList (n.take 35) ++ "*"
  else if isTrashName n then
    String.ofList (n.take 32) ++ ".trash." ++ (if digitsVal (n.drop 39) ≤ nowT then "E" else "F")
  else String.ofList n

def observe (st : St) : String :=
  let gets := st.bodies.map (fun b =>
    match st.fs.get (blockPath b.h) with
    | none => s!"get:{b.spec}=404"
    | some f =>
      let hn := hashOf st f.data
      if hn == b.h then s!"get:{b.spec}=200/{f.data.length}/{String.ofList hn}" else s!"get:{b.spec}=500")
  let idx := sortStrings ((index st.fs).map (fun (n, sz, mt) =>
    s!"{String.ofList n}+{sz}@{if nowT < mt + ttlT then "new" else "old"}"))
  let idxS := if idx.isEmpty then "-" else ",".intercalate idx
  let ls := sortStrings (st.fs.dirs.map (fun d => String.ofList d ++ "/") ++
    st.fs.files.map (fun (p, f) => s!"{String.ofList p.dir}/{canonName p.name}:{f.data.length}"))
  let lsS := if ls.isEmpty then "-" else ",".intercalate ls
  " ".intercalate (gets ++ [s!"idx=200/complete:{idxS}", s!"ls={lsS}"])

/-- execute `evs` under `mode` (cancel is handled by the caller): new fs, killed?, points -/
def execMode (st : St) (evs : List Ev) (mode : Mode) : St × Bool × List String :=
  match mode with
  | .kill i =>
    match killPrefix evs i with
    | (some n, pts) => ({ st with fs := run st.fs (evs.take n) }, true, pts)
    | (none, pts) => ({ st with fs := run st.fs evs }, false, pts)
  | _ => ({ st with fs := run st.fs evs }, false, allPoints evs)

def seg (st : St) (result : String) (pts : List String) : String :=
  s!"{result},{showPts pts} ; {observe st}"

def tickFS (fs : FS) (k : Nat) : FS :=
  { fs with files := fs.files.map (fun (p, f) =>
      let p' : Path := if isTrashName p.name && digitsVal (p.name.drop 39) == futT
        then ⟨p.dir, trashName (p.name.take 32) (100 + k)⟩ else p
      (p', ⟨f.data, 0⟩)) }

def wbIn (st : St) (b : Body) (chunks : List Bytes) (rend : ReaderEnd) (fail : WBFail) : WBIn :=
  ⟨b.h, natDigits st.sfx, chunks, rend, fail, nowT, (st.fs.get (blockPath b.h)).isSome⟩

/-- where RLIMIT_FSIZE = limit makes a write of `chunks` fail -/
def limitFail (chunks : List Bytes) (limit : Nat) : WBFail :=
  let rec go (cs : List Bytes) (i off : Nat) : WBFail :=
    match cs with
    | [] => .none
    | c :: rest => if off + c.length > limit then .write i (limit - off) else go rest (i + 1) (off + c.length)
  if limit == 0 then .none else go chunks 0 0

/-- One op. Returns the alternatives (new state, output segment). -/
def stepOp (st : St) (op : String) (last : Bool) : Option (List (St × Option String)) :=
  match op.splitOn ":" with
  | ["seed", bs, kind] => do
    let b ← parseBody bs
    let st := st.note b
    let fs := Step.apply st.fs (.mkdirAll (blockDir b.h))
    if kind == "intact" then some [({ st with fs := fs.set (blockPath b.h) ⟨b.data, 0⟩ }, none)]
    else if kind == "corrupt" then some [({ st with fs := fs.set (blockPath b.h) ⟨corruptOf b.data, 0⟩ }, none)]
    else if kind == "longer" then
      some [({ st with fs := fs.set (blockPath b.h) ⟨b.data ++ "EXTRA".toUTF8.toList, 0⟩ }, none)]
    else if kind == "shorter" then
      some [({ st with fs := fs.set (blockPath b.h) ⟨b.data.take (b.data.length / 2), 0⟩ }, none)]
    else if kind == "trash" then some [({ st with fs := fs.set (trashPath b.h futT) ⟨b.data, 0⟩ }, none)]
    else none
  | ["tick"] =>
    let k := st.ticks + 1
    some [({ st with ticks := k, fs := tickFS st.fs k, full := false }, none)]
  | ["full"] =>
    -- the marker keepstore itself creates: symlink <root>/full -> <unix time> (10 characters)
    some [({ st with full := true, fs := st.fs.set ⟨[], "full".toList⟩ ⟨List.replicate 10 0, 0⟩ }, none)]
  | ["put", bs, ms] => do
    let b ← parseBody bs
    let mode ← parseMode ms
    let st := st.note b
    let st1 := { st with sfx := st.sfx + 1 }
    let chunks := if b.data.isEmpty then [] else [b.data]
    let mk (attempts : List WBIn) (cancelled cmpCancelled : Bool) : List Ev × Resp :=
      handlePut (hashOf st) st.fs ⟨b.h, b.data, nowT, none, attempts, cancelled, cmpCancelled, st.full⟩
    let code : Resp → String
      | .ok200 => "200" | .badRequest => "400" | .hashMismatch => "422" | .collision => "500"
      | .disconnect => "503" | .fail => "500" | .full => "503"
    let full := mk [wbIn st b chunks .eof .none] false false
    let out (r : List Ev × Resp) (mark : Bool) : St × Option String :=
      let (st2, _, pts) := execMode st1 r.1 .run
      -- "C": the moment the reader gate cancelled, right after the io.Copy point
      let pts := if mark then pts.flatMap (fun p => if p == "WriteBlock:io.Copy:2" then [p, "C"] else [p]) else pts
      (st2, some (seg st2 (code r.2) pts))
    let writes := (allPoints full.1).any (fun p => p.startsWith "WriteBlock:")
    match mode with
    | .cancel i =>
      -- where in the uncancelled run does the i-th point lie?
      match killPrefix full.1 i with
      | (none, _) => some [out full false]
      | (some _, pts) =>
        let lastPt := pts.getLast?.getD ""
        if lastPt.startsWith "stat:" || lastPt.startsWith "getFunc:" then
          -- the context ends during Compare: nothing is touched or written, 503
          let r := mk [] true true
          -- Serialize: getFunc's v.lock(ctx) may give up (ctx done) or win the race for the free lock
          if st.serialize && lastPt.startsWith "stat:" && r.1.length > 1 then
            some [out r false, out (r.1.take 1, r.2) false]
          else some [out r false]
        else if lastPt.startsWith "Touch:" then some [out full false]
        else
          let nwb := (pts.filter (fun p => p.startsWith "WriteBlock:")).length
          let beforeCopyEnd := nwb ≤ 3
          let eofRun := mk [wbIn st b chunks .eof .none] true false
          let errRun := mk [wbIn st b [] .err .none] true false
          -- Serialize: cancelled before WriteBlock's v.lock(ctx) (at MkdirAll or TempFile): the lock may
          -- give up, WriteBlock then returns at once and leaves its (empty) temp file behind — a
          -- prefix of the step list
          let lockFail : List (St × Option String) :=
            if st.serialize && nwb ≤ 2 then
              let cmpLen := (compareEvs st.fs b.h).length
              [out (errRun.1.take (cmpLen + 2), errRun.2) false]
            else []
          if !beforeCopyEnd then some [out eofRun false]
          else if !b.data.isEmpty then some ([out errRun false] ++ lockFail)
          else if last then some ([out eofRun false, out errRun false] ++ lockFail)
          else some ([out eofRun false] ++ lockFail)
    | .fault i kk =>
      -- which call does the i-th point of the undisturbed run precede?
      let (pos, pts) := killPrefix full.1 i
      let lastPt := pts.getLast?.getD ""
      let wfail : Option WBFail :=
        if pos.isNone then none
        else if lastPt == "WriteBlock:os.Chtimes:7" then some .chtimes
        else if lastPt == "WriteBlock:v.os.Rename:13" then some .rename
        else none
      match wfail with
      | none =>
        -- no fault is injected at that point: plain run, or plain kill
        let m : Mode := match kk with | some k => .kill k | none => .run
        let (st2, killed, pts) := execMode st1 full.1 m
        some [(st2, seg st2 (if killed then "killed" else code full.2) pts)]
      | some wf =>
        -- first attempt fails at that call (its temp file was unlinked just before), PutBlock
        -- tries the volume again with a new temp file
        let w1 := { wbIn st b chunks .eof wf with sfx := natDigits st.sfx }
        let w2 := { wbIn st b chunks .eof .none with sfx := natDigits (st.sfx + 1) }
        let r := mk [w1, w2] false false
        let evs := match pos with
          | some n => r.1.take n ++ [⟨none, .remove (tmpPath b.h w1.sfx)⟩] ++ r.1.drop n
          | none => r.1
        let st1' := { st1 with sfx := st.sfx + 2 }
        let m : Mode := match kk with | some k => .kill k | none => .run
        let (st2, killed, pts) := execMode st1' evs m
        -- "F" follows the point at which the fault was injected (if the run got that far)
        let pts := (pts.zipIdx).flatMap (fun (p, idx) => if idx == i then [p, "F"] else [p])
        some [(st2, seg st2 (if killed then "killed" else code r.2) pts)]
    | .mid j chunk =>
      if !writes then some [out full false] else
      let all := splitChunks chunk b.data
      if j > all.length then some [out full false]
      else if j < all.length then some [out (mk [wbIn st b (all.take j) .err .none] true false) true]
      else
        let eofRun := mk [wbIn st b all .eof .none] true false
        let errRun := mk [wbIn st b all .err .none] true false
        if last then some [out eofRun true, out errRun true] else some [out eofRun true]
    | m =>
      let (st2, killed, pts) := execMode st1 full.1 m
      some [(st2, seg st2 (if killed then "killed" else code full.2) pts)]
  | ["put2", bs, cs, jas, jbs, endS] => do
    -- (with Serialize the second writer waits for the volume lock: no overlap, not generated)
    if st.serialize then none
    -- two overlapping PUTs of the same block: A held after ja chunks, B started and held after jb
    -- chunks, A runs to its end, then B is cancelled / finishes / the process is killed
    let b ← parseBody bs
    let chunk ← cs.toNat?
    let ja ← jas.toNat?
    let jb ← jbs.toNat?
    if chunk == 0 then none
    let st := st.note b
    let all := splitChunks chunk b.data
    if ja > all.length || jb > all.length then none
    let hp (sfx : Nat) (chunks : List Bytes) (rend : ReaderEnd) (cancelled existing : Bool) : List Ev × Resp :=
      handlePut (hashOf st) st.fs
        ⟨b.h, b.data, nowT, none, [⟨b.h, natDigits sfx, chunks, rend, .none, nowT, existing⟩], cancelled, false, st.full⟩
    -- A reaches its open of the block path before B has renamed; B (if it gets that far) after A has
    let fullA := hp st.sfx all .eof false (st.fs.get (blockPath b.h)).isSome
    if !(allPoints fullA.1).any (fun p => p.startsWith "WriteBlock:") then none
    let cmpLen := (compareEvs st.fs b.h).length
    let cutA := cmpLen + 3 + ja
    let cutB := cmpLen + 3 + jb
    let (rB, resB) : (List Ev × Resp) × String ←
      if endS == "finish" then some (hp (st.sfx + 1) all .eof false true, "200")
      else if endS == "kill" then some (hp (st.sfx + 1) all .eof false true, "")
      else if endS == "cancel" then
        if jb < all.length then some (hp (st.sfx + 1) (all.take jb) .err true true, "503")
        else some (hp (st.sfx + 1) all .eof true true, "503")
      else none
    let b2 := if endS == "kill" then [] else rB.1.drop cutB
    let evs := fullA.1.take cutA ++ rB.1.take cutB ++ fullA.1.drop cutA ++ b2
    let st2 := { st with sfx := st.sfx + 2, fs := run st.fs evs }
    some [(st2, seg st2 (if endS == "kill" then "killed/200" else "200&" ++ resB) (allPoints evs))]
  | ["pool", ss, as, bs, jas] => do
    -- an upload cut short (500, nothing happens on the volume), then PUT A held after ja chunks of
    -- 4096 bytes, PUT B from start to end, A released
    let s ← parseBody ss
    let a ← parseBody as
    let b ← parseBody bs
    let ja ← jas.toNat?
    if s.data.length < 2 || a.h == b.h then none
    let st := ((st.note s).note a).note b
    let allA := splitChunks 4096 a.data
    if ja > allA.length then none
    let hp (x : Body) (sfx : Nat) (chunks : List Bytes) : List Ev × Resp :=
      handlePut (hashOf st) st.fs
        ⟨x.h, x.data, nowT, none,
         [⟨x.h, natDigits sfx, chunks, .eof, .none, nowT, (st.fs.get (blockPath x.h)).isSome⟩], false, false, st.full⟩
    let rA := hp a st.sfx allA
    let rB := hp b (st.sfx + 1) (if b.data.isEmpty then [] else [b.data])
    if !(allPoints rA.1).any (fun p => p.startsWith "WriteBlock:") then none
    let cutA := (compareEvs st.fs a.h).length + 3 + ja
    let evs := rA.1.take cutA ++ rB.1 ++ rA.1.drop cutA
    let code : Resp → String
      | .ok200 => "200" | .badRequest => "400" | .hashMismatch => "422" | .collision => "500"
      | .disconnect => "503" | .fail => "500" | .full => "503"
    let st2 := { st with sfx := st.sfx + 2, fs := run st.fs evs }
    some [(st2, seg st2 s!"500&{code rA.2}&{code rB.2}" (allPoints evs))]
  | ["wb", bs, cs, rd, ls, ms] => do
    let b ← parseBody bs
    let mode ← parseMode ms
    let chunk ← cs.toNat?
    let limit ← ls.toNat?
    if chunk == 0 then none
    let st := st.note b
    let st1 := { st with sfx := st.sfx + 1 }
    if st.full then some [(st1, seg st1 "err" [])] else
    let all := splitChunks chunk b.data
    -- reader script
    let (given, rend, killAt) : List Bytes × ReaderEnd × Option Nat ←
      if rd == "eof" then some (all, ReaderEnd.eof, none)
      else if rd.startsWith "e" then (rd.drop 1).toNat?.map (fun j =>
        if j ≤ all.length then (all.take j, ReaderEnd.err, none) else (all, ReaderEnd.eof, none))
      else if rd.startsWith "x" then (rd.drop 1).toNat?.map (fun j =>
        if j ≤ all.length then (all.take j, ReaderEnd.eof, some j) else (all, ReaderEnd.eof, none))
      else none
    let fail := limitFail given limit
    let w := wbIn st b given rend fail
    let r := writeBlockEvs w
    -- a reader kill happens in the Read call after `j` chunks, unless a write failed before
    let readerKill : Option Nat :=
      match killAt, fail with
      | some j, .none => some (3 + j)
      | _, _ => none
    let pointKill : Option Nat × List String :=
      match mode with
      | .kill i => killPrefix r.1 i
      | _ => (none, allPoints r.1)
    match pointKill.1, readerKill with
    | some n, some m =>
      -- a point at position ≤ 2 precedes the copy; the point after the copy (position 3 + chunks)
      -- comes after the Read call in which the reader kills
      if n < m then
        let st2 := { st1 with fs := run st.fs (r.1.take n) }; some [(st2, seg st2 "killed" pointKill.2)]
      else
        let st2 := { st1 with fs := run st.fs (r.1.take m) }
        some [(st2, seg st2 "killed" (allPoints (r.1.take m) ++ ["X"]))]
    | some n, none =>
      let st2 := { st1 with fs := run st.fs (r.1.take n) }; some [(st2, seg st2 "killed" pointKill.2)]
    | none, some m =>
      let st2 := { st1 with fs := run st.fs (r.1.take m) }
      some [(st2, seg st2 "killed" (allPoints (r.1.take m) ++ ["X"]))]
    | none, none =>
      let st2 := { st1 with fs := run st.fs r.1 }
      some [(st2, seg st2 (if r.2 then "ok" else "err") (allPoints r.1))]
  | ["touch", bs, ms] => do
    let b ← parseBody bs
    let mode ← parseMode ms
    let st := st.note b
    let r := touchEvs st.fs b.h nowT none
    let (st2, killed, pts) := execMode st r.1 mode
    some [(st2, seg st2 (if killed then "killed" else if r.2 == .ok then "200" else "404") pts)]
  | ["del", bs, lt, ms] => do
    let b ← parseBody bs
    let mode ← parseMode ms
    let st := st.note b
    let cfg : Cfg := ⟨nowT, ttlT, if lt == "0" then 0 else futT - nowT⟩
    let r := trashEvs st.fs cfg b.h
    let (st2, killed, pts) := execMode st r.1 mode
    some [(st2, seg st2 (if killed then "killed" else if r.2 == .ok then "200/1/0" else "404") pts)]
  | ["untrash", bs, ms] => do
    let b ← parseBody bs
    let mode ← parseMode ms
    let st := st.note b
    let r := untrashEvs st.fs b.h nowT
    let (st2, killed, pts) := execMode st r.1 mode
    some [(st2, seg st2 (if killed then "killed" else if r.2 == .ok then "200" else "404") pts)]
  | ["empty", ms] => do
    let mode ← parseMode ms
    let evs := emptyTrashEvs st.fs nowT
    let (st2, killed, pts) := execMode st evs mode
    some [(st2, seg st2 (if killed then "killed" else "done") pts)]
  | _ => none

def runHist (ops : List String) (serialize : Bool := false) : Option (List String) :=
  let rec go (ops : List String) (st : St) (acc : List String) : Option (List String) :=
    match ops with
    | [] =>
      some [if acc.isEmpty then "env-only ; " ++ observe st else " | ".intercalate acc.reverse]
    | op :: rest =>
      match stepOp st op rest.isEmpty with
      | none => none
      | some alts =>
        alts.foldl (fun r (st2, out) =>
          match r, go rest st2 (match out with | some s => s :: acc | none => acc) with
          | some a, some b => some (a ++ b)
          | _, _ => none) (some [])
  go ops { serialize := serialize } []


/-! ### several volumes (`mv` cases) -/

structure MVol where
  pre : Char
  ro : Bool
  full : Bool
  failing : Bool

def parseMVol (s : String) : Option MVol :=
  match s.toList with
  | [] => none
  | c :: flags =>
    if !(c == '-' || c == 'i' || c == 'c' || c == 'l') then none
    else if !(flags.all (fun f => f == 'R' || f == 'F' || f == 'X')) then none
    else some ⟨c, flags.contains 'R', flags.contains 'F', flags.contains 'X'⟩

def mvKillPrefix (evs : List MEv) (i : Nat) : Option Nat × List String :=
  let rec go (es : List MEv) (pos seen : Nat) (acc : List String) : Option Nat × List String :=
    match es with
    | [] => (none, acc.reverse)
    | (v, e) :: rest =>
      match e.pt with
      | some p =>
        let id := s!"{v}/{p.id}"
        if seen == i then (some pos, (id :: acc).reverse) else go rest (pos + 1) (seen + 1) (id :: acc)
      | none => go rest (pos + 1) seen acc
  go evs 0 0 []

def mvAllPoints (evs : List MEv) : List String := evs.filterMap (fun (v, e) => e.pt.map (fun p => s!"{v}/{p.id}"))

/-- the run-time fault of an `X` volume: its temp file is unlinked right before WriteBlock's Chtimes
(an environment step), so that the call fails; "F" is reported after that point -/
def mvInjectFaults (vols : Array MVol) (evs : List MEv) : List MEv :=
  let rec go (es : List MEv) (lastTmp : List (Nat × Path)) (acc : List MEv) : List MEv :=
    match es with
    | [] => acc.reverse
    | (v, e) :: rest =>
      let lastTmp := match e.eff with
        | .createTemp p _ => (v, p) :: lastTmp.filter (fun x => x.1 != v)
        | _ => lastTmp
      let isChtimes := match e.pt with
        | some p => p.fn == .writeBlock && p.idx == 7
        | none => false
      if isChtimes && (vols[v]?.map (·.failing)).getD false then
        match lastTmp.find? (fun x => x.1 == v) with
        | some (_, p) => go rest lastTmp ((v, e) :: (v, ⟨none, .remove p⟩) :: acc)
        | none => go rest lastTmp ((v, e) :: acc)
      else go rest lastTmp ((v, e) :: acc)
  go evs [] []

def mvObserve (b : Body) (hash : Bytes → Name) (c : MVCfg) (vols : Array MVol) (vs : Nat → FS) : String :=
  let showGet (r : GetRes) : String :=
    match r with
    | .ok d => s!"200/{d.length}/{String.ofList (hash d)}"
    | .notFound => "404"
    | .diskHashError => "500"
  let gets := s!"get:{b.spec}={showGet (getBlockMV hash c vs b.h)}"
  let vgets := (List.range c.n).map (fun i => s!"v{i}:get={showGet (getBlock hash (vs i) b.h)}")
  let idx := sortStrings ((indexMV c vs).map (fun (n, sz, mt) =>
    s!"{String.ofList n}+{sz}@{if nowT < mt + ttlT then "new" else "old"}"))
  let idxS := if idx.isEmpty then "-" else ",".intercalate idx
  let ls := sortStrings ((List.range c.n).flatMap (fun i =>
    [s!"m{i}/"] ++ (if (vols[i]?.map (·.full)).getD false then [s!"m{i}/full:10"] else []) ++
    (vs i).dirs.map (fun d => s!"m{i}/{String.ofList d}/") ++
    (vs i).files.map (fun (p, f) => s!"m{i}/{String.ofList p.dir}/{canonName p.name}:{f.data.length}")))
  " ".intercalate ([gets] ++ vgets ++ [s!"idx=200/complete:{idxS}", s!"ls={",".intercalate ls}"])

def stepMV (spec : String) : Option (List String) :=
  match spec.splitOn ":" with
  | [bs, vsS, ms] => do
    let b ← parseBody bs
    let mode ← parseMode ms
    let vols ← (vsS.splitOn ",").mapM parseMVol
    let vols := vols.toArray
    if vols.size == 0 || vols.size > 4 then none
    let hash : Bytes → Name := fun d => if d.length == b.data.length && d == b.data then b.h else md5Name d
    let c : MVCfg := ⟨vols.size, fun i => (vols[i]?.map (·.ro)).getD false, fun i => (vols[i]?.map (·.full)).getD false⟩
    let vs : Nat → FS := fun i =>
      let fs := FS.empty
      match vols[i]?.map (·.pre) with
      | some 'i' => (Step.apply fs (.mkdirAll (blockDir b.h))).set (blockPath b.h) ⟨b.data, 0⟩
      | some 'c' => (Step.apply fs (.mkdirAll (blockDir b.h))).set (blockPath b.h) ⟨corruptOf b.data, 0⟩
      | some 'l' => (Step.apply fs (.mkdirAll (blockDir b.h))).set (blockPath b.h) ⟨b.data ++ "EXTRA".toUTF8.toList, 0⟩
      | _ => fs
    let chunks := if b.data.isEmpty then [] else [b.data]
    let ws := c.writables
    let i0 := (ws[1 % ws.length]?).getD 0
    let failOf (i : Nat) : WBFail := if (vols[i]?.map (·.failing)).getD false then .chtimes else .none
    let mkW (i sfx : Nat) (chunks : List Bytes) (rend : ReaderEnd) : WBIn :=
      ⟨b.h, natDigits sfx, chunks, rend, failOf i, nowT, ((vs i).get (blockPath b.h)).isSome⟩
    let mkP (cmpCancel cancelCall : Option Nat) (errCall : Bool) : MPutIn :=
      -- errCall: the cancelled call's writer sees an error before any byte
      let wOf (call i sfx : Nat) : WBIn :=
        if errCall && cancelCall == some call then mkW i sfx [] .err else mkW i sfx chunks .eof
      let callOf (i : Nat) : Nat := 1 + (ws.idxOf i)
      ⟨b.h, b.data, nowT, fun _ => none, 1, wOf 0 i0 0, fun i => wOf (callOf i) i (1 + i), cmpCancel, cancelCall⟩
    let code : Resp → String
      | .ok200 => "200" | .badRequest => "400" | .hashMismatch => "422" | .collision => "500"
      | .disconnect => "503" | .fail => "500" | .full => "503"
    let runP (p : MPutIn) : List MEv × Resp :=
      let r := handlePutMV hash c vs p
      (mvInjectFaults vols r.1, r.2.1)
    let addF (pts : List String) : List String :=
      pts.flatMap (fun s =>
        let v := ((s.splitOn "/").headD "").toNat?.getD 0
        if s.endsWith "/WriteBlock:os.Chtimes:7" && (vols[v]?.map (·.failing)).getD false then [s, "F"] else [s])
    let out (evs : List MEv) (result : String) (pts : List String) : String :=
      s!"{result},{showPts (addF pts)} ; {mvObserve b hash c vols (runMV vs evs)}"
    let full := runP (mkP none none false)
    match mode with
    | .run => some [out full.1 (code full.2) (mvAllPoints full.1)]
    | .kill i =>
      match mvKillPrefix full.1 i with
      | (some n, pts) =>
        -- a kill at the Chtimes point of an X volume comes after the hook unlinked the temp file ("F" printed)
        some [out (full.1.take n) "killed" pts]
      | (none, pts) => some [out full.1 (code full.2) pts]
    | .cancel i =>
      match mvKillPrefix full.1 i with
      | (none, _) => some [out full.1 (code full.2) (mvAllPoints full.1)]
      | (some _, pts) =>
        let lastPt := pts.getLast?.getD ""
        let v := ((lastPt.splitOn "/").headD "").toNat?.getD 0
        let id := "/".intercalate ((lastPt.splitOn "/").drop 1)
        if id.startsWith "stat:" || id.startsWith "getFunc:" then
          let r := runP (mkP (some (ws.idxOf v)) none false)
          some [out r.1 (code r.2) (mvAllPoints r.1)]
        else if id.startsWith "Touch:" then some [out full.1 (code full.2) (mvAllPoints full.1)]
        else
          -- the k-th WriteBlock run with points = the k-th Put call on a volume that is not full
          let runs := (pts.filter (fun s => s.endsWith "/WriteBlock:os.MkdirAll:0")).length
          let calls := ((0, i0) :: ws.zipIdx.map (fun (w, j) => (1 + j, w))).filter (fun (_, w) => !c.full w)
          let call := (calls[runs - 1]?.map (·.1)).getD 0
          let nwb := ((pts.reverse.takeWhile (fun s => !s.endsWith "/WriteBlock:os.MkdirAll:0")).length) + 1
          let eofRun := runP (mkP none (some call) false)
          let errRun := runP (mkP none (some call) true)
          let o (r : List MEv × Resp) := out r.1 (code r.2) (mvAllPoints r.1)
          if nwb > 3 then some [o eofRun]
          else if !b.data.isEmpty then some [o errRun]
          else some [o eofRun, o errRun]
    | _ => none
  | _ => none

/-- every point the instrumenter is expected to create, in source order of unix_volume.go -/
def allPointIds : List String :=
  [Fn.touch, Fn.getFunc, Fn.stat, Fn.writeBlock, Fn.trash, Fn.untrash, Fn.emptyTrash].flatMap (fun fn =>
    (List.range (skeleton fn).length).map (fun i => Point.id ⟨fn, i⟩))

def step (line : String) : String :=
  match fields line with
  | ["points", ids] => if ids.splitOn "," == allPointIds then "points-ok" else "points-differ"
  | ["hist", ops] =>
    match runHist (ops.splitOn ";") with
    | some outs => " || ".intercalate outs
    | none => "bad-op"
  | ["mv", spec] =>
    match stepMV spec with
    | some outs => " || ".intercalate outs
    | none => "bad-op"
  | ["hists", ops] =>
    match runHist (ops.splitOn ";") true with
    | some outs => " || ".intercalate outs
    | none => "bad-op"
  | _ => "bad-op"

end C02D

def main : IO Unit := lineLoop C02D.step
