/-
Model driver for C04. Line protocol (see /verif/notes/C04.md):

  hist <ttl> <life> <blobtrash 0|1> <conc> <vols> <init> <ops>
  race <serialize 0|1> <life 0|1> <pre a|g|c> <age o|f> <pop touch|put> <top del|ti|untrash> <sched>

`hist`: logical time in the case line counts units (one unit passes after every op, `tick:d` adds d);
the model clock runs in 1/256 units: a planted trash deadline (placed half a unit early by the Go driver)
never coincides with a deadline computed by Trash, and the real time that passes between the per-volume
calls of one untrash request is one tick per volume (`Cfg.spread := 1`; less than a unit per history). Output
  res=<per-op results> dirs=<listing of every volume before the first and after every op, '|'-separated>
`race`: output  P=<status> T=<result> get=<status> dir=<listing> trace=<controller events>
-/
import ArvVerif.Base.Loop
import ArvVerif.Model.C04
import ArvVerif.Model.C04_Race
import ArvVerif.Model.C04_Compose
import ArvVerif.Model.C04_Queue
open ArvVerif ArvVerif.C04

namespace C04Drv

def base : Nat := 10000000

/-- ticks per logical unit -/
def U : Nat := 256

def parseHash (s : String) : Option Nat :=
  match s.toList with
  | 'h' :: ds =>
    if ds.isEmpty then none else
    match (String.ofList ds).toNat? with
    | some n => if n ≤ 7 then some n else none
    | none => none
  | _ => none

def parseInt (s : String) : Option Int :=
  if s.startsWith "-" then (s.drop 1).toString.toNat?.map (fun n => -(n : Int))
  else s.toNat?.map (fun n => (n : Int))

def parseVol (i : Nat) (s : String) : Option Vol :=
  -- 'r' = Volumes.*.ReadOnly, 'a' = read-only through AccessViaHosts: both make the MOUNT read-only;
  -- a third character 'f' = the volume reports itself full
  let mk (a b : Char) (full : Bool) : Option Vol :=
    if (a = 'w' ∨ a = 'r' ∨ a = 'a') ∧ (b = 's' ∨ b = 'n') then
      some { id := i, ro := a ≠ 'w', blocks := fun _ => none, trash := [], full := full }
    else none
  match s.toList with
  | [a, b] => mk a b false
  | [a, b, 'f'] => mk a b true
  | _ => none

def setVol (vs : List Vol) (i : Nat) (f : Vol → Vol) : List Vol := updVol vs i f

/-- one init item `<vol>:<h>:<g|c>:<age>[:T<rem>]` -/
def plant (vs : List Vol) (it : String) : Option (List Vol) :=
  match it.splitOn ":" with
  | [v, h, g, a] =>
    match v.toNat?, parseHash h, a.toNat? with
    | some vi, some hi, some age =>
      if vi < vs.length ∧ (g = "g" ∨ g = "c") ∧ age ≥ 1 then
        some (setVol vs vi (fun vol => vol.setBlock hi (some { good := g = "g", mtime := base - U * age })))
      else none
    | _, _, _ => none
  | [v, h, g, a, t] =>
    match v.toNat?, parseHash h, a.toNat?, (if t.startsWith "T" then parseInt (t.drop 1).toString else none) with
    | some vi, some hi, some age, some rem =>
      if vi < vs.length ∧ (g = "g" ∨ g = "c") ∧ age ≥ 1 then
        let dl := ((base : Int) + (U : Int) * rem - (U / 2 : Nat)).toNat
        some (setVol vs vi (fun vol => { vol with
          trash := trashInsert vol.trash { hash := hi, deadline := dl, file := { good := g = "g", mtime := base - U * age } } }))
      else none
    | _, _, _, _ => none
  | _ => none

def storedMtime (s : St) (vi hi : Nat) : Nat :=
  match s.vols.find? (fun v => v.id = vi) with
  | some v => match v.blocks hi with | some f => f.mtime | none => 0
  | none => 0

/-- one trash-list entry `<h> <mref> <mount>`; the mtime reference is resolved like the Go driver does: from
the file as it is just before the request -/
def parseItem (s : St) (h mref mount : String) : Option Queue.Item :=
  match parseHash h with
  | none => none
  | some hi =>
    let plus := mref.endsWith "+"
    let m := if plus then (mref.dropEnd 1).toString else mref
    let req : Option Nat :=
      if m = "v0" ∨ m = "v1" then
        let st := storedMtime s (if m = "v0" then 0 else 1) hi
        some (if plus ∧ st ≠ 0 then st + U / 2 else st)
      else if m.startsWith "a" then (m.drop 1).toString.toNat?.map (fun k => s.now - U * k - U / 2)
      else none
    let mnt : Option (Option Nat) :=
      if mount = "-" then some none else if mount = "0" then some (some 0)
      else if mount = "1" then some (some 1) else if mount = "x" then some (some 99) else none
    match req, mnt with
    | some r, some mt => some { hash := hi, mtime := r, mount := mt }
    | _, _ => none

/-- `tl:<h>/<mref>/<mount>&...`: one PUT /trash with several entries -/
def parseList (s : St) (arg : String) : Option (List Queue.Item) :=
  (arg.splitOn "&").mapM fun it =>
    match it.splitOn "/" with
    | [h, mref, mount] => parseItem s h mref mount
    | _ => none

/-- a submitted trash list goes through the work queue and ONE trash worker (`Model/C04_Queue.lean`):
ReplaceQueue, then take + TrashItem + done for each entry in order, all before the next request -/
def runTrashList (c : Cfg) (s : St) (items : List Queue.Item) : St :=
  (Queue.srun c s { todo := [], busy := [] }
    (Queue.Ev.putTrash items :: items.flatMap (fun _ => [Queue.Ev.take, Queue.Ev.exec 0]))).1

/-- parse one op against the current state (the `ti` mtime reference is resolved like the Go driver
does: from the file as it is just before the request) -/
def parseOp (s : St) (op : String) : Option (Op × Bool) :=
  match op.splitOn ":" with
  | ["tick", d] => d.toNat?.map (fun n => (Op.tick (U * n), false))
  | ["empty"] => some (.emptyTrash, true)
  | [k, h] =>
    match parseHash h with
    | none => none
    | some hi =>
      if k = "put" then some (.put hi true, true)
      else if k = "putbad" then some (.put hi false, true)
      else if k = "touch" then some (.touch hi, true)
      else if k = "utouch" then some (.unauth 1, true)
      else if k = "get" then some (.get hi, true)
      else if k = "del" ∨ k = "ndel" ∨ k = "odel" then some (.delete hi, true)
      else if k = "udel" then some (.unauth 0, true)
      else if k = "untrash" then some (.untrash hi, true)
      else if k = "uuntrash" then some (.unauth 1, true)
      else none
  | ["ti", h, mref, mount] => (parseItem s h mref mount).map fun x => (x.op, true)
  | _ => none

def showRes : Res → String
  | .code n => toString n
  | .deleted a b => s!"200:{a}.{b}"
  | .quiet => "-"

def sortStrings (l : List String) : List String := (l.toArray.qsort (· < ·)).toList

def listing (s : St) : String :=
  let hs := List.range 8
  let vols := s.vols.map fun v =>
    let bl := hs.filterMap fun h => (v.blocks h).map fun f =>
      s!"h{h}:{if f.good then "g" else "c"}:{(s.now - f.mtime + U / 4) / U}"
    let tr := v.trash.map fun e =>
      let rem : Int := ((e.deadline : Int) - (s.now : Int) + (3 * U / 4 : Nat)).fdiv U
      s!"h{e.hash}.T{rem}:{if e.file.good then "g" else "c"}:{(s.now - e.file.mtime + U / 4) / U}"
    let all := sortStrings (bl ++ tr)
    if all.isEmpty then "-" else ",".intercalate all
  "/".intercalate vols

/-- ndel / odel: the Go driver first gives every copy of the hash an age one tick (half a second)
below / above the TTL, then sends the DELETE -/
def restamp (s : St) (hi : Nat) (m : Nat) : St :=
  { s with vols := s.vols.map (fun v =>
      match v.blocks hi with
      | some f => v.setBlock hi (some { good := f.good, mtime := m })
      | none => v) }

def prestamp (c : Cfg) (s : St) (o : String) : St :=
  match o.splitOn ":" with
  | [k, h] =>
    match parseHash h with
    | some hi =>
      if k = "ndel" then restamp s hi (s.now - c.ttl + 1)
      else if k = "odel" then restamp s hi (s.now - c.ttl - 1)
      else s
    | none => s
  | _ => s

partial def runOps (c : Cfg) (s : St) (ops : List String) (acc snaps : List String) :
    Option (List String × List String) :=
  match ops with
  | [] => some (acc.reverse, snaps.reverse)
  | o :: rest =>
    match o.splitOn ":" with
    | ["tl", arg] =>
      match parseList s arg with
      | none => none
      | some items =>
        let s1 := runTrashList c s items
        let s2 := (step c s1 (.tick U)).1
        runOps c s2 rest ("200" :: acc) (listing s1 :: snaps)
    | _ =>
    match parseOp s o with
    | none => none
    | some (op, auto) =>
      let s := prestamp c s o
      -- `ti` goes through PUT /trash (which always answers 200), the work queue and the trash worker
      let (s1, shown) := match op with
        | .trashItem h m mt => (runTrashList c s [{ hash := h, mtime := m, mount := mt }], "200")
        | _ => let (s1, r) := step c s op; (s1, showRes r)
      let s2 := if auto then (step c s1 (.tick U)).1 else s1
      runOps c s2 rest (shown :: acc) (listing s1 :: snaps)

def hist (f : List String) : String :=
  match f with
  | [_, ttl, life, bt, conc, vols, ini, ops] =>
    match ttl.toNat?, life.toNat?, conc.toNat? with
    | some ttl, some life, some conc =>
      if bt ≠ "0" ∧ bt ≠ "1" then "bad-op" else
      let vl := vols.splitOn ","
      if vl.length < 1 ∨ vl.length > 2 then "bad-op" else
      match (vl.zipIdx.mapM fun (v, i) => parseVol i v) with
      | none => "bad-op"
      | some vs =>
        let planted : Option (List Vol) :=
          if ini = "-" then some vs else (ini.splitOn ",").foldlM plant vs
        match planted with
        | none => "bad-op"
        | some vs =>
          let c : Cfg := { ttl := U * ttl, life := U * life, blobTrash := bt = "1", conc := conc, res := 1, spread := 1 }
          let s0 : St := { vols := vs, now := base, rr := 0 }
          match runOps c s0 (if ops = "-" then [] else ops.splitOn ";") [] [listing s0] with
          | none => "bad-op"
          | some (rs, snaps) =>
            "res=" ++ (if rs.isEmpty then "-" else ",".intercalate rs) ++ " dirs=" ++ "|".intercalate snaps
    | _, _, _ => "bad-op"
  | _ => "bad-op"

/-- link between the layers, executable: the outcome of the two SEQUENTIAL histories [P, T] and [T, P] in
the HISTORY model (`Model/C04_Compose.lean`, at the times the Go driver uses), printed in the format of a
race result. `C04_race_linearizable` proves that the interleaving model always ends like one of them; the
plugin checks that the real implementation's outcome is one of them. -/
def seqOutcome (c : Race.Cfg) (pFirst : Bool) : String :=
  let τ := Compose.drvTimes c
  let hc := Compose.hCfg c τ
  let s0 := Compose.hSt c τ
  let (s2, rp, rt) :=
    if pFirst then
      let r1 := C04.step hc s0 (Compose.hP c)
      let r2 := C04.step hc r1.1 (Compose.hT c τ)
      (r2.1, r1.2, r2.2)
    else
      let r1 := C04.step hc s0 (Compose.hT c τ)
      let r2 := C04.step hc r1.1 (Compose.hP c)
      (r2.1, r2.2, r1.2)
  let g := (C04.step hc s2 (.get 0)).2
  s!"P={showRes rp};T={showRes rt};get={showRes g};dir={listing s2}"

open ArvVerif.C04.Race in
def race (f : List String) : String :=
  match f with
  | [_, ser, life, pre, age, pop, top, sched] =>
    let b (s : String) : Option Bool := if s = "0" then some false else if s = "1" then some true else none
    let pre? : Option Pre := if pre = "a" then some .absent else if pre = "g" then some .good else if pre = "c" then some .corrupt else none
    let age? : Option Bool := if age = "o" then some true else if age = "f" then some false else none
    let pop? : Option POp := if pop = "touch" then some .touch else if pop = "put" then some .put else none
    let top? : Option TOp := if top = "del" then some .del else if top = "ti" then some .ti
      else if top = "untrash" then some .untrash else none
    let sch? : Option (List Bool) := sched.toList.mapM fun ch => if ch = 'P' then some true else if ch = 'T' then some false else none
    match b ser, b life, pre?, age?, pop?, top?, sch? with
    | some ser, some life, some pre, some ageOld, some pop, some top, some sch =>
      let cfg : Race.Cfg := { serialize := ser, life0 := !life, pre := pre, ageOld := ageOld, pop := pop, top := top }
      let full := sch ++ (List.replicate 30 [true, false]).flatten
      let (s, tr) := runE full (init cfg) []
      if s.pcP ≠ .done ∨ s.pcT ≠ .done then "error threads_did_not_finish" else
      let pr := match s.resP with | .okTouch | .okWrite => "200" | .notFound => "404" | .none => "?"
      let tres := match top with
        | .ti => "-"
        | .del => match s.resT with
          | .notFound => "404" | .kept | .trashed => "200:1.0" | .failed => "200:0.1" | _ => "?"
        | .untrash => match s.resT with | .restored => "200" | .notFound => "404" | _ => "?"
      let get := match s.blk with
        | some i => if s.good i then "200" else "500"
        | none => "404"
      let ageA := if s.aTouched then "0" else if ageOld then "20" else "1"
      let ent (i : Ino) (l : Loc) : List String :=
        let g := if s.good i then "g" else "c"
        let a := match i with | .a => ageA | .b => "0" | .x => if s.xTouched then "0" else "30"
        let rem := match i with | .x => "3" | _ => "5"
        match l with
        | .blk => [s!"h0:{g}:{a}"]
        | .trash => [s!"h0.T{rem}:{g}:{a}"]
        | .tmp => ["?tmp"]
        | _ => []
      let all := C04Drv.sortStrings (ent .a s.locA ++ ent .b s.locB ++ ent .x s.locX)
      let dir := if all.isEmpty then "-" else ",".intercalate all
      s!"P={pr} T={tres} get={get} dir={dir} trace={if tr.isEmpty then "-" else ",".intercalate tr} seq={seqOutcome cfg true}|{seqOutcome cfg false}"
    | _, _, _, _, _, _, _ => "bad-op"
  | _ => "bad-op"

def step (line : String) : String :=
  let f := fields line
  match f.head? with
  | some "hist" => hist f
  | some "race" => race f
  | _ => "bad-op"

end C04Drv

def main : IO Unit := lineLoop C04Drv.step
