/-
Model driver for C01. Line protocol (see harness/overlay/services/keepstore/zz_verif_c01_test.go):
  c01 <vols> <reqs>
  vols := vol ('/' vol)*            vol := flags ':' repl ':' files [':' faults]    flags: w|r|wf|rf
  faults := fault (',' fault)*      fault := ('i'|'d'|'n'|'l') <hash32>   I/O faults of block paths (PUT path):
       i = the planted file is immutable (Touch and replacing it fail), d = a directory sits at the block path
       (nothing to read, rename onto it fails), n = a regular file sits where the block directory should be
       (nothing to read, MkdirAll fails, for every hash with that 3-digit prefix), l = the block directory is
       immutable (TempFile fails for every hash with that prefix; existing files are read and touched as usual)
  files := '-' | file (',' file)*   file := <hash32> '=' content
  content := 'x' hex* | 's' md5 '.' len '.' gen      (gen is only for the Go side)
  reqs := req (';' req)*            req := 'G:' hash [':' hint] | 'H:' hash | 'P:' hash ':' content [':nocl']
                                         | 'Gb:' hash | 'Pb:' hash ':' content   (no pool buffer, client gone)
                                         | 'Ps:' hash ':' content                (body one byte short of Content-Length)
                                         | 'X:' volidx ':' hash ':' content ':' ('k'|'n')   (not a request: the file under
                                              the block path of hash on that volume now holds content; k = size-and-
                                              timestamp-preserving where possible, n = new timestamp — no difference
                                              for the model, which keeps no memory of earlier reads)
Output per request (joined by ';'):
  G/H: <status>,<content-length|->,<body length|->,<body md5|->
  P:   <status>,<replicas|->,<fresh GET status>.<len>.<md5> | -
  then '|' and the listing of every volume (joined by '/'; files sorted by name, joined by ',',
  <name>=<size>.<md5>; '-' if empty).
Literal contents are hashed with the executable MD5 of Base/MD5.lean; symbolic contents (64 MiB
cases) come with digest and length computed by the generator and checked by the Go driver.
-/
import ArvVerif.Base.MD5
import ArvVerif.Base.Loop
import ArvVerif.Model.C01
import ArvVerif.Model.C01_History
import ArvVerif.Model.C01_Fault
open ArvVerif ArvVerif.C01

structure Content where
  md5 : String
  len : Nat
  raw : String
deriving DecidableEq

abbrev V := Vol String Content
abbrev FV := FVol String Content

def cHash (c : Content) : String := c.md5
def cSize (c : Content) : Nat := c.len

def parseContent (s : String) : Option Content :=
  match s.toList with
  | 'x' :: rest =>
    let hx := String.ofList rest
    match bytesOfHex? hx with
    | some bs => some { md5 := MD5.hex bs, len := bs.size, raw := hx }
    | none => none
  | 's' :: rest =>
    match (String.ofList rest).splitOn "." with
    | [m, l, _gen] =>
      if m.length != 32 then none else
      match l.toNat? with
      | some n => some { md5 := m, len := n, raw := "" }
      | none => none
    | _ => none
  | _ => none

def isHash (s : String) : Bool :=
  s.length == 32 && s.toList.all (fun c => ('0' ≤ c && c ≤ '9') || ('a' ≤ c && c ≤ 'f'))

def parseFiles (s : String) : Option (List (String × Content)) :=
  if s == "-" then some [] else
  (s.splitOn ",").mapM (fun f =>
    match f.splitOn "=" with
    | [h, c] => if h.length != 32 then none else (parseContent c).map (fun c => (h, c))
    | _ => none)

def filesOf (ps : List (String × Content)) : String → Option Content :=
  -- a later entry for the same hash overwrites an earlier one (as the Go driver's WriteFile does)
  fun k => (ps.reverse.find? (fun p => p.1 == k)).map (·.2)

def prefix3 (h : String) : String := String.ofList (h.toList.take 3)

/-- the faults field: list of (kind, hash) -/
def parseFaults (s : String) : Option (List (Char × String)) :=
  (s.splitOn ",").mapM (fun f =>
    match f.toList with
    | k :: rest =>
      let h := String.ofList rest
      if (k == 'i' || k == 'd' || k == 'n' || k == 'l') && isHash h then some (k, h) else none
    | [] => none)

/-- the same checks as the Go driver: fault hashes distinct; i needs its file, d and n must not have one;
n must be alone on its prefix -/
def faultsValid (files : List String) (fs : List (Char × String)) : Bool :=
  let hs := fs.map (·.2)
  hs.eraseDups.length == hs.length &&
  fs.all (fun (k, h) =>
    if k == 'i' then files.contains h
    else if k == 'd' then !files.contains h
    else if k == 'n' then
      !(files.any (fun f => prefix3 f == prefix3 h)) &&
      !(fs.any (fun (k', h') => h' != h && prefix3 h' == prefix3 h))
    else true)

def mkFV (v : V) (fs : List (Char × String)) : FV :=
  { vol := v
    noTouch := fun h => fs.any (fun (k, h') => k == 'i' && h' == h)
    noWrite := fun h => fs.any (fun (k, h') =>
      ((k == 'i' || k == 'd') && h' == h) || ((k == 'n' || k == 'l') && prefix3 h' == prefix3 h)) }

def parseVol (s : String) : Option (FV × List String × Bool) :=
  let parts := s.splitOn ":"
  match parts with
  | fl :: r :: fs :: more =>
    let flags : Option (Bool × Bool) :=
      if fl == "w" then some (false, false) else if fl == "r" then some (true, false)
      else if fl == "wf" then some (false, true) else if fl == "rf" then some (true, true) else none
    let faults : Option (List (Char × String)) :=
      match more with
      | [] => some []
      | [f] => parseFaults f
      | _ => none
    match flags, r.toNat?, parseFiles fs, faults with
    | some (ro, full), some repl, some ps, some fts =>
      if !faultsValid (ps.map (·.1)) fts then none else
      some (mkFV { ro := ro, full := full, repl := repl, files := filesOf ps } fts, ps.map (·.1), !fts.isEmpty)
    | _, _, _, _ => none
  | _ => none

inductive Req where
  | get (h : String)
  | head (h : String)
  | put (h : String) (c : Content) (clKnown : Bool)
  | getStarved (h : String)
  | putStarved (h : String) (c : Content)
  | putShort (h : String) (c : Content)
  | fault (i : Nat) (h : String) (c : Content)

def parseReq (s : String) : Option Req :=
  match s.splitOn ":" with
  | ["G", h] => if h.length == 32 then some (.get h) else none
  | ["G", h, _hint] => if h.length == 32 then some (.get h) else none
  | ["H", h] => if h.length == 32 then some (.head h) else none
  | ["P", h, c] => if h.length == 32 then (parseContent c).map (fun c => .put h c true) else none
  | ["Gb", h] => if h.length == 32 then some (.getStarved h) else none
  | ["Pb", h, c] => if h.length == 32 then (parseContent c).map (fun c => .putStarved h c) else none
  | ["Ps", h, c] => if h.length == 32 then (parseContent c).map (fun c => .putShort h c) else none
  | ["X", i, h, c, m] =>
    if h.length == 32 && (m == "k" || m == "n") then
      match i.toNat?, parseContent c with
      | some i, some c => some (.fault i h c)
      | _, _ => none
    else none
  | ["P", h, c, "nocl"] => if h.length == 32 then (parseContent c).map (fun c => .put h c false) else none
  | _ => none

def reqHash : Req → String
  | .get h => h
  | .head h => h
  | .put h _ _ => h
  | .getStarved h => h
  | .putStarved h _ => h
  | .putShort h _ => h
  | .fault _ h _ => h

def dedupSorted (ks : List String) : List String :=
  let sorted := (ks.toArray.qsort (· < ·)).toList
  sorted.foldr (fun k acc => match acc with
    | k' :: _ => if k == k' then acc else k :: acc
    | [] => [k]) []

def listingV (keys : List String) (vols : List V) : String :=
  "/".intercalate (vols.map (fun v =>
    let ents := keys.filterMap (fun k => (v.files k).map (fun c => s!"{k}={c.len}.{c.md5}"))
    if ents.isEmpty then "-" else ",".intercalate ents))

def listing (keys : List String) (vols : List FV) : String := listingV keys (vols.map (·.vol))

/-- put changed mount contents back under their fault flags -/
def rewrap (fvols : List FV) (vols : List V) : List FV :=
  List.zipWith (fun fv v => { fv with vol := v }) fvols vols

def emptyMD5 : String := "d41d8cd98f00b204e9800998ecf8427e"

def showGet (r : GetResp Content) (isHead : Bool) : String :=
  if r.status == 200 then
    match r.contentLength with
    | some cl =>
      match r.body with
      | some b => s!"200,{cl},{b.len},{b.md5}"
      | none => if isHead then s!"200,{cl},0,{emptyMD5}" else s!"200,{cl},-,-"
    | none => "200,-,-,-"
  else s!"{r.status},-,-,-"

def showPut (resp : PutResp) (vols' : List V) (h : String) : String :=
  let repl := match resp.replicas with | some n => toString n | none => "-"
  let fg :=
    if resp.status == 200 then
      -- a fresh router over the same directories
      let g := handleGet cHash cSize vols' h
      match g.body with
      | some b => s!"{g.status}.{b.len}.{b.md5}"
      | none => s!"{g.status}.-.-"
    else "-"
  s!"{resp.status},{repl},{fg}"

def runReqs (keys : List String) (faulty : List Bool) : List Req → List FV → Nat → List String → List String
  | [], _, _, acc => acc.reverse
  | r :: rest, fvols, rr, acc =>
    let vols := fvols.map (·.vol)
    match r with
    | .get h =>
      match stepEvent cHash cSize vols rr (.get h) with
      | (.get g, _, rr') => runReqs keys faulty rest fvols rr' ((showGet g false ++ "|" ++ listing keys fvols) :: acc)
      | _ => ["bad-op"]
    | .head h =>
      match stepEvent cHash cSize vols rr (.head h) with
      | (.head g, _, rr') => runReqs keys faulty rest fvols rr' ((showGet g true ++ "|" ++ listing keys fvols) :: acc)
      | _ => ["bad-op"]
    | .fault i h c =>
      -- the bytes of a mount with I/O faults are not changed behind the server's back (the Go driver
      -- could not write there either)
      if i ≥ vols.length || faulty.getD i true then ["bad-op"] else
      match stepEvent cHash cSize vols rr (.fault i h c) with
      | (.fault, vols', rr') =>
        let fvols' := rewrap fvols vols'
        runReqs keys faulty rest fvols' rr' (("X|" ++ listing keys fvols') :: acc)
      | _ => ["bad-op"]
    | .getStarved h =>
      let out := showGet (handleGetEnv cHash cSize { bufOk := false, goneAfter := none } vols h) false
      runReqs keys faulty rest fvols rr ((out ++ "|" ++ listing keys fvols) :: acc)
    | .putStarved h c =>
      -- answered before PutBlock is reached: nothing changes (C01_put_env_nobuf_shortbody)
      let (resp, vols', rr') :=
        handlePutEnv cHash cSize { bufOk := false, bodyOk := true, gone := .never } vols rr h c true
      let fvols' := rewrap fvols vols'
      runReqs keys faulty rest fvols' rr' ((showPut resp vols' h ++ "|" ++ listing keys fvols') :: acc)
    | .putShort h c =>
      -- the declared Content-Length (what the 413 test looks at) is one more than the body has
      let (resp, vols', rr') :=
        handlePutEnv cHash cSize { bufOk := true, bodyOk := false, gone := .never } vols rr h
          { c with len := c.len + 1 } true
      let fvols' := rewrap fvols vols'
      runReqs keys faulty rest fvols' rr' ((showPut resp vols' h ++ "|" ++ listing keys fvols') :: acc)
    | .put h c clKnown =>
      -- PUT over mounts with I/O faults (= handlePut without faults: C01_fault_calm)
      let (resp, fvols', rr') := handlePutF cHash cSize fvols rr h c clKnown
      runReqs keys faulty rest fvols' rr' ((showPut resp (fvols'.map (·.vol)) h ++ "|" ++ listing keys fvols') :: acc)

/-! unit-level ops: the byte loops of collision.go and pipe_adapters.go -/

def md5Bytes (b : C01.Bytes) : String := MD5.hex (ByteArray.mk b.toArray)

def parseChunks (s : String) : Option (List C01.Bytes) :=
  if s == "-" then some [] else
  (s.splitOn ",").mapM (fun c =>
    if c == "e" then some [] else
    match bytesOfHex? c with
    | some b => if b.size == 0 then none else some b.toList
    | none => none)

def showCmp : CmpResult → String
  | .same => "nil"
  | .collision => "collision"
  | .corrupt => "corrupt"
  | _ => "err"

def stepCmp (h expect chunks eof : String) : String :=
  if h.length != 32 || (eof != "sep" && eof != "last") then "bad-op" else
  let ex : Option C01.Bytes :=
    if expect == "-" then some [] else
    match bytesOfHex? expect with
    | some b => if b.size == 0 then none else some b.toList
    | none => none
  match ex, parseChunks chunks with
  | some e, some cs => showCmp (compareReaderWithBuf md5Bytes h e e cs)
  | _, _ => "bad-op"

def stepGwp (n chunks wend : String) : String :=
  let we : Option PipeEnd :=
    if wend == "ok" then some .ok else if wend == "ueof" then some .unexpectedEOF
    else if wend == "notexist" then some .notExist else if wend == "other" then some .other else none
  match n.toNat?, parseChunks chunks, we with
  | some bufLen, some cs, some w =>
    if bufLen > 1048576 then "bad-op" else
    let (data, err) := getWithPipeBytes bufLen cs.flatten w
    let cls := match err with | .none => "nil" | .notExist => "notexist" | .other => "other"
    s!"{data.length},{md5Bytes data},{cls}"
  | _, _, _ => "bad-op"

def step (line : String) : String :=
  match fields line with
  | ["c01cmp", h, expect, chunks, eof] => stepCmp h expect chunks eof
  | ["c01gwp", n, chunks, wend] => stepGwp n chunks wend
  | ["c01", vs, rs] =>
    match (vs.splitOn "/").mapM parseVol, (rs.splitOn ";").mapM parseReq with
    | some vols, some reqs =>
      if vols.length < 1 || vols.length > 3 then "bad-op" else
      let keys := dedupSorted ((vols.map (·.2.1)).flatten ++ reqs.map reqHash)
      ";".intercalate (runReqs keys (vols.map (·.2.2)) reqs (vols.map (·.1)) 0 [])
    | _, _ => "bad-op"
  | _ => "bad-op"

def main : IO Unit := lineLoop step
