/-
Model driver for C09. Line protocol (the Go driver harness/overlay/sdk/go/arvados/zz_verif_c09_test.go
documents the case and result format; this driver prints the same line, except that the result of a
save carries a determinacy mark after the `m`):

  fs9 <maxBlockSize> <concurrentWriters> <manifest text, hex|-> <blocks, hex,hex,..|-> <op;op;...|->

  m=  the implementation must print exactly this (text, counters, listings, store)
  m~  a Keep write failed while other writes of the same save were in flight: which of the other
      blocks were committed depends on goroutine timing, so from here on only status class and the
      content listings are comparable (the manifest text and the store are compared modulo block packing)
  m?  as m~, and a failure script is still active: not even the status is determined
`hflush` (a background flush whose Keep writes stay in flight while further ops run, until `release`)
also starts the m~ regime.
After the mark of a successful save comes 1/0: whether the text satisfies the Lean grammar predicate
`ValidManifest9` (the plugin cross-checks it against its own, independently written, grammar check).
-/
import ArvVerif.Base.MD5
import ArvVerif.Base.Loop
import ArvVerif.Model.C09_Glue
import ArvVerif.Model.C09_Spec
import ArvVerif.Model.C09_Conc
open ArvVerif ArvVerif.C09
open ArvVerif.C08 (Seg FileNode Ptr Flush Store Node Err Op Res)

def md5Hex (b : Bytes) : String := MD5.hex (ByteArray.mk b.toArray)

def md5Loc (b : Bytes) : C08.Loc := (md5Hex b ++ "+" ++ toString b.length).toUTF8.toList

def errName : Err → String
  | Err.ok => "ok" | Err.eof => "eof" | Err.noent => "noent" | Err.exist => "exist"
  | Err.inval => "inval" | Err.invalop => "invalop" | Err.notempty => "notempty"
  | Err.isdir => "isdir" | Err.notdir => "notdir" | Err.rofile => "rofile" | Err.wronly => "wronly"
  | Err.negoff => "negoff" | Err.syncflag => "syncflag" | Err.badflag => "badflag"
  | Err.io => "other" | Err.panic => "panic" | Err.hang => "hang"

def sortStrings (l : List String) : List String := (l.toArray.qsort (· < ·)).toList

def joinOr (sep : String) (xs : List String) : String := if xs.isEmpty then "-" else sep.intercalate xs

def resStr : Res → String
  | Res.err e => errName e
  | Res.wrote n e => toString n ++ "," ++ errName e
  | Res.data d e => hexOfBytes d ++ "," ++ errName e
  | Res.pos p e => toString p ++ "," ++ errName e
  | Res.info n d sz => n ++ ":" ++ (if d then "d" else "f") ++ ":" ++ toString sz
  | Res.listing _ => "listing"
  | Res.badOp => "nohandle"

def parseHex (s : String) : Option Bytes := (bytesOfHex? s).map (·.toList)

def pathOf? (s : String) : Option String :=
  if s == "@" then some "" else (parseHex s).map bytesName

def parseFlags (s : String) : Option (Nat × Bool × Bool × Bool × Bool × Bool × Bool) :=
  match s.toList with
  | [] => none
  | c :: rest =>
    let acc : Option Nat :=
      if c == 'R' then some 0 else if c == 'W' then some 1 else if c == 'B' then some 2
      else if c == 'N' then some 3 else none
    match acc with
    | none => none
    | some a =>
      if rest.all (fun c => "acxtsd".toList.contains c) then
        some (a, rest.contains 'a', rest.contains 'c', rest.contains 'x', rest.contains 't',
              rest.contains 's', rest.contains 'd')
      else none

inductive Op9
  | shapes
  | fs (op : Op)
  | flush (op : Op)
  | hflush (op : Op)
  | release
  | marshal
  | sync
  | hmarshal (script : List Outcome) (dflt : Outcome)
  | keep (script : List Outcome) (dflt : Outcome)

def parseScript (s : String) : Option (List Outcome × Outcome) :=
  if s == "ok" then some ([], Outcome.ok)
  else if s == "fail" then some ([], Outcome.fail)
  else match s.toList with
    | 'k' :: rest =>
      (match (String.ofList rest).toNat? with
       | some 0 => none
       | some n => some (List.replicate (n - 1) Outcome.ok ++ [Outcome.fail], Outcome.ok)
       | none => none)
    | 'b' :: rest =>
      if rest.all (fun c => c == '0' || c == '1') then
        some (rest.map (fun c => if c == '1' then Outcome.fail else Outcome.ok), Outcome.ok)
      else none
    | _ => none

def parseOp (s : String) : Option Op9 :=
  match s.splitOn "," with
  | ["open", h, path, flags] =>
    match h.toNat?, pathOf? path, parseFlags flags with
    | some h, some p, some (a, ap, c, x, t, sy, d) => some (Op9.fs (Op.openF h p a ap c x t sy d))
    | _, _, _ => none
  | ["create", h, path] =>
    match h.toNat?, pathOf? path with
    | some h, some p => some (Op9.fs (Op.create h p))
    | _, _ => none
  | ["write", h, hex] =>
    match h.toNat?, parseHex hex with
    | some h, some d => some (Op9.fs (Op.write h d))
    | _, _ => none
  | ["readn", h, n] =>
    match h.toNat?, n.toNat? with
    | some h, some n => some (Op9.fs (Op.readn h n))
    | _, _ => none
  | ["seek", h, off, wh] =>
    match h.toNat?, off.toInt?, wh.toNat? with
    | some h, some o, some w => some (Op9.fs (Op.seek h o w))
    | _, _, _ => none
  | ["trunc", h, n] =>
    match h.toNat?, n.toNat? with
    | some h, some n => some (Op9.fs (Op.trunc h n))
    | _, _ => none
  | ["close", h] => h.toNat?.map (fun h => Op9.fs (Op.close h))
  | ["mkdir", p] => (pathOf? p).map (fun p => Op9.fs (Op.mkdir p))
  | ["rename", a, b] =>
    match pathOf? a, pathOf? b with
    | some a, some b => some (Op9.fs (Op.rename a b))
    | _, _ => none
  | ["remove", p] => (pathOf? p).map (fun p => Op9.fs (Op.remove p))
  | ["removeall", p] => (pathOf? p).map (fun p => Op9.fs (Op.removeAll p))
  | ["flush", p, b] => (pathOf? p).map (fun p => Op9.flush (Op.flush p (b == "1")))
  | ["shapes"] => some Op9.shapes
  | ["hflush", p, b] => (pathOf? p).map (fun p => Op9.hflush (Op.flush p (b == "1")))
  | ["release"] => some Op9.release
  | ["marshal"] => some Op9.marshal
  | ["sync"] => some Op9.sync
  | ["hmarshal", sc] => (parseScript sc).map (fun r => Op9.hmarshal r.1 r.2)
  | ["keep", sc] => (parseScript sc).map (fun r => Op9.keep r.1 r.2)
  | _ => none

def segShape : Seg → String
  | Seg.mem buf fl => "m" ++ toString buf.length ++ (if fl = Flush.none then "" else "!")
  | Seg.stored loc size off l =>
    "s" ++ toString l ++ "." ++ toString off ++ "." ++ toString size ++ "." ++ String.ofList ((loc.take 8).map (fun b => Char.ofNat b.toNat))

def fileShape (fn : FileNode) : String :=
  "Z" ++ toString fn.size ++ "/" ++ "+".intercalate (fn.segs.map segShape)

def hexPath (p : List Bytes) : String := hexOfBytes (C10.joinWith C10.bSlash p)

def entryStr (e : List Bytes × Entry) : String :=
  match e.2 with
  | Entry.dir => "d." ++ hexPath e.1
  | Entry.file (some c) => "f." ++ hexPath e.1 ++ "." ++ toString c.length ++ "." ++ ((md5Hex c).take 12).toString
  | Entry.file none => "f." ++ hexPath e.1 ++ ".E"

def listingStr (l : List (List Bytes × Entry)) : String := joinOr "," (sortStrings (l.map entryStr))

def storeStr (init : List Bytes) (k : Keep) : String :=
  joinOr "," (sortStrings ((init ++ k.acked).map (fun b => ((md5Hex b).take 12).toString ++ "+" ++ toString b.length)).eraseDups)

/-- the initial Keep: the blocks of the case, looked up by the 32 digest characters of a locator
(as the Go stub does), so that locators with hints resolve too -/
def initStore (blocks : List Bytes) : Store :=
  let tbl := blocks.map (fun b => ((md5Hex b).toUTF8.toList, b))
  fun loc => (tbl.find? (fun e => e.1 == loc.take 32)).map (·.2)

/-- `racy`: a timing-dependent event has happened (block packing of model and implementation may
differ from here on). `dirty`: in that regime, the implementation's failure script may still hold a
failure (the model's own script position is then no guide: a cancelled save consumes anything between
"up to the first failure" and "one entry per block group"). -/
structure DState where
  s : FS9
  racy : Bool
  dirty : Bool

def scriptClean (k : Keep) : Bool := k.script.all (· == Outcome.ok) && k.dflt == Outcome.ok

/-- the script after the shortest possible consumption by a failing synchronous save: up to and
including the first failure -/
def afterFirstFail (k : Keep) : Keep :=
  { k with script := (k.script.dropWhile (· == Outcome.ok)).drop 1 }

def saveStr (init : List Bytes) (flag : String) (s : FS9) (res : MRes) (calls fails : Nat) : String :=
  let status := match res with
    | MRes.ok txt => "ok." ++ (if txt.isEmpty then "-" else hexOfBytes txt)
    | MRes.err => "err"
    | MRes.panic => "panic"
  let rl := match res with
    | MRes.ok txt =>
      (match reload s.world.store txt with
       | some l => listingStr l
       | none => "E")
    | _ => "x"
  let valid := match res with
    | MRes.ok txt => if decide (ValidManifest9 txt) then "1" else "0"
    | _ => ""
  "m" ++ flag ++ valid ++ ":" ++ status ++ ":" ++ toString calls ++ "." ++ toString fails ++ ":" ++ listingStr (listFS s) ++ ":" ++ rl ++ ":" ++ storeStr init s.world

/-- every save: the list the model marshals must be closed, clash-free, with distinct proper names (the
structural hypotheses of the C09 theorems, decided by `shapeOK`); `glue` never agrees with the implementation -/
def guardShape (s : FS9) (str : String) : String := if shapeOK (treeOf s) then str else "glue"

def runOps (max : Nat) (init : List Bytes) : DState → List Op9 → List String → List String
  | _, [], acc => acc.reverse
  | st, op :: ops, acc =>
    match op with
    | Op9.fs o =>
      let (s', r) := C08.step (implK md5Loc max) st.s o
      runOps max init { st with s := s' } ops (resStr r :: acc)
    | Op9.flush o =>
      let (s', r) := C08.step (implK md5Loc max) st.s o
      let n := s'.world.calls - st.s.world.calls
      let f := s'.world.fails - st.s.world.fails
      let event := 0 < f && f < n
      runOps max init { s := s', racy := st.racy || event,
                        dirty := if st.racy then st.dirty else !scriptClean s'.world } ops (resStr r :: acc)
    | Op9.shapes =>
      let l := (project st.s).flatMap (fun d => d.1.files.map (fun f => hexPath (d.1.path ++ [f.1]) ++ "=" ++ fileShape f.2))
      runOps max init st ops (("s" ++ (if st.racy then "~" else "=") ++ ":" ++ joinOr "|" (sortStrings l) ++ ":" ++ storeStr init st.s.world) :: acc)
    | Op9.hflush o =>
      -- Keep writes held in flight while further ops run: which segments the background goroutines
      -- still replace when the writes return is timing the model does not follow; contents do not
      -- depend on it, so from here on saves are compared modulo block packing
      let (s', r) := C08.step (implK md5Loc max) st.s o
      runOps max init { s := s', racy := true, dirty := if st.racy then st.dirty else !scriptClean s'.world } ops (resStr r :: acc)
    | Op9.release => runOps max init st ops ("ok" :: acc)
    | Op9.keep sc d =>
      let s' := { st.s with world := { st.s.world with script := sc, dflt := d } }
      runOps max init { st with s := s', dirty := !scriptClean s'.world } ops ("ok" :: acc)
    | Op9.marshal | Op9.sync =>
      let (s', res) := marshalFS md5Loc max st.s
      let n := s'.world.calls - st.s.world.calls
      let f := s'.world.fails - st.s.world.fails
      let event := f ≥ 1 && n ≥ 2
      let flag := if !st.racy then (if event then "~" else "=") else (if st.dirty then "?" else "~")
      let dirty := if st.racy then st.dirty
                   else if event then !scriptClean (afterFirstFail st.s.world) else !scriptClean s'.world
      runOps max init { s := s', racy := st.racy || event, dirty := dirty } ops (guardShape st.s (saveStr init flag s' res n f) :: acc)
    | Op9.hmarshal sc d =>
      -- a save under its own failure script (which ends with the op) while the successful Keep writes stay in
      -- flight until the save waits for them: a save returns only after every write it started has returned
      -- (contextGroup.Wait is a barrier, tie_cgWaitSkeleton), so for the model this is a save. Which group
      -- meets which script entry is arrival order (any number of writers), hence "error iff a failure lies
      -- within the first N entries" is all that is determined when the packing is still exact.
      let w := { st.s.world with script := sc, dflt := d }
      let (s1, res) := marshalFS md5Loc max { st.s with world := w }
      let n := s1.world.calls - st.s.world.calls
      let f := s1.world.fails - st.s.world.fails
      let s' := { s1 with world := { s1.world with script := [], dflt := Outcome.ok } }
      let event := f ≥ 1 && n ≥ 2
      let flag := if !st.racy then (if event then "~" else "=") else (if scriptClean w then "~" else "?")
      runOps max init { s := s', racy := st.racy || event, dirty := false } ops (guardShape st.s (saveStr init flag s' res n f) :: acc)

def needsSerial : Op9 → Bool
  | Op9.keep sc d => !(sc.isEmpty && d == Outcome.ok)
  | _ => false

/-! ## `cg9`: the real contextGroup + throttle under a driver-imposed schedule

  cg9 <cap> <n> <bg> <ev,ev,...|->

Events: `s<i>` the flush loop calls `cg.Go` for task i; `c<i>` task i checks the context (and, not
cancelled, goes on into `Acquire`); `P` / `F` the oldest Keep write in flight is answered ok / fails
(the task then releases its slot, returns, the wrapper records the result, `done` is closed); `X` the
parent context is cancelled; `B` a background writer gives its slot back; `W` `cg.Wait()` is called
(no `Go` after it). After every event waiting tasks take free slots (lowest index first — which one
gets the slot is not observable: arrivals are numbered). At the end `Wait` is called if it was not.
Every micro-step is `Conc.step` — the model the theorems of Props/C09_Conc.lean are about.

Result: `wait=<nil|E<k>|ctx|pending>;arr=<writes that reached Keep>;skip=<ids>;drop=<ids>;late=-;fails=<n>;inuse=<slots>` -/

structure Cg9 where
  s : Conc.CS
  queue : List Nat
  arr : Nat
  fails : Nat
  waitCalled : Bool
  /-- what `Wait` returned (it returns as soon as it was called and every func handed to `Go` has finished) -/
  res : Option String

def cg9Do (cap : Nat) (s : Conc.CS) (a : Conc.Act) : Conc.CS := (Conc.step cap s a).getD s

/-- waiting tasks take the free slots -/
def cg9Settle (cap : Nat) : Nat → Cg9 → Cg9
  | 0, st => st
  | fuel + 1, st =>
    if st.s.inUse < cap then
      match st.s.pcs.findIdx? (· == Conc.PC.waiting) with
      | some i => cg9Settle cap fuel { st with s := cg9Do cap st.s (.acquire i), queue := st.queue ++ [i], arr := st.arr + 1 }
      | none => st
    else st

def cg9Event (cap n : Nat) (st : Cg9) (ev : String) : Option Cg9 :=
  let num := (ev.drop 1).toString.toNat?
  if ev == "P" || ev == "F" then
    match st.queue with
    | [] => some st
    | i :: q =>
      let b := ev == "P"
      let s1 := cg9Do cap { st.s with script := [b] } (.putb i)
      let s2 := cg9Do cap (cg9Do cap (cg9Do cap (cg9Do cap s1 (.release i)) (.ret i)) (.finish i)) (.closeDone i)
      some (cg9Settle cap n { st with s := s2, queue := q, fails := st.fails + (if b then 0 else 1) })
  else if ev == "X" then some { st with s := cg9Do cap st.s .extCancel }
  else if ev == "B" then some (cg9Settle cap n { st with s := cg9Do cap st.s .bgRelease })
  else if ev == "W" then some { st with waitCalled := true }
  else if ev.startsWith "s" then
    match num with
    | some i =>
      if i ≥ n || st.waitCalled || st.s.pcs[i]? != some Conc.PC.idle then none
      else some { st with s := cg9Do cap st.s (.spawn i) }
    | none => none
  else if ev.startsWith "c" then
    match num with
    | some i =>
      if i ≥ n then none
      else if st.s.pcs[i]? != some Conc.PC.spawned then some st
      else
        let s1 := cg9Do cap st.s (.check i)
        -- a task that found the context cancelled returns at once; the wrapper records its (context) error
        let s2 := if s1.pcs[i]? == some (Conc.PC.returned Outcome.skip true) then cg9Do cap s1 (.finish i) else s1
        some (cg9Settle cap n { st with s := s2 })
    | none => none
  else none

def cg9Ids (s : Conc.CS) (p : Conc.PC → Bool) : String :=
  joinOr "," (((List.range s.pcs.length).filter fun i => match s.pcs[i]? with | some q => p q | none => false).map toString)

def cg9Wait (st : Cg9) : Option String :=
  -- a task the flush loop never handed to `Go` is not counted by the WaitGroup
  match Conc.wait { st.s with pcs := st.s.pcs.filter (· != Conc.PC.idle) } with
  | none => none
  | some .nil => some "nil"
  | some .ctxErr => some "ctx"
  | some (.taskErr i) =>
    match st.s.pcs[i]? with
    | some (.finished Outcome.fail _) =>
      -- the error carries the arrival number of the failed write
      (match (st.s.log.reverse.map (fun (e : Nat × Bool) => e.1)).idxOf? i with
       | some k => some s!"E{k}"
       | none => some "E?")
    | _ => some "ctx"

def cg9Note (st : Cg9) : Cg9 :=
  if st.waitCalled && st.res.isNone then { st with res := cg9Wait st } else st

def cg9Result (st : Cg9) : String :=
  let st := cg9Note { st with waitCalled := true }
  let w := st.res.getD "pending"
  let isSkip : Conc.PC → Bool := fun q => match q with | .finished Outcome.skip _ => true | .returned Outcome.skip _ => true | _ => false
  s!"wait={w};arr={st.arr};skip={cg9Ids st.s isSkip};drop={cg9Ids st.s (· == Conc.PC.dropped)};late=-;fails={st.fails};inuse={st.s.inUse}"

def cg9Line (cap n bg : String) (evs : String) : String :=
  match cap.toNat?, n.toNat?, bg.toNat? with
  | some cap, some n, some bg =>
    if cap == 0 || bg > cap || n > 64 then "bad-op" else
    let evl := if evs == "-" then [] else evs.splitOn ","
    let st0 : Cg9 := ⟨Conc.init n bg [] true, [], 0, 0, false, none⟩
    match evl.foldlM (fun st ev => (cg9Event cap n st ev).map cg9Note) st0 with
    | some st => cg9Result st
    | none => "bad-op"
  | _, _, _ => "bad-op"

def stepLine (line : String) : String :=
  match fields line with
  | ["cg9", cap, n, bg, evs] => cg9Line cap n bg evs
  | ["fs9", max, cw, man, blocks, ops] =>
    match max.toNat?, cw.toNat? with
    | some max, some cw =>
      if max == 0 || cw == 0 then "bad-op" else
      let txt := if man == "-" then some [] else parseHex man
      let bs := if blocks == "-" then some [] else (blocks.splitOn ",").mapM (fun b => if b == "_" then some [] else parseHex b)
      let ops := if ops == "-" then some [] else (ops.splitOn ";").mapM parseOp
      match txt, bs, ops with
      | some txt, some bs, some ops =>
        if cw != 1 && ops.any needsSerial then "bad-op" else
        let k : Keep := ⟨initStore bs, [], [], Outcome.ok, 0, 0⟩
        -- `load=glue`: the directory list the model marshals does not hold exactly the loaded files
        -- (the hypotheses of C09_load_marshal_preserves, decided by `glueOK`); never agrees with the
        -- implementation
        (match loadFSChecked k txt with
         | none => "load=err"
         | some none => "load=glue"
         | some (some s0) => ";".intercalate ("load=ok" :: runOps max bs ⟨s0, false, false⟩ ops []))
      | _, _, _ => "bad-op"
    | _, _ => "bad-op"
  | _ => "bad-op"

def main : IO Unit := lineLoop stepLine
