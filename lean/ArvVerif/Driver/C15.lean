/-
Model driver for C15. Line protocol (fields separated by one space; uuid lists by '/'; "-" = empty).

Worker/pool response ops (timeouts in the unit of the elapsed values: idle 60, booting 60,
probe 180, shutdown 60, term 60, staleRunLock 60; for `sb`: booting 100, probe 300):
  tk <S> <b> <starting> <running> <givenup> <busyAgo>            one worker's turn in runProbes' first loop
     → `<S><b> d=<destroy calls> p=<will be probed>`
  sb <S> <b> <dur>                                              shutdownIfBroken(dur)
     → `<S><b> d=<n> r=<returned>`
  pr <S> <b> <starting> <running> <givenup> <probedAgo> <boot 0|1> <list 0|1> <uuids> <broken 0|1> <stale n|f|y|o>
     → `<S><b> sg=<…> rg=<…> ex=<…> d=<n> sl=<staleRunLockSince set>`   a whole probeAndUpdate
  sy <id:S:destroyedAgo:fresh,…> <listed id/…>                  Pool.sync
     → `<id:S:d,…>` for the workers that remain
  kl <b> <starting> <running> <givenup> <u> <k<j>|n|a>           remoteRunner.Kill on a Running worker
     → `<S><b> sg=<…> rg=<…> gu=<…> ex=<…> d=<n> end=<closed|gaveup>`
  uk <S> <b> <starting> <running> <givenup> <u>                  onUnkillable after givenup was set
     → `<S><b> d=<n>`
  sc <id:type:S:b:busy,…> <type>                                 StartContainer: `w<id>` allowed set joined by '|', `w0` = refused
  cr <o|q|r|e|x|t …>   (one letter per step, no separator)         Pool.Create calls that run to completion with the cloud
     answering ok / quota error / rate-limit error / other error; x = quotaErrorTTL passes, t = the rate-limit hold-off passes
     → per step `c<len(creating)>u<Unallocated>q<AtQuota>w<workers>a<Create returned>` joined by ','
  rs <o|e|r …>                                                   Pool.runSync with the cloud's Instances() answering ok / error /
     rate-limit error in turn, then ok → `lists=<n>`: Instances() calls seen, capped at script length + 1
  rc <0|1>                                                       Pool.reportSSHConnected for an instance whose worker is (1) / is not (0)
     in the pool → `ok` (a nil-dereference panic before the fix of F15b)
  tg <old tag r|h|d|-> <new r|h|d> <type tag ok 0|1> <extra tag 0|1>   SetIdleBehavior on an Idle worker whose instance carries
     InstanceSetID, InstanceSecret, InstanceType (right or stale), IdleBehavior (old or missing) and maybe one more tag
     → `set=none` or `set=<k=v;…>` (sorted): the tag set passed to Instance.SetTags
  wc <starting> <running>                                        the worker is dropped by Pool.sync → worker.Close()
     → `closed=1 held=<0|1>`: the executor was closed, with / without the pool mutex held
  o1 <st<u>|pa<u/…|->|sd<u>,…>                                 runner objects of one Idle run-mode worker: StartContainer (the
     `crunch-run --detach` stays outstanding), probe applied with the listed uuids, completion of the outstanding start
     → `<S> sg=<…> rg=<…> ex=<…>`, or `panic close of closed channel` (cannot happen since the fix of F15a)
  pl <S> <b> <starting> <running> <givenup> <boot 0|1> <stale n|y|o> <line/line/…>   a whole probeAndUpdate whose
     `crunch-run --list` exits 0 printing the lines: u<n> = "<uuid n>", s<n> = "<uuid n> stale", b = "broken", e = "",
     x<n> = "<uuid n> something else"; staleRunLockSince before: n zero / y just set / o set 120 ago → as `pr`
  tp <f|s|x …>   the real Pool.runProbes loop (probeInterval 1 ms) over one held Idle worker per letter whose
     `crunch-run --list` answers at once / slowly (ticks are dropped meanwhile) / fails → `rounds>=3`: every worker was
     probed at least three times (the loop never stalls: `Driven` can always be continued, C15_tick_loop)
Scheduler response ops:
  lc <item,item,…>   goroutine bodies run to completion one after the other on one Scheduler: <l|c|k|r><u>:<state|->:<api 0|1>
     = lockContainer / cancel / kill / requeue of container u while queue.Get reports the state (- = unknown to the queue)
     and the API call succeeds / fails; h<u> / f<u> = the case takes / frees the latch of u (an operation in flight)
     → per item `<calls joined by .>|w<wake-up armed>` (`-` for h/f), joined by ',', then ` latch=<u/…>` (held at the end)
  sw <entries> <running> <qupdated> <anyunknown> <latched>       one sync pass (formats of C14 `sy`) → `forgets;effects;wake=<0|1>`
  fl <tl 0|1> <snap;snap;…>   snap = <unknown 0|1>~<entries>~<running u,…>   fixStaleLocks; every wait ends by a pool
     notification, except that with tl=1 the wait after the last snapshot ends by the timeout → `un=<u/…>`
  e2e …  → `e2e-expect final=all instances=0` (the conclusion of C15_converges; the run is judged by the oracle)
-/
import ArvVerif.Base.Loop
import ArvVerif.Model.C15
import ArvVerif.Model.C15_O1
import ArvVerif.Model.C15_Glue
import ArvVerif.Model.C15_Tick
open ArvVerif ArvVerif.C14 ArvVerif.C15

namespace C15Drv

def splitList (s : String) : List String := if s == "-" then [] else s.splitOn ","

def parseUs (s : String) : Option (List Nat) :=
  if s == "-" then some [] else (s.splitOn "/").mapM (·.toNat?)

def showUs (l : List Nat) : String :=
  if l.isEmpty then "-" else "/".intercalate (l.map toString)

def sortNat (l : List Nat) : List Nat := l.mergeSort (fun a b => decide (a ≤ b))

def dedupNat (l : List Nat) : List Nat := l.foldl (fun acc x => if acc.contains x then acc else acc ++ [x]) []

def parseBool (s : String) : Option Bool :=
  if s == "1" then some true else if s == "0" then some false else none

def b2s (b : Bool) : String := if b then "1" else "0"

def parseWS (s : String) : Option WState :=
  match s with
  | "U" => some .unknown | "B" => some .booting | "I" => some .idle | "R" => some .running
  | "S" => some .shutdown | _ => none

def showWS : WState → String
  | .unknown => "U" | .booting => "B" | .idle => "I" | .running => "R" | .shutdown => "S"

def parseIB (s : String) : Option IdleB :=
  match s with
  | "r" => some .run | "h" => some .hold | "d" => some .drain | _ => none

def showIB : IdleB → String
  | .run => "r" | .hold => "h" | .drain => "d"

def T0 : Timeouts := { idle := 60, booting := 60, probe := 180, shutdown := 60, term := 60, staleRunLock := 60 }
def Tsb : Timeouts := { T0 with booting := 100, probe := 300 }

/-- model time: the worker was last updated at 500, "now" is 1000 -/
def mkWorker (st : WState) (ib : IdleB) (sg rg : List Nat) : Worker :=
  { id := 1, itype := 1, state := st, idleB := ib, starting := sg, running := rg, updated := 500,
    busy := 500, probed := 500 }

def destroys (w w' : Worker) : Nat := if w'.state == .shutdown && w'.updated != w.updated then 1 else 0

def showProbe (w : Worker) (gu : List Nat) (pi : ProbeIn) : String :=
  let r := probeAndUpdate w T0 gu pi 1000
  let p := mkProbe w T0 gu pi
  let ran := w.state != .shutdown && (p.booted || w.state == .unknown) && pi.listOk
  let slAfter := if ran then (staleAfter pi).isSome else pi.staleFor.isSome
  s!"{showWS r.1.state}{showIB r.1.idleB} sg={showUs (sortNat r.1.starting)} rg={showUs (sortNat r.1.running)} ex={showUs (sortNat r.2)} d={destroys w r.1} sl={b2s slAfter}"

def parseLine (s : String) : Option ProbeLine :=
  match s.toList with
  | ['b'] => some .broken
  | ['e'] => some .empty
  | 'u' :: ds => (String.ofList ds).toNat?.map ProbeLine.uuid
  | 's' :: ds => (String.ofList ds).toNat?.map ProbeLine.stale
  | 'x' :: ds => (String.ofList ds).toNat?.map (fun _ => ProbeLine.other)
  | _ => none

def stepW (f : List String) : Option String :=
  match f with
  | ["tp", script] =>
    if script.isEmpty || !script.toList.all (fun c => c == 'f' || c == 's' || c == 'x') then none
    else
      -- three consecutive runs of a loop driven by a ticker begin at strictly increasing times
      -- whatever the handler durations (here: the slowest probe of each round)
      let dur : Nat → Nat := fun _ => if script.toList.contains 's' then 3 else 0
      let s0 := periodic 1 0
      let s1 := max (s0 + dur 0) (s0 + 1)
      let s2 := max (s1 + dur 1) (s1 + 1)
      if s0 < s1 && s1 < s2 then pure "rounds>=3" else pure "stalled"
  | ["pl", st, ib, sg, rg, gu, boot, stale, lines] => do
    let w := mkWorker (← parseWS st) (← parseIB ib) (← parseUs sg) (← parseUs rg)
    let sf ← (match stale with
      | "n" => some none | "y" => some (some 0) | "o" => some (some 120) | _ => none)
    let ls ← (if lines == "-" then some [] else (lines.splitOn "/").mapM parseLine)
    pure (showProbe w (← parseUs gu) (probeOfLines (← parseBool boot) ls sf 0))
  | ["tk", st, ib, sg, rg, gu, ago] => do
    let w := mkWorker (← parseWS st) (← parseIB ib) (← parseUs sg) (← parseUs rg)
    let r := probeTick w T0 (← parseUs gu) (← ago.toNat?) 1000
    pure s!"{showWS r.1.state}{showIB r.1.idleB} d={destroys w r.1} p={b2s r.2}"
  | ["sb", st, ib, dur] => do
    let w := mkWorker (← parseWS st) (← parseIB ib) [] []
    let r := shutdownIfBroken w Tsb (← dur.toNat?) 1000
    pure s!"{showWS r.1.state}{showIB r.1.idleB} d={destroys w r.1} r={b2s r.2}"
  | ["pr", st, ib, sg, rg, gu, ago, boot, list, us, br, stale] => do
    let w := mkWorker (← parseWS st) (← parseIB ib) (← parseUs sg) (← parseUs rg)
    let (sl, sf) ← (match stale with
      | "n" => some (false, none) | "f" => some (true, none)
      | "y" => some (true, some 0) | "o" => some (true, some 120) | _ => none)
    let pi : ProbeIn := { bootOk := (← parseBool boot), listOk := (← parseBool list), uuids := (← parseUs us),
                          saysBroken := (← parseBool br), staleLine := sl, staleFor := sf, dur := (← ago.toNat?) }
    let gu ← parseUs gu
    let r := probeAndUpdate w T0 gu pi 1000
    let p := mkProbe w T0 gu pi
    let ran := w.state != .shutdown && (p.booted || w.state == .unknown) && pi.listOk
    let slAfter := if ran then (staleAfter pi).isSome else sf.isSome
    pure s!"{showWS r.1.state}{showIB r.1.idleB} sg={showUs (sortNat r.1.starting)} rg={showUs (sortNat r.1.running)} ex={showUs (sortNat r.2)} d={destroys w r.1} sl={b2s slAfter}"
  | ["sy", ws, listed] => do
    let ws ← (splitList ws).mapM (fun x => match x.splitOn ":" with
      | [id, st, ago, fresh] => do
        pure ((← id.toNat?), (← parseWS st), (← ago.toNat?), (← parseBool fresh))
      | _ => none)
    let listed ← parseUs listed
    let workers : List Worker := ws.map (fun (id, st, _, fresh) =>
      { id := id, itype := 1, state := st, idleB := .run, starting := [], running := [],
        updated := if fresh then 900 else 100, busy := 100, probed := 100 })
    let since : Nat → Nat := fun id => match ws.find? (fun x => x.1 == id) with
      | some (_, _, ago, _) => ago | none => 0
    let ls : List Pool.Listed := listed.map (fun id => { id := id, itype := 1, idleTag := none, created := false })
    let r := poolSync ⟨workers, []⟩ 500 ls (retryOf T0 since) 1000
    let ids := sortNat (r.1.workers.map (·.id))
    let toks := ids.filterMap (fun id => (r.1.find id).map (fun w =>
      s!"{id}:{showWS w.state}:{r.2.count id}"))
    pure (if toks.isEmpty then "-" else ",".intercalate toks)
  | ["kl", ib, sg, rg, gu, u, mode] => do
    let w := mkWorker .running (← parseIB ib) (← parseUs sg) (← parseUs rg)
    let u ← u.toNat?
    let script : List KTick ← (match mode.toList with
      | ['n'] => some [⟨1, false⟩, ⟨2, false⟩, ⟨100, false⟩]
      | ['a'] => some [⟨1, true⟩, ⟨2, true⟩, ⟨100, true⟩]
      | 'k' :: ds => do
        let j ← (String.ofList ds).toNat?
        if j = 0 then none else
        pure ((List.replicate (j - 1) (⟨1, false⟩ : KTick)) ++ [⟨1, true⟩, ⟨1, false⟩])
      | _ => none)
    let r := killRun T0 u 1000 script ⟨w, (← parseUs gu), []⟩
    let e ← (match r.2 with | .closed => some "closed" | .gaveUp => some "gaveup" | .waiting => none)
    pure s!"{showWS r.1.w.state}{showIB r.1.w.idleB} sg={showUs (sortNat r.1.w.starting)} rg={showUs (sortNat r.1.w.running)} gu={showUs (sortNat (dedupNat r.1.gu))} ex={showUs (sortNat r.1.exited)} d={destroys w r.1.w} end={e}"
  | ["uk", st, ib, sg, rg, gu, u] => do
    let w := mkWorker (← parseWS st) (← parseIB ib) (← parseUs sg) (← parseUs rg)
    let gu := (← u.toNat?) :: (← parseUs gu)
    let w' := onUnkillable w gu 1000
    pure s!"{showWS w'.state}{showIB w'.idleB} d={destroys w w'}"
  | ["sc", ws, ty] => do
    let workers ← (splitList ws).mapM (fun x => match x.splitOn ":" with
      | [id, t, st, ib, busy] => do
        pure ({ id := (← id.toNat?), itype := (← t.toNat?), state := (← parseWS st), idleB := (← parseIB ib),
                starting := [], running := [], updated := 500, busy := (← busy.toNat?), probed := 500 } : Worker)
      | _ => none)
    let c := Pool.startCandidates ⟨workers, []⟩ (← ty.toNat?)
    pure (if c.isEmpty then "w0" else "|".intercalate ((sortNat c).map (fun i => s!"w{i}")))
  | ["cr", script] => do
    let step (acc : CPool × List String) (ch : Char) : Option (CPool × List String) :=
      let p := acc.1
      let r : Option (CPool × Bool) := match ch with
        | 'o' => some (p.create .ok) | 'q' => some (p.create .quota) | 'r' => some (p.create .rateLimit)
        | 'e' => some (p.create .other)
        | 'x' => some ({ p with atQuota := false }, false)
        | 't' => some ({ p with throttled := false }, false)
        | _ => none
      r.map (fun (p', a) => (p', acc.2 ++ [s!"c{p'.creating}u{p'.unallocated}q{b2s p'.atQuota}w{p'.booting}a{b2s a}"]))
    let r ← script.toList.foldlM step ((⟨0, 0, false, false⟩ : CPool), [])
    if r.2.isEmpty then none else pure (",".intercalate r.2)
  | ["rs", script] => do
    let rs ← script.toList.mapM (fun ch => match ch with
      | 'o' => some ListRes.ok | 'e' | 'r' => some ListRes.err | _ => none)
    if rs.isEmpty then none else
    -- every listing is followed by a re-arm, so after the scripted answers the loop lists once more
    let evs := runSync rs
    let lists := evs.countP (fun e => match e with | .list _ => true | _ => false)
    pure s!"lists={if evs.getLast? == some SyncEv.rearm then lists + 1 else lists}"
  | ["rc", known] => do
    let k ← parseBool known
    match reportSSHConnected (if k then [1] else []) 1 with
    | some _ => pure "ok"
    | none => pure "panic runtime error: invalid memory address or nil pointer dereference"
  | ["tg", old, new, tok, extra] => do
    let ibName : String → Option String := fun x => match x with
      | "r" => some "run" | "h" => some "hold" | "d" => some "drain" | _ => none
    let nw ← ibName new
    let tok ← parseBool tok
    let extra ← parseBool extra
    let base : Tags := [("InstanceSetID", "set1"), ("InstanceSecret", "sec1"),
                        ("InstanceType", if tok then "type1" else "stale")]
    let t1 : Tags ← (if old == "-" then some base else (ibName old).map (fun o => base ++ [("IdleBehavior", o)]))
    let t2 : Tags := if extra then t1 ++ [("zone", "x")] else t1
    match saveTags t2 "InstanceType" "IdleBehavior" "type1" nw with
    | none => pure "set=none"
    | some t =>
      let kv := (t.map (fun p => p.1 ++ "=" ++ p.2)).mergeSort (fun a b => decide (a ≤ b))
      pure ("set=" ++ ";".intercalate kv)
  | ["wc", sg, rg] => do
    let _ ← parseUs sg
    let _ ← parseUs rg
    let evs := workerClose
    let closed := evs.count .executorClose
    let held := match evs.idxOf? .executorClose, evs.idxOf? .unlock with
      | some i, some j => i < j
      | _, _ => false
    pure s!"closed={closed} held={b2s held}"
  | ["o1", ops] => do
    let ops ← (ops.splitOn ",").mapM (fun o =>
      if o.startsWith "st" then (o.drop 2).toString.toNat?.map RWOp.accept
      else if o.startsWith "sd" then (o.drop 2).toString.toNat?.map RWOp.startDone
      else if o.startsWith "pa" then (parseUs (o.drop 2).toString).map RWOp.probe
      else none)
    match RW.fresh.run ops with
    | none => pure "panic close of closed channel"
    | some w =>
      pure s!"{showWS w.state} sg={showUs (sortNat (w.starting.map (·.1)))} rg={showUs (sortNat (w.running.map (·.1)))} ex={showUs (sortNat w.exited)}"
  | _ => none

/-! scheduler ops -/

def parseState (s : String) : Option CState :=
  match s with
  | "Q" => some .queued | "L" => some .locked | "R" => some .running
  | "C" => some .complete | "X" => some .cancelled | "O" => some .other
  | _ => none

def parseEnt (s : String) : Option Ent :=
  match s.splitOn ":" with
  | [u, st, p, t] => do pure ⟨(← u.toNat?), (← parseState st), (← p.toInt?), (← t.toNat?)⟩
  | _ => none

def showEffect : Effect → String
  | .queueGet u => s!"qg{u}"
  | .queueLock u => s!"ql{u}"
  | .queueCancel u => s!"qc{u}"
  | .queueUnlock u => s!"qu{u}"
  | .poolKill u => s!"pk{u}"
  | .poolForget u => s!"pf{u}"

def joinOr (l : List String) : String := if l.isEmpty then "-" else ",".intercalate l

inductive LcItem where
  | hold (u : Uuid) | free (u : Uuid) | body (b : Body)

def parseLcItem (s : String) : Option LcItem :=
  match s.splitOn ":" with
  | [x] => match x.toList with
    | 'h' :: ds => (String.ofList ds).toNat?.map LcItem.hold
    | 'f' :: ds => (String.ofList ds).toNat?.map LcItem.free
    | _ => none
  | [x, st, api] => do
    let (op, ds) ← (match x.toList with
      | 'l' :: ds => some (Op.lock, ds) | 'c' :: ds => some (Op.cancel, ds)
      | 'k' :: ds => some (Op.kill, ds) | 'r' :: ds => some (Op.requeue, ds) | _ => none)
    let u ← (String.ofList ds).toNat?
    let st ← (if st == "-" then some none else (parseState st).map some)
    pure (.body ⟨op, u, st, (← parseBool api)⟩)
  | _ => none

def stepS (f : List String) : Option String :=
  match f with
  | ["lc", items] => do
    let items ← (items.splitOn ",").mapM parseLcItem
    let step (acc : Latch × List String) (it : LcItem) : Latch × List String :=
      match it with
      | .hold u => ((uuidLock acc.1 u .kill).2, acc.2 ++ ["-"])
      | .free u => (uuidUnlock acc.1 u, acc.2 ++ ["-"])
      | .body b =>
        let o := runBody acc.1 b
        (o.latch, acc.2 ++ [s!"{if o.effects.isEmpty then "-" else ".".intercalate (o.effects.map showEffect)}|w{b2s o.wake}"])
    let r := items.foldl step ([], [])
    pure s!"{",".intercalate r.2} latch={showUs (sortNat (dedupNat (r.1.map (·.1))))}"
  | ["sw", ents, running, qu, unk, latched] => do
    let ents ← (splitList ents).mapM parseEnt
    let run ← (splitList running).mapM (fun x => match x.splitOn ":" with
      | [u, t] => do
        let u ← u.toNat?
        if t == "-" then pure (u, (none : Option Nat)) else pure (u, some (← t.toNat?))
      | _ => none)
    let qu ← qu.toNat?
    let unk ← parseBool unk
    let latched ← (splitList latched).mapM (·.toNat?)
    let rv : Uuid → RunView := fun u => (run.find? (fun p => p.1 == u)).map (·.2)
    let acts := syncPass unk qu ents (run.map (·.1)) rv
    let forgets := sortNat (acts.filterMap (fun a => match a with | .forget u => some u | _ => none))
    let gos : List (Uuid × Op) := acts.filterMap (fun a => match a with
      | .goCancel u => some (u, .cancel) | .goKill u => some (u, .kill) | .goRequeue u => some (u, .requeue)
      | .forget _ => none)
    let res := gos.map (fun (u, op) => (u, asyncEffectW (latched.contains u) none op u))
    let us := sortNat (dedupNat (res.filterMap (fun (u, r) => if r.1.isEmpty then none else some u)))
    let effs := us.map (fun u => ".".intercalate ((res.filter (fun x => x.1 == u)).flatMap (fun x => x.2.1.map showEffect)))
    let wake := res.any (fun x => x.2.2)
    pure s!"{joinOr (forgets.map (fun u => s!"qf{u}"))};{joinOr effs};wake={b2s wake}"
  | ["fl", tl, snaps] => do
    let tl ← parseBool tl
    let snaps ← (snaps.splitOn ";").mapM (fun s => match s.splitOn "~" with
      | [unk, ents, run] => do
        let run ← (splitList run).mapM (·.toNat?)
        pure ({ anyUnknown := (← parseBool unk), entries := (← (splitList ents).mapM parseEnt),
                running := fun u => run.contains u } : FslSnap)
      | _ => none)
    let n := snaps.length
    let script := (snaps.zipIdx).map (fun (s, i) => (s, if tl && i + 1 == n then Wake.timeout else Wake.notify))
    let r ← fslRun script []
    pure s!"un={showUs (sortNat r)}"
  | _ => none

end C15Drv

def step (line : String) : String :=
  let f := fields line
  let r := match f with
    | "e2e" :: _ => some "e2e-expect final=all instances=0"
    | "sw" :: _ => C15Drv.stepS f
    | "fl" :: _ => C15Drv.stepS f
    | "lc" :: _ => C15Drv.stepS f
    | _ => C15Drv.stepW f
  match r with
  | some r => r
  | none => "bad-op"

def main : IO Unit := lineLoop step
