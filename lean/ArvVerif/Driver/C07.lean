/-
Model driver for C07. Line protocol (fields separated by one space; every string argument is
hex, "-" = empty string; integers are decimal):

  sign <loc> <tok> <expUnix> <ttlNs> <key>                          -> hex(signLocator)
  verify <loc> <tok> <ttlNs> <key> <nowNs>                          -> ok|expired|invalid|missing
  near <loc> <tok> <offSec> <ttlNs> <key> <vtok> <vttlNs> <vkey> <suffix> <nowNs>
        sign with expiry = nowNs/1e9 + offSec, append suffix, verify -> verdict
  manifest <text> <tok> <expUnix> <ttlNs> <key>                     -> hex(signManifest)
  get <loc> <tok> <signing 0|1> <ttlNs> <key> <absent|p<bodyhex>> <nowNs>
        -> 400 | 401 | 403 | 404 | 200 <bodyhex>   (remote proxy with no RemoteClusters
           configured: 401 without a token, else 400)
  kcsign / kcverify                       -- as sign / verify, through sdk/go/keepclient (verdict + " same")
  geturl <rawpath> <none|hdr> <signing 0|1> <ttlNs> <key> <absent|p<bodyhex>> <nowNs>
        raw request path (percent-escapes as sent) and raw Authorization header value
        -> badurl | 301 <hex cleaned path> | status as for get
  getremote <loc> <tok> <configured remote ids a,b|-> <ttlNs> <key> <absent|p<bodyhex> at the remote> <nowNs>
        signing on, nothing stored locally under that hash unless stated by the generator
        -> <status> [bodyhex] | <forwarded locator> <forwarded token>   ("| -" when nothing was sent)
  getnow <loc> <tok> <ttlNs> <key> <absent|p<bodyhex>> <nowNs>
        sign with expiry = nowNs/1e9 (the second that has begun), GET with signing on -> status as for get
  put <body> <tok> <tok2> <signing 0|1> <ttlNs> <key> <nowNs>
        -> 200 <signed 0|1> <status of GET with tok> <status of GET with tok2>

The MAC is the executable HMAC-SHA1 of Base/SHA1.lean (`hmacSha1`, Model/C07_Hmac.lean).
-/
import ArvVerif.Base.SHA1
import ArvVerif.Base.MD5
import ArvVerif.Base.Loop
import ArvVerif.Model.C07
import ArvVerif.Model.C07_Hmac
open ArvVerif ArvVerif.C07

def decHex (s : String) : Option Str :=
  if s == "-" then some [] else (bytesOfHex? s).map ofBytes

def encHex (s : Str) : String :=
  if s.isEmpty then "-" else hexOfByteArray (toBytes s)

def showVerdict : Verdict → String
  | .ok => "ok" | .expired => "expired" | .invalid => "invalid" | .missing => "missing"

def parseBool (s : String) : Option Bool :=
  if s == "1" then some true else if s == "0" then some false else none

/-- what the driver's keepstore answers after `handleGET` decided; `body` is the stored block
for the route hash, if any -/
def getStatus (cfg : KSConfig) (loc tok : Str) (nowNs : Int) (body : Option Str) : String :=
  match handleGET hmacSha1 cfg loc tok nowNs with
  | .noRoute => "400"
  | .remoteProxy => if tok.isEmpty then "401" else "400"
  | .denied code => toString code
  | .readVolume _ => match body with
    | some b => "200 " ++ encHex b
    | none => "404"

/-- what the stub remote Keep service of the Go driver does in each mode, seen through
`keepclient.Get`: `ok` serves the block it holds (404 otherwise); a status code is answered to
every request; `drop` closes the connection without answering; `short` answers 200 with a one-byte
body (the generator uses it only with a size hint other than 1) -/
def remoteReplyOf (mode : String) (body : Option Str) : Option RemoteReply :=
  if mode == "ok" then some (match body with | some b => .data b | none => .notFound)
  else if ["400", "401", "403", "404"].contains mode then some .notFound
  else if ["408", "429", "500", "502", "503", "504", "drop"].contains mode then some .temporary
  else if mode == "short" then some .otherError
  else none

/-- `getremote`: BlobSigning on, the +R exit; the Go driver's keepclients have Retries = 2 -/
def getRemote (loc tok remotes ttl key rpresent now mode : String) : String :=
  let body : Option (Option Str) :=
    if rpresent == "absent" then some none
    else if rpresent.startsWith "p" then
      (if rpresent.length == 1 then some [] else decHex (rpresent.drop 1).toString).map some
    else none
  let ids : List Str := if remotes == "-" then [] else (remotes.splitOn ",").map String.toList
  match decHex loc, decHex tok, ttl.toInt?, decHex key with
  | some loc, some tok, some ttl, some key =>
    match body, now.toInt? with
    | some body, some now =>
      match remoteReplyOf mode body with
      | none => "bad-op"
      | some reply =>
        let cfg : KSConfig := ⟨true, ttl, key⟩
        match handleGET hmacSha1 cfg loc tok now with
        | .remoteProxy =>
          match remoteProxyGet hmacSha1 (fun r => ids.contains r) loc tok with
          | .status code => s!"{code} | -"
          | .forward _ fwd t =>
            -- keepclient.Get answers the empty block itself, without a request
            if "d41d8cd98f00b204e9800998ecf8427e+0".toList.isPrefixOf fwd then "200 - | -"
            else
              let resp := remoteProxyServe hmacSha1 (fun r => ids.contains r) loc tok (fun _ _ _ => reply) (fun _ => none)
              let st := match resp.body with
                | some b => s!"{resp.status} " ++ encHex b
                | none => toString resp.status
              let seen := " ; ".intercalate (List.replicate (remoteRequests 2 reply) s!"{encHex fwd} {encHex t}")
              s!"{st} | {seen}"
        | _ => getStatus cfg loc tok now none ++ " | -"
    | _, _ => "bad-op"
  | _, _, _, _ => "bad-op"

def step (line : String) : String :=
  match fields line with
  | ["sign", loc, tok, exp, ttl, key] =>
    match decHex loc, decHex tok, exp.toInt?, ttl.toInt?, decHex key with
    | some loc, some tok, some exp, some ttl, some key => encHex (signLocator hmacSha1 loc tok exp ttl key)
    | _, _, _, _, _ => "bad-op"
  | ["verify", loc, tok, ttl, key, now] =>
    match decHex loc, decHex tok, ttl.toInt?, decHex key, now.toInt? with
    | some loc, some tok, some ttl, some key, some now =>
      showVerdict (verifySignature hmacSha1 loc tok ttl key now)
    | _, _, _, _, _ => "bad-op"
  | ["near", loc, tok, off, ttl, key, vtok, vttl, vkey, suffix, now] =>
    match decHex loc, decHex tok, off.toInt?, ttl.toInt?, decHex key with
    | some loc, some tok, some off, some ttl, some key =>
      match decHex vtok, vttl.toInt?, decHex vkey, decHex suffix, now.toInt? with
      | some vtok, some vttl, some vkey, some suffix, some now =>
        let exp := now / 1000000000 + off
        let signed := signLocator hmacSha1 loc tok exp ttl key ++ suffix
        showVerdict (verifySignature hmacSha1 signed vtok vttl vkey now)
      | _, _, _, _, _ => "bad-op"
    | _, _, _, _, _ => "bad-op"
  | ["manifest", text, tok, exp, ttl, key] =>
    match decHex text, decHex tok, exp.toInt?, ttl.toInt?, decHex key with
    | some text, some tok, some exp, some ttl, some key =>
      encHex (signManifest hmacSha1 text tok exp ttl key)
    | _, _, _, _, _ => "bad-op"
  | ["get", loc, tok, signing, ttl, key, present, now] =>
    let body : Option (Option Str) :=
      if present == "absent" then some none
      else if present.startsWith "p" then
        (if present.length == 1 then some [] else decHex (present.drop 1).toString).map some
      else none
    match decHex loc, decHex tok, parseBool signing, ttl.toInt?, decHex key with
    | some loc, some tok, some signing, some ttl, some key =>
      match body, now.toInt? with
      | some body, some now => getStatus ⟨signing, ttl, key⟩ loc tok now body
      | _, _ => "bad-op"
    | _, _, _, _, _ => "bad-op"
  | ["kcsign", loc, tok, exp, ttl, key] =>
    -- sdk/go/keepclient/perms.go: SignLocator = arvados.SignLocator
    match decHex loc, decHex tok, exp.toInt?, ttl.toInt?, decHex key with
    | some loc, some tok, some exp, some ttl, some key => encHex (signLocator hmacSha1 loc tok exp ttl key)
    | _, _, _, _, _ => "bad-op"
  | ["kcverify", loc, tok, ttl, key, now] =>
    match decHex loc, decHex tok, ttl.toInt?, decHex key, now.toInt? with
    | some loc, some tok, some ttl, some key, some now =>
      showVerdict (verifySignature hmacSha1 loc tok ttl key now) ++ " same"
    | _, _, _, _, _ => "bad-op"
  | ["geturl", raw, hdr, signing, ttl, key, present, now] =>
    let body : Option (Option Str) :=
      if present == "absent" then some none
      else if present.startsWith "p" then
        (if present.length == 1 then some [] else decHex (present.drop 1).toString).map some
      else none
    let hdr? : Option (Option Str) := if hdr == "none" then some none else (decHex hdr).map some
    match decHex raw, hdr?, parseBool signing, ttl.toInt?, decHex key with
    | some raw, some hdr, some signing, some ttl, some key =>
      match body, now.toInt? with
      | some body, some now =>
        match pctDecode raw with
        | none => "badurl"
        | some path =>
          let cfg : KSConfig := ⟨signing, ttl, key⟩
          match serveGET hmacSha1 cfg path hdr now with
          | .redirect p => "301 " ++ encHex p
          | .handled _ => getStatus cfg (path.drop 1) (getAPIToken hdr) now body
      | _, _ => "bad-op"
    | _, _, _, _, _ => "bad-op"
  | ["getremote", loc, tok, remotes, ttl, key, rpresent, now] =>
    getRemote loc tok remotes ttl key rpresent now "ok"
  | ["getremote", loc, tok, remotes, ttl, key, rpresent, now, mode] =>
    getRemote loc tok remotes ttl key rpresent now mode
  | ["getnow", loc, tok, ttl, key, present, now] =>
    let body : Option (Option Str) :=
      if present == "absent" then some none
      else if present.startsWith "p" then
        (if present.length == 1 then some [] else decHex (present.drop 1).toString).map some
      else none
    match decHex loc, decHex tok, ttl.toInt?, decHex key with
    | some loc, some tok, some ttl, some key =>
      match body, now.toInt? with
      | some body, some now =>
        -- keepstore's SignLocator wrapper with expiry = the second that has begun, then GET
        let signed := signLocator hmacSha1 loc tok (now / 1000000000) ttl key
        getStatus ⟨true, ttl, key⟩ signed tok now body
      | _, _ => "bad-op"
    | _, _, _, _ => "bad-op"
  | ["put", body, tok, tok2, signing, ttl, key, now] =>
    match decHex body, decHex tok, decHex tok2, parseBool signing, ttl.toInt? with
    | some body, some tok, some tok2, some signing, some ttl =>
      match decHex key, now.toInt? with
      | some key, some now =>
        let cfg : KSConfig := ⟨signing, ttl, key⟩
        let hash := (MD5.hex (toBytes body)).toList
        let reply := putReply hmacSha1 cfg hash body.length tok now
        let signed := if containsSub ['+', 'A'] reply then "1" else "0"
        let st := fun t => (getStatus cfg reply t now (some body)).take 3
        s!"200 {signed} {st tok} {st tok2}"
      | _, _ => "bad-op"
    | _, _, _, _, _ => "bad-op"
  | _ => "bad-op"

def main : IO Unit := lineLoop step
