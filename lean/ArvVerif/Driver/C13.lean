/-
Model driver for C13. Line protocol (the Go driver harness/overlay/sdk/go/arvados/zz_verif_c13_test.go
documents the case and result format; in mode `det` this driver must print the identical line).

  det <maxBlockSize> <ev;ev;...>
      ev = <w>.<op>            foreground operation of worker w (C08 op syntax, plus
                               flush,<path>,<0|1> and save,<mask>,<0|1>,<m|s>)
         | c,<sel>,<0|1>       completion of the (sel mod n)-th of the n unfinished background writes
                               (1 = PutB succeeded)
  free <maxBlockSize> <throttle> <seed> <failpct> <prologue>|<worker 0 ops>|<worker 1 ops>|...
      the model prints what the sequential specification gives each worker (C13_linearizable).
  cow <op;op;...>   memSegment Truncate/WriteAt/Slice/hand-off/drop against the heap model
      (Model/C13_CowRt.lean, capacity of append([]byte(nil), …) = Go's size classes)
-/
import ArvVerif.Base.MD5
import ArvVerif.Base.Loop
import ArvVerif.Model.C13
import ArvVerif.Model.C13_CowRt
open ArvVerif ArvVerif.C08 ArvVerif.C13

def md5Loc (b : Bytes) : Loc :=
  (MD5.hex (ByteArray.mk b.toArray) ++ "+" ++ toString b.length).toUTF8.toList

def errName : Err → String
  | Err.ok => "ok" | Err.eof => "eof" | Err.noent => "noent" | Err.exist => "exist"
  | Err.inval => "inval" | Err.invalop => "invalop" | Err.notempty => "notempty"
  | Err.isdir => "isdir" | Err.notdir => "notdir" | Err.rofile => "rofile" | Err.wronly => "wronly"
  | Err.negoff => "negoff" | Err.syncflag => "syncflag" | Err.badflag => "badflag"
  | Err.io => "other" | Err.panic => "panic" | Err.hang => "hang"

def segShape (max : Nat) (groups : List Group) : Seg → String
  | Seg.mem buf fl =>
    "m" ++ toString buf.length ++
      (match fl with
       | Flush.none => ""
       | fl => if isOpenMark max groups fl then "!" else "~")
  | Seg.stored loc size off l =>
    "s" ++ toString l ++ "." ++ toString off ++ "." ++ toString size ++ "." ++ String.ofList ((loc.take 8).map (fun b => Char.ofNat b.toNat))

def fileShape (max : Nat) (groups : List Group) (fn : FileNode) : String :=
  "R" ++ toString fn.repacked ++ ":Z" ++ toString fn.size ++ ":" ++ "+".intercalate (fn.segs.map (segShape max groups))

def allShapes (max : Nat) (s : St) : String :=
  "|".intercalate (s.fs.files.map (fun nf => fileShape max s.groups nf.2))

def ptrShape (p : Ptr) : String :=
  "@P" ++ toString p.off ++ "." ++ toString p.segIdx ++ "." ++ toString p.segOff ++ "." ++ toString p.repacked

def handlePtr (s : Conc) (h : Nat) : String :=
  match getHandle s h with
  | some hd =>
    (match hd.node with
     | Node.file _ => ptrShape hd.ptr
     | Node.dir _ => "")
  | none => ""

def sortStrings (l : List String) : List String := (l.toArray.qsort (· < ·)).toList

def infoStr (name : String) (isDir : Bool) (size : Nat) : String :=
  name ++ ":" ++ (if isDir then "d" else "f") ++ ":" ++ toString size

def resStr : Res → String
  | Res.err e => errName e
  | Res.wrote n e => toString n ++ "," ++ errName e
  | Res.data d e => hexOfBytes d ++ "," ++ errName e
  | Res.pos p e => toString p ++ "," ++ errName e
  | Res.info n d sz => infoStr n d sz
  | Res.listing l =>
    if l.isEmpty then "-" else "+".intercalate (sortStrings (l.map (fun e => infoStr e.1 e.2.1 e.2.2)))
  | Res.badOp => "nohandle"

def snapStr (l : List (String × Bytes)) : String :=
  if l.isEmpty then "-" else ",".intercalate (sortStrings (l.map (fun e => e.1 ++ ":" ++ hexOfBytes e.2)))

def pathOf (s : String) : String := if s == "@" then "" else s

def parseFlags (s : String) : Option (Nat × Bool × Bool × Bool × Bool × Bool × Bool) :=
  match s.toList with
  | [] => none
  | c :: rest =>
    let acc : Option Nat :=
      if c == 'R' then some 0 else if c == 'W' then some 1 else if c == 'B' then some 2
      else if c == 'N' then some 3 else none
    match acc with
    | none => none
    | some a =>
      if rest.all (fun c => "acxtsd".toList.contains c) then
        some (a, rest.contains 'a', rest.contains 'c', rest.contains 'x', rest.contains 't',
              rest.contains 's', rest.contains 'd')
      else none

def parseHex (s : String) : Option Bytes := (bytesOfHex? s).map (·.toList)

def parseOp (s : String) : Option Op :=
  match s.splitOn "," with
  | ["open", h, path, flags] =>
    match h.toNat?, parseFlags flags with
    | some h, some (a, ap, c, x, t, sy, d) => some (Op.openF h (pathOf path) a ap c x t sy d)
    | _, _ => none
  | ["create", h, path] => h.toNat?.map (fun h => Op.create h (pathOf path))
  | ["write", h, hex] =>
    match h.toNat?, parseHex hex with
    | some h, some d => some (Op.write h d)
    | _, _ => none
  | ["read", h, n] =>
    match h.toNat?, n.toNat? with
    | some h, some n => some (Op.read h n)
    | _, _ => none
  | ["readn", h, n] =>
    match h.toNat?, n.toNat? with
    | some h, some n => some (Op.readn h n)
    | _, _ => none
  | ["seek", h, off, wh] =>
    match h.toNat?, off.toInt?, wh.toNat? with
    | some h, some o, some w => some (Op.seek h o w)
    | _, _, _ => none
  | ["trunc", h, n] =>
    match h.toNat?, n.toNat? with
    | some h, some n => some (Op.trunc h n)
    | _, _ => none
  | ["close", h] => h.toNat?.map Op.close
  | ["hstat", h] => h.toNat?.map Op.hstat
  | ["hreaddir", h] => h.toNat?.map Op.hreaddir
  | ["mkdir", p] => some (Op.mkdir (pathOf p))
  | ["rename", a, b] => some (Op.rename (pathOf a) (pathOf b))
  | ["remove", p] => some (Op.remove (pathOf p))
  | ["removeall", p] => some (Op.removeAll (pathOf p))
  | ["stat", p] => some (Op.stat (pathOf p))
  | ["readdir", p] => some (Op.readdir (pathOf p))
  | _ => none

/-- foreground part of an event: `flush` and `save` are events of their own -/
def parseFg (w : Nat) (s : String) : Option Ev :=
  match s.splitOn "," with
  | ["flush", p, b] => if b == "0" || b == "1" then some (Ev.flush w (pathOf p) (b == "1")) else none
  | ["save", mask, fail, via] =>
    match mask.toNat? with
    | some m =>
      if (fail == "0" || fail == "1") && (via == "m" || via == "s") then some (Ev.save w m (fail == "1")) else none
    | none => none
  | ["save", via] => if via == "m" || via == "s" then some (Ev.save w 0 false) else none
  | _ => (parseOp s).map (Ev.fg w)

def parseEv (s : String) : Option Ev :=
  match s.splitOn "," with
  | ["c", g, ok] =>
    match g.toNat? with
    | some g => if ok == "0" || ok == "1" then some (Ev.complete g (ok == "1")) else none
    | none => none
  | _ =>
    match s.splitOn "." with
    | w :: rest =>
      (match w.toNat? with
       | some w => if rest.isEmpty then none else parseFg w (".".intercalate rest)
       | none => none)
    | [] => none

/-- does the Go driver print the handle's pointer after this op? -/
def ptrAfter (s : Conc) (op : Op) (r : Res) : String :=
  match op with
  | Op.openF h .. | Op.create h _ =>
    (match r with
     | Res.err Err.ok => handlePtr s h
     | _ => "")
  | Op.write h _ | Op.read h _ | Op.readn h _ | Op.seek h _ _ | Op.trunc h _ | Op.hstat h => handlePtr s h
  | _ => ""

def insertPair (x : Nat × Nat) : List (Nat × Nat) → List (Nat × Nat)
  | [] => [x]
  | y :: ys => if x.1 < y.1 ∨ (x.1 = y.1 ∧ x.2 < y.2) then x :: y :: ys else y :: insertPair x ys

/-- `+g<id>:<file>.<pos>,...` for the groups with ids `from ..` -/
def groupsStr (max : Nat) (s : St) (first : Nat) : String :=
  let news := (s.groups.drop first).zipIdx
  String.join (news.map (fun (g, k) =>
    let ms := (g.refs.filterMap (fun r => (tokPos max s.fs r.1 r.2.2).map (fun p => (r.1, p)))).foldr insertPair []
    "+g" ++ toString (first + k) ++ ":" ++ ",".intercalate (ms.map (fun m => toString m.1 ++ "." ++ toString m.2))))

structure Run where
  s : St
  last : String
  outs : List String

def emit (max : Nat) (r : Run) (s' : St) (head : String) : Run :=
  let sh := allShapes max s'
  let g := groupsStr max s' r.s.groups.length
  if sh == r.last then { s := s', last := r.last, outs := (head ++ g) :: r.outs }
  else { s := s', last := sh, outs := (head ++ g ++ "#" ++ sh) :: r.outs }

/-- `c,<sel>,<ok>` names the (sel mod n)-th of the n currently unfinished background writes
(ascending id); with n = 0 it names a write that does not exist. -/
def resolve (s : St) : Ev → Ev
  | Ev.complete sel ok =>
    let opens := (s.groups.zipIdx.filter (fun gi => gi.1.isOpen)).map (·.2)
    (match opens[sel % opens.length]? with
     | some g => Ev.complete g ok
     | none => Ev.complete s.groups.length ok)
  | e => e

def runEv (max : Nat) (r : Run) (e0 : Ev) : Run :=
  let e := resolve r.s e0
  let (s', o) := evStep md5Loc max r.s e
  let head := match e, o with
    | Ev.fg _ op, Out.res res => resStr res ++ ptrAfter s'.fs op res
    | _, Out.res res => resStr res
    | _, Out.done true => "c"
    | _, Out.done false => "c-"
    | _, Out.snap l => "ok=" ++ snapStr l
    | _, Out.failed => "other"
  emit max r s' head

/-- `<w>.psave,<mask>,<via>,<w2>.<op2>`: a save in which one block write fails while the others are
slow, with worker w2's op2 issued concurrently. The locks make this the sequence "failed save, then
op2" (C13_linearizable); one result token `<save result>&<op2 result>`. -/
def runPair (max : Nat) (r : Run) (e1 e2 : Ev) : Run :=
  let (s1, o1) := evStep md5Loc max r.s (resolve r.s e1)
  let (s2, o2) := evStep md5Loc max s1 e2
  let h1 := match o1 with
    | Out.snap l => "ok=" ++ snapStr l
    | _ => "other"
  let h2 := match e2, o2 with
    | Ev.fg _ op, Out.res res => resStr res ++ ptrAfter s2.fs op res
    | _, Out.res res => resStr res
    | _, _ => "?"
  emit max r s2 (h1 ++ "&" ++ h2)

inductive DEv
  | one (e : Ev)
  | pair (e1 e2 : Ev)

def parseDEv (s : String) : Option DEv :=
  match s.splitOn "." with
  | w :: rest =>
    let body := ".".intercalate rest
    if body.startsWith "psave," then
      match w.toNat?, body.splitOn "," with
      | some w, "psave" :: mask :: via :: x :: xs =>
        (match mask.toNat?, parseEv (",".intercalate (x :: xs)) with
         | some m, some e2 =>
           (match e2 with
            | Ev.fg w2 _ | Ev.flush w2 _ _ =>
              if (via == "m" || via == "s") && w2 != w then some (DEv.pair (Ev.save w m true) e2) else none
            | _ => none)
         | _, _ => none)
      | _, _ => none
    else (parseEv s).map DEv.one
  | [] => none

def detLine (max : Nat) (evs : List DEv) : String :=
  let r := evs.foldl (fun r e => match e with
    | DEv.one e => runEv max r e
    | DEv.pair e1 e2 => runPair max r e1 e2) { s := St.init, last := "", outs := [] }
  ";".intercalate r.outs.reverse

/-! free mode: the sequential specification, worker by worker -/

def specOne1 (s : Plain) (txt : String) : Option (Plain × String) :=
  match parseFg 0 txt with
  | none => none
  | some e =>
    let (s', o) := specStep s e
    some (s', match o with
      | Out.res r => resStr r
      | Out.snap _ => "save"
      | Out.done _ => "c"
      | Out.failed => "other")

/-- run-length encoding of a result list: `r*k/r2*k2/...` -/
def rleGo : List String → Option (String × Nat) → List String → List String
  | [], none, acc => acc.reverse
  | [], some (r, k), acc => ((r ++ "*" ++ toString k) :: acc).reverse
  | x :: xs, none, acc => rleGo xs (some (x, 1)) acc
  | x :: xs, some (r, k), acc =>
    if x == r then rleGo xs (some (r, k + 1)) acc
    else rleGo xs (some (x, 1)) ((r ++ "*" ++ toString k) :: acc)

def specRep (txt : String) : Nat → Plain → List String → Option (Plain × List String)
  | 0, s, acc => some (s, acc.reverse)
  | n + 1, s, acc =>
    match specOne1 s txt with
    | none => none
    | some (s', o) => specRep txt n s' (o :: acc)

/-- `rep,<n>,<op>`: the op n times in a row -/
def specOne (s : Plain) (txt : String) : Option (Plain × String) :=
  match txt.splitOn "," with
  | "rep" :: n :: x :: xs =>
    (match n.toNat? with
     | some (k + 1) =>
       if x == "rep" || x == "save" then none else
       (specRep (",".intercalate (x :: xs)) (k + 1) s []).map (fun r => (r.1, "/".intercalate (rleGo r.2 none [])))
     | _ => none)
  | _ => specOne1 s txt

def specStream (s : Plain) (txt : String) : Option (Plain × String) :=
  if txt == "-" then some (s, "-") else
  (txt.splitOn ";").foldl (fun acc op =>
    match acc with
    | none => none
    | some (s, outs) =>
      match specOne s op with
      | none => none
      | some (s', o) => some (s', outs ++ [o])) (some (s, ([] : List String)))
  |>.map (fun (s, outs) => (s, ";".intercalate outs))

def freeLine (streams : List String) : String :=
  let r := streams.foldl (fun acc st =>
    match acc with
    | none => none
    | some (s, outs) =>
      match specStream s st with
      | none => none
      | some (s', o) => some (s', outs ++ [o])) (some ((FS.init () : Plain), ([] : List String)))
  match r with
  | none => "bad-op"
  | some (s, outs) => "|".intercalate outs ++ "|final=" ++ snapStr (snapshot id s)

/-! cow mode: memSegment against the heap model (Model/C13_CowRt.lean) -/

/-- Go 1.23 allocator size classes up to 32 KiB (runtime/sizeclasses.go): the capacity of
`append([]byte(nil), buf...)` is the length rounded up to one of these, above that to whole 8 KiB
pages. A fact about the runtime, not about Arvados; the `cow` correspondence run compares every
capacity, so a wrong entry shows up as a disagreement. -/
def goClasses : List Nat :=
  [8, 16, 24, 32, 48, 64, 80, 96, 112, 128, 144, 160, 176, 192, 208, 224, 240, 256, 288, 320, 352, 384, 416,
   448, 480, 512, 576, 640, 704, 768, 896, 1024, 1152, 1280, 1408, 1536, 1792, 2048, 2304, 2688, 3072, 3200,
   3456, 4096, 4864, 5376, 6144, 6528, 6784, 6912, 8192, 9472, 9728, 10240, 10880, 12288, 13568, 14336,
   16384, 18432, 19072, 20480, 21760, 24576, 27264, 28672, 32768]

def goAppendCap (n : Nat) : Nat :=
  if n == 0 then 0 else
  match goClasses.find? (fun c => n ≤ c) with
  | some c => c
  | none => (n + 8191) / 8192 * 8192

def cowContent (b : Bytes) : String :=
  if b.length ≤ 24 then hexOfBytes b
  else "k" ++ toString (b.zipIdx.foldl (fun acc xi => (acc + (xi.2 + 1) * xi.1.toNat) % 1000003) 0)

def parseCowOp (nshared : Nat) (s : String) : Option Cow.Op :=
  match s.splitOn "," with
  | ["t", i, n] =>
    match i.toNat?, n.toNat? with
    | some i, some n => some (Cow.Op.truncate i n)
    | _, _ => none
  | ["w", i, hex, off] =>
    match i.toNat?, parseHex hex, off.toNat? with
    | some i, some p, some off => some (Cow.Op.writeAt i p off)
    | _, _, _ => none
  | ["s", i, off, len] =>
    match i.toNat?, off.toNat?, len.toNat? with
    | some i, some off, some len => some (Cow.Op.slice i off len)
    | _, _, _ => none
  | ["h", i] => i.toNat?.map (fun i => Cow.Op.handOff i nshared)
  | ["d", i] => i.toNat?.map Cow.Op.drop
  | _ => none

/-- allocation name: `z` for capacity 0, else `a<k>`, k = rank of first appearance -/
def allocName (ids : List Nat) (cap ptr : Nat) : List Nat × String :=
  if cap == 0 then (ids, "z") else
  match ids.findIdx? (· == ptr) with
  | some k => (ids, "a" ++ toString k)
  | none => (ids ++ [ptr], "a" ++ toString ids.length)

def cowToken (st : Cow.State) (ids : List Nat) : List Nat × String :=
  let (ids1, ss) := st.segs.foldl (fun (acc : List Nat × List String) sg =>
    let (ids', a) := allocName acc.1 sg.cap sg.ptr
    (ids', acc.2 ++ [a ++ "." ++ toString sg.len ++ "." ++ toString sg.cap ++ "." ++
      (if sg.flushing.isSome then "f" else "n") ++ "." ++ cowContent (Cow.bufOf st sg)])) (ids, [])
  let (ids2, hs) := st.shared.reverse.foldl (fun (acc : List Nat × List String) sh =>
    let buf := (st.heap[sh.ptr]?).getD []
    let (ids', a) := allocName acc.1 buf.length sh.ptr
    (ids', acc.2 ++ [a ++ "." ++ toString sh.len ++ "." ++ (if buf.take sh.len == sh.snap then "1" else "0")])) (ids1, [])
  (ids2, (if ss.isEmpty then "-" else "/".intercalate ss) ++ ":" ++ (if hs.isEmpty then "-" else "/".intercalate hs))

def cowRun : List String → Cow.State → List Nat → List String → Option (List String)
  | [], _, _, acc => some acc.reverse
  | o :: os, st, ids, acc =>
    match parseCowOp st.shared.length o with
    | none => none
    | some op =>
      match Cow.stepRt goAppendCap st op with
      | none => if (os.all (fun o => (parseCowOp 0 o).isSome)) then some (("panic" :: acc).reverse) else none
      | some st' =>
        let (ids', tok) := cowToken st' ids
        cowRun os st' ids' (tok :: acc)

def cowLine (ops : List String) : String :=
  match cowRun ops Cow.initRt [] [] with
  | some toks => ";".intercalate toks
  | none => "bad-op"

def stepLine (line : String) : String :=
  match fields line with
  | ["det", max, evs] =>
    (match max.toNat? with
     | none => "bad-op"
     | some 0 => "bad-op"
     | some max =>
       match (evs.splitOn ";").mapM parseDEv with
       | some evs => detLine max evs
       | none => "bad-op")
  | ["cow", ops] => cowLine (ops.splitOn ";")
  | ["free", max, thr, seed, failpct, streams] =>
    (match max.toNat?, thr.toNat?, seed.toNat?, failpct.toNat? with
     | some (_ + 1), some (_ + 1), some _, some _ => freeLine (streams.splitOn "|")
     | _, _, _, _ => "bad-op")
  | _ => "bad-op"

def main : IO Unit := lineLoop stepLine
