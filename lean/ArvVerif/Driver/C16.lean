/-
Model driver for C16. Line protocol (fields separated by one space; "-" = empty list):

  choose <reserve> <types> <vcpus>:<ram>:<keep>:<pre> <imagehex> <mounts>
      types  = name:vcpus:ram:scratch:price64:pre , ...        (pre = 0|1, price in 1/64 units)
      mounts = kind=capacity ; ...
    -> "ok n1,n2,..."      the allowed set of chosen type names (sorted)
       "unsat g1|g2|..."   AvailableTypes as groups of equal price, ascending; names in a group sorted
       "notconf"           ErrInstanceTypesNotConfigured
  arith <imagehex> <mounts>
    -> "img=<estimateDockerImageSize> scratch=<EstimateScratchSpace>"
  rq <quota>:<cancreate> <types> <ents>
      types = idle:booting:mode , ...   (index = type id; mode = i|f|s|x)
      ents  = uuid:prio:state:type:flags , ...   (state = Q|L|O; flags ⊆ {r,k,o,c} or "-":
              r in pool.Running(), k KillContainer answers true, o another operation on the uuid is in
              progress (uuidLock fails), c the queue's state became Locked right after the snapshot)
  rqp <quota>:<cancreate> <types> <ents>
      the same pass against the real worker.Pool (quota ∈ {0,99}, modes i only, no k flag, types known);
      the expected trace comes from `realPool` (Model/C16_Pool.lean), the model of Pool.AtQuota / Create /
      KillContainer / StartContainer and of `throttle`
    -> the allowed set of call traces joined by "|" (one per outcome of the unstable priority sort)
       trace = ev,ev,...;L=<sorted uuids handed to lockContainer>
-/
import ArvVerif.Base.Bytes
import ArvVerif.Base.Loop
import ArvVerif.Model.C16
import ArvVerif.Model.C16_RunQueue
import ArvVerif.Model.C16_Pool
import ArvVerif.Model.C16_Queue
open ArvVerif ArvVerif.C16

def splitOn1 (s : String) (sep : String) : List String :=
  if s == "-" then [] else s.splitOn sep

def parseBool? (s : String) : Option Bool :=
  if s == "1" then some true else if s == "0" then some false else none

/-- a decimal that fits in int64 (what `strconv.ParseInt(s, 10, 64)` accepts) -/
def toI64? (s : String) : Option Int :=
  match s.toInt? with
  | some x => if -two63 ≤ x ∧ x < two63 then some x else none
  | none => none

def parseType? (s : String) : Option IType :=
  match s.splitOn ":" with
  | [n, v, r, sc, p, pre] => do
    let n ← n.toNat?
    let v ← toI64? v
    let r ← toI64? r
    let sc ← toI64? sc
    let p ← toI64? p
    let pre ← parseBool? pre
    pure { name := n, vcpus := v, ram := r, scratch := sc, price := p, preemptible := pre }
  | _ => none

def parseMount? (s : String) : Option Mount :=
  match s.splitOn "=" with
  | [k, c] => do
    let c ← toI64? c
    pure { kind := k.toUTF8.toList, capacity := c }
  | _ => none

def parseHex? (s : String) : Option (List UInt8) :=
  if s == "-" then some [] else (bytesOfHex? s).map (·.toList)

def joinNames (ns : List Nat) : String :=
  ",".intercalate ((ns.toArray.qsort (· < ·)).toList.map toString)

/-- groups of equal price, ascending -/
def priceGroups (ts : List IType) : List (List Nat) :=
  let sorted := availSorted ts
  let rec go : List IType → Option Int → List Nat → List (List Nat) → List (List Nat)
    | [], _, cur, acc => (if cur.isEmpty then acc else cur :: acc).reverse
    | t :: rest, none, _, acc => go rest (some t.price) [t.name] acc
    | t :: rest, some p, cur, acc =>
      if t.price == p then go rest (some p) (t.name :: cur) acc
      else go rest (some t.price) [t.name] (cur :: acc)
  go sorted none [] []

def stepChoose (reserve types ctr image mounts : String) : String :=
  let r := do
    let reserve ← toI64? reserve
    let ts ← (splitOn1 types ",").mapM parseType?
    let img ← parseHex? image
    let ms ← (splitOn1 mounts ";").mapM parseMount?
    match ctr.splitOn ":" with
    | [v, ram, keep, pre] => do
      let v ← toI64? v
      let ram ← toI64? ram
      let keep ← toI64? keep
      let pre ← parseBool? pre
      let c : Ctr := { vcpus := v, ram := ram, keepCacheRAM := keep, preemptible := pre, image := img, mounts := ms }
      pure (reserve, ts, c)
    | _ => none
  match r with
  | none => "bad-op"
  | some (reserve, ts, c) =>
    -- any order gives the same kind of outcome (C16_satisfiable / C16_unsatisfiable); the set of
    -- types an order can return is `allowed` (C16_allowed)
    match chooseWith ts (availSorted ts) reserve c with
    | .notConfigured => "notconf"
    | .unsat _ => "unsat " ++ "|".intercalate ((priceGroups ts).map joinNames)
    | .ok _ => "ok " ++ joinNames ((allowed (needOf reserve c) ts).map (·.name))

def stepArith (image mounts : String) : String :=
  match parseHex? image, (splitOn1 mounts ";").mapM parseMount? with
  | some img, some ms =>
    let i := imageSize64 img
    s!"img={i} scratch={scratch64 (tmpCaps ms) i}"
  | _, _ => "bad-op"

/-! ### runQueue -/
open ArvVerif.C16.RQ

def parseMode? (s : String) : Option StartMode :=
  if s == "i" then some .byIdle else if s == "f" then some .alwaysFail else if s == "s" then some .alwaysOK else if s == "x" then some .failFirst else none

def parsePoolType? (s : String) : Option (Nat × Nat × StartMode) :=
  match s.splitOn ":" with
  | [i, b, m] => do
    let i ← i.toNat?
    let b ← b.toNat?
    let m ← parseMode? m
    pure (i, b, m)
  | _ => none

structure EntFlags where
  linger : Bool
  opInProgress : Bool
  changed : Bool

def parseEnt? (s : String) : Option (Ent × EntFlags) :=
  match s.splitOn ":" with
  | [u, p, st, ty, fl] => do
    let u ← u.toNat?
    let p ← p.toInt?
    let st ← (if st == "Q" then some CState.queued else if st == "L" then some CState.locked
              else if st == "O" then some CState.other else none)
    let ty ← ty.toNat?
    if fl != "-" && !(fl.toList.all (fun c => c == 'r' || c == 'k' || c == 'o' || c == 'c')) then none
    pure ({ uuid := u, prio := p, st := st, ty := ty, running := fl.toList.contains 'r' },
          { linger := fl.toList.contains 'k', opInProgress := fl.toList.contains 'o', changed := fl.toList.contains 'c' })
  | _ => none

def insertAll {α : Type} (x : α) : List α → List (List α)
  | [] => [[x]]
  | y :: ys => (x :: y :: ys) :: (insertAll x ys).map (y :: ·)

def perms {α : Type} : List α → List (List α)
  | [] => [[]]
  | x :: xs => (perms xs).flatMap (insertAll x)

/-- consecutive groups of equal priority of a sorted list -/
def prioGroups (es : List Ent) : List (List Ent) :=
  let rec go : List Ent → List Ent → List (List Ent) → List (List Ent)
    | [], cur, acc => (if cur.isEmpty then acc else cur.reverse :: acc).reverse
    | e :: rest, [], acc => go rest [e] acc
    | e :: rest, c :: cs, acc =>
      if e.prio == c.prio then go rest (e :: c :: cs) acc else go rest [e] ((c :: cs).reverse :: acc)
  go es [] []

/-- every priority-sorted permutation -/
def allSorted (es : List Ent) : List (List Ent) :=
  (prioGroups (sortEnts es)).foldr (fun g acc => (perms g).flatMap (fun p => acc.map (p ++ ·))) [[]]

def b01 (b : Bool) : String := if b then "1" else "0"

def showEv : Ev → Option String
  | .kill false u r => some s!"kl{u}={b01 r}"
  | .kill true u r => some s!"ks{u}={b01 r}"
  | .lockgo _ => none
  | .unlock u => some s!"u{u}"
  | .create _ t r => some s!"c{t}={b01 r}"
  | .start t u r => some s!"s{t}.{u}={b01 r}"
  | .shutdown t => some s!"d{t}"

def showTrace (op : Nat → Bool) (cur : Nat → Option CState) (tr : List Ev) : String :=
  let evs := tr.filterMap showEv
  let locks := lockCalls op cur tr
  (if evs.isEmpty then "-" else ",".intercalate evs) ++ ";L=" ++ (if locks.isEmpty then "-" else joinNames locks)

def stepRQ (real : Bool) (pool types ents : String) : String :=
  let r := do
    let (q, cc) ← (match pool.splitOn ":" with
      | [q, cc] => do
        let q ← q.toNat?
        let cc ← cc.toNat?
        pure (q, cc)
      | _ => none)
    let ts ← (splitOn1 types ",").mapM parsePoolType?
    let es ← (splitOn1 ents ",").mapM parseEnt?
    pure (q, cc, ts, es)
  match r with
  | none => "bad-op"
  | some (q, cc, ts, es) =>
    let ents := es.map (·.1)
    -- uuids are map keys in the implementation: a snapshot with a repeated uuid is ill-formed
    if (ents.map (·.uuid)).eraseDups.length != ents.length then "bad-op" else
    let tsa := ts.toArray
    -- "rqp" runs the real worker.Pool: its AtQuota is a time window (quota 0 or never), StartContainer
    -- succeeds iff an idle worker exists, KillContainer is true only for containers in Running()
    if real && (!(q == 0 || q == 99) || ts.any (fun t => t.2.2 != .byIdle) || es.any (fun p => p.2.linger)
                || ents.any (fun e => e.ty ≥ ts.length)) then "bad-op" else
    let lingering := fun (u : Nat) => es.any (fun p => p.1.uuid == u && p.2.linger)
    let op := fun (u : Nat) => es.any (fun p => p.1.uuid == u && p.2.opInProgress)
    -- the queue's cached state when the lockContainer goroutines run: the snapshot state, except that
    -- flag 'c' turned Queued into Locked right after the snapshot was taken
    let cur := fun (u : Nat) => (es.find? (fun p => p.1.uuid == u)).map
      (fun p => if p.2.changed && p.1.st == .queued then CState.locked else p.1.st)
    let stub : Stub :=
      { quota := q, canCreate := cc, created := 0, starts := fun _ => 0
        idle := fun t => match tsa[t]? with | some (i, _, _) => i | none => 0
        mode := fun t => match tsa[t]? with | some (_, _, m) => m | none => .byIdle
        lingering := lingering }
    let unalloc : Nat → Int := fun t => match tsa[t]? with | some (i, b, _) => (i + b : Nat) | none => 0
    let keys := List.range ts.length
    -- "rqp": the model of worker.Pool (Model/C16_Pool.lean) at a frozen clock: quota 0 = a quota error was
    -- received recently, cancreate 0 = throttleCreate holds a rate-limit error, 0 < cancreate < 99 =
    -- MaxConcurrentInstanceCreateOps; uuids with flag r are in Running() and never reach KillContainer
    let rp : RPool :=
      { now := 1000, atQuotaUntil := if q == 0 then 3601000 else 0, thrErr := cc == 0, thrUntil := 3601000,
        creating := 0, maxOps := if cc == 99 then 0 else cc
        idle := fun t => match tsa[t]? with | some (i, _, _) => i | none => 0
        runningProc := fun _ => false }
    let traces := (allSorted ents).map (fun sorted => showTrace op cur
      (if real then runQueue realPool rp unalloc keys sorted else runQueue stubPool stub unalloc keys sorted))
    "|".intercalate traces.eraseDups

/-! ### container.Queue histories followed by one runQueue pass

  cq <quota>:<cancreate> <types> <ctl> <history>
      ctl     = uuid:state:prio:need:flags , ...   state = Q|L|R|C|X; flags ⊆ {m} or "-" (m: locked by this dispatcher)
      history = tokens joined by ","  (or "-"):
                ub / us / ue   Update() begins (dontupdate set) / the controller takes the snapshot the
                               poll is answered from / the responses arrive and Update() finishes
                L<u> U<u> C<u> queue.Lock / Unlock / Cancel(u)
                x<u>:<S>:<p>   somebody else changes state and priority of u at the controller
                f<u>           the next PUT runtime_status for u fails
    the type chooser is the dispatcher's typeChooser = ChooseInstanceType over the table t0..t5
    (`cqTable`: 1,2,4 VCPUs on demand and preemptible, differing RAM and scratch); `need` < 256 encodes
    the container's constraint vector (`cqCtr`: VCPUs, preemptible, a tmp mount, RAM).
    -> cache=<u:S:prio:type,...>;ctl0=<u:S:prio:flags,...>;tr=<trace>;L=<Lock calls>;ctl=<...>;cache1=<...>
       (cache and ctl0 before the pass, ctl and cache1 after it), alternatives joined by "|"
-/
open ArvVerif.C16.Q

def cqTable : List IType :=
  [ { name := 0, vcpus := 1, ram := 1000, scratch := 1000, price := 64, preemptible := false },
    { name := 1, vcpus := 2, ram := 1000, scratch := 1000, price := 128, preemptible := false },
    { name := 2, vcpus := 4, ram := 2000, scratch := 2000, price := 192, preemptible := false },
    { name := 3, vcpus := 1, ram := 1000, scratch := 1000, price := 16, preemptible := true },
    { name := 4, vcpus := 2, ram := 2000, scratch := 1000, price := 32, preemptible := true },
    { name := 5, vcpus := 4, ram := 2000, scratch := 3000, price := 48, preemptible := true } ]

/-- the container a `need` code stands for: bits 0-3 VCPUs, bit 4 preemptible, bits 5-6 a tmp mount
of s·1000 bytes, bit 7 RAM 1900 (· 100/95 = 2000); `need = 0` is the all-zero container -/
def cqCtr (need : Nat) : Ctr :=
  let s := (need / 32) % 4
  { vcpus := (need % 16 : Nat), ram := (((need / 128) % 2) * 1900 : Nat), keepCacheRAM := 0,
    preemptible := (need / 16) % 2 == 1, image := [],
    mounts := if s == 0 then [] else [{ kind := tmpKind, capacity := ((s * 1000 : Nat) : Int) }] }

/-- the dispatcher's typeChooser: ChooseInstanceType over the cluster's table (prices are distinct, so
the map order does not matter) -/
def cqChoose (need : Nat) : Option Nat :=
  match chooseWith cqTable (availSorted cqTable) 0 (cqCtr need) with
  | .ok it => some it.name
  | _ => none

def parseQState? (s : String) : Option QState :=
  if s == "Q" then some .queued else if s == "L" then some .locked else if s == "R" then some .running
  else if s == "C" then some .complete else if s == "X" then some .cancelled else none

def showQState : QState → String
  | .queued => "Q" | .locked => "L" | .running => "R" | .complete => "C" | .cancelled => "X"

def parseCRec? (s : String) : Option CRec :=
  match s.splitOn ":" with
  | [u, st, p, need, fl] => do
    let u ← u.toNat?
    let st ← parseQState? st
    let p ← p.toInt?
    let need ← need.toNat?
    if need > 255 then none
    if fl != "-" && fl != "m" then none
    if fl == "m" && !(st == .locked || st == .running) then none
    pure { uuid := u, st := st, prio := p, need := need, mine := fl == "m", err := false }
  | _ => none

structure CQ where
  ctl : Ctl
  cache : Cache
  snap : Option Ctl
  inUpdate : Bool
  faults : List Nat

def sortBy {α : Type} (key : α → Nat) (l : List α) : List α :=
  (l.toArray.qsort (fun a b => key a < key b)).toList

def showCache (c : List (Nat × CEnt)) : String :=
  let items := (sortBy (·.1) c).map (fun p =>
    s!"{p.1}:{showQState p.2.st}:{p.2.prio}:" ++ (match p.2.ty with | some t => toString t | none => "z"))
  if items.isEmpty then "-" else ",".intercalate items

def showCtl (ctl : Ctl) : String :=
  let items := (sortBy (·.uuid) ctl).map (fun r =>
    s!"{r.uuid}:{showQState r.st}:{r.prio}:" ++ (if r.mine then "m" else "") ++ (if r.err then "e" else "") ++
      (if !r.mine && !r.err then "-" else ""))
  if items.isEmpty then "-" else ",".intercalate items

def cqLocal (q : CQ) (r : Option (Ctl × CRec)) : CQ :=
  match r with
  | some (ctl, rec) => { q with ctl := ctl, cache := localResp q.cache rec.uuid rec.st rec.prio }
  | none => q

/-- the cancel task started by addEnt for an unsatisfiable container; `polled` is the state the
poll reported -/
def cqCancelTask (q : CQ) (u : Nat) (polled : QState) : CQ :=
  let afterLock : Option CQ :=
    if polled == .queued then (ctlLock q.ctl u).map (fun r => cqLocal q (some r)) else some q
  match afterLock with
  | none => q
  | some q1 =>
    match ctlSetError q1.ctl q1.faults u with
    | (none, fs) => { q1 with faults := fs }
    | (some ctl, fs) => cqLocal { q1 with ctl := ctl, faults := fs } (ctlCancel ctl u)

def cqStep (q : CQ) (tok : String) : Option CQ :=
  if tok == "ub" then
    if q.inUpdate then none else some { q with cache := beginUpdate q.cache, inUpdate := true, snap := none }
  else if tok == "us" then
    if q.inUpdate && q.snap.isNone then some { q with snap := some q.ctl } else none
  else if tok == "ue" then
    if !q.inUpdate then none else
    let snap := q.snap.getD q.ctl
    let next := pollResult snap q.cache.current
    let (cache', tasks) := applyPoll cqChoose q.cache next
    let q1 := { q with cache := cache', inUpdate := false, snap := none }
    some ((sortBy id tasks).foldl (fun q u =>
      match next.find? (fun r => r.uuid == u) with
      | some r => cqCancelTask q u r.st
      | none => q) q1)
  else
    let op := tok.take 1 |>.toString
    let rest := tok.drop 1 |>.toString
    if op == "L" then rest.toNat?.map (fun u => cqLocal q (ctlLock q.ctl u))
    else if op == "U" then rest.toNat?.map (fun u => cqLocal q (ctlUnlock q.ctl u))
    else if op == "C" then rest.toNat?.map (fun u => cqLocal q (ctlCancel q.ctl u))
    else if op == "f" then rest.toNat?.map (fun u => { q with faults := q.faults ++ [u] })
    else if op == "x" then
      match rest.splitOn ":" with
      | [u, st, p] => do
        let u ← u.toNat?
        let st ← parseQState? st
        let p ← p.toInt?
        let r ← cget q.ctl u
        pure { q with ctl := cset q.ctl { r with st := st, prio := p, mine := r.mine && (st == .locked || st == .running) } }
      | _ => none
    else none

def entOfCache (p : Nat × CEnt) : Ent :=
  { uuid := p.1, prio := p.2.prio,
    st := (match p.2.st with | .queued => CState.queued | .locked => CState.locked | _ => CState.other),
    ty := p.2.ty.getD 999, running := false }

def stepCQ (pool types ctl hist : String) : String :=
  let r := do
    let (qt, cc) ← (match pool.splitOn ":" with
      | [q, cc] => do
        let q ← q.toNat?
        let cc ← cc.toNat?
        pure (q, cc)
      | _ => none)
    let ts ← (splitOn1 types ",").mapM parsePoolType?
    let recs : List CRec ← (splitOn1 ctl ",").mapM parseCRec?
    if (recs.map CRec.uuid).eraseDups.length != recs.length then none
    let q0 : CQ := { ctl := recs, cache := { current := [], dontupdate := none }, snap := none, inUpdate := false, faults := [] }
    let q ← (splitOn1 hist ",").foldlM cqStep q0
    if q.inUpdate then none
    pure (qt, cc, ts, q)
  match r with
  | none => "bad-op"
  | some (qt, cc, ts, q) =>
    let tsa := ts.toArray
    let stub : Stub :=
      { quota := qt, canCreate := cc, created := 0, starts := fun _ => 0
        idle := fun t => match tsa[t]? with | some (i, _, _) => i | none => 0
        mode := fun t => match tsa[t]? with | some (_, _, m) => m | none => .byIdle
        lingering := fun _ => false }
    let unalloc : Nat → Int := fun t => match tsa[t]? with | some (i, b, _) => (i + b : Nat) | none => 0
    let keys := List.range ts.length
    let ents := q.cache.current.map entOfCache
    let outs := (allSorted ents).map (fun sorted =>
      let tr := runQueue stubPool stub unalloc keys sorted
      -- queue.Unlock calls of the pass, in order
      let q1 := tr.foldl (fun (q : CQ) (e : Ev) => match e with
        | .unlock u => cqLocal q (ctlUnlock q.ctl u)
        | _ => q) q
      -- lockContainer goroutines: the cached state must still be Queued, then queue.Lock
      let lockgos := tr.filterMap (fun (e : Ev) => match e with | .lockgo u => some u | _ => none)
      let calls := lockgos.filter (fun u => (lookup q1.cache.current u).map CEnt.st == some QState.queued)
      let q2 := (sortBy id calls).foldl (fun q u => cqLocal q (ctlLock q.ctl u)) q1
      let evs := tr.filterMap showEv
      s!"cache={showCache q.cache.current};ctl0={showCtl q.ctl};tr=" ++
        (if evs.isEmpty then "-" else ",".intercalate evs) ++
        ";L=" ++ (if calls.isEmpty then "-" else joinNames calls) ++
        s!";ctl={showCtl q2.ctl};cache1={showCache q2.cache.current}")
    "|".intercalate outs.eraseDups

def step (line : String) : String :=
  match fields line with
  | ["choose", reserve, types, ctr, image, mounts] => stepChoose reserve types ctr image mounts
  | ["arith", image, mounts] => stepArith image mounts
  | ["rq", pool, types, ents] => stepRQ false pool types ents
  | ["rqp", pool, types, ents] => stepRQ true pool types ents
  | ["cq", pool, types, ctl, hist] => stepCQ pool types ctl hist
  | _ => "bad-op"

def main : IO Unit := lineLoop step
