/-
Model driver for C18. Line protocol (fields separated by one space; byte strings in hex, "-" = empty):
  rw <idhex> <mthex>                         -- rewriteManifest                → <hex>
  pdh <mthex>                                -- arvados.PortableDataHash       → <pdh>
  get <cidhex> <reqhex> <fwdhex> <local> <remotes> <order>
        local   = answer
        remotes = id=answer;id=answer…  (conn.remotes)        order = id,id…  (completion order of
        the remotes that answer at all)      answer = M:<uuidhex>:<mthex> | E:<status> | H (hang)
                                             → ok <uuidhex> <mthex> cc=<0|1> fan=<0|1> leak=0
                                             | err <status> cc=<0|1> fan=<0|1> leak=0
  getseq <cidhex> <n> (<reqhex> <fwdhex> <local> <remotes> <order>){n}   -- n requests through ONE Conn
                                             → the n `get` results joined by " | "
  getrace <cidhex> <reqhex> <rounds> <remotes> -- local 404, not forwarded; all non-hanging remotes
        answer at the same moment (the driver repeats this <rounds> times with staggers of 0..49 µs)
                                             → the distinct `get` results over all completion orders
                                               (permutations of the answering remotes), joined by " | "
  legacy <idhex> <expecthex> <pdhfieldhex> <mthex>   -- rewriteSignatures on a 200 record
                                             → ok <mthex> | err invalid-stream|pdh-field|hash
  legacyraw reqerr|status:<code>|badjson     → reqerr | pass <code> | err json
  lfetchu <method> <cidhex> <uuidhex> <peer> -- fetchRemoteCollectionByUUID; peer = reply | - (no RemoteClusters entry)
                                             → unhandled | ok <mthex> cc=0 leak=0 | status <code> … | err <code> …
  lfetch <reqhex> <local> <remotes> <order>  -- fetchRemoteCollectionByPDH with scripted transports
        reply = R:<uuidhex>:<fieldhex>:<mthex> (200 record) | S:<code> | X (transport error) | H
                                             → unhandled | ok <mthex> cc=<0|1> leak=0
                                             | local <mthex> … | localstatus <code> … | err <code> …
-/
import ArvVerif.Base.MD5
import ArvVerif.Base.Loop
import ArvVerif.Model.C18
open ArvVerif ArvVerif.C18

def toBytes (s : Str) : ByteArray := ByteArray.mk (s.map (fun c => UInt8.ofNat c.toNat)).toArray

def md5Str (s : Str) : Str := (MD5.hex (toBytes s)).toList

def unhex (s : String) : Option Str :=
  if s == "-" then some [] else
  (bytesOfHex? s).map (fun b => b.toList.map (fun x => Char.ofNat x.toNat))

def enhex (s : Str) : String :=
  if s.isEmpty then "-" else hexOfByteArray (toBytes s)

def parseAnswer (s : String) : Option Answer :=
  if s == "H" then some .hang else
  match s.splitOn ":" with
  | ["E", st] => st.toNat?.map Answer.err
  | ["M", u, m] =>
    match unhex u, unhex m with
    | some u, some m => some (.coll { uuid := u, manifest := m })
    | _, _ => none
  | _ => none

def parseRemotes (s : String) : Option (List (Str × Answer)) :=
  if s == "-" then some [] else
  (s.splitOn ";").mapM (fun e =>
    match e.splitOn "=" with
    | [id, a] => (parseAnswer a).map (fun a => (id.toList, a))
    | _ => none)

def parseOrder (rs : List (Str × Answer)) (s : String) : Option (List (Str × Answer)) :=
  if s == "-" then some [] else
  (s.splitOn ",").mapM (fun id => (lookup id.toList rs).map (fun a => (id.toList, a)))

def flag (b : Bool) : String := if b then "1" else "0"

def parseLReply (s : String) : Option (Option LegacyReply) :=   -- none inside = hang
  if s == "H" then some none
  else if s == "X" then some (some .reqErr)
  else match s.splitOn ":" with
  | ["S", c] => c.toNat?.map (fun n => some (.status n))
  | ["R", _, f, m] =>
    match unhex f, unhex m with
    | some f, some m => some (some (.record m f))
    | _, _ => none
  | _ => none

def parseLRemotes (s : String) : Option (List (Str × Option LegacyReply)) :=
  if s == "-" then some [] else
  (s.splitOn ";").mapM (fun e =>
    match e.splitOn "=" with
    | [id, a] => (parseLReply a).map (fun a => (id.toList, a))
    | _ => none)

def lookupL (id : Str) : List (Str × Option LegacyReply) → Option (Option LegacyReply)
  | [] => none
  | (k, a) :: rest => if k = id then some a else lookupL id rest

def parseLOrder (rs : List (Str × Option LegacyReply)) (s : String) : Option (List (Str × LegacyReply)) :=
  if s == "-" then some [] else
  (s.splitOn ",").mapM (fun id =>
    match lookupL id.toList rs with
    | some (some r) => some (id.toList, r)
    | _ => none)

def getStep (cid : Str) (req fwd loc rems ord : String) : String :=
  match unhex req, unhex fwd, parseAnswer loc, parseRemotes rems with
  | some req, some fwd, some loc, some rems =>
    match parseOrder rems ord with
    | some order =>
      let s : Script := { clusterID := cid, req := req, fwd := fwd, loc := loc, remotes := rems, order := order }
      let tail := " cc=" ++ flag (needsClientCancel md5Str s) ++ " fan=" ++ flag (fansOut md5Str s && !rems.isEmpty) ++ " leak=0"
      match (collectionGetSeq md5Str [s]).head? with
      | some (.ok c) => "ok " ++ enhex c.uuid ++ " " ++ enhex c.manifest ++ tail
      | some (.error st) => "err " ++ toString st ++ tail
      | none => "bad-op"
    | none => "bad-op"
  | _, _, _, _ => "bad-op"

def renderGet (s : Script) (nrem : Nat) (r : Result) : String :=
  let tail := " cc=" ++ flag (needsClientCancel md5Str s) ++ " fan=" ++ flag (fansOut md5Str s && nrem != 0) ++ " leak=0"
  match r with
  | .ok c => "ok " ++ enhex c.uuid ++ " " ++ enhex c.manifest ++ tail
  | .error st => "err " ++ toString st ++ tail

def isHang : Answer → Bool
  | .hang => true
  | _ => false

def getRace (cid req : Str) (rems : List (Str × Answer)) : String :=
  let live := rems.filter (fun p => !isHang p.2)
  let s : Script := { clusterID := cid, req := req, fwd := [], loc := .err 404, remotes := rems, order := live }
  " | ".intercalate ((collectionGetAnyOrder md5Str s).map (renderGet s rems.length)).eraseDups

def getSeq (cid : Str) : List String → Option (List String)
  | [] => some []
  | req :: fwd :: loc :: rems :: ord :: rest =>
    let r := getStep cid req fwd loc rems ord
    if r == "bad-op" then none else (getSeq cid rest).map (r :: ·)
  | _ => none

def step (line : String) : String :=
  match fields line with
  | ["rw", id, mt] =>
    match unhex id, unhex mt with
    | some id, some mt => enhex (rewriteManifest mt id)
    | _, _ => "bad-op"
  | ["pdh", mt] =>
    match unhex mt with
    | some mt => String.ofList (pdh md5Str mt)
    | none => "bad-op"
  | ["get", cid, req, fwd, loc, rems, ord] =>
    match unhex cid, unhex req, unhex fwd, parseAnswer loc, parseRemotes rems with
    | some cid, some req, some fwd, some loc, some rems =>
      match parseOrder rems ord with
      | some order =>
        let s : Script := { clusterID := cid, req := req, fwd := fwd, loc := loc, remotes := rems, order := order }
        let tail := " cc=" ++ flag (needsClientCancel md5Str s) ++ " fan=" ++ flag (fansOut md5Str s && !rems.isEmpty) ++ " leak=0"
        match collectionGet md5Str s with
        | .ok c => "ok " ++ enhex c.uuid ++ " " ++ enhex c.manifest ++ tail
        | .error st => "err " ++ toString st ++ tail
      | none => "bad-op"
    | _, _, _, _, _ => "bad-op"
  | "getseq" :: cid :: n :: rest =>
    match unhex cid, n.toNat? with
    | some cid, some n =>
      if n == 0 || rest.length != 5 * n then "bad-op" else
      match getSeq cid rest with
      | some rs => " | ".intercalate rs
      | none => "bad-op"
    | _, _ => "bad-op"
  | ["getrace", cid, req, rounds, rems] =>
    match unhex cid, unhex req, rounds.toNat?, parseRemotes rems with
    | some cid, some req, some n, some rems =>
      if n == 0 || rems.isEmpty then "bad-op" else getRace cid req rems
    | _, _, _, _ => "bad-op"
  | ["legacy", id, expect, field, mt] =>
    match unhex id, unhex expect, unhex field, unhex mt with
    | some id, some expect, some field, some mt =>
      match rewriteSignatures md5Str id expect mt field with
      | .ok o => "ok " ++ enhex o
      | .error .invalidStream => "err invalid-stream"
      | .error .pdhField => "err pdh-field"
      | .error .hash => "err hash"
    | _, _, _, _ => "bad-op"
  | ["lfetch", req, loc, rems, ord] =>
    match unhex req, parseLReply loc, parseLRemotes rems with
    | some req, some loc, some rems =>
      match parseLOrder rems ord with
      | some order =>
        let l : LegacyLocal := match loc with | some r => .reply r | none => .hang
        let tail := " cc=" ++ flag (legacyNeedsClientCancel md5Str req l rems.length order) ++ " leak=0"
        match legacyFetchByPDH md5Str req l order with
        | .unhandled => "unhandled"
        | .localRecord mt _ => "local " ++ enhex mt ++ tail
        | .localStatus c => "localstatus " ++ toString c ++ tail
        | .ok m => "ok " ++ enhex m ++ tail
        | .error c => "err " ++ toString c ++ tail
      | none => "bad-op"
    | _, _, _ => "bad-op"
  | ["lfetchu", method, cid, uuid, peer] =>
    match unhex cid, unhex uuid, (if peer == "-" then some none else (parseLReply peer).map some) with
    | some cid, some uuid, some peer =>
      if uuid.length != 0 && uuid.length != 27 then "bad-op" else
      let p : Option LegacyLocal := peer.map (fun r => match r with | some r => .reply r | none => .hang)
      let isGet := method == "GET"
      let tail := " cc=" ++ flag (legacyUNeedsClientCancel cid uuid isGet p) ++ " leak=0"
      match legacyFetchByUUID md5Str cid uuid isGet p with
      | .unhandled => "unhandled"
      | .ok m => "ok " ++ enhex m ++ tail
      | .status c => "status " ++ toString c ++ tail
      | .error c => "err " ++ toString c ++ tail
    | _, _, _ => "bad-op"
  | ["legacyraw", k] =>
    if k == "reqerr" then "reqerr"
    else if k == "badjson" then "err json"
    else match k.splitOn ":" with
      | ["status", c] => match c.toNat? with
        | some n => if n == 200 then "bad-op" else "pass " ++ toString n
        | none => "bad-op"
      | _ => "bad-op"
  | _ => "bad-op"

def main : IO Unit := lineLoop step
