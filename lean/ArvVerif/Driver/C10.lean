/-
Model driver for C10. Line protocol (see harness/props/C10.py): manifest text, names and paths
are hex encoded ('-' = empty). One canonical result line per case, `bad-op` for anything that
does not parse.
  m.seg H | m.iter H P | m.ext H S R | m.fb o0,..,on s | m.esc N | m.fix P   (Go manifest package)
  m.clean P | m.num S | m.loc S       (path.Clean, strconv.ParseInt/ParseUint, blockdigest locator parsing)
  a.fs H | a.pdh H | a.esc N                                           (collection fs, PDH)
  p.seg H | p.lr sizes s n | p.fb sizes s | p.esc N                    (Python range mapper)
  p.rr w1;..;wn s n                  (replace_range for each write start,size,k,off in turn, then locators_and_ranges)
-/
import ArvVerif.Base.MD5
import ArvVerif.Base.Loop
import ArvVerif.Model.C10_Py
import ArvVerif.Model.C10_Digest
import ArvVerif.Model.C10_PyReplace
open ArvVerif ArvVerif.C10

def unhex? (s : String) : Option Bytes :=
  if s == "-" then some [] else (bytesOfHex? s).map (·.toList)

def hx (b : Bytes) : String := if b.isEmpty then "-" else hexOfBytes b

def rawStr (b : Bytes) : String := String.ofList (b.map fun c => Char.ofNat c.toNat)

def joinOr (sep : String) (xs : List String) : String := if xs.isEmpty then "-" else sep.intercalate xs

def showSegs (hexloc : Bool) (segs : List Seg) : String :=
  joinOr "," (segs.map fun s => s!"{if hexloc then hx s.loc else rawStr s.loc}:{s.off}:{s.len}")

def showPSegs (segs : List PSeg) : String :=
  joinOr "," (segs.map fun s => s!"{rawStr s.loc}:{s.off}:{s.len}")

def md5hexBytes (b : Bytes) : Bytes := (MD5.hex (ByteArray.mk b.toArray)).toUTF8.toList

/-- synthetic block contents shared with the Go stub keepClient and the Python oracle -/
def blockByte (loc : Bytes) (j : Nat) : UInt8 :=
  let h := loc.takeWhile (· != bPlus)
  if h.isEmpty then UInt8.ofNat (31 * j) else UInt8.ofNat ((h.getD (j % h.length) 0).toNat + 31 * j)

def segContent (segs : List Seg) : Bytes :=
  segs.flatMap fun s => (List.range s.len).map fun k => blockByte s.loc (s.off + k)

def parseNatList (s : String) : Option (List Nat) :=
  if s == "-" then some [] else (s.splitOn ",").mapM String.toNat?

def showFB (none_ exc : String) : FB → String
  | .found i => toString i
  | .notFound => none_
  | .indexPanic => exc
  | .outOfFuel => "out-of-fuel"

def escLine (esc unesc : Bytes → Bytes) (n : Bytes) : String :=
  let e := esc n
  s!"{hx e} {hx (unesc n)} {hx (unesc e)}"

def step (line : String) : String :=
  match fields line with
  | ["m.seg", h] =>
    match unhex? h with
    | some txt =>
      match pkgSegment txt with
      | .ok m => "ok " ++ joinOr ";" (m.map fun e => s!"{hx (e.1.1 ++ bSlash :: e.1.2)}={showSegs false e.2}")
      | .err => "err"
      | .panic => "panic"
    | none => "bad-op"
  | ["m.iter", h, p] =>
    match unhex? h, unhex? p with
    | some txt, some path =>
      match pkgIter txt path with
      | .ok segs => "ok " ++ showPSegs segs
      | .err => "err"
      | .panic => "panic"
    | _, _ => "bad-op"
  | ["m.ext", h, s, r] =>
    match unhex? h, unhex? s, unhex? r with
    | some txt, some src, some rel =>
      match pkgExtract txt src rel with
      | .ok t => "ok " ++ hx t
      | .err => "err"
      | .panic => "panic"
    | _, _, _ => "bad-op"
  | ["m.fb", os, st] =>
    match parseNatList os, st.toNat? with
    | some offs, some start =>
      if offs.isEmpty || offs.any (· ≥ two64) || start ≥ two64 then "bad-op"
      else showFB "-1" "panic" (firstBlock offs start)
    | _, _ => "bad-op"
  | ["m.fix", n] =>
    match unhex? n with
    | some nm => let sp := splitPath nm; s!"{hx (fixStreamName nm)} {hx sp.1} {hx sp.2}"
    | none => "bad-op"
  | ["m.esc", n] =>
    match unhex? n with
    | some nm => escLine pkgEscape pkgUnescape nm
    | none => "bad-op"
  | ["m.clean", n] =>
    match unhex? n with
    | some nm => hx (pathClean nm)
    | none => "bad-op"
  | ["m.num", n] =>
    match unhex? n with
    | some s =>
      let o {α : Type} [ToString α] (x : Option α) : String := match x with | some v => toString v | none => "e"
      s!"{o (parseUint64 s)} {o (parseIntBits 64 s)} {o (parseIntBits 32 s)} {o (parseIntBits 64 s)} {o (parseHex64 s)}"
    | none => "bad-op"
  | ["m.loc", n] =>
    match unhex? n with
    | some s =>
      let pl : String := match parseBlockLocator s with
        | .ok b => s!"{rawStr (digestString b.digest)}:{b.size}:{joinOr "," (b.hints.map rawStr)}"
        | .err => "err"
        | .panic => "panic"
      let fsr : String := match digestFromString s with
        | some d => rawStr (digestString d)
        | none => "err"
      s!"{if isBlockLocator s then "1" else "0"} {pl} {pl} {fsr}"
    | none => "bad-op"
  | ["a.fs", h] =>
    match unhex? h with
    | some txt =>
      match fsLoad txt with
      | none => "err"
      | some t =>
        let p (cs : List Bytes) : String := hx (joinWith bSlash ([bDot] :: cs))
        let ds := t.dirs.map fun d => s!"d:{p d}"
        let fs := t.files.map fun e =>
          s!"f:{p e.1}:{(e.2.map (·.len)).sum}:{showSegs true e.2}:{hx (segContent e.2)}"
        "ok " ++ joinOr ";" (ds ++ fs)
    | none => "bad-op"
  | ["a.pdh", h] =>
    match unhex? h with
    | some txt =>
      let sd := match sizedDigests txt with
        | none => "err"
        | some l => joinOr "," (l.map rawStr)
      s!"{rawStr (portableDataHash md5hexBytes txt)} {sd}"
    | none => "bad-op"
  | ["a.esc", n] =>
    match unhex? n with
    | some nm => escLine fsEscape fsUnescape nm
    | none => "bad-op"
  | ["p.seg", h] =>
    match unhex? h with
    | some txt =>
      match parseSpec txt with
      | some m =>
        match pySegManifest pyFirstBlock m [] with
        | .ok pm =>
          let files := pm.flatMap fun st => st.2.map fun f =>
            s!"{hx (st.1 ++ bSlash :: f.1)}={joinOr "," (f.2.map fun s => s!"{rawStr s.loc}:{s.off}:{s.len}")}"
          s!"ok {joinOr ";" files} {hx (pyNormalizedText pm)}"
        | _ => "exc"
      | none => "bad-op"
    | none => "bad-op"
  | ["p.lr", ss, st, sz] =>
    match parseNatList ss, st.toNat?, sz.toNat? with
    | some sizes, some start, some size =>
      let blocks := (List.range sizes.length).zip sizes |>.map fun (i, s) => (⟨s!"b{i}".toUTF8.toList, s⟩ : Loc)
      match pyLocatorsAndRanges pyFirstBlock (pyRangesFrom 0 blocks) start size with
      | .ok segs => "ok " ++ joinOr "," (segs.map fun s => s!"{rawStr s.loc}:{s.off}:{s.len}")
      | _ => "exc"
    | _, _, _ => "bad-op"
  | ["p.fb", ss, st] =>
    match parseNatList ss, st.toNat? with
    | some sizes, some start =>
      let blocks := sizes.map fun s => (⟨[], s⟩ : Loc)
      showFB "none" "exc" (pyFirstBlock (pyRangesFrom 0 blocks) start)
    | _, _ => "bad-op"
  | ["p.rr", ws, st, sz] =>
    let writes : Option (List (List Nat)) := if ws == "-" then some [] else (ws.splitOn ";").mapM parseNatList
    match writes, st.toNat?, sz.toNat? with
    | some wl, some start, some size =>
      let run : Option (Res (List PyR)) := wl.foldl (fun acc w =>
        match acc, w with
        | some (.ok rs), [a, b, k, o] => some (pyReplaceRange rs a b s!"b{k}".toUTF8.toList o)
        | some (.ok _), _ => none
        | other, _ => other) (some (.ok []))
      match run with
      | some (.ok rs) =>
        match pyLocatorsAndRangesO rs start size with
        | .ok segs =>
          let lst := joinOr "," (rs.map fun r => s!"{rawStr r.loc}:{r.start}:{r.size}:{r.off}")
          s!"ok {lst} " ++ joinOr "," (segs.map fun s => s!"{rawStr s.loc}:{s.off}:{s.len}")
        | _ => "exc"
      | some _ => "exc"
      | none => "bad-op"
    | _, _, _ => "bad-op"
  | ["p.esc", n] =>
    match unhex? n with
    | some nm => hx (pyEscape nm)
    | none => "bad-op"
  | _ => "bad-op"

def main : IO Unit := lineLoop step
