/-
Model driver for C03. Line protocol (single spaces between fields; see harness/props/C03.py):

  sess <retries> <maxblocks> <uuids|-> <blocks> <filetokens|-> <ops>
  conc <retries> <uuids|-> <blocks> <schedule>      (uuids: ','-separated; the model uses their number)
  concm <retries> <maxblocks> <uuids|-> <blocks> <schedule>     (conc = concm with MaxBlocks 0)
  seg  <blkhex|-> <offset> <length> <off> <plen>

  blocks    := block ('|' block)*
  block     := locator '~' plantedhex '~' order '~' script      (plantedhex is for the oracle only)
  order     := digits: service indices in probe order (getSortedRoots; input, owned by C12)
  script    := svcscript (';' svcscript)*          one per service index, consumed request by request
  svcscript := '' | resp (',' resp)*
  resp      := 'E' | 'S'code | 'B:'clen':'flags':'chunk':'hex
               clen = -1 (no Content-Length) or n; flags = (e|u)(t|s)(c|n): clean EOF / transport
               error at the end, end reported together with the last data / separately, Close fails
               / succeeds; chunk = largest piece one Read delivers
  filetokens:= off ':' len (',' …)*      the file "f" of the stream ". <all locators> off:len:f …"
             | stream (';' stream)*      stream := dir '=' b ('.' b)* '=' off ':' len ':' name (',' …)*
                                         dir = "." or "./x/y"; b = block indices of that stream
  ops       := op (',' op)*
     G<b>r | G<b>w | G<b>c<m>   kc.Get then ioutil.ReadAll / WriteTo / io.ReadFull(m) ; then Close
     A<b>                       kc.Ask
     R<b>:<off>:<len>           kc.ReadAt (shared BlockCache{MaxBlocks}), then a synchronous Sweep
     r<len> | k<off>            File.Read / File.Seek(off, SeekStart) on handle 0, Sweep after each Read
     H<b> | V<k>                H: kc.BlockCache.Get(kc, locator), keep the returned slice (k-th held), Sweep;
                                V: print held slice k again
     P<b>                       kc.PutB(copy of the planted content) to services that accept every PUT, then
                                the caller overwrites its buffer
     o<path>                    (new manifest form) kc.CollectionFileReader(manifest, path): next handle
     r<h>:<len> | k<h>:<off>    File.Read / File.Seek on handle h
     k(s|c|e)<h>:<int>          File.Seek(int, SeekStart | SeekCurrent | SeekEnd) on handle h, the offset is signed;
                                result k:<pos>, or k:neg:<pos> for ErrNegativeOffset (pos = the unchanged offset)
  every op result of a session is followed by '@' and the number of HTTP requests made so far
  schedule  := ('s'<b> | 'f'<b> | 'x') (',' …)*   start a reader of block b (ReadAt whole block) /
               synchronous Sweep, then release the oldest blocked request of a fetch started with the locator of
               block b / synchronous Sweep; afterwards everything is released (lowest block first, Sweep before
               each release). Requests consume the scripted answers in the order they reach the services.
               Result: reader results, then ev=<entries with a running fetch deleted by these Sweeps>, then the log.
-/
import ArvVerif.Base.MD5
import ArvVerif.Base.Loop
import ArvVerif.Model.C03
import ArvVerif.Model.C03_Conc
open ArvVerif
open ArvVerif.C03 hiding Bytes

abbrev Dg := List Char

def md5hex (bs : Bytes) : Dg := (hexOfByteArray (MD5.sum (ByteArray.mk bs.toArray))).toList

def errName : Err → String
  | .eof => "eof" | .ueof => "ueof" | .badChecksum => "badsum" | .closeFail => "closefail"
  | .notFound => "notfound" | .failTemp => "temp" | .failPerm => "perm" | .proto => "proto"
  | .panic => "panic"

def optErr : Option Err → String
  | none => "ok"
  | some e => errName e

def hexB (bs : Bytes) : String := hexOfBytes bs

def splitChunks (n : Nat) (bs : Bytes) : List Bytes :=
  if n = 0 then [bs] else
  let rec go (fuel : Nat) (bs : Bytes) (acc : List Bytes) : List Bytes :=
    match fuel with
    | 0 => acc.reverse
    | f + 1 => if bs.isEmpty then acc.reverse else go f (bs.drop n) (bs.take n :: acc)
  go (bs.length + 1) bs []

def parseNat? (s : String) : Option Nat := if s.isEmpty then none else s.toNat?

def parseHex? (s : String) : Option Bytes := (bytesOfHex? s).map (·.toList)

def parseResp (s : String) : Option Resp :=
  if s == "E" then some .connErr
  else if s.startsWith "S" then
    match parseNat? (s.drop 1).toString with
    | some c => if c = 200 then none else some (.status c)
    | none => none
  else match s.splitOn ":" with
    | ["B", clen, flags, chunk, hex] =>
      let clen? : Option (Option Nat) := if clen == "-1" then some none else (parseNat? clen).map some
      match clen?, flags.toList, parseNat? chunk, parseHex? hex with
      | some cl, [f, t, c], some ch, some data =>
        if (f == 'e' || f == 'u') && (t == 't' || t == 's') && (c == 'c' || c == 'n') && ch > 0 then
          some (.ok cl { chunks := splitChunks ch data, fin := if f == 'u' then .ueof else .eof,
                         together := t == 't', closeErr := c == 'c' })
        else none
      | _, _, _, _ => none
    | _ => none

structure Blk where
  loc : List Char
  order : List Nat
  scripts : List (List Resp)
deriving Inhabited

def parseScript (nsvc : Nat) (s : String) : Option (List (List Resp)) :=
  if nsvc = 0 then (if s.isEmpty then some [] else none) else
  (s.splitOn ";").mapM (fun sv => if sv.isEmpty then some [] else (sv.splitOn ",").mapM parseResp)

def parseOrder (nsvc : Nat) (s : String) : Option (List Nat) :=
  if s == "-" then some [] else
  s.toList.mapM (fun c => if '0' ≤ c ∧ c ≤ '9' ∧ c.toNat - 48 < nsvc then some (c.toNat - 48) else none)

def parseBlock (nsvc : Nat) (s : String) : Option Blk :=
  match s.splitOn "~" with
  | [loc, planted, order, script] =>
    match parseHex? planted, parseOrder nsvc order, parseScript nsvc script with
    | some _, some o, some sc =>
      if loc.length < 32 || sc.length != nsvc then none
      else some { loc := loc.toList, order := o, scripts := sc }
    | _, _, _ => none
  | _ => none

def parseBlocks (nsvc : Nat) (s : String) : Option (Array Blk) :=
  ((s.splitOn "|").mapM (parseBlock nsvc)).map List.toArray

/-- Global state of a session. -/
structure Sess where
  blks : Array Blk
  tries : Nat
  maxBlocks : Nat
  slots : List Slot := []
  clock : Nat := 0
  log : List (Nat × Nat) := []
  /-- the files of the collection (`none`: the manifest is rejected, nothing can be opened) -/
  files : Option (List (String × List Seg)) := none
  /-- open handles: segments of the file and the handle's pointer; `none` = the open failed -/
  handles : Array (Option (List Seg × Ptr)) := #[]
  /-- slices returned by BlockCache.Get that the caller still holds (values: they never change) -/
  held : Array Bytes := #[]
  nsvc : Nat := 0

def showLog (l : List (Nat × Nat)) : String :=
  if l.isEmpty then "log=-" else "log=" ++ ",".intercalate (l.map (fun p => s!"{p.1}.{p.2}"))

/-- run getOrHead for block b, threading its scripts and the global log -/
def sessGet (st : Sess) (b : Nat) : Option (GetRes × Sess) :=
  match st.blks[b]? with
  | none => none
  | some blk =>
    let (r, g) := getOrHead blk.loc st.tries blk.order { scripts := blk.scripts }
    some (r, { st with blks := st.blks.set! b ({ blk with scripts := g.scripts } : Blk),
                       log := st.log ++ g.log.map (fun s => (b, s)) })

/-- BlockCache.Get for block b in the sequential model; returns the entry the caller sees. -/
def sessCacheGet (st : Sess) (b : Nat) : Option (Entry × Sess) :=
  match st.blks[b]? with
  | none => none
  | some blk =>
    let key := blk.loc.take 32
    let hit := st.slots.find? (fun s => s.key == key && s.entry.err.isNone)
    match hit with
    | some s =>
      let now := st.clock + 1
      let slots' := st.slots.map (fun t => if t.key == key then ({ t with lastUse := now } : Slot) else t)
      some (s.entry, ({ st with clock := now, slots := slots' } : Sess))
    | none =>
      let (e, g) := fetch md5hex id blk.loc st.tries blk.order { scripts := blk.scripts }
      let now := st.clock + 1
      let slots := st.slots.filter (fun t => t.key != key) ++ [{ key := key, entry := e, lastUse := now }]
      let blks' := st.blks.set! b ({ blk with scripts := g.scripts } : Blk)
      let log' := st.log ++ g.log.map (fun s => (b, s))
      some (e, ({ st with clock := now, slots := slots, blks := blks', log := log' } : Sess))

def doSweep (st : Sess) : Sess := { st with slots := sweep st.maxBlocks st.slots }

def parseOp3 (s : String) : Option (Nat × Nat × Nat) :=
  match s.splitOn ":" with
  | [a, b, c] => match parseNat? a, parseNat? b, parseNat? c with
    | some x, some y, some z => some (x, y, z)
    | _, _, _ => none
  | _ => none

/-- Streaming Get op. -/
def opG (st : Sess) (b : Nat) (mode : String) : Option (String × Sess) :=
  let m? : Option (Option Nat) :=
    if mode == "r" || mode == "w" then some none
    else if mode.startsWith "c" then (parseNat? (mode.drop 1).toString).map some else none
  match m?, sessGet st b, st.blks[b]? with
  | some _, some (r, st'), some blk =>
    let check := blk.loc.take 32
    match r with
    | .err e => some (s!"g:{errName e}", st')
    | .empty =>
      if mode == "r" || mode == "w" then some ("g:0::ok:ok", st')
      else match m? with
        | some (some m) => some (if m = 0 then "g:0::ok:ok" else "g:0::eof:ok", st')
        | _ => none
    | .rdr body expect =>
      if mode == "r" then
        let (d, e) := readAll md5hex check body.fin body.together body.chunks []
        let ce := closeR md5hex check body.fin body.closeErr [] d
        let es := if e == .eof then "ok" else errName e
        some (s!"g:{expect}:{hexB d}:{es}:{optErr ce}", st')
      else if mode == "w" then
        let (d, e) := writeTo md5hex check body.fin body.chunks []
        let ce := closeR md5hex check body.fin body.closeErr [] d
        some (s!"g:{expect}:{hexB d}:{optErr e}:{optErr ce}", st')
      else match m? with
        | some (some m) =>
          let r := readLoop md5hex check body.fin body.together body.chunks m []
          let e1 := fullErr r.1.length m r.2.1
          let e2 := closeR md5hex check body.fin body.closeErr r.2.2.1 r.2.2.2
          some (s!"g:{expect}:{hexB r.1}:{optErr e1}:{optErr e2}", st')
        | _ => none
  | _, _, _ => none

def cacheBackend (st : Sess) (b : Nat) : Option (Entry × Sess) := sessCacheGet st b

def setPtr (st : Sess) (h : Nat) (segs : List Seg) (p : Ptr) : Sess :=
  { st with handles := st.handles.set! h (some (segs, p)) }

/-- File.Read(p[:plen]) on handle h -/
def opFileRead (st : Sess) (h plen : Nat) : Option (String × Sess) :=
  match st.handles[h]? with
  | none => some ("f:noopen", st)
  | some none => some ("f:noopen", st)
  | some (some (segs, ptr)) =>
    -- at most one segment is read; run the cache Get lazily for that segment
    match seek segs ptr with
    | none => some ("f:panic", st)
    | some p =>
      match segs[p.idx]? with
      | none =>
        some ("f::eof", setPtr st h segs p)
      | some s =>
        -- does storedSegment.ReadAt call the backend at all?
        if s.length < p.segOff then
          match fileRead (fun _ _ _ => ([], some .eof)) segs ptr plen with
          | some (d, e, p') => some (s!"f:{hexB d}:{optErr e}", setPtr st h segs p')
          | none => some ("f:panic", st)
        else
          match sessCacheGet st s.blk with
          | none => none
          | some (entry, st') =>
            let segRead := fun (se : Seg) (pl off : Nat) => segReadAt (fun l o => readAtEntry entry o l) se pl off
            match fileRead segRead segs ptr plen with
            | some (d, e, p') => some (s!"f:{hexB d}:{optErr e}", doSweep (setPtr st' h segs p'))
            | none => some ("f:panic", st')

def opFileSeek (st : Sess) (h off : Nat) : Option (String × Sess) :=
  match st.handles[h]? with
  | some (some (segs, ptr)) => some (s!"k:{off}", setPtr st h segs (fileSeek ptr off))
  | _ => some ("k:noopen", st)

/-- File.Seek(off, whence) on handle h -/
def opFileSeekW (st : Sess) (h : Nat) (w : Whence) (off : Int) : Option (String × Sess) :=
  match st.handles[h]? with
  | some (some (segs, ptr)) =>
    let r := fileSeekW (fileSize segs) ptr w off
    match r.2 with
    | some pos => some (s!"k:{pos}", setPtr st h segs r.1)
    | none => some (s!"k:neg:{r.1.off}", setPtr st h segs r.1)
  | _ => some ("k:noopen", st)

def parseSeekW (a : String) : Option (Nat × Int) :=
  match a.splitOn ":" with
  | [h, d] => match parseNat? h, (if d.isEmpty then none else d.toInt?) with
    | some x, some y => some (x, y)
    | _, _ => none
  | _ => none

def opOpen (st : Sess) (path : String) : Option (String × Sess) :=
  match st.files with
  | none => some ("o:noopen", { st with handles := st.handles.push none })
  | some files =>
    match files.find? (fun f => f.1 == path) with
    | none => some ("o:noent", { st with handles := st.handles.push none })
    | some f => some ("o:ok", { st with handles := st.handles.push (some (f.2, {})) })

def parseOp2 (s : String) : Option (Nat × Nat) :=
  match s.splitOn ":" with
  | [a, b] => match parseNat? a, parseNat? b with
    | some x, some y => some (x, y)
    | _, _ => none
  | _ => none

def runOp (st : Sess) (op : String) : Option (String × Sess) :=
  if op.startsWith "G" then
    let rest := (op.drop 1).toString
    let bd := (rest.takeWhile Char.isDigit).toString
    let mode := (rest.dropWhile Char.isDigit).toString
    match parseNat? bd with
    | some b => opG st b mode
    | none => none
  else if op.startsWith "A" then
    match parseNat? (op.drop 1).toString with
    | some b =>
      match sessGet st b with
      | some (.err e, st') => some (s!"a:{errName e}", st')
      | some (.empty, st') => some ("a:0", st')
      | some (.rdr _ n, st') => some (s!"a:{n}", st')
      | none => none
    | none => none
  else if op.startsWith "R" then
    match parseOp3 (op.drop 1).toString with
    | some (b, off, len) =>
      match sessCacheGet st b with
      | some (e, st') =>
        let (d, err) := readAtEntry e off len
        some (s!"r:{d.length}:{hexB d}:{optErr err}", doSweep st')
      | none => none
    | none => none
  else if op.startsWith "H" then
    -- BlockCache.Get(kc, locator): the caller keeps the returned slice; then a synchronous Sweep
    match parseNat? (op.drop 1).toString with
    | some b =>
      match sessCacheGet st b with
      | some (e, st') => some (s!"h:{hexB e.data}:{optErr e.err}", doSweep { st' with held := st'.held.push e.data })
      | none => none
    | none => none
  else if op.startsWith "V" then
    -- look at a held slice again: it is a value, nothing that happened since can have changed it
    match parseNat? (op.drop 1).toString with
    | some k =>
      match st.held[k]? with
      | some d => some (s!"v:{hexB d}", st)
      | none => some ("v:none", st)
    | none => none
  else if op.startsWith "P" then
    -- kc.PutB(copy of the planted content) against services that store everything, after which the
    -- caller overwrites its buffer: writing does not touch the block cache
    match parseNat? (op.drop 1).toString with
    | some b => if b < st.blks.size then some (if st.nsvc = 0 then "p:err" else "p:ok", st) else none
    | none => none
  else if op.startsWith "r" then
    let a := (op.drop 1).toString
    if a.contains ':' then
      match parseOp2 a with
      | some (h, n) => opFileRead st h n
      | none => none
    else match parseNat? a with
      | some n => opFileRead st 0 n
      | none => none
  else if op.startsWith "ks" || op.startsWith "kc" || op.startsWith "ke" then
    let w : Whence := if op.startsWith "ks" then .start else if op.startsWith "kc" then .cur else .fromEnd
    match parseSeekW (op.drop 2).toString with
    | some (h, d) => opFileSeekW st h w d
    | none => none
  else if op.startsWith "k" then
    let a := (op.drop 1).toString
    if a.contains ':' then
      match parseOp2 a with
      | some (h, off) => opFileSeek st h off
      | none => none
    else match parseNat? a with
      | some off => opFileSeek st 0 off
      | none => none
  else if op.startsWith "o" then
    let path := (op.drop 1).toString
    if path.isEmpty then none else opOpen st path
  else none

def runOps (st : Sess) : List String → List String → Option (List String × Sess)
  | [], acc => some (acc.reverse, st)
  | op :: rest, acc =>
    match runOp st op with
    | some (r, st') => runOps st' rest (s!"{r}@{st'.log.length}" :: acc)
    | none => none

def parseTok2 (t : String) : Option (Nat × Nat) :=
  match t.splitOn ":" with
  | [a, b] => match parseNat? a, parseNat? b with
    | some x, some y => some (x, y)
    | _, _ => none
  | _ => none

def parseTok3 (dir : String) (t : String) : Option (Nat × Nat × String) :=
  match t.splitOn ":" with
  | [a, b, name] => match parseNat? a, parseNat? b with
    | some x, some y => if name.isEmpty then none else some (x, y, if dir == "." then name else (dir.drop 2).toString ++ "/" ++ name)
    | _, _ => none
  | _ => none

/-- one stream `dir=b.b.b=off:len:name,…` → (blocks with sizes, tokens); outer `none` = bad-op, inner
`none` = a locator without a usable size hint ("bad locator") -/
def parseStream (blks : Array Blk) (s : String) : Option (Option (List (Nat × Nat) × List (Nat × Nat × String))) :=
  match s.splitOn "=" with
  | [dir, bs, ts] =>
    if !(dir == "." || dir.startsWith "./") then none else
    match (bs.splitOn ".").mapM parseNat?, (ts.splitOn ",").mapM (parseTok3 dir) with
    | some idxs, some toks =>
      if idxs.any (fun i => i ≥ blks.size) then none else
      let sized := idxs.mapM (fun i => match blks[i]? with
        | some b => ((hintField b.loc).bind (parseNonNeg 32)).map (fun sz => (i, sz))
        | none => none)
      some (sized.map (fun bl => (bl, toks)))
    | _, _ => none
  | _ => none

/-- The file table of the collection. Old form `off:len,…`: the single stream ". <all locators>" with
the file f; new form: streams separated by ';'. Result: `none` = bad-op; `some none` = manifest
rejected; `some (some files, autoOpen)`. -/
def openFiles (blks : Array Blk) (toks : String) : Option (Option (List (String × List Seg)) × Bool) :=
  if toks == "-" then some (none, false) else
  if toks.contains '=' then
    match (toks.splitOn ";").mapM (parseStream blks) with
    | none => none
    | some streams =>
      match streams.mapM id with
      | none => some (none, false)
      | some ss => some (loadManifestN ss [], false)
  else
    match (toks.splitOn ",").mapM parseTok2 with
    | none => none
    | some ts =>
      let sizes := blks.toList.mapM (fun b => (hintField b.loc).bind (parseNonNeg 32))
      match sizes with
      | none => some (none, true)          -- "bad locator": the collection cannot be opened
      | some szs =>
        let blocks := (List.range szs.length).zip szs
        some ((loadTokens blocks ts 0 blocks []).map (fun segs => [("f", segs)]), true)

def countUuids (s : String) : Option Nat :=
  if s == "-" then some 0 else
  let us := s.splitOn ","
  if us.any (·.isEmpty) then none else some us.length

def stepSess (retries maxb nsvc blocks toks ops : String) : String :=
  match parseNat? retries, parseNat? maxb, countUuids nsvc with
  | some r, some mb, some k =>
    match parseBlocks k blocks with
    | none => "bad-op"
    | some blks =>
      match openFiles blks toks with
      | none => "bad-op"
      | some (files, auto) =>
        let st0 : Sess := { blks := blks, tries := r + 1, maxBlocks := mb, files := files, nsvc := k }
        -- the old form opens the file f once at the start (handle 0)
        let st : Sess := if auto then
            { st0 with handles := #[match files with
              | some fs => (fs.find? (fun f => f.1 == "f")).map (fun f => (f.2, ({} : Ptr)))
              | none => none] }
          else st0
        match runOps st (if ops == "-" then [] else ops.splitOn ",") [] with
        | some (rs, st') => (if rs.isEmpty then "-" else ",".intercalate rs) ++ " " ++ showLog st'.log
        | none => "bad-op"
  | _, _, _ => "bad-op"

/-! concurrent schedules: the driver runs the transition system of Model/C03_Conc (`apply`) — the one the
theorem `C03_bad_never_cached` is about — and adds only what the theorem abstracts from: which answers a
fetch receives (the scripts, consumed in the order the requests reach the services), and the LRU stamps
that decide what a Sweep deletes. -/

/-- one fetch goroutine of BlockCache.Get, started with the locator of block `fb`: the answers it has
received so far, per service (`n` in total; the last request made is blocked in the stub until released) -/
structure Fetch where
  fid : FetchId
  fb : Nat
  got : List (List Resp)
  n : Nat
deriving Inhabited

structure Conc where
  blks : Array Blk
  tries : Nat
  maxBlocks : Nat
  cs : CS := CS.init
  fetches : List Fetch := []
  /-- fetches whose current request is blocked in the stub, in the order the requests arrived -/
  blocked : List FetchId := []
  /-- the cacheBlock (= the fetch that created it) each key of the map points to -/
  owner : List (Key × FetchId) := []
  /-- lastUse of every cacheBlock, logical clock -/
  stamps : List (FetchId × Nat) := []
  clock : Nat := 0
  nreaders : Nat := 0
  log : List (Nat × Nat) := []
  /-- how many entries whose fetch was still running were deleted by the schedule's synchronous Sweeps -/
  evicted : Nat := 0

def showRead (e : Entry) : String :=
  let (d, err) := readAtEntry e 0 65536
  s!"{hexB d}:{optErr err}"

def Conc.touch (st : Conc) (f : FetchId) : Conc :=
  let now := st.clock + 1
  { st with clock := now, stamps := (f, now) :: st.stamps.filter (fun p => p.1 != f) }

def Conc.stampOf (st : Conc) (f : FetchId) : Nat :=
  match st.stamps.find? (fun p => p.1 == f) with
  | some p => p.2
  | none => 0

/-- BlockCache.Sweep: the executable LRU rule of the model (`sweep`) over the map's entries, applied to the
transition system as the action `sweep keep` -/
def Conc.doSweep (st : Conc) : Conc :=
  let slots : List Slot := st.owner.map (fun p => { key := p.1, entry := { data := [], err := none }, lastUse := st.stampOf p.2 })
  let kept := (sweep st.maxBlocks slots).map (·.key)
  let keep : Key → Bool := fun k => kept.contains k
  let gone := (st.owner.filter (fun p => !keep p.1 && (match st.cs.cache p.1 with
    | some (.pending _) => true
    | _ => false))).length
  { st with cs := apply st.cs (.sweep keep), owner := st.owner.filter (fun p => keep p.1), evicted := st.evicted + gone }

def appendAt (l : List (List Resp)) (i : Nat) (r : Resp) : List (List Resp) :=
  (List.range l.length).zip l |>.map (fun p => if p.1 == i then p.2 ++ [r] else p.2)

/-- Let fetch `fid` run until its next request reaches a service (it then blocks there) or until it is
done (fetchDone: outcome stored in its cacheBlock, waiting readers woken and touching it, then the
`go c.Sweep()`). The answers received so far determine, through the model's `fetch`, what it does next:
the request log of a run over exactly those answers is correct up to the first unanswered request. -/
def Conc.advance (st : Conc) (fid : FetchId) : Conc :=
  match st.fetches.find? (fun f => f.fid == fid) with
  | none => st
  | some f =>
    match st.blks[f.fb]? with
    | none => st
    | some blk =>
      let (e, g) := fetch md5hex id blk.loc st.tries blk.order { scripts := f.got }
      match g.log[f.n]? with
      | some svc =>
        let (resp, scripts') := popResp blk.scripts svc
        let f' : Fetch := { f with got := appendAt f.got svc resp, n := f.n + 1 }
        { st with blks := st.blks.set! f.fb ({ blk with scripts := scripts' } : Blk),
                  fetches := st.fetches.map (fun x => if x.fid == fid then f' else x),
                  blocked := st.blocked ++ [fid],
                  log := st.log ++ [(f.fb, svc)] }
      | none =>
        let woken := st.cs.waiting.any (fun w => w.2.2 == fid)
        let st1 : Conc := { st with cs := apply st.cs (.fetchDone fid e), fetches := st.fetches.filter (fun x => x.fid != fid) }
        let st2 : Conc := if woken then st1.touch fid else st1
        -- the fetch goroutine's own `go c.Sweep()`; not counted in `evicted`
        { st2.doSweep with evicted := st2.evicted }

def concStart (st : Conc) (b : Nat) (nsvc : Nat) : Option Conc :=
  match st.blks[b]? with
  | none => none
  | some blk =>
    let key : Key := blk.loc.take 32
    let r := st.nreaders
    let cs' := apply st.cs (.lookup r key)
    let st' : Conc := { st with cs := cs', nreaders := r + 1 }
    if cs'.nextFid != st.cs.nextFid then
      -- a new cacheBlock and its fetch goroutine
      let fid : FetchId := (key, st.cs.nextFid)
      let nf : Fetch := { fid := fid, fb := b, got := List.replicate nsvc [], n := 0 }
      let owner2 := (key, fid) :: st'.owner.filter (fun p => p.1 != key)
      let st2 : Conc := { st' with owner := owner2, fetches := st'.fetches ++ [nf] }
      some ((st2.touch fid).advance fid)
    else if cs'.results.length != st.cs.results.length then
      -- served from a finished entry: the reader touches that cacheBlock
      match st'.owner.find? (fun p => p.1 == key) with
      | some p => some (st'.touch p.2)
      | none => some st'
    else some st'       -- joined a pending fetch

/-- release the oldest blocked request of a fetch that was started with the locator of block `b`
(after a synchronous Sweep) -/
def concRelease (st : Conc) (b : Nat) : Conc :=
  let st : Conc := st.doSweep
  let cand := st.blocked.find? (fun fid => st.fetches.any (fun f => f.fid == fid && f.fb == b))
  match cand with
  | none => st
  | some fid => ({ st with blocked := st.blocked.erase fid } : Conc).advance fid

def concDrain (st : Conc) : Nat → Conc
  | 0 => st
  | fuel + 1 =>
    let fbs := st.blocked.filterMap (fun fid => (st.fetches.find? (fun f => f.fid == fid)).map (·.fb))
    match fbs with
    | [] => st
    | f :: rest => concDrain (concRelease st (rest.foldl min f)) fuel

def stepConc (retries maxb nsvc blocks sched : String) : String :=
  match parseNat? retries, parseNat? maxb, countUuids nsvc with
  | some r, some mb, some k =>
    match parseBlocks k blocks with
    | none => "bad-op"
    | some blks =>
      let st0 : Conc := { blks := blks, tries := r + 1, maxBlocks := mb }
      let steps := if sched == "-" then [] else sched.splitOn ","
      let res := steps.foldl (fun (acc : Option Conc) s =>
        match acc with
        | none => none
        | some st =>
          if s == "x" then some st.doSweep else
          match parseNat? (s.drop 1).toString with
          | none => none
          | some b =>
            if s.startsWith "s" then concStart st b k
            else if s.startsWith "f" then (if b < st.blks.size then some (concRelease st b) else none)
            else none) (some st0)
      match res with
      | none => "bad-op"
      | some st =>
        let total := (st.fetches.length + 1) * ((r + 1) * k + 1)
        let st := concDrain st (total + st.blocked.length + 1)
        let rs := (List.range st.nreaders).map (fun r => match st.cs.results.find? (fun p => p.1 == r) with
          | some p => showRead p.2.2
          | none => "lost")
        (if rs.isEmpty then "-" else ",".intercalate rs) ++ s!" ev={st.evicted} " ++ showLog st.log
  | _, _, _ => "bad-op"

/-- storedSegment.ReadAt over a planted block (backend = BlockCache.ReadAt on a good entry). -/
def stepSeg (hex offset length off plen : String) : String :=
  match parseHex? (if hex == "-" then "" else hex), parseNat? offset, parseNat? length, parseNat? off, parseNat? plen with
  | some blk, some o, some l, some f, some p =>
    let calls : List (Nat × Nat) := if l < f then [] else [(f + o, if l - f < p then l - f else p)]
    let r := segReadAt (fun len o' => readAtEntry { data := blk, err := none } o' len) { blk := 0, offset := o, length := l } p f
    let cs := if calls.isEmpty then "-" else ",".intercalate (calls.map (fun c => s!"{c.1}/{c.2}"))
    s!"{r.1.length}:{hexB r.1}:{optErr r.2}:{cs}"
  | _, _, _, _, _ => "bad-op"

def step (line : String) : String :=
  match fields line with
  | ["sess", retries, maxb, nsvc, blocks, toks, ops] => stepSess retries maxb nsvc blocks toks ops
  | ["conc", retries, nsvc, blocks, sched] => stepConc retries "0" nsvc blocks sched
  | ["concm", retries, maxb, nsvc, blocks, sched] => stepConc retries maxb nsvc blocks sched
  | ["seg", hex, offset, length, off, plen] => stepSeg hex offset length off plen
  | _ => "bad-op"

def main : IO Unit := lineLoop step
