/-
Model driver for C17. Line protocol (see harness/overlay/lib/crunchrun/zz_verif_c17_test.go):

  copy <blocksize> <ctrOutHex> <host> <mounts> <secrets> <colls>

Output: `ok <bytes put> <listing>` | `err <class>` | `skip-config` | `unmodelled` | `diverge` (the walk did not
end within `fuelBound h cfg + 16` nested calls: proved sufficient for every supported configuration, C17_terminates); when the
result depends on Go's map iteration order over the mounts, the distinct results of all orders are
printed, separated by " | " (the harness checks membership).
-/
import ArvVerif.Base.MD5
import ArvVerif.Base.Loop
import ArvVerif.Model.C17
open ArvVerif ArvVerif.C17

def unhex (s : String) : Option String :=
  if s == "-" then some "" else
  match bytesOfHex? s with
  | some b => String.fromUTF8? b
  | none => none

def listOf (s : String) (sep : String) : List String :=
  if s == "-" || s == "" then [] else s.splitOn sep

def content (seed n : Nat) : Bytes :=
  (List.range n).map fun i => UInt8.ofNat ((seed * seed * 31 + seed * 7 + i * i * (seed % 7 + 1) + i * (seed % 13 + 3) * 5 + (i / 256) * 11) % 256)

def seedLen (s : String) : Option (Nat × Nat) :=
  match s.splitOn "." with
  | [a, b] => match a.toNat?, b.toNat? with
    | some x, some y => some (x, y)
    | _, _ => none
  | _ => none

/-- components of an absolute path string `/a/b` -/
def absComps (s : String) : Path := (s.splitOn "/").drop 1

def parseHostEntry (s : String) : Option (Path × Node) :=
  match s.splitOn ":" with
  | [p, k, a] =>
    (unhex p).bind fun ps =>
      let path := ps.splitOn "/"
      if k == "f" then (seedLen a).map fun (sd, n) => (path, Node.file (content sd n))
      else if k == "d" then some (path, .dir)
      else if k == "p" || k == "s" || k == "c" || k == "b" then some (path, .special)   -- FIFO, socket, devices
      else if k == "l" then
        (unhex a).bind fun t =>
          if t.isEmpty then none
          else if t.startsWith "/" then some (path, .link true (absComps t))
          else some (path, .link false (t.splitOn "/"))
      else none
  | _ => none

/-- a stream `<nameHex>:<blocks>:<toks>` appended to the segmented collection -/
def addStream (c : Coll) (s : String) : Option Coll :=
  match s.splitOn ":" with
  | [nm, bs, ts] =>
    (unhex nm).bind fun name =>
    ((listOf bs ",").mapM seedLen).bind fun blocks =>
      let data : Bytes := blocks.flatMap fun (sd, n) => content sd n
      let scomps := (name.splitOn "/").drop 1
      (listOf ts ",").foldlM (fun (c : Coll) (t : String) =>
        match t.splitOn "." with
        | [p, l, fn] =>
          match p.toNat?, l.toNat?, unhex fn with
          | some pos, some len, some f =>
            let full := scomps ++ f.splitOn "/"
            let dir := full.dropLast
            let base := full.getLast?.getD ""
            let piece := (data.drop pos).take len
            if c.any (fun e => e.1 = dir ∧ e.2.1 = base) then
              some (c.map fun e => if e.1 = dir ∧ e.2.1 = base then (e.1, e.2.1, e.2.2 ++ piece) else e)
            else some (c ++ [(dir, base, piece)])
          | _, _, _ => none
        | _ => none) c
  | _ => none

def parseColl (s : String) : Option Coll := (listOf s ";").foldlM addStream []

def parseMount (colls : List Coll) (s : String) : Option (Path × Mount) :=
  match s.splitOn ":" with
  | [p, kind, flags, ci, mp] =>
    match unhex p, unhex mp with
    | some ps, some mps =>
      let coll : Option (Option Coll) :=
        if ci == "-" then some none else
        match ci.toNat? with
        | some i => some colls[i]?
        | none => none
      coll.map fun c =>
        (absComps ps, { kind := kind, writable := flags.contains 'w', exclude := flags.contains 'x', coll := c,
                        path := mps.splitOn "/" })
    | _, _ => none
  | _ => none

def pathHex (p : Path) : String :=
  hexOfByteArray (String.join (p.map fun c => "/" ++ c)).toUTF8

def listing (t : Tree) : String :=
  let items := t.filterMap fun e =>
    match e.2 with
    | .file c => some (pathHex e.1 ++ "=f." ++ toString c.length ++ "." ++ MD5.hex (ByteArray.mk c.toArray))
    | .dir =>
      if t.any (fun x => e.1.isPrefixOf x.1 ∧ e.1.length < x.1.length) then none
      else some (pathHex e.1 ++ "=d")
  if items.isEmpty then "-" else ";".intercalate items

def errName : Err → String
  | .notMounted => "notmounted" | .symlinks => "symlinks" | .lstat => "lstat" | .kind => "kind"
  | .ftype => "type" | .manifest => "manifest" | .fs => "fs" | .mkdir => "mkdir" | .copy => "copy"

/-- outcome before rendering: equal outcomes render equally -/
def outcome (h : Host) (cfg : Cfg) : Res (Nat × Tree) :=
  (scan h cfg (fuelBound h cfg + 16)).bind fun p => (runPlan h p).bind fun t => .ok (putBytes h p, t)

def render : Res (Nat × Tree) → String
  | .ok (n, t) => "ok " ++ toString n ++ " " ++ listing t
  | .err e => "err " ++ errName e
  | .unmodelled => "unmodelled"
  | .fuel => "diverge"

def perms {α : Type} : List α → List (List α)
  | [] => [[]]
  | x :: xs => (perms xs).flatMap fun p => (List.range (p.length + 1)).map fun i => p.take i ++ x :: p.drop i

def step (line : String) : String :=
  match fields line with
  | ["copy", bs, co, hs, ms, ss, cs] =>
    match bs.toNat?, unhex co, (listOf hs ";").mapM parseHostEntry, (listOf cs "|").mapM parseColl,
          (listOf ss ",").mapM unhex with
    | some b, some ctrOut, some host, some colls, some secrets =>
      if b = 0 then "bad-op" else
      match (listOf ms ";").mapM (parseMount colls) with
      | some mounts =>
        let cfg : Cfg := { ctrOut := absComps ctrOut, hostOut := ["h1", "h2", "o"], mounts := mounts,
                           secrets := secrets.map absComps }
        if ! runnable cfg then "skip-config" else
        -- the driver creates R/h1/h2/o before the listed entries
        let host : Host := [(["h1"], .dir), (["h1", "h2"], .dir), (["h1", "h2", "o"], .dir)] ++ host
        let outs := ((if mounts.length ≤ 5 then perms mounts else [mounts]).map fun m =>
          render (outcome host { cfg with mounts := m })).eraseDups
        " | ".intercalate outs
      | none => "bad-op"
    | _, _, _, _, _ => "bad-op"
  | _ => "bad-op"

def main : IO Unit := lineLoop step
