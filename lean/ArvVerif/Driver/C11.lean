/-
Model driver for C11. Line protocol (single spaces; "-" = empty list / empty string):

  put <entry> <want> <retries> <hash> <datahex> <svc;svc;...> <pick,pick,...>
      entry = raw | puthb | putb | puthr:<dataBytes> | puthrx:<dataBytes>   (puthrx: the stream given to
              PutHR delivers the data and then fails with an error instead of EOF)
      svc   = <uuid>:<d|p>:<w|r>:<out,out,...>        (d = disk, p = proxy; w = writable, r = read-only)
      out   = e | er | es | et | eo | eh   connection error (opaque, refused, reset, timeout,
                                      unexpected EOF, no route): all the same to the model
            | k                       honest store: 200 "<hash>+<len>" / replicas 1 if md5(body) = hash, else 422
            | <code>[H<hex>][B<hex>]  fixed answer: status, X-Keep-Replicas-Stored value, body
      The i-th `out` of a service answers its i-th request; a request beyond the list is answered
      with a connection error. Whatever the script says, a request whose body cannot be read or has
      the wrong length fails like a connection error (the fake transport's rule).
    -> <ok|insufficient|oversize> <locatorhex> <replicas> <requests per service> <log>
      log = processed answers "svc.attempt.code" in processing order, '|', uploads still in flight
      at the return (sorted by service)

  seq <k> <the 7 fields of a put> x k     -- k puts, one after the other, on ONE client; the puts
      list the same service uuids and use raw/puthb/putb; type and read-only flag of the services,
      scripts, want, retries, data and picks are per put (the client is given the service list again
      before every later put: LoadKeepServicesFromJSON, or a refreshed discovery answer). The client
      keeps no state between calls and a reload replaces what it knew (Model.reload), so the model
      answer is the k independent answers.
    -> <answer 1> / <answer 2> / ...

  upl <e | <code>[H<hex>][B<hex>][X]>      X = the body fails with a non-EOF error after its bytes
    -> <statusCode> <replicasStored> <responsehex, only for 200>

  reload <json|api> <k> <list 1> ... <list k>    -- ONE client is given k service lists in a row
    -> as for load (what it holds at the end)

  disc api <uuid,host,port,ssl,type,ro;...>     -- a fresh client discovers its services from a stub
                                                   API server (discoverServices, cache, poll, Call)
  disc uris <uri,uri,...>                        -- ... or from ARVADOS_KEEP_SERVICES
    -> as for load, plus asked=<METHOD:path:auth of the API request | ->

  abuf <inithex> <op,op,...>        -- calls on ONE asyncbuf.Buffer made with NewBuffer(init)
      op = w<hex> Write | c Close | cx<tag> CloseWithError(error #tag) | n NewReader
         | r<i>:<n> reader i calls Read with a buffer of n bytes
    -> one result per op: w<n> | we:<err> | c | n<i> | g<hex> (bytes, nil error) | e:<err> | nr
       | block   (the Read waits; it is completed right after the next op, which must be a non-empty
                  Write or a close: its result follows that op's result; otherwise `stuck`, end)
       err = EOF | X<tag>

  load <nd0> <uuid,host,port,ssl,type,ro;...>
    -> L=<uuid=url,...> W=<...> G=<...> rps=<n> nd=<0|1>          (maps sorted by uuid)
-/
import ArvVerif.Base.Bytes
import ArvVerif.Base.MD5
import ArvVerif.Base.Loop
import ArvVerif.Model.C11
import ArvVerif.Model.C11_Abuf
open ArvVerif ArvVerif.C11

def splitOr (sep : String) (s : String) : List String :=
  if s == "-" then [] else s.splitOn sep

def bytesToNats (b : ByteArray) : List Nat := b.toList.map (·.toNat)
def natsToBytes (l : List Nat) : ByteArray := ByteArray.mk (l.map UInt8.ofNat).toArray
def hexOfNats (l : List Nat) : String := if l.isEmpty then "-" else hexOfByteArray (natsToBytes l)

def md5hexOfNats (l : List Nat) : String := MD5.hex (natsToBytes l)

def md5Nat (s : String) : Nat :=
  (MD5.sum s.toUTF8).toList.foldl (fun acc b => acc * 256 + b.toNat) 0

inductive Out where
  | err
  | honest
  | fixed (code : Nat) (hdr : Option (List Char)) (body : List Nat) (bodyErr : Bool)

/-- `<code>[H<hex>][B<hex>][X]` -/
def parseOut (t : String) : Option Out :=
  if t == "e" || t == "er" || t == "es" || t == "et" || t == "eo" || t == "eh" then some .err
  else if t == "k" then some .honest
  else
    let cs := t.toList
    let digits := cs.takeWhile Char.isDigit
    let rest := cs.dropWhile Char.isDigit
    if digits.isEmpty then none else
    let code := (String.ofList digits).toNat!
    let isHex := fun (c : Char) => (hexVal? c).isSome && !c.isUpper
    let (hdr, rest) : Option (Option (List Char)) × List Char := match rest with
      | 'H' :: r =>
        let hx := r.takeWhile isHex
        ((bytesOfHex? (String.ofList hx)).map (fun b => some (b.toList.map (fun x => Char.ofNat x.toNat))),
         r.dropWhile isHex)
      | r => (some none, r)
    let (body, rest) : Option (List Nat) × List Char := match rest with
      | 'B' :: r =>
        let hx := r.takeWhile isHex
        ((bytesOfHex? (String.ofList hx)).map bytesToNats, r.dropWhile isHex)
      | r => (some [], r)
    let (berr, rest) : Bool × List Char := match rest with
      | 'X' :: r => (true, r)
      | r => (false, r)
    match hdr, body, rest with
    | some h, some b, [] => some (.fixed code h b berr)
    | _, _, _ => none

structure SvcCase where
  uuid : String
  disk : Bool
  writable : Bool
  outs : List Out

def parseSvc (s : String) : Option SvcCase :=
  match s.splitOn ":" with
  | [u, t, w, os] =>
    if (t != "d" && t != "p") || (w != "w" && w != "r") then none else
    match (splitOr "," os).mapM parseOut with
    | some outs => some { uuid := u, disk := t == "d", writable := w == "w", outs := outs }
    | none => none
  | _ => none

/-- what the fake transport sees of the request body -/
structure Sent where
  hash : String
  body : List Nat
  fails : Bool

/-- `Model.honestCode` with the locator the honest store issues -/
def honestUp (sent : Sent) : Up :=
  if md5hexOfNats sent.body == sent.hash then
    upload (.resp 200 (some ['1']) ((sent.hash ++ "+" ++ toString sent.body.length).toUTF8.toList.map (·.toNat)) false)
  else
    upload (.resp 422 none ("hash mismatch".toUTF8.toList.map (·.toNat)) false)

def outUp (sent : Sent) : Option Out → Up
  | none => upload .connErr
  | some .err => upload .connErr
  | some .honest => if sent.fails then upload .connErr else honestUp sent
  | some (.fixed code hdr body be) => if sent.fails then upload .connErr else upload (.resp code hdr body be)

def uuidSuffix (u : String) : String := if u.length == 27 then (u.drop 12).toString else u

def joinC (l : List String) : String := if l.isEmpty then "-" else ",".intercalate l

def sortNat (l : List Nat) : List Nat := l.mergeSort (fun a b => decide (a ≤ b))

def runPut (entry : String) (want retries : Nat) (hash : String) (data : List Nat)
    (svcs : List SvcCase) (picks : List Nat) : String :=
  let n := svcs.length
  let zeros := joinC (List.replicate n "0")
  -- entry point: the requests it makes (Model: putHBWire / putBWire / putHRWire), `none` = oversize
  let md5l := fun (b : List Nat) => (md5hexOfNats b).toList
  let wire : Option (Option Wire) :=
    if entry == "raw" || entry == "puthb" then some (some (putHBWire hash.toList data))
    else if entry == "putb" then some (some (putBWire md5l data))
    else match entry.splitOn ":" with
      | [e, nb] =>
        if e != "puthr" && e != "puthrx" then none else
        match nb.toInt? with
        | some dataBytes =>
          some (putHRWire md5l hash.toList { data := data, fin := if e == "puthrx" then .err else .eof } dataBytes)
        | none => none
      | _ => none
  let ent : Option (Option Sent) := wire.map fun ow => ow.map fun w =>
    { hash := String.ofList w.hash, body := w.delivered.getD [], fails := w.delivered.isNone }
  match ent with
  | none => "bad-op"
  | some none => s!"oversize - 0 {zeros} -|-"
  | some (some sent) =>
    let h := sent.hash
    -- service discovery
    let svcList : List Svc := svcs.mapIdx fun i s =>
      { uuid := s.uuid.toList, host := s!"h{i}.example".toList, port := 25107, ssl := false,
        typ := (if s.disk then "disk" else "proxy").toList, ro := !s.writable }
    let roots := load false svcList
    -- glue between loadKeepServers and putReplicas (Model: `writableIdx`, `C11_requests_listed_writable`)
    let writableIdx := ArvVerif.C11.writableIdx svcList
    -- rendezvous order of the writable services (descending md5(hash ++ uuid suffix))
    let w : Nat → Nat := fun (i : Nat) => match svcs[i]? with
      | some s => md5Nat (h ++ uuidSuffix s.uuid)
      | none => 0
    let sv := writableIdx.mergeSort (fun a b => decide (w b ≤ w a))
    let script : Srv → Nat → Up := fun i k =>
      match svcs[i]? with
      | some s => outUp sent s.outs[k]?
      | none => upload .connErr
    let c : Cfg := { want := want, rps := roots.rps, retries := retries, script := script }
    match put c sv picks with
    | none => "model-out-of-fuel"
    | some (res, st) =>
      let (cls, loc, cnt) := match res with
        | .ok l k => ("ok", l, k)
        | .insufficient l k => ("insufficient", l, k)
      let counts := (List.range n).map fun i => toString (st.reqLog.filter (fun e => e.1 == i)).length
      let showE := fun (e : Srv × Nat) => s!"{e.1}.{e.2}.{(script e.1 e.2).code}"
      let processed := st.respLog.reverse.map showE
      let pending := (sortNat st.active).map fun i => showE (i, st.round)
      s!"{cls} {hexOfNats loc} {cnt} {joinC counts} {joinC processed}|{joinC pending}"

def parseNats (s : String) : Option (List Nat) := (splitOr "," s).mapM String.toNat?

def showMap (m : RootMap) : String :=
  let strs := m.map fun e => (String.ofList e.1, String.ofList e.2)
  let sorted := strs.toArray.qsort (fun a b => a.1 < b.1) |>.toList
  joinC (sorted.map fun e => e.1 ++ "=" ++ e.2)

def parseLoadSvc (s : String) : Option Svc :=
  match s.splitOn "," with
  | [u, h, p, ssl, t, ro] =>
    match p.toInt? with
    | some port =>
      if (ssl != "0" && ssl != "1") || (ro != "0" && ro != "1") then none else
      some { uuid := u.toList, host := h.toList, port := port, ssl := ssl == "1",
             typ := (if t == "-" then "" else t).toList, ro := ro == "1" }
    | none => none
  | _ => none

def putOf : List String → String
  | [entry, want, retries, hash, datahex, svcs, picks] =>
    match want.toNat?, retries.toNat?, (if datahex == "-" then some ByteArray.empty else bytesOfHex? datahex),
          (splitOr ";" svcs).mapM parseSvc, parseNats picks with
    | some w, some r, some d, some ss, some ps => runPut entry w r hash (bytesToNats d) ss ps
    | _, _, _, _, _ => "bad-op"
  | _ => "bad-op"

def chunks7 : List String → Option (List (List String))
  | [] => some []
  | a :: b :: c :: d :: e :: f :: g :: rest => (chunks7 rest).map (fun t => [a, b, c, d, e, f, g] :: t)
  | _ => none

/-- the uuids of the services of a put's service field (type and read-only flag may change between
the puts of a sequence: the client is given the list again before each put) -/
def svcKey (svcs : String) : List (List String) :=
  (svcs.splitOn ";").map fun s => (s.splitOn ":").take 1

def seqOf (k : String) (rest : List String) : String :=
  match k.toNat?, chunks7 rest with
  | some n, some puts =>
    if n == 0 || puts.length != n then "bad-op" else
    let key := (puts.head?.bind (·[5]?)).map svcKey
    let okShape := puts.all fun p =>
      (p[5]?.map svcKey) == key && !((p[0]?.getD "").startsWith "puthr")
    if !okShape then "bad-op" else
    let outs := puts.map putOf
    if outs.any (· == "bad-op") then "bad-op" else " / ".intercalate outs
  | _, _ => "bad-op"

def showAErr : AErr → String
  | .eof => "EOF"
  | .other t => s!"X{t}"

def showAOut : AOut → String
  | .wrote n => s!"w{n}"
  | .writeErr e => "we:" ++ showAErr e
  | .closed => "c"
  | .reader i => s!"n{i}"
  | .got bs => "g" ++ hexOfNats bs
  | .fin e => "e:" ++ showAErr e
  | .block => "block"
  | .noReader => "nr"

def parseAOp (t : String) : Option AOp :=
  if t == "c" then some (.close none)
  else if t == "n" then some .newReader
  else if t.startsWith "cx" then (t.drop 2).toString.toNat?.map fun k => .close (some (.other k))
  else if t.startsWith "w" then
    let h := (t.drop 1).toString
    if h.isEmpty then some (.write []) else (bytesOfHex? h).map fun b => .write (bytesToNats b)
  else if t.startsWith "r" then
    match (t.drop 1).toString.splitOn ":" with
    | [i, n] => match i.toNat?, n.toNat? with
      | some i, some n => some (.read i n)
      | _, _ => none
    | _ => none
  else none

/-- runs the calls; a Read that waits is completed after the next call if that call can wake it -/
def runAbuf (b : ABuf) (pending : Option (Nat × Nat)) : List AOp → List String
  | [] => []
  | op :: rest =>
    match pending with
    | some (i, n) =>
      let wakes := match op with
        | .write p => !p.isEmpty
        | .close _ => true
        | _ => false
      if !wakes then ["stuck"] else
      let (b1, o1) := AStep b op
      let (b2, o2) := AStep b1 (.read i n)
      showAOut o1 :: showAOut o2 :: runAbuf b2 none rest
    | none =>
      let (b1, o) := AStep b op
      match op, o with
      | .read i n, .block => "block" :: runAbuf b1 (some (i, n)) rest
      | _, _ => showAOut o :: runAbuf b1 none rest

def step (line : String) : String :=
  match fields line with
  | ["abuf", init, ops] =>
    match (if init == "-" then some ByteArray.empty else bytesOfHex? init), (splitOr "," ops).mapM parseAOp with
    | some i, some l => joinC (runAbuf (ABuf.new (bytesToNats i)) none l)
    | _, _ => "bad-op"
  | "put" :: rest => if rest.length == 7 then putOf rest else "bad-op"
  | "seq" :: k :: rest => seqOf k rest
  | ["upl", t] =>
    match parseOut t with
    | some .err => let u := upload .connErr; s!"{u.code} {u.rep} -"
    | some (.fixed code hdr body be) =>
      let u := upload (.resp code hdr body be)
      s!"{u.code} {u.rep} {if u.code == 200 then hexOfNats u.body else "-"}"
    | _ => "bad-op"
  | ["disc", "api", svcs] =>
    match (splitOr ";" svcs).mapM parseLoadSvc with
    | some l =>
      let r := discoverAPI l
      s!"L={showMap r.locals} W={showMap r.writable} G={showMap r.gateways} rps={r.rps} nd={if r.nonDisk then 1 else 0} asked=GET:/arvados/v1/keep_services/accessible:auth"
    | none => "bad-op"
  | ["disc", "uris", uris] =>
    let r := discoverURIs ((splitOr "," uris).map String.toList)
    s!"L={showMap r.locals} W={showMap r.writable} G={showMap r.gateways} rps={r.rps} nd={if r.nonDisk then 1 else 0} asked=-"
  | "reload" :: mode :: k :: lists =>
    if mode != "json" && mode != "api" then "bad-op" else
    match k.toNat?, lists.mapM (fun l => (splitOr ";" l).mapM parseLoadSvc) with
    | some n, some ls =>
      if n == 0 || ls.length != n then "bad-op" else
      let r := reload false ls
      s!"L={showMap r.locals} W={showMap r.writable} G={showMap r.gateways} rps={r.rps} nd={if r.nonDisk then 1 else 0}"
    | _, _ => "bad-op"
  | ["load", nd0, svcs] =>
    if nd0 != "0" && nd0 != "1" then "bad-op" else
    match (splitOr ";" svcs).mapM parseLoadSvc with
    | some l =>
      let r := load (nd0 == "1") l
      s!"L={showMap r.locals} W={showMap r.writable} G={showMap r.gateways} rps={r.rps} nd={if r.nonDisk then 1 else 0}"
    | none => "bad-op"
  | _ => "bad-op"

def main : IO Unit := lineLoop step
