/-
Model driver for C19. Line protocol (fields separated by one space; strings are lowercase hex,
"-" = empty string / empty list; inside compound fields an empty string is the empty hex string):

  salt <tok> <remote>                          auth.SaltToken
  twice <tok> <remote1> <remote2>              SaltToken (SaltToken tok remote1) remote2
  load <M> <A> <Q> <K> <T> <B>                 LoadTokensFromHTTPRequest, LoadTokensFromHTTPRequestBody
  legacy <remote> <M> <A> <Q> <K> <T> <B> <D>  Handler.saltAuthToken (through remoteClusterRequest)
  legacyw <remote> <M> <A> <Q> <K> <T> <B> <D> <H>   remoteClusterRequest -> saltAuthToken -> proxy.Do,
                                               all outgoing headers; H = - | <name>=<value>,…
  legacynf …same fields…                       the same with a remote that is not configured
  prov <remote> <toks>                         saltedTokenProvider
  provhttp <remote> <toks>                     the same, observed in the request rpc.Conn sends
  fednew <remote> <toks>                       the rpc.Conn federation.New wires up for the remote
                                               (local backend unreachable: every lookup fails)
  provseq <remote;…> <toks>                    providers of several remotes, one request context
  provhttpseq <remote;…> <toks>                the same through one rpc.Conn per remote
  provnc <remote>                              saltedTokenProvider, no credentials in the context
  keep <remote> <tok>                          remoteProxy.remoteClient
  keepget <remote> <tok>                       remoteProxy.Get with a +R<remote>- hint
  keepseq <remote>:<tok>;…                     remoteClient calls in sequence on ONE remoteProxy
  keepgetseq <remote>[+<remote>…]:<tok>;…      Get requests in sequence on ONE remoteProxy, each
                                               locator with one or more +R hints
  kproc <cfg> <auths>:<hash>+<hint>+…;…        Get requests in sequence on a keepstore process that has
                                               just started (no remote keep client yet): cfg = configured
                                               remote ids (','), auths = - | Authorization values (',')

  M  method                      A  - | p.<raw header> | b.<user>.<password>
  Q  - | item,item,…  (item = <key>=<value> | !)          K  - | t.<token> | r.<raw Cookie header>
  T  - | <content type>          B  - | f.<items> | o.<opaque bytes>
  D  - | <secret>=<authorization uuid>=<user uuid>,…       (api_client_authorizations rows)
  toks  - | <tok>:<lookup>;…     lookup = n (401) | e<status> | x (error without status) | f.<uuid>.<api_token>
  item separators '~' and '^' instead of '=' select alternative percent-encodings (same item)

The MAC is the executable HMAC-SHA1 of Base/SHA1.lean with key = secret, message = remote id.
-/
import ArvVerif.Base.SHA1
import ArvVerif.Base.Loop
import ArvVerif.Model.C19
import ArvVerif.Model.C19_Keep
open ArvVerif ArvVerif.C19

def toBA (s : Str) : ByteArray := ByteArray.mk (s.map (fun c => UInt8.ofNat c.toNat)).toArray

def hmacSha1 (key msg : Str) : List UInt8 := (SHA1.hmac (toBA key) (toBA msg)).toList

/-- compound-field hex: "" = empty -/
def unhexC (s : String) : Option Str :=
  (bytesOfHex? s).map (fun ba => ba.toList.map (fun b => Char.ofNat b.toNat))

/-- standalone-field hex: "-" = empty -/
def unhex (s : String) : Option Str := if s == "-" then some [] else unhexC s

def hexC (s : Str) : String := hexOfBytes (s.map (fun c => UInt8.ofNat c.toNat))
def hex (s : Str) : String := if s.isEmpty then "-" else hexC s
def hexList (ss : List Str) : String := if ss.isEmpty then "-" else ",".intercalate (ss.map hexC)

def parseItems (s : String) : Option (List QItem) :=
  if s == "-" then some [] else
  (s.splitOn ",").mapM (fun it =>
    if it == "!" then some QItem.bad else
    -- the separator only selects how the Go driver percent-encodes the item ('=' canonical,
    -- '~' every byte of the key escaped, '^' non-alphanumerics of the key and every byte of the
    -- value escaped); the value-level item is the same
    match (it.replace "~" "=").replace "^" "=" |>.splitOn "=" with
    | [k, v] => do some (QItem.good (← unhexC k) (← unhexC v))
    | _ => none)

def showItems (kvs : List (Str × Str)) : String :=
  if kvs.isEmpty then "-" else ",".intercalate (kvs.map (fun kv => hexC kv.1 ++ "=" ++ hexC kv.2))

def parseAuth (s : String) : Option AuthHdr :=
  if s == "-" then some .absent
  else if s.startsWith "p." then (unhexC (s.drop 2).toString).map .plain
  else if s.startsWith "b." then
    match (s.drop 2).toString.splitOn "." with
    | [u, p] => do some (.basic (← unhexC u) (← unhexC p))
    | _ => none
  else none

def parseCookie (s : String) : Option CookieHdr :=
  if s == "-" then some .absent
  else if s.startsWith "t." then (unhexC (s.drop 2).toString).map .token
  else if s.startsWith "r." then (unhexC (s.drop 2).toString).map (fun _ => .other)
  else none

def parseBody (s : String) : Option Body :=
  if s == "-" then some (.form [])
  else if s.startsWith "f." then (parseItems (s.drop 2).toString).map .form
  else if s.startsWith "o." then (unhexC (s.drop 2).toString).map (fun _ => .raw)
  else none

def parseReq (m a q k t b : String) : Option Req := do
  let auth ← parseAuth a
  let query ← parseItems q
  let cookie ← parseCookie k
  let ctype ← if t == "-" then some none else (unhexC t).map some
  let body ← parseBody b
  if m.isEmpty then none
  some { postLike := m == "POST" || m == "PUT" || m == "PATCH", auth, query, cookie, ctype, body }

def parseDB (s : String) : Option (Str → Option (Str × Str)) :=
  if s == "-" then some (fun _ => none) else do
  let rows ← (s.splitOn ",").mapM (fun it =>
    match it.splitOn "=" with
    | [t, a, u] => do some ((← unhexC t), (← unhexC a), (← unhexC u))
    | _ => none)
  some (fun secret => (rows.find? (fun r => r.1 == secret)).map (·.2))

def parseLookup (s : String) : Option Lookup :=
  if s == "n" then some (.error 401)
  else if s == "x" then some (.error 500)          -- an error without HTTP status
  else if s.startsWith "e" then ((s.drop 1).toString.toNat?).map .error
  else if s.startsWith "f." then
    match (s.drop 2).toString.splitOn "." with
    | [u, a] => do some (.found (← unhexC u) (← unhexC a))
    | _ => none
  else none

def parseToks (s : String) : Option (List (Str × Lookup)) :=
  if s == "-" then some [] else
  (s.splitOn ";").mapM (fun it =>
    match it.splitOn ":" with
    | [t, l] => do some ((← unhexC t), (← parseLookup l))
    | _ => none)

def showSaltErr : SaltErr → String
  | .obsolete => "err obsolete"
  | .format => "err format"
  | .salted => "err salted"

def showSalt : Except SaltErr Str → String
  | .ok t => "ok " ++ hex t
  | .error e => showSaltErr e

def showItemsOut : ItemsOut → String
  | .same => "same"
  | .re kvs => "re:" ++ showItems kvs

def parseHeaders (s : String) : Option (List (Str × Str)) :=
  if s == "-" then some [] else
  (s.splitOn ",").mapM (fun it =>
    match it.splitOn "=" with
    | [k, v] => do
      let k ← unhexC k
      -- the credential-bearing headers have their own fields
      if k == hAuthorization || k == hCookie || k == hContentType then none
      some (k, (← unhexC v))
    | _ => none)

def showWire : WireOut → String
  | .sent w =>
    let f := w.fwd
    "fwd A=" ++ (match f.auth with | .same => "same" | .set v => hex v) ++
    " Q=" ++ showItemsOut f.query ++ " B=" ++ showItemsOut f.body ++
    " K=" ++ (match f.cookie with | .same => "same" | .stripped => "stripped") ++
    " H=" ++ showItems w.others ++ " XFF=" ++ hex w.xff ++ " XFP=" ++ hex w.xfp ++ " VIA=" ++ hexList w.via
  | .notFound => "notfound"
  | .err .salted => "err salted"
  | .err .other => "err other"
  | .panic => "panic"
  | .unmodelled => "unmodelled"

def showLegacy : LegacyOut → String
  | .fwd f =>
    "fwd A=" ++ (match f.auth with | .same => "same" | .set v => hex v) ++
    " Q=" ++ showItemsOut f.query ++ " B=" ++ showItemsOut f.body ++
    " K=" ++ (match f.cookie with | .same => "same" | .stripped => "stripped")
  | .err .salted => "err salted"
  | .err .other => "err other"
  | .panic => "panic"
  | .unmodelled => "unmodelled"

def showProv (http : Bool) : Except ProvErr (List Str) → String
  | .ok ts => "ok " ++ hexList ts ++ (if http then " auth=" ++ hex (rpcAuthorization ts) else "")
  | .error .noCreds => "err nocreds"
  | .error .backend => "err backend"
  | .error (.salt e) => showSaltErr e

def showKeepGet : KeepGet → String
  | .refused st => s!"refused-{st}"
  | .requests a => "sent-" ++ hex a

def parseSteps (s : String) : Option (List (List Str × Str)) :=
  (s.splitOn ";").mapM (fun it =>
    match it.splitOn ":" with
    | [rs, t] => do
      let remotes ← (rs.splitOn "+").mapM unhexC
      some (remotes, (← unhexC t))
    | _ => none)

def showKeepEvent : KeepEvent → String
  | .discovery r a => "d@" ++ hex r ++ "@" ++ hexC a
  | .services r a => "s@" ++ hex r ++ "@" ++ hexC a
  | .block (.svc r) loc a => "b@r." ++ hex r ++ "@" ++ hex loc ++ "@" ++ hexC a
  | .block (.ext x) loc a =>
    "b@x." ++ hex ("https://keep.".toList ++ x ++ ".arvadosapi.com".toList) ++ "@" ++ hex loc ++ "@" ++ hexC a

def showKeepStep (st : KeepStep) : String :=
  s!"{st.status}/" ++ (if st.events.isEmpty then "-" else "|".intercalate (st.events.eraseDups.map showKeepEvent))

def parseKeepReq (s : String) : Option KeepReq :=
  match s.splitOn ":" with
  | [a, l] => do
    let auths ← if a == "-" then some [] else (a.splitOn ",").mapM unhexC
    match ← (l.splitOn "+").mapM unhexC with
    | hash :: hints => some ⟨auths, hash, hints⟩
    | [] => none
  | _ => none

def step (line : String) : String :=
  match fields line with
  | ["kproc", cfg, steps] =>
    match (if cfg == "-" then some [] else (cfg.splitOn ",").mapM unhexC), (steps.splitOn ";").mapM parseKeepReq with
    | some cfg, some reqs =>
      ";".intercalate ((keepProc hmacSha1 cfg [] reqs).map showKeepStep) ++ " C=" ++
        hexList ((keepProcCache hmacSha1 cfg [] reqs).map (fun _ => placeholderToken))
    | _, _ => "bad-op"
  | ["salt", t, r] =>
    match unhex t, unhex r with
    | some t, some r => showSalt (saltToken hmacSha1 t r)
    | _, _ => "bad-op"
  | ["twice", t, r1, r2] =>
    match unhex t, unhex r1, unhex r2 with
    | some t, some r1, some r2 =>
      match saltToken hmacSha1 t r1 with
      | .ok s => "ok " ++ hex s ++ " then " ++ showSalt (saltToken hmacSha1 s r2)
      | .error e => showSaltErr e
    | _, _, _ => "bad-op"
  | ["load", m, a, q, k, t, b] =>
    match parseReq m a q k t b with
    | some r =>
      "tokens " ++ hexList (requestTokens r) ++ " body " ++
        (match loaderBodyTokens r with
         | some ts => hexList ts
         | none => "err")
    | none => "bad-op"
  | ["legacy", rm, m, a, q, k, t, b, d] =>
    match unhex rm, parseReq m a q k t b, parseDB d with
    | some rm, some r, some db => showLegacy (saltAuthToken hmacSha1 rm db r)
    | _, _, _ => "bad-op"
  | [op, rm, m, a, q, k, t, b, d, h] =>
    -- legacyw: the whole path remoteClusterRequest -> saltAuthToken -> proxy.Do with further
    -- request headers <h>; legacynf: the same with a remote id that is not configured
    if op == "legacyw" || op == "legacynf" then
      match unhex rm, parseReq m a q k t b, parseDB d, parseHeaders h with
      | some rm, some r, some db, some hs =>
        showWire (remoteClusterRequest hmacSha1 (op == "legacyw") rm db "https".toList r hs)
      | _, _, _, _ => "bad-op"
    else "bad-op"
  | [op, rm, ts] =>
    if op == "prov" || op == "provhttp" || op == "fednew" then
      match unhex rm, parseToks ts with
      | some rm, some ts =>
        -- fednew: the local backend is unreachable, every lookup is an error without status
        let lookup := fun (t : Str) =>
          if op == "fednew" then Lookup.error 500 else
          match ts.find? (fun p => p.1 == t) with
          | some p => p.2
          | none => Lookup.error 401
        showProv (op != "prov") (provider hmacSha1 rm lookup (some (ts.map (·.1))))
      | _, _ => "bad-op"
    else if op == "keep" then
      match unhex rm, unhex ts with
      | some rm, some t => showSalt (keepRemoteToken hmacSha1 t rm)
      | _, _ => "bad-op"
    else if op == "keepget" then
      match unhex rm, unhex ts with
      | some rm, some t =>
        match keepGet hmacSha1 t rm with
        | .refused st => s!"refused {st}"
        | .requests a => "sent " ++ hex a
      | _, _ => "bad-op"
    else if op == "provseq" || op == "provhttpseq" then
      -- <remote;remote;…> <toks>: the providers of several remotes asked in sequence with ONE
      -- request context; last part of the answer: the credentials still in that context
      match (rm.splitOn ";").mapM unhexC, parseToks ts with
      | some rms, some ts =>
        let lookup := fun (t : Str) =>
          match ts.find? (fun p => p.1 == t) with
          | some p => p.2
          | none => Lookup.error 401
        let outs := provSeq hmacSha1 lookup (some (ts.map (·.1))) rms
        "|".intercalate (outs.map (fun o => showProv (op == "provhttpseq") o)) ++ "|ctx=same"
      | _, _ => "bad-op"
    else "bad-op"
  | ["keepseq", steps] =>
    match parseSteps steps with
    | some sts =>
      if sts.all (fun st => st.1.length == 1) then
        ";".intercalate ((keepSeq hmacSha1 (sts.map (fun st => (st.1.headD [], st.2)))).map
          (fun r => (showSalt r).replace " " "-"))
      else "bad-op"
    | none => "bad-op"
  | ["keepgetseq", steps] =>
    match parseSteps steps with
    | some sts => ";".intercalate ((keepGetSeq hmacSha1 sts).map showKeepGet)
    | none => "bad-op"
  | ["provnc", rm] =>
    match unhex rm with
    | some rm => showProv false (provider hmacSha1 rm (fun _ => .error 401) none)
    | none => "bad-op"
  | _ => "bad-op"

def main : IO Unit := lineLoop step
