/-
Model driver for C14. Line protocol (fields separated by one space, lists by ','; "-" = empty).

L1 (scheduler pass decision logic):
  rq <entries> <running> <unalloc> <script> <latched> <nowstate>
       entries  u:S:prio:type,…   S ∈ Q L R C X O (queued locked running complete cancelled other)
       running  u|u:t,…           pool.Running(): live entry / exited at t
       unalloc  type:n,…          pool.Unallocated()
       script   string of 0/1     answers of AtQuota/KillContainer/Create/StartContainer in call order
       latched  u,…               containers whose operation latch (uuidOp) is held during the pass
       nowstate u:S,…             state queue.Get reports when lockContainer runs, if it differs
     → one `calls;effects` per priority order allowed by the unstable sort, joined by '|'
  sy <entries> <running u:t|u:-,…> <qupdated> <anyunknown 0|1> <latched>
     → `forgets;effects`
  la <ops a<u>:<op>|r<u>,…>   → results of uuidLock (1/0) / uuidUnlock (-), then `;held=<u,…>`
L2 ops are handled by `ArvVerif.C14.poolStep` (prefix `pl`), L3 by `protoStep` (prefix `tr`).
-/
import ArvVerif.Base.Loop
import ArvVerif.Model.C14
import ArvVerif.Model.C14_Pool
import ArvVerif.Model.C14_Runner
import ArvVerif.Model.C14_Queue
import ArvVerif.Model.C14_Proto
open ArvVerif ArvVerif.C14

namespace C14Drv

def splitList (s : String) : List String :=
  if s == "-" then [] else s.splitOn ","

def parseState (s : String) : Option CState :=
  match s with
  | "Q" => some .queued | "L" => some .locked | "R" => some .running
  | "C" => some .complete | "X" => some .cancelled | "O" => some .other
  | _ => none

def parseEnt (s : String) : Option Ent :=
  match s.splitOn ":" with
  | [u, st, p, t] => do
    let u ← u.toNat?
    let st ← parseState st
    let p ← p.toInt?
    let t ← t.toNat?
    pure ⟨u, st, p, t⟩
  | _ => none

def parseNats (s : String) : Option (List Nat) := (splitList s).mapM (·.toNat?)

def parseUnalloc (s : String) : Option Unalloc :=
  (splitList s).mapM (fun x => match x.splitOn ":" with
    | [t, n] => do pure ((← t.toNat?), (← n.toInt?))
    | _ => none)

def parseScript (s : String) : Option (List Bool) :=
  if s == "-" then some [] else
  s.toList.mapM (fun c => if c == '1' then some true else if c == '0' then some false else none)

def parseNow (s : String) : Option (List (Nat × CState)) :=
  (splitList s).mapM (fun x => match x.splitOn ":" with
    | [u, st] => do pure ((← u.toNat?), (← parseState st))
    | _ => none)

def b2s (b : Bool) : String := if b then "1" else "0"

def parseBool' (s : String) : Option Bool :=
  if s == "1" then some true else if s == "0" then some false else none

def showCall : Call → Option String
  | .atQuota a => some s!"aq={b2s a}"
  | .kill u a => some s!"pk{u}={b2s a}"
  | .goLock _ => none
  | .unlock u => some s!"qu{u}"
  | .create t a => some s!"cr{t}={b2s a}"
  | .start t u a => some s!"st{t}:{u}={b2s a}"
  | .shutdown t => some s!"sd{t}"

def showEffect : Effect → String
  | .queueGet u => s!"qg{u}"
  | .queueLock u => s!"ql{u}"
  | .queueCancel u => s!"qc{u}"
  | .queueUnlock u => s!"qu{u}"
  | .poolKill u => s!"pk{u}"
  | .poolForget u => s!"pf{u}"

def joinOr (l : List String) : String := if l.isEmpty then "-" else ",".intercalate l

def sortNat (l : List Nat) : List Nat := l.mergeSort (fun a b => decide (a ≤ b))

/-- effects of the goroutines `(op,u)`, sorted by uuid; a goroutine that does nothing prints nothing -/
def showAsync (latched : List Nat) (now : Nat → Option CState) (gs : List (Op × Nat)) : String :=
  let gs := gs.mergeSort (fun a b => decide (a.2 ≤ b.2))
  joinOr (gs.filterMap (fun g =>
    let es := asyncEffect (latched.contains g.2) (now g.2) g.1 g.2
    if es.isEmpty then none else some (".".intercalate (es.map showEffect))))

def dedup (l : List String) : List String :=
  l.foldl (fun acc x => if acc.contains x then acc else acc ++ [x]) []

def runRq (ents : List Ent) (snap : RunSnap) (un : Unalloc) (script : List Bool)
    (latched : List Nat) (nowst : List (Nat × CState)) : String :=
  let now := fun u => match nowst.find? (fun p => p.1 == u) with
    | some p => some p.2
    | none => (ents.find? (fun e => e.uuid == u)).map (·.state)
  let outs := (priorityOrders ents).map (fun sorted =>
    let o := tryrun (snapKeys snap) sorted un [] script
    let sds := sortNat (shutdownTypes o)
    let calls := o.calls ++ overquotaUnlocks o.overquota ++ sds.map .shutdown
    let locks := calls.filterMap (fun c => match c with | .goLock u => some (Op.lock, u) | _ => none)
    joinOr (calls.filterMap showCall) ++ ";" ++ showAsync latched now locks)
  "|".intercalate (dedup outs)

def parseRun (s : String) : Option (List (Nat × Option Nat)) :=
  (splitList s).mapM (fun x => match x.splitOn ":" with
    | [u, "-"] => do pure ((← u.toNat?), none)
    | [u, t] => do pure ((← u.toNat?), some (← t.toNat?))
    | _ => none)

def runSy (ents : List Ent) (run : List (Nat × Option Nat)) (qupd : Nat) (anyUnknown : Bool)
    (latched : List Nat) : String :=
  let rv : Nat → RunView := fun u => (run.find? (fun p => p.1 == u)).map (·.2)
  let acts := syncPass anyUnknown qupd ents (run.map (·.1)) rv
  let forgets := sortNat (acts.filterMap (fun a => match a with | .forget u => some u | _ => none))
  let gs := acts.filterMap (fun a => match a with
    | .goCancel u => some (Op.cancel, u) | .goKill u => some (Op.kill, u)
    | .goRequeue u => some (Op.requeue, u) | .forget _ => none)
  joinOr (forgets.map (fun u => s!"qf{u}")) ++ ";" ++ showAsync latched (fun _ => none) gs

/-- `fs`: fixStaleLocks, then two runQueue passes, against a pool with one Unknown (unprobed)
instance that hosts the processes `hidden`; reports the unlocks, both passes, and the containers
that end up with a process on two instances. Priorities are distinct in these cases. -/
def runFs (ents : List Ent) (running : List Nat) (hidden : List Nat) (anyUnknown : Bool) (un : Unalloc)
    (script : List Bool) : String :=
  let isRun := fun u => running.contains u
  let unlocked := sortNat (fixStaleLocks anyUnknown ents isRun)
  let e1 := unlockAll ents unlocked
  let pass := fun (es : List Ent) (scr : List Bool) (run : List Nat) =>
    let o := tryrun (fun u => run.contains u) (priorityOrder es) un [] scr
    let sds := sortNat (shutdownTypes o)
    o.calls ++ overquotaUnlocks o.overquota ++ sds.map .shutdown
  let c1 := pass e1 script running
  let used1 := (c1.filter (fun c => match c with
    | .atQuota _ | .kill _ _ | .create _ _ | .start _ _ _ => true | _ => false)).length
  let started1 := c1.filterMap (fun c => match c with | .start _ u true => some u | _ => none)
  let unl1 := c1.filterMap (fun c => match c with | .unlock u => some u | _ => none)
  let e2 := unlockAll (lockAll e1 c1) unl1
  let c2 := pass e2 (script.drop used1) (running ++ started1)
  let started2 := c2.filterMap (fun c => match c with | .start _ u true => some u | _ => none)
  let doubles := sortNat ((started1 ++ started2).filter (fun u => hidden.contains u)).eraseDups
  joinOr (unlocked.map (fun u => s!"qu{u}")) ++ ";" ++ joinOr (c1.filterMap showCall) ++ ";" ++
    joinOr (c2.filterMap showCall) ++ ";double=" ++ joinOr (doubles.map toString)

def parseOp (s : String) : Option Op :=
  match s with
  | "lock" => some .lock | "cancel" => some .cancel | "kill" => some .kill | "requeue" => some .requeue
  | _ => none

def runLa (ops : List String) : Option String := do
  let mut l : Latch := []
  let mut out : List String := []
  for o in ops do
    if o.startsWith "a" then
      match (o.drop 1).toString.splitOn ":" with
      | [u, op] =>
        let r := uuidLock l (← u.toNat?) (← parseOp op)
        l := r.2
        out := out ++ [b2s r.1]
      | _ => none
    else if o.startsWith "r" then
      l := uuidUnlock l (← (o.drop 1).toString.toNat?)
      out := out ++ ["-"]
    else none
  pure (joinOr out ++ ";held=" ++ joinOr ((sortNat (l.map (·.1))).map toString))

/-- the `Running()` snapshot of an `rq` case: `u` (zero time) or `u:t` (exited at `t`) -/
def parseSnap (s : String) : Option RunSnap :=
  (splitList s).mapM (fun x => match x.splitOn ":" with
    | [u] => do pure ((← u.toNat?), none)
    | [u, t] => do pure ((← u.toNat?), some (← t.toNat?))
    | _ => none)

def stepL1 (f : List String) : Option String :=
  match f with
  | ["rq", es, rn, un, sc, la, nw] => do
    let ents ← (splitList es).mapM parseEnt
    -- `running`: `u` = live entry, `u:t` = exit placeholder; runQueue looks at the keys only
    pure (runRq ents (← parseSnap rn) (← parseUnalloc un) (← parseScript sc) (← parseNats la) (← parseNow nw))
  | ["sy", es, rn, qu, au, la] => do
    let ents ← (splitList es).mapM parseEnt
    let au ← if au == "1" then some true else if au == "0" then some false else none
    pure (runSy ents (← parseRun rn) (← qu.toNat?) au (← parseNats la))
  | ["la", ops] => runLa (splitList ops)
  | ["rs", es, rn, _hid, _un, _sc] => do
    -- Scheduler.run after a restart: while a worker is Unknown and a lock is stale nothing is
    -- scheduled (L3: phase `recovering` precedes `scheduling`); when the pool has probed everything
    -- fixStaleLocks unlocks the stale locks of its last iteration
    let ents ← (splitList es).mapM parseEnt
    let running ← parseNats rn
    let unl := sortNat (fixStaleLocks true ents (fun u => running.contains u))
    pure ("early=-;unl=" ++ joinOr (unl.map (fun u => s!"qu{u}")))
  | ["fs", es, rn, hid, au, un, sc] => do
    let ents ← (splitList es).mapM parseEnt
    pure (runFs ents (← parseNats rn) (← parseNats hid) (← parseBool' au) (← parseUnalloc un) (← parseScript sc))
  | _ => none

/-! ### L2: op sequences on the pool model

  pl <workers> <exited> <ops>
     workers  id:type:S:I:starting:running:updated:busy,…   S ∈ U B I R S, I ∈ r h d; uuid lists joined by '/'
     exited   u:t,…
     ops      st<t>:<u>  StartContainer → w<id> | w0          sd<u>   oldest pending start of u completes
              kl<u>  KillContainer → 0|1                        fg<u>   ForgetContainer
              rn     Running() → keys ('x' suffix = exited)     cr<w>:<u>  onKilled → closeRunner
              kg<u>:<g>  KillContainer, kill loop gives up → 0|1   kb<u>  KillContainer, first signal blocked → 0|1
              ke<u>:<ok>  the blocked signal returns (1 = process gone → onKilled)
              sh<w>  shutdown                                   ib<w>:<r|h|d>:<allGivenUp>  SetIdleBehavior
              th     threshold := now                           sy<retry>:<id.type.tag.created/…>  Pool.sync
              pb<w>:<timedOut>  probe begins                    pm<w>:<bootok>  boot probe returns
              pa<w>:<ok>:<broken>:<allGivenUp>:<uuids>  run probe returns, result applied
   → per-op results, then ';' and the final pool; one outcome per StartContainer choice, joined by '|'
-/

inductive PPhase where
  | begun (stamp : Nat) (timedOut : Bool)
  | mid (stamp : Nat) (booted : Bool) (timedOut : Bool)

structure PSt where
  pool : Pool
  clock : Nat
  /-- start commands whose completion closure has not run: worker, uuid, and whether a later
  `startContainer` of the same uuid on the same worker has replaced its runner in `starting` -/
  pend : List (Nat × Nat × Bool)
  probes : List (Nat × PPhase)
  threshold : Nat
  out : List String
  /-- kill loops (worker, container) whose first `crunch-run --kill` is blocked at the gate -/
  kills : List (Nat × Nat) := []

def parseUs (s : String) : Option (List Nat) :=
  if s == "-" || s == "" then some [] else (s.splitOn "/").mapM (·.toNat?)

def parseWS (s : String) : Option WState :=
  match s with
  | "U" => some .unknown | "B" => some .booting | "I" => some .idle | "R" => some .running
  | "S" => some .shutdown | _ => none

def parseIB (s : String) : Option IdleB :=
  match s with
  | "r" => some .run | "h" => some .hold | "d" => some .drain | _ => none

def parseBool (s : String) : Option Bool :=
  if s == "1" then some true else if s == "0" then some false else none

def parseWorker (s : String) : Option Worker :=
  match s.splitOn ":" with
  | [id, ty, st, ib, sg, rg, up, bu] => do
    pure { id := ← id.toNat?, itype := ← ty.toNat?, state := ← parseWS st, idleB := ← parseIB ib,
           starting := ← parseUs sg, running := ← parseUs rg, updated := ← up.toNat?, busy := ← bu.toNat?,
           probed := 0 }
  | _ => none

def showWS : WState → String
  | .unknown => "U" | .booting => "B" | .idle => "I" | .running => "R" | .shutdown => "S"
def showIB : IdleB → String
  | .run => "r" | .hold => "h" | .drain => "d"

def showUs (l : List Nat) : String :=
  if l.isEmpty then "-" else "/".intercalate ((sortNat l).map toString)

def showPool (p : Pool) : String :=
  let ws := p.workers.mergeSort (fun a b => decide (a.id ≤ b.id))
  joinOr (ws.map (fun w => s!"{w.id}:{showWS w.state}:{showIB w.idleB}:{showUs w.starting}:{showUs w.running}"))
    ++ ";ex=" ++ showUs (p.exited.map (·.1))

def tick (s : PSt) : PSt := { s with clock := s.clock + 1 }

def dropProbe (s : PSt) (w : Nat) : PSt := { s with probes := s.probes.filter (fun q => q.1 != w) }

def applyProbe (s : PSt) (w : Nat) (pr : Probe) : PSt :=
  dropProbe { s with pool := s.pool.probeApply w pr s.clock } w

def parseListed (s : String) : Option Pool.Listed :=
  match s.splitOn "." with
  | [id, ty, tag, cr] => do
    let tag ← if tag == "n" then some none else (parseIB tag).map some
    pure { id := ← id.toNat?, itype := ← ty.toNat?, idleTag := tag, created := ← parseBool cr }
  | _ => none

def poolOp (s : PSt) (op : String) : Option (List PSt) := do
  let s := tick s
  let now := s.clock
  let kind := (op.take 2).toString
  let args := ((op.drop 2).toString).splitOn ":"
  match kind, args with
  | "st", [t, u] =>
    let t ← t.toNat?; let u ← u.toNat?
    let cands := s.pool.startCandidates t
    if cands.isEmpty then pure [{ s with out := s.out ++ ["w0"] }]
    else cands.mapM (fun wid => do
      let p ← s.pool.startContainer t u wid
      let w ← s.pool.find wid
      let pend := s.pend.map (fun q => if q.1 == wid && q.2.1 == u then (q.1, q.2.1, true) else q)
      pure { s with pool := p, pend := pend ++ [(wid, u, false)],
                    out := s.out ++ [s!"w{wid}{showWS w.state}{showIB w.idleB}"] })
  | "sd", u :: cmdErr =>
    -- `sd<u>` / `sd<u>:<e>`: the start command returns (e = 1: with an error); `rr.Start()` passes no
    -- result on, so the completion closure is the same in both cases
    let u ← u.toNat?
    let _ ← (match cmdErr with | [] => some false | [e] => parseBool e | _ => none)
    match s.pend.find? (fun q => q.2.1 == u) with
    | some q =>
      -- a superseded closure finds another runner in `starting` and returns
      pure [{ s with pool := if q.2.2 then s.pool else s.pool.startDone q.1 u now, pend := s.pend.erase q }]
    | none => pure [s]
  | "kl", [u] =>
    let u ← u.toNat?
    pure [{ s with out := s.out ++ [b2s (s.pool.killContainer u)] }]
  | "kg", [u, g] =>
    -- KillContainer(u) on a runner whose SIGTERM deadline has passed at its first tick: `Worker.killTick`
    -- with `pastDeadline` on whichever worker KillContainer meets first (map order)
    let u ← u.toNat?; let g ← parseBool g
    let cands := s.pool.killCandidates u
    if cands.isEmpty then pure [{ s with out := s.out ++ ["0"] }]
    else cands.mapM (fun wid => do
      let w ← s.pool.find wid
      -- the runners of the worker other than the one KillContainer picks (`running[u]`, else `starting[u]`)
      let others := w.running.filter (· != u) ++
        (if w.running.contains u then w.starting else w.starting.filter (· != u))
      let t := w.killTick u { stopping := true } true false (g || others.isEmpty) now
      pure { s with pool := s.pool.put t.1, out := s.out ++ ["1"] })
  | "kb", [u] =>
    let u ← u.toNat?
    let cands := s.pool.killCandidates u
    if cands.isEmpty then pure [{ s with out := s.out ++ ["0"] }]
    else pure (cands.map (fun wid => { s with kills := s.kills ++ [(wid, u)], out := s.out ++ ["1"] }))
  | "ke", [u, ok] =>
    -- the blocked signal returns: success → `onKilled` (`Worker.killTick` with `killOk`), error → nothing
    let u ← u.toNat?; let ok ← parseBool ok
    match s.kills.find? (fun q => q.2 == u) with
    | none => pure [s]
    | some q =>
      let s := { s with kills := s.kills.erase q }
      match s.pool.find q.1 with
      | none => pure [s]
      | some w =>
        let t := w.killTick u { stopping := true } false ok false now
        let p := s.pool.put t.1
        pure [{ s with pool := if t.2.2.2 then p.markExited [u] now else p }]
  | "fg", [u] => pure [{ s with pool := s.pool.forget (← u.toNat?) }]
  | "rn", [""] =>
    let keys := (sortNat s.pool.runningKeys).eraseDups
    let toks := keys.map (fun u => match s.pool.runningView u with
      | some (some _) => s!"{u}x" | _ => s!"{u}")
    pure [{ s with out := s.out ++ [if toks.isEmpty then "none" else ".".intercalate toks] }]
  | "cr", [w, u] => pure [{ s with pool := s.pool.closeRunner (← w.toNat?) (← u.toNat?) now }]
  | "sh", [w] => pure [{ s with pool := s.pool.shutdownWorker (← w.toNat?) now }]
  | "ib", [w, b, g] =>
    pure [{ s with pool := s.pool.setIdleBehavior (← w.toNat?) (← parseIB b) false (← parseBool g) now }]
  | "th", [""] => pure [{ s with threshold := now }]
  | "tt", [""] => pure [s]   -- marker: the case's probe answers are truthful (used by the oracle only)
  | "sy", [r, ls] =>
    let r ← parseBool r
    let ls ← (if ls == "-" then some [] else (ls.splitOn "/").mapM parseListed)
    pure [{ s with pool := s.pool.sync s.threshold ls (fun _ => r) now }]
  | "pb", [w, t] =>
    let w ← w.toNat?; let t ← parseBool t
    if s.probes.any (fun q => q.1 == w) then pure [s] else
    match s.pool.find w with
    | none => pure [s]
    | some wk =>
      match wk.state with
      | .shutdown => pure [s]
      | .idle | .running => pure [{ s with probes := s.probes ++ [(w, .mid wk.updated true t)] }]
      | _ => pure [{ s with probes := s.probes ++ [(w, .begun wk.updated t)] }]
  | "pm", [w, b] =>
    let w ← w.toNat?; let b ← parseBool b
    match s.probes.find? (fun q => q.1 == w) with
    | some (_, .begun stamp t) =>
      match s.pool.find w with
      | none => pure [dropProbe s w]
      | some wk =>
        let booted := b || wk.state == .running || wk.state == .idle
        let doRun := booted || wk.state == .unknown
        if doRun then
          pure [{ dropProbe s w with probes := (dropProbe s w).probes ++ [(w, .mid stamp booted t)] }]
        else
          pure [applyProbe s w { stamp := stamp, booted := false, ok := false, broken := false, uuids := [],
                                 timedOut := t, allGivenUp := false }]
    | _ => pure [s]
  | "gs", [mode, r, ls] =>
    -- getInstancesAndSync: threshold := now, Instances() answers ok / plain error / rate-limit error
    let r ← parseBool r
    let res ← (if mode == "k" then do
        let ls ← (if ls == "-" then some [] else (ls.splitOn "/").mapM parseListed)
        pure (Pool.ListResult.ok ls)
      else if mode == "e" || mode == "r" then some Pool.ListResult.failed else none)
    let before := s.pool.workers.map (·.id)
    let p := s.pool.getInstancesAndSync res (fun _ => r) now (now + 1)
    let dropped := sortNat (before.filter (fun i => !(p.workers.any (fun w => w.id == i))))
    pure [{ s with pool := p, clock := now + 1, out := s.out ++ ["d" ++ showUs dropped] }]
  | "pa", w :: ok :: br :: g :: us :: layout =>
    let w ← w.toNat?
    let ok ← parseBool ok; let br ← parseBool br; let g ← parseBool g; let us ← parseUs us
    -- optional layout of the answer: where "broken" stands among the lines, and stale run locks
    let (pos, stale) ← (match layout with
      | [] => some (0, [])
      | [pos, st] => do pure ((← pos.toNat?), (← parseUs st))
      | _ => none)
    let ulines := us.map ProbeLine.uuid ++ stale.map ProbeLine.stale
    let k := if pos == 1 then 0 else if pos == 2 then ulines.length / 2 else ulines.length
    let lines := ulines.take k ++ (if br then [ProbeLine.broken] else []) ++ ulines.drop k ++ [ProbeLine.empty]
    let parsed := parseProbe lines
    let us := parsed.1
    let br := parsed.2.1
    match s.probes.find? (fun q => q.1 == w) with
    | some (_, .mid stamp booted t) =>
      pure [applyProbe s w { stamp := stamp, booted := booted, ok := ok, broken := ok && br,
                             uuids := if ok then us else [], timedOut := t, allGivenUp := g }]
    | _ => pure [s]
  | _, _ => none

def runPl (ws ex ops : String) : Option String := do
  let workers ← (splitList ws).mapM parseWorker
  let exited ← (splitList ex).mapM (fun x => match x.splitOn ":" with
    | [u, t] => do pure ((← u.toNat?), (← t.toNat?))
    | _ => none)
  let init : PSt := ⟨⟨workers, exited⟩, 1000, [], [], 0, [], []⟩
  let finals ← (splitList ops).foldlM (fun (sts : List PSt) op => do
    let nexts ← sts.mapM (fun s => poolOp s op)
    pure nexts.flatten) [init]
  pure ("|".intercalate (dedup (finals.map (fun s => joinOr s.out ++ ";" ++ showPool s.pool))))

/-! ### queue cache: executable mirror of container.Queue.Update for the `lq` driver

  lq <api records u:S:prio,…> <ops>
     up  gated Update() begins (blocks at its first list request)     nx  release the blocked request
     fu  finish a poll in flight, then a whole ungated Update()       gt<u>  cached state
     lk<u> ul<u> cn<u>  Lock/Unlock/Cancel (→ k|e)   fg<u>  Forget
     ec<u> er<u> eo<u>  someone else cancels / runs / completes       ep<u>:<p> priority   es<u>:<p> submit
   → results;cache entries `u:S:prio`
  Every request of a poll reads the API records at the moment it is released (`QStep.pollRead`
  for each record it returns); local updates mark `dontupdate` (`QState.localUpdate`); the end of
  the poll is `QStep.pollEnd`. -/

structure QRec where
  state : CState
  prio : Int
deriving Inhabited

/-- `fetchAll` pages by offset (its `len(params.Order) == 1` test is never true for the string
"uuid"), every page being evaluated when its request is served. -/
inductive QPhase where
  | mine (offset : Nat)
  | avail (offset : Nat)
  | missing (batch : List Nat) (offset : Nat) (found : List Nat) (remaining : List Nat)

structure QX where
  api : List (Nat × QRec)
  cache : List (Nat × QRec)
  dont : Option (List Nat)        -- cq.dontupdate (none = nil)
  poll : Option (QPhase × List (Nat × QRec))   -- request blocked at the gate, and `next` so far
  out : List String

def qget (l : List (Nat × QRec)) (u : Nat) : Option QRec := (l.find? (fun p => p.1 == u)).map (·.2)
def qset (l : List (Nat × QRec)) (u : Nat) (r : QRec) : List (Nat × QRec) :=
  if l.any (fun p => p.1 == u) then l.map (fun p => if p.1 == u then (u, r) else p) else l ++ [(u, r)]
def qdel (l : List (Nat × QRec)) (u : Nat) : List (Nat × QRec) := l.filter (fun p => p.1 != u)

def lockedByUs (r : QRec) : Bool := r.state == .locked || r.state == .running

def sortRecs (l : List (Nat × QRec)) : List (Nat × QRec) := l.mergeSort (fun a b => decide (a.1 ≤ b.1))

/-- end of `Update`: merge `next` into the cache -/
def qFinish (x : QX) (next : List (Nat × QRec)) : QX :=
  let dont := x.dont.getD []
  let c1 := next.foldl (fun c p => if dont.contains p.1 then c else qset c p.1 p.2) x.cache
  let c2 := c1.filter (fun p => dont.contains p.1 || next.any (fun q => q.1 == p.1))
  { x with cache := c2, dont := none, poll := none }

/-- first request of the `missing` stage, or the end of the poll -/
def qStartMissing (x : QX) (next : List (Nat × QRec)) : QX :=
  let missing := (x.cache.filter (fun p => !(next.any (fun q => q.1 == p.1)) && !p.2.state.final)).map (·.1)
  if missing.isEmpty then qFinish x next
  else { x with poll := some (.missing missing 0 [] missing, next) }

/-- release the blocked list request -/
def qNext (x : QX) : QX :=
  match x.poll with
  | none => x
  | some (.mine off, next) =>
    let items := (sortRecs (x.api.filter (fun p => lockedByUs p.2))).drop off
    if items.isEmpty then { x with poll := some (.avail 0, next) }
    else { x with poll := some (.mine (off + items.length), items.foldl (fun n p => qset n p.1 p.2) next) }
  | some (.avail off, next) =>
    let items := (sortRecs (x.api.filter (fun p => p.2.state == .queued && decide (p.2.prio > 0)))).drop off
    if items.isEmpty then qStartMissing x next
    else { x with poll := some (.avail (off + items.length), items.foldl (fun n p => qset n p.1 p.2) next) }
  | some (.missing batch off found remaining, next) =>
    let items := (sortRecs (x.api.filter (fun p => batch.contains p.1))).drop off
    if !items.isEmpty then
      { x with poll := some (.missing batch (off + items.length) (found ++ items.map (·.1)) remaining,
                             items.foldl (fun n p => qset n p.1 p.2) next) }
    else if found.isEmpty then
      -- "container not found by controller (deleted?)": drop the batch from the cache
      let x := { x with cache := x.cache.filter (fun p => !batch.contains p.1) }
      let rem := remaining.filter (fun u => !batch.contains u)
      if rem.isEmpty then qFinish x next else { x with poll := some (.missing rem 0 [] rem, next) }
    else
      let rem := remaining.filter (fun u => !found.contains u)
      if rem.isEmpty then qFinish x next else { x with poll := some (.missing rem 0 [] rem, next) }

def qLocal (x : QX) (u : Nat) (r : QRec) : QX :=
  { x with api := qset x.api u r,
           cache := if (qget x.cache u).isSome then qset x.cache u r else x.cache,
           dont := x.dont.map (fun d => if d.contains u then d else d ++ [u]) }

partial def qDrain (x : QX) : QX := if x.poll.isSome then qDrain (qNext x) else x

def showQS : CState → String
  | .queued => "Q" | .locked => "L" | .running => "R" | .complete => "C" | .cancelled => "X" | .other => "O"

def qOp (x : QX) (op : String) : Option QX := do
  let kind := (op.take 2).toString
  let arg := (op.drop 2).toString
  let res := fun (x : QX) (ok : Bool) => { x with out := x.out ++ [if ok then "k" else "e"] }
  match kind with
  | "up" => if arg != "" then none else
      if x.poll.isSome then pure x else pure { x with dont := some [], poll := some (.mine 0, []) }
  | "nx" => if arg != "" then none else pure (qNext x)
  | "fu" => if arg != "" then none else
      let x := qDrain x
      pure (qDrain { x with dont := some [], poll := some (.mine 0, []) })
  | "lk" =>
    let u ← arg.toNat?
    match qget x.api u with
    | some r => if r.state == .queued then pure (res (qLocal x u { r with state := .locked }) true) else pure (res x false)
    | none => pure (res x false)
  | "ul" =>
    let u ← arg.toNat?
    match qget x.api u with
    | some r => if r.state == .locked then pure (res (qLocal x u { r with state := .queued }) true) else pure (res x false)
    | none => pure (res x false)
  | "cn" =>
    let u ← arg.toNat?
    match qget x.api u with
    | some r => if !r.state.final then pure (res (qLocal x u { r with state := .cancelled }) true) else pure (res x false)
    | none => pure (res x false)
  | "fg" =>
    let u ← arg.toNat?
    match qget x.cache u with
    | some r => if r.state.final || (r.state == .queued && r.prio == 0) then pure { x with cache := qdel x.cache u } else pure x
    | none => pure x
  | "gt" =>
    let u ← arg.toNat?
    pure { x with out := x.out ++ [match qget x.cache u with | some r => showQS r.state | none => "-"] }
  | "ec" =>
    let u ← arg.toNat?
    match qget x.api u with
    | some r => pure (if r.state.final then x else { x with api := qset x.api u { r with state := .cancelled } })
    | none => pure x
  | "er" =>
    let u ← arg.toNat?
    match qget x.api u with
    | some r => pure (if r.state == .locked then { x with api := qset x.api u { r with state := .running } } else x)
    | none => pure x
  | "eo" =>
    let u ← arg.toNat?
    match qget x.api u with
    | some r => pure (if r.state == .running then { x with api := qset x.api u { r with state := .complete } } else x)
    | none => pure x
  | "ep" =>
    match arg.splitOn ":" with
    | [u, p] =>
      let u ← u.toNat?; let p ← p.toInt?
      match qget x.api u with
      | some r => pure { x with api := qset x.api u { r with prio := p } }
      | none => pure x
    | _ => none
  | "es" =>
    match arg.splitOn ":" with
    | [u, p] =>
      let u ← u.toNat?; let p ← p.toInt?
      pure (if (qget x.api u).isSome then x else { x with api := x.api ++ [(u, ⟨.queued, p⟩)] })
    | _ => none
  | _ => none

def runLq (recs ops : String) : Option String := do
  let api ← (splitList recs).mapM (fun e => match e.splitOn ":" with
    | [u, st, p] => do pure ((← u.toNat?), (⟨← parseState st, ← p.toInt?⟩ : QRec))
    | _ => none)
  let x0 : QX := ⟨api, [], none, none, []⟩
  let x ← (splitList ops).foldlM qOp x0
  let x := qDrain x
  let ents := (sortRecs x.cache).map (fun p => s!"{p.1}:{showQS p.2.state}:{p.2.prio}")
  pure (joinOr x.out ++ ";" ++ joinOr ents)

/-! ### `snp`: the invariant check of Model/C14_Proto.lean on snapshots of the real pool

  snp <snapshot|snapshot|…>     snapshot = worker,worker,…   worker = id:S:starting:running:procs
   → `ok`, or `bad <index>` of the first snapshot that fails `snapOK` -/

def parseSnapW (s : String) : Option SnapW :=
  match s.splitOn ":" with
  | [id, st, sg, rg, pr] => do
    pure ⟨← id.toNat?, ← parseWS st, ← parseUs sg, ← parseUs rg, ← parseUs pr⟩
  | _ => none

def runSnp (snaps : String) : Option String := do
  let ss ← (if snaps == "-" then some [] else (snaps.splitOn "|").mapM (fun sn =>
    (splitList sn).mapM parseSnapW))
  match (ss.zipIdx).find? (fun p => !snapOK p.1) with
  | some p => pure s!"bad {p.2}"
  | none => pure "ok"

end C14Drv

def step (line : String) : String :=
  let f := fields line
  let r := match f with
    | ["pl", ws, ex, ops] => C14Drv.runPl ws ex ops
    | "e2e" :: _ => some "e2e-no-model"
    | ["snp", snaps] => C14Drv.runSnp snaps
    | ["lq", recs, ops] => C14Drv.runLq recs ops
    | _ => C14Drv.stepL1 f
  match r with
  | some r => r
  | none => "bad-op"

def main : IO Unit := lineLoop step
