/-
Model driver for C14. Line protocol (fields separated by one space, lists by ','; "-" = empty).

L1 (scheduler pass decision logic):
  rq <entries> <running> <unalloc> <script> <latched> <nowstate>
       entries  u:S:prio:type,…   S ∈ Q L R C X O (queued locked running complete cancelled other)
       running  u,…               keys of pool.Running()
       unalloc  type:n,…          pool.Unallocated()
       script   string of 0/1     answers of AtQuota/KillContainer/Create/StartContainer in call order
       latched  u,…               containers whose operation latch (uuidOp) is held during the pass
       nowstate u:S,…             state queue.Get reports when lockContainer runs, if it differs
     → one `calls;effects` per priority order allowed by the unstable sort, joined by '|'
  sy <entries> <running u:t|u:-,…> <qupdated> <anyunknown 0|1> <latched>
     → `forgets;effects`
  la <ops a<u>:<op>|r<u>,…>   → results of uuidLock (1/0) / uuidUnlock (-), then `;held=<u,…>`
L2 ops are handled by `ArvVerif.C14.poolStep` (prefix `pl`), L3 by `protoStep` (prefix `tr`).
-/
import ArvVerif.Base.Loop
import ArvVerif.Model.C14
open ArvVerif ArvVerif.C14

namespace C14Drv

def splitList (s : String) : List String :=
  if s == "-" then [] else s.splitOn ","

def parseState (s : String) : Option CState :=
  match s with
  | "Q" => some .queued | "L" => some .locked | "R" => some .running
  | "C" => some .complete | "X" => some .cancelled | "O" => some .other
  | _ => none

def parseEnt (s : String) : Option Ent :=
  match s.splitOn ":" with
  | [u, st, p, t] => do
    let u ← u.toNat?
    let st ← parseState st
    let p ← p.toInt?
    let t ← t.toNat?
    pure ⟨u, st, p, t⟩
  | _ => none

def parseNats (s : String) : Option (List Nat) := (splitList s).mapM (·.toNat?)

def parseUnalloc (s : String) : Option Unalloc :=
  (splitList s).mapM (fun x => match x.splitOn ":" with
    | [t, n] => do pure ((← t.toNat?), (← n.toInt?))
    | _ => none)

def parseScript (s : String) : Option (List Bool) :=
  if s == "-" then some [] else
  s.toList.mapM (fun c => if c == '1' then some true else if c == '0' then some false else none)

def parseNow (s : String) : Option (List (Nat × CState)) :=
  (splitList s).mapM (fun x => match x.splitOn ":" with
    | [u, st] => do pure ((← u.toNat?), (← parseState st))
    | _ => none)

def b2s (b : Bool) : String := if b then "1" else "0"

def showCall : Call → Option String
  | .atQuota a => some s!"aq={b2s a}"
  | .kill u a => some s!"pk{u}={b2s a}"
  | .goLock _ => none
  | .unlock u => some s!"qu{u}"
  | .create t a => some s!"cr{t}={b2s a}"
  | .start t u a => some s!"st{t}:{u}={b2s a}"
  | .shutdown t => some s!"sd{t}"

def showEffect : Effect → String
  | .queueGet u => s!"qg{u}"
  | .queueLock u => s!"ql{u}"
  | .queueCancel u => s!"qc{u}"
  | .queueUnlock u => s!"qu{u}"
  | .poolKill u => s!"pk{u}"
  | .poolForget u => s!"pf{u}"

def joinOr (l : List String) : String := if l.isEmpty then "-" else ",".intercalate l

def sortNat (l : List Nat) : List Nat := l.mergeSort (fun a b => decide (a ≤ b))

/-- effects of the goroutines `(op,u)`, sorted by uuid; a goroutine that does nothing prints nothing -/
def showAsync (latched : List Nat) (now : Nat → Option CState) (gs : List (Op × Nat)) : String :=
  let gs := gs.mergeSort (fun a b => decide (a.2 ≤ b.2))
  joinOr (gs.filterMap (fun g =>
    let es := asyncEffect (latched.contains g.2) (now g.2) g.1 g.2
    if es.isEmpty then none else some (".".intercalate (es.map showEffect))))

def dedup (l : List String) : List String :=
  l.foldl (fun acc x => if acc.contains x then acc else acc ++ [x]) []

def runRq (ents : List Ent) (running : List Nat) (un : Unalloc) (script : List Bool)
    (latched : List Nat) (nowst : List (Nat × CState)) : String :=
  let now := fun u => match nowst.find? (fun p => p.1 == u) with
    | some p => some p.2
    | none => (ents.find? (fun e => e.uuid == u)).map (·.state)
  let outs := (priorityOrders ents).map (fun sorted =>
    let o := tryrun (fun u => running.contains u) sorted un [] script
    let sds := sortNat (shutdownTypes o)
    let calls := o.calls ++ overquotaUnlocks o.overquota ++ sds.map .shutdown
    let locks := calls.filterMap (fun c => match c with | .goLock u => some (Op.lock, u) | _ => none)
    joinOr (calls.filterMap showCall) ++ ";" ++ showAsync latched now locks)
  "|".intercalate (dedup outs)

def parseRun (s : String) : Option (List (Nat × Option Nat)) :=
  (splitList s).mapM (fun x => match x.splitOn ":" with
    | [u, "-"] => do pure ((← u.toNat?), none)
    | [u, t] => do pure ((← u.toNat?), some (← t.toNat?))
    | _ => none)

def runSy (ents : List Ent) (run : List (Nat × Option Nat)) (qupd : Nat) (anyUnknown : Bool)
    (latched : List Nat) : String :=
  let rv : Nat → RunView := fun u => (run.find? (fun p => p.1 == u)).map (·.2)
  let acts := syncPass anyUnknown qupd ents (run.map (·.1)) rv
  let forgets := sortNat (acts.filterMap (fun a => match a with | .forget u => some u | _ => none))
  let gs := acts.filterMap (fun a => match a with
    | .goCancel u => some (Op.cancel, u) | .goKill u => some (Op.kill, u)
    | .goRequeue u => some (Op.requeue, u) | .forget _ => none)
  joinOr (forgets.map (fun u => s!"qf{u}")) ++ ";" ++ showAsync latched (fun _ => none) gs

def parseOp (s : String) : Option Op :=
  match s with
  | "lock" => some .lock | "cancel" => some .cancel | "kill" => some .kill | "requeue" => some .requeue
  | _ => none

def runLa (ops : List String) : Option String := do
  let mut l : Latch := []
  let mut out : List String := []
  for o in ops do
    if o.startsWith "a" then
      match (o.drop 1).toString.splitOn ":" with
      | [u, op] =>
        let r := uuidLock l (← u.toNat?) (← parseOp op)
        l := r.2
        out := out ++ [b2s r.1]
      | _ => none
    else if o.startsWith "r" then
      l := uuidUnlock l (← (o.drop 1).toString.toNat?)
      out := out ++ ["-"]
    else none
  pure (joinOr out ++ ";held=" ++ joinOr ((sortNat (l.map (·.1))).map toString))

def stepL1 (f : List String) : Option String :=
  match f with
  | ["rq", es, rn, un, sc, la, nw] => do
    let ents ← (splitList es).mapM parseEnt
    pure (runRq ents (← parseNats rn) (← parseUnalloc un) (← parseScript sc) (← parseNats la) (← parseNow nw))
  | ["sy", es, rn, qu, au, la] => do
    let ents ← (splitList es).mapM parseEnt
    let au ← if au == "1" then some true else if au == "0" then some false else none
    pure (runSy ents (← parseRun rn) (← qu.toNat?) au (← parseNats la))
  | ["la", ops] => runLa (splitList ops)
  | _ => none

end C14Drv

def step (line : String) : String :=
  match C14Drv.stepL1 (fields line) with
  | some r => r
  | none => "bad-op"

def main : IO Unit := lineLoop step
