/-
Model driver for C20. Line protocol: see the header of
harness/overlay/lib/controller/federation/zz_verif_c20_test.go (same case line, same result line).
The stub backends of the Go driver (scripted paging behaviour per call) are mirrored here by
`scriptBackend`; the algorithm under test is `ArvVerif.C20.run`, which is generic in the backends.
Where Go is nondeterministic (which failing cluster's error is returned) the result line carries
the allowed set: `err 404|502`. Scripts with a `w` action (a backend that waits for the context to be
cancelled) are run through `ArvVerif.C20.runCancel`: the allowed errors are those of the clusters
that failed by themselves.
-/
import ArvVerif.Base.Loop
import ArvVerif.Model.C20
open ArvVerif ArvVerif.C20

namespace C20Drv

def splitC (c : Char) (s : List Char) : List (List Char) :=
  let rec go : List Char → List Char → List (List Char) → List (List Char)
    | [], cur, acc => (cur.reverse :: acc).reverse
    | x :: xs, cur, acc => if x == c then go xs [] (cur.reverse :: acc) else go xs (x :: cur) acc
  go s [] []

/-- "-" or "" = empty list -/
def listOf (c : Char) (s : List Char) : List (List Char) :=
  if s == ['-'] || s.isEmpty then [] else splitC c s

def joinC (sep : String) (xs : List (List Char)) : String :=
  if xs.isEmpty then "-" else sep.intercalate (xs.map String.ofList)

def natOf? (s : List Char) : Option Nat := (String.ofList s).toNat?
def intOf? (s : List Char) : Option Int := (String.ofList s).toInt?

def splitFirst (c : Char) (s : List Char) : Option (List Char × List Char) :=
  let rec go : List Char → List Char → Option (List Char × List Char)
    | [], _ => none
    | x :: xs, cur => if x == c then some (cur.reverse, xs) else go xs (x :: cur)
  go s []

def objsOf? (s : List Char) : Option (List Obj) :=
  (listOf ',' s).mapM fun p =>
    match splitFirst '@' p with
    | some (u, t) => (natOf? t).map fun n => (⟨u, n⟩ : Obj)
    | none => none

inductive Ord where
  | f | r | o (n : Nat)

inductive Act where
  | wait                      -- waits for the context to be cancelled, then fails (no HTTP status)
  | callerCancel              -- the caller's context ends during this call; the call fails (no HTTP status)
  | err (status : Nat)
  | page (k : Option Nat) (ord : Ord) (pre : Bool) (inj : List Obj)

def actOf? (s : List Char) : Option Act :=
  match s with
  | ['w'] => some .wait
  | ['c'] => some .callerCancel
  | 'e' :: rest => some (.err ((natOf? rest).getD 0))
  | 'p' :: rest =>
    let (body, pre, injs) : List Char × Bool × Option (List Obj) :=
      match splitFirst '+' rest, splitFirst '^' rest with
      | some (b, i), none => (b, false, objsOf? i)
      | none, some (b, i) => (b, true, objsOf? i)
      | some (b1, i1), some (b2, i2) =>
        if b1.length < b2.length then (b1, false, objsOf? i1) else (b2, true, objsOf? i2)
      | none, none => (rest, false, some [])
    match injs, splitFirst '.' body with
    | some inj, some (k, o) =>
      let ord? : Option Ord :=
        match o with
        | ['f'] => some .f
        | ['r'] => some .r
        | 'o' :: n => (natOf? n).map .o
        | _ => none
      let k? : Option (Option Nat) := if k == ['a'] then some none else (natOf? k).map some
      match ord?, k? with
      | some ord, some k => some (.page k ord pre inj)
      | _, _ => none
    | _, _ => none
  | _ => none

/-- does a held object match every uuid filter of the request (other filters are ignored) -/
def matchFilters (u : Uuid) (fs : List Filter) : Bool :=
  fs.all fun f =>
    if f.attr ≠ sUuid then true
    else if f.op = sEq then
      match f.operand with
      | .str s => s == u
      | _ => false
    else if f.op = sIn then
      match f.operand with
      | .slist xs => xs.contains u
      | .ilist xs => xs.contains (some u)
      | _ => false
    else true

def rotate (n : Nat) (l : List Obj) : List Obj :=
  if l.isEmpty then l else l.drop (n % l.length) ++ l.take (n % l.length)

def scriptBackend (holdings : List Obj) (script : List Act) : Backend := fun o idx =>
  match script[idx]?.getD (.page none .f false []) with
  | .err s => .error s
  | .wait => .error 0
  | .callerCancel => .error 0
  | .page k ord pre inj =>
    let m := holdings.filter (fun h => matchFilters h.uuid o.filters)
    let m := match ord with
      | .f => m
      | .r => m.reverse
      | .o n => rotate n m
    let m := match k with
      | none => m
      | some k => m.take k
    .page (if pre then inj ++ m else m ++ inj)

/-! rendering -/

def sortStrs (xs : List (List Char)) : List (List Char) :=
  ((xs.map String.ofList).toArray.qsort (· < ·)).toList.map String.toList

def renderOperand : Operand → String
  | .str s => "s:" ++ String.ofList s
  | .slist xs => "t:" ++ ",".intercalate ((sortStrs xs).map String.ofList)
  | .ilist xs => "i:" ++ ",".intercalate (xs.map fun
      | some s => String.ofList s
      | none => "#")
  | .other => "n:"

def strOr (s : List Char) : String := if s.isEmpty then "~" else String.ofList s
def dash (s : List Char) : String := if s.isEmpty then "-" else String.ofList s

def renderReq (o : Opts) : String :=
  let fs := if o.filters.isEmpty then "-" else
    ";".intercalate (o.filters.map fun f =>
      String.ofList f.attr ++ "~" ++ String.ofList f.op ++ "~" ++ renderOperand f.operand)
  let sel := match o.select with
    | none => "-"
    | some l => let s := "+".intercalate (l.map String.ofList); if s.isEmpty then "~" else s
  let bit := fun (b : Bool) => if b then "1" else "0"
  s!"F={fs} S={sel} W={strOr o.fwd} C={strOr o.count} L={o.limit} O={o.offset} R={joinC "+" o.order} B={bit o.bypass} X={bit o.includeTrash}{bit o.includeOldVersions}{bit o.distinct} Y={dash o.whereKV}+{dash o.includeS}+{dash o.clusterId}"

def renderResp : Resp → String
  | .error s => s!"E{s}"
  | .page items => "P" ++ joinC "," (pageUuids items)

/-- `hlist` (request and remotes go through HTTP: rpc.Conn -> router): only what survives the
translation is compared — the sorted batch of a single `uuid in` filter, "*" for any other filter list -/
def renderReqReduced (o : Opts) : String :=
  match o.filters with
  | [f] =>
    if f.attr = sUuid ∧ f.op = sIn then
      match f.operand with
      | .slist xs => "F=uuid~in~t:" ++ ",".intercalate ((sortStrs xs).map String.ofList)
      | .ilist xs =>
        if xs.all Option.isSome then "F=uuid~in~t:" ++ ",".intercalate ((sortStrs (xs.filterMap id)).map String.ofList)
        else "F=*"
      | _ => "F=*"
    else "F=*"
  | _ => "F=*"

def renderRun (r : Run) : String :=
  let head := match r.out with
    | .ok items => "ok " ++ joinC "," (pageUuids items)
    | .err ss =>
      let u := (ss.eraseDups.toArray.qsort (· < ·)).toList
      -- no possible first error although some cluster failed: a cancellation without a cause
      if u.isEmpty then "deadlock" else "err " ++ "|".intercalate (u.map toString)
  let logs := r.log.filter (fun e => !e.2.isEmpty)
  let logs := (logs.map fun e => (String.ofList e.1, e.2)).toArray.qsort (fun a b => a.1 < b.1) |>.toList
  let body := if logs.isEmpty then "-" else
    " | ".intercalate (logs.map fun e =>
      e.1 ++ ": " ++ " // ".intercalate (e.2.map fun c => renderReq c.1 ++ " => " ++ renderResp c.2))
  head ++ " | " ++ body

def operandOf? (s : List Char) : Option Operand :=
  match s with
  | 's' :: ':' :: b => some (.str b)
  | 't' :: ':' :: b => some (.slist (if b.isEmpty then [] else splitC ',' b))
  | 'i' :: ':' :: b =>
    if b.isEmpty then some (.ilist []) else
    (splitC ',' b).mapM (fun e =>
      match e with
      | '#' :: n => (natOf? n).map (fun _ => (none : Option Uuid))
      | _ => some (some e)) |>.map .ilist
  | 'n' :: ':' :: b => (intOf? b).map (fun _ => .other)
  | _ => none

def filterOf? (s : List Char) : Option Filter :=
  match splitFirst '~' s with
  | some (attr, rest) =>
    match splitFirst '~' rest with
    | some (op, operand) => (operandOf? operand).map fun x => ⟨attr, op, x⟩
    | none => none
  | none => none

def bitOf? (c : Char) : Option Bool := if c == '0' then some false else if c == '1' then some true else none

def optsOf? (s : List Char) (filters : List Filter) : Option Opts :=
  let parts := splitC '/' s
  -- optional 8th component: include_trash, include_old_versions, distinct as three bits
  let flags? : Option (Bool × Bool × Bool) :=
    match (parts.drop 7).take 1 with
    | [] => some (false, false, false)
    | [[a, b, c]] => do pure ((← bitOf? a), (← bitOf? b), (← bitOf? c))
    | _ => none
  -- optional 9th component: where+include+cluster_id ("-" = empty)
  let undash := fun (x : List Char) => if x == ['-'] then [] else x
  let extra? : Option (List Char × List Char × List Char) :=
    match parts.drop 8 with
    | [] => some ([], [], [])
    | [y] => match splitC '+' y with
      | [w, i, k] => some (undash w, undash i, undash k)
      | _ => none
    | _ => none
  match extra? with
  | none => none
  | some (yW, yI, yK) =>
  match flags?, parts.take 7 with
  | none, _ => none
  | some (fT, fO, fD), [count, limit, offset, order, select, bypass, fwd] =>
    match intOf? limit, intOf? offset with
    | some l, some off =>
      let b? : Option Bool := if bypass == ['0'] then some false else if bypass == ['1'] then some true else none
      b?.map fun b =>
        { filters := filters
          count := if count == ['~'] then [] else count
          limit := l, offset := off
          order := listOf '+' order
          select := if select == ['-'] then none else some (splitC '+' select)
          bypass := b
          fwd := if fwd == ['-'] then [] else fwd
          includeTrash := fT, includeOldVersions := fO, distinct := fD
          whereKV := yW, includeS := yI, clusterId := yK }
    | _, _ => none
  | _, _ => none

def kinds : List String := ["coll", "ctr", "cr", "grp", "spec", "user"]

/-- label of the stub that `chooseBackend cfg id` is (conn.go:108-123) -/
def chooseTarget (localId : ClusterId) (rem : List ClusterId) (id : List Char) : ClusterId :=
  let c : Option ClusterId :=
    if id.length = 27 then some (id.take 5) else if id.length ≠ 5 then none else some id
  match c with
  | none => localId
  | some c => if c == localId then localId else if rem.contains c then c else localId

def renderCalls (cs : List (Opts × Resp)) : String :=
  " // ".intercalate (cs.map fun c => renderReq c.1 ++ " => " ++ renderResp c.2)

def renderHead (out : Outcome) : String :=
  match out with
  | .ok items => "ok " ++ joinC "," (pageUuids items)
  | .err ss =>
    let u := (ss.eraseDups.toArray.qsort (· < ·)).toList
    if u.isEmpty then "deadlock" else "err " ++ "|".intercalate (u.map toString)

def renderLogs (logs : List (String × String)) : String :=
  let logs := logs.toArray.qsort (fun a b => a.1 < b.1) |>.toList
  if logs.isEmpty then "-" else " | ".intercalate (logs.map fun e => e.1 ++ ": " ++ e.2)

def renderURun (localId : ClusterId) (rem : List ClusterId) (login : ClusterId) (r : URun) : String :=
  match r.detour with
  | none => renderRun ⟨r.out, r.log⟩
  | some call =>
    let target := String.ofList (chooseTarget localId rem login)
    let upd := match r.update with
      | none => []
      | some (us, failed) =>
        [(String.ofList localId ++ "#upd",
          "U=" ++ joinC "," (sortStrs us) ++ " => " ++ (if failed then "E0" else "P-"))]
    renderHead r.out ++ " | " ++ renderLogs ((target, renderCalls [call]) :: upd)

def step (line : String) : String :=
  match fields line with
  | [op0, kind0, loc, max, remotes, opts, filters, world, scripts] =>
    -- `slist<N>`: the Go driver makes the per-cluster goroutines rendezvous before their first call;
    -- the model's result does not depend on any interleaving (Props/C20_Proto), so it is `list`
    let op := if op0.startsWith "slist" && ((op0.drop 5).toNat?.any (fun n => 1 ≤ n && n ≤ 64)) then "list" else op0
    if op != "list" && op != "hlist" then "bad-op" else
    let render : Run → String := fun r =>
      if op == "hlist" then
        renderHead r.out ++ " | " ++ renderLogs ((r.log.filter (fun e => !e.2.isEmpty)).map fun e =>
          (String.ofList e.1, " // ".intercalate (e.2.map fun c => renderReqReduced c.1 ++ " => " ++ renderResp c.2)))
      else renderRun r
    let (kind, login?) : String × Option (List Char) :=
      match splitFirst '@' kind0.toList with
      | some (k, l) => (String.ofList k, some l)
      | none => (kind0, none)
    if !kinds.contains kind || (login?.isSome && kind != "user") then "bad-op" else
    let res : Option String := do
      let maxItems ← max.toInt?
      let fs ← (listOf ';' filters.toList).mapM filterOf?
      let o ← optsOf? opts.toList fs
      let w ← objsOf? world.toList
      let scs ← (listOf ';' scripts.toList).mapM fun sc =>
        match splitFirst '=' sc with
        | some (id, acts) => ((splitC '|' acts).mapM actOf?).map fun a => (id, a)
        | none => none
      let localId := loc.toList
      let rem := listOf ',' remotes.toList
      let scriptFor := fun (id : List Char) => ((scs.find? (fun p => p.1 == id)).map (·.2)).getD []
      let holdingsOf := fun (id : List Char) => w.filter (fun x => decide (5 ≤ x.uuid.length) && x.uuid.take 5 == id)
      let cfg : Cfg :=
        { localId := localId
          maxItems := maxItems
          localB := scriptBackend (holdingsOf localId) (scriptFor localId)
          remotes := fun c => if rem.contains c then some (scriptBackend (holdingsOf c) (scriptFor c)) else none }
      -- a `w` action at index k of a backend's script: its calls from index k on see a cancelled context
      let isWait : Act → Bool := fun a => match a with | .wait => true | .callerCancel => true | _ => false
      let isCaller : Act → Bool := fun a => match a with | .callerCancel => true | _ => false
      let external := scs.any (fun p => p.2.any isCaller)
      let cut : ClusterId → Option Nat := fun c =>
        if c == localId || rem.contains c then
          let sc := scriptFor c
          let i := sc.findIdx isWait
          if i < sc.length then some i else none
        else none
      let hasWait := scs.any (fun p => p.2.any isWait)
      match login? with
      | some login =>
        let updFails := match scriptFor (localId ++ "#upd".toList) with
          | .err _ :: _ => true
          | _ => false
        pure (renderURun localId rem login (runUserList cfg login updFails o))
      | none => pure (render (if hasWait then runCancel cfg o cut external else run cfg o))
    res.getD "bad-op"
  | _ => "bad-op"

end C20Drv

def main : IO Unit := lineLoop C20Drv.step
