/-
Model driver for C12. Line protocol (fields separated by one space, lists by ','; "-" = empty):
  order <hash32> <uuid,...>            -- NewRootSorter(...).GetSortedRoots()
  read  <hash32> <uuid,...>            -- request arrival order of a read that misses everywhere
  write <hash32> <uuid:0|1,...>        -- request arrival order of a write refused everywhere
  bal   <hash32> <uuid,...>            -- keep-balance's server ranking for the block
  roots <locator> <uuid=root,...> <gwuuid=root,...>   -- getSortedRoots
  pyorder <hash32> <uuid,...>           -- Python SDK: discovery of disk services + weighted_service_roots
  pyload  <hash32> <uuid:d|p|g:0|1,...> -- Python SDK: read order ';' write order after discovery
  pyroots <locator> <uuid=root,...> <gwuuid=root,...>  -- Python SDK: hint roots ';' local order
  balpair <hashA> <hashB> <uuid,...> [rep]  -- rankings of two blocks whose balanceBlock calls overlap
  balsweep <seed32> <uuid,...> <n>:<d>      -- n blocks (hash i = md5(seed:i)) in one ComputeChangeSets
Output: the order as tie groups separated by '|', members of a group sorted and joined by ','
(a group has > 1 member only when two services have the same weight, in which case Go's order
inside the group is unspecified). `roots` prints hint roots joined by ',' then ';' then groups.
-/
import ArvVerif.Base.MD5
import ArvVerif.Base.Loop
import ArvVerif.Model.C12
import ArvVerif.Model.C12_Py
open ArvVerif ArvVerif.C12

def md5Nat (cs : List Char) : Nat :=
  (MD5.sum (String.ofList cs).toUTF8).toList.foldl (fun acc b => acc * 256 + b.toNat) 0

def splitList (s : String) : List String :=
  if s == "-" then [] else s.splitOn ","

/-- groups of equal weight, in descending weight order; members sorted -/
def groupsOf (hash : String) (uuids : List String) : List (List String) :=
  let w := fun (u : String) => weight md5Nat hash.toList u.toList
  let sorted := probeOrder w uuids
  let rec go : List String → List (List String) → List (List String)
    | [], acc => acc.reverse
    | u :: rest, [] => go rest [[u]]
    | u :: rest, g :: acc =>
      match g with
      | v :: _ => if w v == w u then go rest ((u :: g) :: acc) else go rest ([u] :: g :: acc)
      | [] => go rest ([u] :: acc)
  (go sorted []).map (fun g => (g.toArray.qsort (· < ·)).toList)

def showGroups (gs : List (List String)) : String :=
  if gs.isEmpty then "-" else "|".intercalate (gs.map (fun g => ",".intercalate g))

def parsePair (sep : Char) (s : String) : Option (String × String) :=
  match s.splitOn (String.singleton sep) with
  | [a, b] => some (a, b)
  | _ => none

/-- one `getSortedRoots` call: hint roots, then the rendezvous order of the local roots -/
def rootsOne (loc locals gws : String) : String :=
  if loc.length < 32 then "bad-op" else
  match (splitList locals).mapM (parsePair '='), (splitList gws).mapM (parsePair '=') with
  | some ls, some gs =>
    let gw := fun (u : List Char) => (gs.find? (fun p => p.1.toList == u)).map (·.2.toList)
    let hints := hintRoots gw ((loc.splitOn "+").map String.toList)
    let hash := (loc.take 32).toString
    -- local roots are reported by uuid; the harness maps roots back to uuids
    let hs := if hints.isEmpty then "-" else ",".intercalate (hints.map String.ofList)
    hs ++ ";" ++ showGroups (groupsOf hash (ls.map (·.1)))
  | _, _ => "bad-op"

def sweepDigits : Array Char := "0123456789abcdefghijklmnopqrstuvwxyz".toList.toArray

/-- `balsweep`: block `i` of the sweep has the hash md5(seed:i); keep-balance wants it on the first
`d` servers of its ranking (`wantedServers`), whatever else is balanced at the same time
(`C12_sweep_any_schedule`). Printed per block as the sorted indices of those servers. -/
def sweepOne (seed : String) (uuids : List String) (d i : Nat) : String :=
  let hash := MD5.hexStr (seed ++ ":" ++ toString i)
  let w := fun (u : String) => weight md5Nat hash.toList u.toList
  let idx := (wantedServers d (probeOrder w uuids)).map (fun u => uuids.idxOf u)
  String.ofList ((idx.toArray.qsort (· < ·)).toList.map (fun j => sweepDigits.getD j '?'))

/-! Python SDK ops (exact orders: Python's sort is stable) -/

def joinOr (xs : List String) : String := if xs.isEmpty then "-" else ",".intercalate xs

def pyW (hash : String) : List Char → Nat := pyWeight md5Nat hash.toList

def parsePySvc (s : String) : Option PySvc :=
  match s.splitOn ":" with
  | [u, t, ro] =>
    if (t == "d" || t == "p" || t == "g") && (ro == "0" || ro == "1") then
      some { uuid := u.toList, gateway := t == "g", readOnly := ro == "1" }
    else none
  | _ => none

def showPy (l : List PySvc) : String := joinOr (l.map (fun s => String.ofList s.uuid))

/-- `pyroots`: KeepLocator parse, hint roots, stable order of the static local services. Also an
executable cross-check on every case: the hints Python keeps designate the same targets, in the
same order, as Go's scan over ALL `+` fields (`hintTargets`); printed as `targets-differ` if not. -/
def pyRootsOne (loc locals gws : String) : String :=
  match (splitList locals).mapM (parsePair '='), (splitList gws).mapM (parsePair '=') with
  | some ls, some gs =>
    let fs := (loc.splitOn "+").map String.toList
    match pyParseFields fs with
    | none => "invalid-locator"
    | some (md5, hints) =>
      let gw := fun (u : List Char) => (gs.find? (fun p => p.1.toList == u)).map (·.2.toList)
      if hintTargets gw hints != hintTargets gw fs then "targets-differ" else
      let hr := pyHintRoots gw hints
      let svcs := ls.map (fun p => ({ uuid := p.1.toList, gateway := false, readOnly := false } : PySvc))
      joinOr (hr.map String.ofList) ++ ";" ++ showPy (pyOrder (pyW (String.ofList md5)) svcs)
  | _, _ => "bad-op"

def step (line : String) : String :=
  match fields line with
  | [op, hash, us] =>
    if hash.length != 32 then "bad-op" else
    if op == "pyorder" then
      let svcs := (splitList us).map (fun u => ({ uuid := u.toList, gateway := false, readOnly := false } : PySvc))
      if svcs.isEmpty then "no-keep-servers" else showPy (pyOrder (pyW hash) (pyKeepServices svcs))
    else if op == "pyload" then
      match (splitList us).mapM parsePySvc with
      | some items =>
        if items.isEmpty then "no-keep-servers" else
        showPy (pyOrder (pyW hash) (pyKeepServices items)) ++ ";" ++ showPy (pyOrder (pyW hash) (pyWritableServices items))
      | none => "bad-op"
    else if op == "order" || op == "read" || op == "bal" then
      showGroups (groupsOf hash (splitList us))
    else if op == "write" then
      match (splitList us).mapM (parsePair ':') with
      | some ps =>
        let writable := ps.filter (fun p => p.2 == "1") |>.map (·.1)
        -- the writer sorts the writable subset; C12_same_everywhere shows this is the read
        -- order filtered to writable services
        showGroups (groupsOf hash writable)
      | none => "bad-op"
    else if op == "reload" then
      -- the same client is given several service lists in turn (discovery refresh); after each
      -- load the probe order is that of the CURRENT list's uuids and of nothing else
      let one := fun (l : String) =>
        match (splitList l).mapM (parsePair ':') with
        | some ps => showGroups (groupsOf hash (ps.map (·.1)))
        | none => "bad-op"
      " / ".intercalate ((us.splitOn ";").map one)
    else "bad-op"
  | ["bal", hash, us, _rep] =>
    -- per-mount replication only changes how keep-balance's ranking is observed, not the ranking
    if hash.length != 32 then "bad-op" else showGroups (groupsOf hash (splitList us))
  | ["pyroots", loc, locals, gws] => pyRootsOne loc locals gws
  | ["balpair", ha, hb, us] | ["balpair", ha, hb, us, _] =>
    -- two blocks balanced on one Balancer with overlapping calls: each ranking is that of the block
    -- alone (the ranking is local to a balanceBlock call, C12_sweep_any_schedule)
    if ha.length != 32 || hb.length != 32 then "bad-op" else
    showGroups (groupsOf ha (splitList us)) ++ " / " ++ showGroups (groupsOf hb (splitList us))
  | ["balsweep", seed, us, nd] =>
    match nd.splitOn ":" with
    | [n, d] =>
      match n.toNat?, d.toNat? with
      | some n, some d =>
        let uuids := splitList us
        if seed.length != 32 || n == 0 || d == 0 || d > uuids.length || uuids.length > 36 then "bad-op" else
        ",".intercalate ((List.range n).map (sweepOne seed uuids d))
      | _, _ => "bad-op"
    | _ => "bad-op"
  | ["rootseq", locs, locals, gws] =>
    -- several getSortedRoots calls on ONE client: the model is stateless (the order depends on
    -- nothing but the service set and the locator), so every call is answered as if it were the first
    " / ".intercalate ((locs.splitOn ";").map (fun loc => rootsOne loc locals gws))
  | ["roots", loc, locals, gws] => rootsOne loc locals gws
  | _ => "bad-op"

def main : IO Unit := lineLoop step
